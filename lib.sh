# shared by ./check and ./setup — environment and the build step
export GOFLAGS=-mod=mod GOPROXY=off GOSUMDB=off GOTOOLCHAIN=local CGO_ENABLED=1
GO=/usr/local/bin/go1.26.8
[ -x "$GO" ] || GO=/opt/veriftools/go1.26.8/bin/go
REPO="${VERIF_REPO:-/repo}"
VERIF_ROOT="$(cd "$(dirname "${BASH_SOURCE[0]}")" && pwd)"

# build_pkg <pkg> <builddir>: compile harness/<pkg> as the virtual package
# github.com/centrifugal/centrifuge/verifx/<pkg> of the repository's module (a Go
# build overlay maps /verif/harness/** to $REPO/verifx/**, nothing is written into
# the repository), against the repository's current working tree, with -tags verif.
build_pkg() {
  local pkg="$1" b="$2"
  mkdir -p "$b"
  if [ -e "$REPO/verifx" ]; then echo "unexpected $REPO/verifx on disk"; return 1; fi
  cp "$REPO/go.mod" "$b/alt.mod" && cp "$REPO/go.sum" "$b/alt.sum" || return 1
  (cd "$REPO" && "$GO" mod edit -modfile="$b/alt.mod" -require=github.com/anishathalye/porcupine@v1.3.0) || return 1
  python3 - "$VERIF_ROOT/harness" "$REPO/verifx" > "$b/overlay.json" <<'PY'
import json, os, sys
src, dst = sys.argv[1], sys.argv[2]
rep = {}
for root, dirs, files in os.walk(src):
    for f in files:
        if f.endswith('.go'):
            p = os.path.join(root, f)
            rep[os.path.join(dst, os.path.relpath(p, src))] = p
json.dump({"Replace": rep}, sys.stdout)
PY
  local race="-race"
  [ -e "$VERIF_ROOT/harness/$pkg/NORACE" ] && race=""
  (cd "$REPO" && "$GO" test -c -vet=off -tags verif $race -modfile="$b/alt.mod" -overlay="$b/overlay.json" -o "$b/$pkg.test" "./verifx/$pkg/")
}
