// C07: Join and leave events are paired and ordered.
package c07

import (
	"fmt"
	"testing"

	"github.com/centrifugal/centrifuge/verifx/churn"
	"github.com/centrifugal/centrifuge/verifx/kit"
)

var points = []string{"", "sub.afterAddSub", "sub.beforeReply", "sub.afterReply", "sub.afterCommit", "ssub.beforeCommit", "ssub.afterCommit", "unsub.afterDelete", "unsub.beforeHubRemove", "connect.afterReply", ""}
var causes = []string{"disc-client", "disc-transport", "disc-node", "write-error"}

func runCase(c *kit.Case) {
	pt := points[c.Index%len(points)]
	cause := causes[(c.Index/len(points))%len(causes)]
	var inj *churn.Injection
	if pt != "" {
		inj = &churn.Injection{Point: pt, Conn: 0, Cause: cause}
	}
	e := churn.New(c, churn.Options{
		Conns: [2]int{1, 3}, Channels: [2]int{1, 2}, Positioned: true, Closes: true, AsyncLong: true,
		OpsPerConn: [2]int{3, 9}, JoinLeave: true, Presence: c.R.Chance(1, 3), Observer: true, Inject: inj,
	})
	e.Run()
	plans := map[int][]churn.Op{}
	byID := map[string]*churn.CConn{}
	for _, cc := range e.Conns {
		plans[cc.Idx] = cc.Plan
		byID[cc.Conn.Client.ID()] = cc
	}
	// what the observer saw, per (channel, subject client)
	type key struct{ ch, cid string }
	seqs := map[key]string{}
	var order []key
	for _, f := range e.Observer.T.Frames() {
		if f.Push == nil {
			continue
		}
		var cid string
		var ev byte
		switch {
		case f.Push.Join != nil && f.Push.Join.Info != nil:
			cid, ev = f.Push.Join.Info.Client, 'J'
		case f.Push.Leave != nil && f.Push.Leave.Info != nil:
			cid, ev = f.Push.Leave.Info.Client, 'L'
		default:
			continue
		}
		k := key{f.Push.Channel, cid}
		if _, ok := seqs[k]; !ok {
			order = append(order, k)
		}
		seqs[k] += string(ev)
	}
	// subscription starts the subject itself was told about, per channel
	starts := map[key]int{}
	for _, cc := range e.Conns {
		cid := cc.Conn.Client.ID()
		for _, f := range cc.Conn.T.Frames() {
			if f.Reply != nil && f.Reply.Id != 0 && f.Reply.Error == nil && f.Reply.Subscribe != nil {
				if ch, ok := cc.SubIDs[f.Reply.Id]; ok {
					starts[key{ch, cid}]++
				}
			}
			if f.Push != nil && f.Push.Subscribe != nil {
				starts[key{f.Push.Channel, cid}]++
			}
		}
	}
	sig := fmt.Sprintf("%s/%s", pt, cause)
	for _, k := range order {
		cc := byID[k.cid]
		if cc == nil {
			c.Violation("c07-join-leave-for-unknown-client", fmt.Sprintf("observer saw %s for client %s on %s", seqs[k], k.cid, k.ch), nil)
			continue
		}
		seq := seqs[k]
		detail := map[string]any{"plans": plans, "conn": cc.Idx, "channel": k.ch, "observed": seq, "close_point": pt, "close_cause": cause, "starts_told_to_subject": starts[k]}
		bad := false
		for i := 0; i < len(seq); i++ {
			want := byte('J')
			if i%2 == 1 {
				want = 'L'
			}
			if seq[i] != want {
				// "L" where a join is due: a subscription that ended right after its
				// commit published its leave before the subscribe path published the join.
				cls := "c07-leave-published-before-join"
				if seq[i] == 'J' {
					// "J" where a leave is due: a resubscribe's join overtook the leave of
					// the previous subscription of the same connection.
					cls = "c07-resubscribe-join-overtakes-previous-leave"
				}
				c.Violation(cls, fmt.Sprintf("observer saw %q for conn %d on %s", seq, cc.Idx, k.ch), detail)
				bad = true
				break
			}
		}
		if bad {
			sig += "|!" + seq
			continue
		}
		joins := (len(seq) + 1) / 2
		if joins > starts[k] && !cc.Closed() {
			c.Violation("c07-join-for-subscription-never-established", fmt.Sprintf("observer saw %d joins for conn %d on %s but the connection was told about %d subscription starts", joins, cc.Idx, k.ch, starts[k]), detail)
		}
		subscribed := !cc.Closed() && cc.Conn.Client.IsSubscribed(k.ch)
		endsWithJoin := len(seq)%2 == 1
		if subscribed && !endsWithJoin {
			c.Violation("c07-subscribed-without-pending-join", fmt.Sprintf("conn %d is subscribed to %s after settling but the observer's last event for it is a leave (%q)", cc.Idx, k.ch, seq), detail)
		}
		if !subscribed && endsWithJoin {
			c.Violation("c07-leave-missing-after-subscription-ended", fmt.Sprintf("conn %d (closed=%v) is not subscribed to %s after settling but the observer saw no leave after the last join (%q)", cc.Idx, cc.Closed(), k.ch, seq), detail)
		}
		c.Count("join_leave_pairs", len(seq)/2)
		sig += "|" + seq
	}
	// an established, still subscribed subscription the observer never heard of
	for _, cc := range e.Conns {
		if cc.Closed() {
			continue
		}
		for _, ch := range cc.Conn.Client.Channels() {
			k := key{ch, cc.Conn.Client.ID()}
			if cc.Conn.Client.IsSubscribed(ch) && seqs[k] == "" {
				c.Violation("c07-join-missing-for-established-subscription", fmt.Sprintf("conn %d is subscribed to %s but the observer saw no join", cc.Idx, ch), map[string]any{"plans": plans})
			}
		}
	}
	if inj != nil && inj.Fired.Load() {
		c.Count("close_injected_at_"+pt, 1)
	}
	c.Count("sequences_checked", len(order))
	c.Nontrivial(sig)
	if c.Index < 32 {
		obs := map[string]string{}
		for _, k := range order {
			obs[fmt.Sprintf("%s/conn%d", k.ch, byID[k.cid].Idx)] = seqs[k]
		}
		c.Sample(map[string]any{"plans": plans, "observer_sequences": obs, "close_point": pt})
	}
	e.Finish()
}

func TestC07(t *testing.T) {
	kit.Main(t, kit.Spec{
		ID:     "C07",
		Bubble: true,
		Rule: "case index enumerates (close point x cause) as in C05 (or no injected close); seeded churn of 1-3 subject connections on 1-2 channels, every subscription emitting join/leave (client-side with sync/async callbacks incl. ones that outlive the unsubscribe wait gate, Client.Subscribe, Node.Subscribe; unsubscribes of all kinds; disconnects), watched by an observer connection with join/leave pushes. " +
			"Oracle per (channel, subject): the observer's sequence alternates join, leave, join ... starting with a join; #joins <= #subscription starts the subject was told about; after settling it ends with a join iff the subject is still subscribed. Signature = (point, cause) x observed sequences.",
		Assumptions:     []string{"memory broker: join/leave are broadcast synchronously in PublishJoin/PublishLeave order", "the observer subscribes before any subject and stays subscribed"},
		Cases:           map[string]int{"quick": 880, "thorough": 17600},
		RequireCounters: []string{"join_leave_pairs", "sequences_checked", "close_injected_at_sub.afterReply", "close_injected_at_sub.afterCommit", "close_injected_at_ssub.afterCommit"},
		Run:             runCase,
	})
}
