// C26: Broker subscription tracks local interest.
package c26

import (
	"errors"
	"context"
	"fmt"
	"sort"
	"sync"
	"testing"
	"time"

	"github.com/centrifugal/centrifuge"
	"github.com/centrifugal/centrifuge/verifx/kit"
	"github.com/centrifugal/protocol"
)

const realCases = 16

type step struct {
	At   time.Duration // offset from scenario start
	Conn int
	Op   string // sub | unsub | close
	Ch   string
}

type scenario struct {
	c     *kit.Case
	w     *kit.World
	node  *centrifuge.Node
	fb    *kit.FaultBroker
	conns []*kit.Conn
}

func newScenario(c *kit.Case, nConn int, failSub func(ch string, nth int) bool, failUnsub func(ch string, nth int) bool, dissolveDelay func(ch string) time.Duration) *scenario {
	s := &scenario{c: c, w: kit.NewWorld(c)}
	s.node, _ = s.w.NewNode(centrifuge.Config{ClientStaleCloseDelay: time.Hour, ClientChannelLimit: 100000}, func(n *centrifuge.Node) {
		s.fb = kit.NewFaultBroker(s.w, n)
		s.fb.FailSubscribe = failSub
		s.fb.FailUnsubscribe = failUnsub
		n.SetBroker(s.fb)
		n.OnConnecting(func(context.Context, centrifuge.ConnectEvent) (centrifuge.ConnectReply, error) {
			return kit.Creds("u"), nil
		})
		n.OnConnect(func(cl *centrifuge.Client) {
			cl.OnSubscribe(func(e centrifuge.SubscribeEvent, cb centrifuge.SubscribeCallback) {
				cb(centrifuge.SubscribeReply{}, nil)
			})
		})
	})
	if dissolveDelay != nil {
		kit.SetHook(s.node, func(point string, _ *centrifuge.Client, ch string) {
			if point == "dissolve.beforeLock" {
				if d := dissolveDelay(ch); d > 0 {
					time.Sleep(d)
				}
			}
		})
	}
	for i := 0; i < nConn; i++ {
		conn := s.w.NewConn(s.node, kit.TransportOpts{})
		conn.Connect(nil)
		s.conns = append(s.conns, conn)
	}
	return s
}

func (s *scenario) run(steps []step) {
	sort.SliceStable(steps, func(i, j int) bool { return steps[i].At < steps[j].At })
	// one goroutine per connection keeps the per-connection command order
	perConn := map[int][]step{}
	for _, st := range steps {
		perConn[st.Conn] = append(perConn[st.Conn], st)
	}
	var wg sync.WaitGroup
	start := time.Now()
	for ci, sts := range perConn {
		ci, sts := ci, sts
		wg.Add(1)
		go func() {
			defer wg.Done()
			conn := s.conns[ci]
			for _, st := range sts {
				if d := st.At - time.Since(start); d > 0 {
					time.Sleep(d)
				}
				switch st.Op {
				case "sub":
					conn.Subscribe(&protocol.SubscribeRequest{Channel: st.Ch})
				case "unsub":
					conn.Unsubscribe(st.Ch)
				case "close":
					_ = conn.CloseFn()
				}
			}
		}()
	}
	wg.Wait()
}

// verify checks the invariants on the recorded broker calls and the final state.
func (s *scenario) verify(kind string, steps []step, drained bool) string {
	c := s.c
	calls, _ := s.fb.Snapshot()
	state := map[string]bool{} // channel -> subscribed in broker (after successful calls)
	nSub, nUnsub, nFail := 0, 0, 0
	detail := func(ch string) any {
		var cs []kit.BrokerCall
		for _, x := range calls {
			if x.Channel == ch {
				cs = append(cs, x)
			}
		}
		var ss []step
		for _, st := range steps {
			if st.Ch == ch || st.Op == "close" {
				ss = append(ss, st)
			}
		}
		return map[string]any{"kind": kind, "broker_calls": cs, "steps": ss}
	}
	for _, call := range calls {
		switch call.Op {
		case "subscribe":
			if call.Err {
				nFail++
				continue
			}
			nSub++
			state[call.Channel] = true
		case "unsubscribe":
			if call.LocalSubs != 0 {
				c.Violation("c26-broker-unsubscribe-with-local-subscribers", fmt.Sprintf("broker Unsubscribe(%s) was called while the node had %d local subscribers of it", call.Channel, call.LocalSubs), detail(call.Channel))
			}
			if call.Err {
				nFail++
				continue
			}
			nUnsub++
			state[call.Channel] = false
		}
	}
	// channels with local subscribers must be broker-subscribed
	hubCh := map[string]bool{}
	for _, ch := range s.node.Hub().Channels() {
		if s.node.Hub().NumSubscribers(ch) > 0 {
			hubCh[ch] = true
		}
	}
	for ch := range hubCh {
		if !state[ch] {
			c.Violation("c26-local-subscribers-without-broker-subscription", fmt.Sprintf("channel %s has %d local subscribers but the node is not subscribed to it in the broker", ch, s.node.Hub().NumSubscribers(ch)), detail(ch))
		}
	}
	if drained {
		for ch, sub := range state {
			if sub && !hubCh[ch] {
				c.Violation("c26-broker-subscription-without-local-subscribers", fmt.Sprintf("after deferred work drained the node is still subscribed to %s in the broker with no local subscriber", ch), detail(ch))
			}
		}
	}
	c.Count("broker_subscribe_calls", nSub)
	c.Count("broker_unsubscribe_calls", nUnsub)
	c.Count("injected_broker_failures", nFail)
	c.Count("channels_with_subscribers_at_end", len(hubCh))
	return fmt.Sprintf("%s:s%d:u%d:f%d:h%d", kind, nSub, nUnsub, nFail, len(hubCh))
}

// drained reports whether the broker-subscribed set equals the set of channels with local subscribers.
func (s *scenario) drained() bool {
	calls, _ := s.fb.Snapshot()
	state := map[string]bool{}
	for _, call := range calls {
		if call.Err {
			continue
		}
		state[call.Channel] = call.Op == "subscribe"
	}
	for ch, sub := range state {
		if sub != (s.node.Hub().NumSubscribers(ch) > 0) {
			return false
		}
	}
	return true
}

func (s *scenario) finish() {
	for _, conn := range s.conns {
		_ = conn.CloseFn()
	}
	s.w.Shutdown()
}

// bubbleCase: fault-free interleavings of first-subscribe / last-unsubscribe / the
// delayed broker-unsubscribe job, on a grid of virtual instants around the job's 1s delay.
func bubbleCase(c *kit.Case) {
	r := c.R
	nConn := r.Range(1, 3)
	nCh := r.Range(1, 3)
	jobDelay := map[string]time.Duration{}
	var steps []step
	grid := []time.Duration{0, 1 * time.Millisecond, 500 * time.Millisecond, 990 * time.Millisecond, 999 * time.Millisecond, 1000 * time.Millisecond, 1001 * time.Millisecond, 1010 * time.Millisecond, 1500 * time.Millisecond, 2100 * time.Millisecond}
	for i := 0; i < nCh; i++ {
		ch := fmt.Sprintf("c26:%d", i)
		jobDelay[ch] = kit.Pick(r, []time.Duration{0, 0, time.Millisecond, 5 * time.Millisecond, 20 * time.Millisecond})
		t := time.Duration(0)
		subscribed := map[int]bool{}
		for k, n := 0, r.Range(2, 9); k < n; k++ {
			t += kit.Pick(r, grid)
			ci := r.Intn(nConn)
			if subscribed[ci] {
				steps = append(steps, step{At: t, Conn: ci, Op: "unsub", Ch: ch})
				subscribed[ci] = false
			} else {
				steps = append(steps, step{At: t, Conn: ci, Op: "sub", Ch: ch})
				subscribed[ci] = true
			}
		}
	}
	if r.Chance(1, 4) {
		steps = append(steps, step{At: time.Duration(r.Range(0, 5000)) * time.Millisecond, Conn: r.Intn(nConn), Op: "close"})
	}
	s := newScenario(c, nConn, nil, nil, func(ch string) time.Duration { return jobDelay[ch] })
	s.run(steps)
	sig1 := s.verify("bubble-mid", steps, false)
	time.Sleep(4 * time.Second)
	s.w.Settle()
	sig2 := s.verify("bubble-drained", steps, true)
	c.Nontrivial(sig1 + "|" + sig2)
	if c.Index < realCases+16 {
		c.Sample(map[string]any{"steps": steps, "job_delays": fmt.Sprint(jobDelay)})
	}
	s.finish()
}

// realCase: broker Subscribe / Unsubscribe failures in real time (the deferred job
// sleeps 500ms under the subscription lock after a failed unsubscribe, which a
// virtual clock cannot represent while another goroutine waits for that lock).
func realCase(c *kit.Case) {
	r := c.R
	const nCh = 60
	failSubN := map[string]int{}
	failUnsubN := map[string]int{}
	var steps []step
	nConn := 4
	for i := 0; i < nCh; i++ {
		ch := fmt.Sprintf("c26r:%d", i)
		if r.Chance(1, 3) {
			failSubN[ch] = r.Range(1, 2)
		}
		if r.Chance(1, 2) {
			failUnsubN[ch] = r.Range(1, 3)
		}
		ci := r.Intn(nConn)
		t := time.Duration(r.Range(0, 300)) * time.Millisecond
		// subscribe (possibly failing, then retried), unsubscribe, and a resubscribe
		// placed around the delayed job and its retries
		for k := 0; k <= failSubN[ch]; k++ {
			steps = append(steps, step{At: t, Conn: ci, Op: "sub", Ch: ch})
			t += 20 * time.Millisecond
		}
		t += time.Duration(r.Range(10, 200)) * time.Millisecond
		steps = append(steps, step{At: t, Conn: ci, Op: "unsub", Ch: ch})
		if r.Chance(2, 3) {
			t += kit.Pick(r, []time.Duration{10 * time.Millisecond, 900 * time.Millisecond, 1000 * time.Millisecond, 1100 * time.Millisecond, 1600 * time.Millisecond, 2200 * time.Millisecond})
			steps = append(steps, step{At: t, Conn: (ci + 1) % nConn, Op: "sub", Ch: ch})
			if r.Bool() {
				t += time.Duration(r.Range(50, 900)) * time.Millisecond
				steps = append(steps, step{At: t, Conn: (ci + 1) % nConn, Op: "unsub", Ch: ch})
			}
		}
	}
	s := newScenario(c, nConn,
		func(ch string, nth int) bool { return nth <= failSubN[ch] },
		func(ch string, nth int) bool { return nth <= failUnsubN[ch] }, nil)
	s.run(steps)
	// drain: 1s job delay + up to 3 failed attempts x 500ms. The wait is bounded by
	// the condition, not by a fixed duration (the machine may be overloaded): poll
	// until the broker-subscribed set equals the set with local subscribers, give
	// up after 120 s and report whatever is left then.
	for i := 0; i < 240; i++ {
		time.Sleep(500 * time.Millisecond)
		if i >= 7 && s.drained() {
			break
		}
	}
	sig := s.verify("real-faults", steps, true)
	c.Nontrivial(sig)
	if c.Index < 2 {
		c.Sample(map[string]any{"steps": steps[:12], "channels": nCh})
	}
	s.finish()
}

// faultMapBroker wraps the memory map broker, records Subscribe / Unsubscribe calls with the number of
// local subscribers at call time, and fails the first n Subscribe calls of a channel.
type faultMapBroker struct {
	*centrifuge.MemoryMapBroker // embedded as the concrete type: Close stays reachable for Node.Shutdown
	w     *kit.World
	node  *centrifuge.Node
	mu    sync.Mutex
	calls []kit.BrokerCall
	nSub  map[string]int
	fail  func(ch string, nth int) bool
}

func (b *faultMapBroker) Subscribe(chs ...string) error {
	for _, ch := range chs {
		b.mu.Lock()
		b.nSub[ch]++
		fail := b.fail != nil && b.fail(ch, b.nSub[ch])
		b.calls = append(b.calls, kit.BrokerCall{Seq: b.w.Seq(), Op: "subscribe", Channel: ch, Err: fail, LocalSubs: b.node.Hub().NumSubscribers(ch)})
		b.mu.Unlock()
		if fail {
			return errors.New("c26: injected map broker subscribe failure")
		}
	}
	return b.MemoryMapBroker.Subscribe(chs...)
}

func (b *faultMapBroker) Unsubscribe(chs ...string) error {
	for _, ch := range chs {
		b.mu.Lock()
		b.calls = append(b.calls, kit.BrokerCall{Seq: b.w.Seq(), Op: "unsubscribe", Channel: ch, LocalSubs: b.node.Hub().NumSubscribers(ch)})
		b.mu.Unlock()
	}
	return b.MemoryMapBroker.Unsubscribe(chs...)
}

// mapCase: map subscriptions go through the same addSubscription / removeSubscription code with the
// map broker, but a failed first-subscriber Subscribe is answered with an error reply and the
// connection stays (a stream subscriber is disconnected): whatever the failed attempt left behind
// stays too. 1-3 connections, 1-2 map channels, the first 0-2 broker Subscribe calls of a channel fail,
// clients subscribe / retry / unsubscribe at seeded instants around the 1 s deferred unsubscribe job.
func mapCase(c *kit.Case) {
	r := c.R
	w := kit.NewWorld(c)
	var fb *faultMapBroker
	failN := map[string]int{}
	node, _ := w.NewNode(centrifuge.Config{
		ClientStaleCloseDelay: time.Hour,
		Map: centrifuge.MapConfig{GetMapChannelOptions: func(string) centrifuge.MapChannelOptions {
			return centrifuge.MapChannelOptions{Mode: centrifuge.MapModeEphemeral, KeyTTL: time.Minute}
		}},
	}, func(n *centrifuge.Node) {
		mb, err := centrifuge.NewMemoryMapBroker(n, centrifuge.MemoryMapBrokerConfig{})
		if err != nil {
			panic(err)
		}
		fb = &faultMapBroker{MemoryMapBroker: mb, w: w, node: n, nSub: map[string]int{}}
		fb.fail = func(ch string, nth int) bool { return nth <= failN[ch] }
		n.SetMapBroker(fb)
		n.OnConnecting(func(context.Context, centrifuge.ConnectEvent) (centrifuge.ConnectReply, error) {
			return kit.Creds("u"), nil
		})
		n.OnConnect(func(cl *centrifuge.Client) {
			cl.OnSubscribe(func(e centrifuge.SubscribeEvent, cb centrifuge.SubscribeCallback) {
				cb(centrifuge.SubscribeReply{Options: centrifuge.SubscribeOptions{Type: e.Type}}, nil)
			})
		})
	})
	nCh := r.Range(1, 2)
	chans := make([]string, nCh)
	for i := range chans {
		chans[i] = fmt.Sprintf("c26m:%d", i)
		failN[chans[i]] = kit.Pick(r, []int{0, 1, 1, 2})
	}
	nConn := r.Range(1, 3)
	conns := make([]*kit.Conn, nConn)
	for i := range conns {
		conns[i] = w.NewConn(node, kit.TransportOpts{PingPong: centrifuge.PingPongConfig{PingInterval: -1, PongTimeout: -1}})
		conns[i].Connect(nil)
	}
	w.Settle()
	grid := []time.Duration{0, time.Millisecond, 500 * time.Millisecond, 990 * time.Millisecond, time.Second, 1010 * time.Millisecond, 1500 * time.Millisecond, 2100 * time.Millisecond}
	var steps []string
	refused := 0
	for k, n := 0, r.Range(3, 9); k < n; k++ {
		time.Sleep(kit.Pick(r, grid))
		conn := conns[r.Intn(nConn)]
		ch := kit.Pick(r, chans)
		if conn.Client.IsSubscribed(ch) && r.Bool() {
			id := conn.Unsubscribe(ch)
			conn.WaitReply(id)
			steps = append(steps, fmt.Sprintf("%v conn unsubscribes %s", w.Now(), ch))
			continue
		}
		id := conn.Subscribe(&protocol.SubscribeRequest{Channel: ch, Type: int32(centrifuge.SubscriptionTypeMap), Phase: centrifuge.MapPhaseState, Limit: 100})
		f, ok := conn.WaitReply(id)
		code := uint32(0)
		if ok && f.Reply.Error != nil {
			code = f.Reply.Error.Code
			refused++
		}
		steps = append(steps, fmt.Sprintf("%v map subscribe %s -> replied=%v error=%d (local subscribers now %d)", w.Now(), ch, ok, code, node.Hub().NumSubscribers(ch)))
	}
	time.Sleep(4 * time.Second) // deferred unsubscribe jobs (1 s) drain
	w.Settle()
	fb.mu.Lock()
	calls := append([]kit.BrokerCall(nil), fb.calls...)
	fb.mu.Unlock()
	state := map[string]bool{}
	fails := 0
	for _, call := range calls {
		switch {
		case call.Op == "subscribe" && call.Err:
			fails++
		case call.Op == "subscribe":
			state[call.Channel] = true
		case call.Op == "unsubscribe":
			if call.LocalSubs != 0 {
				c.Violation("c26-broker-unsubscribe-with-local-subscribers", fmt.Sprintf("map broker Unsubscribe(%s) was called while the node had %d local subscribers of it", call.Channel, call.LocalSubs), map[string]any{"steps": steps, "broker_calls": calls})
			}
			state[call.Channel] = false
		}
	}
	for _, ch := range chans {
		local := node.Hub().NumSubscribers(ch)
		switch {
		case local > 0 && !state[ch]:
			c.Violation("c26-local-subscribers-without-broker-subscription", fmt.Sprintf("map channel %s has %d local subscriber(s) but the node is not subscribed to it in the map broker (the first %d Subscribe calls were made to fail)", ch, local, failN[ch]), map[string]any{"steps": steps, "broker_calls": calls})
		case local == 0 && state[ch]:
			c.Violation("c26-broker-subscription-without-local-subscribers", fmt.Sprintf("map channel %s has no local subscriber but stays subscribed in the map broker after the deferred work drained", ch), map[string]any{"steps": steps, "broker_calls": calls})
		}
		if local > 0 {
			c.Count("map_channels_with_subscribers_at_end", 1)
		}
	}
	c.Eval(len(calls))
	c.Count("map_cases", 1)
	c.Count("map_broker_calls", len(calls))
	c.Count("injected_map_broker_subscribe_failures", fails)
	c.Count("map_subscribes_refused_after_broker_failure", refused)
	c.Nontrivial(fmt.Sprintf("map|%d|%d|f%d", nConn, nCh, fails))
	for _, conn := range conns {
		_ = conn.CloseFn()
	}
	w.Shutdown()
}

func runCase(c *kit.Case) {
	if c.Index < realCases {
		realCase(c)
		return
	}
	if c.Index%4 == 3 {
		kit.RunBubble(c, func() { mapCase(c) })
		return
	}
	kit.RunBubble(c, func() { bubbleCase(c) })
}

func TestC26(t *testing.T) {
	kit.Main(t, kit.Spec{
		ID:    "C26",
		Level: "fault_enumeration",
		Rule: fmt.Sprintf("cases 0..%d (real time): 60 channels per node with scripted broker failures (Subscribe fails 0-2 times, Unsubscribe 0-3 times) and a resubscribe placed around the 1s deferred broker-unsubscribe job and its 500ms retries. Other cases (virtual time): 1-3 connections x 1-3 channels, subscribe/unsubscribe toggles on a grid of instants around the job's 1s delay (0, 1ms, 500ms, 990ms, 999ms, 1s, 1.001s, 1.01s, 1.5s, 2.1s), an extra delay at the yield point just before the job takes the subscription lock, optional connection close. ", realCases-1) +
			"Oracle on the broker calls recorded by a wrapper around the real memory broker: every Unsubscribe(ch) call sees 0 local subscribers (sampled inside the call, i.e. under the node's subscription lock); at every check point each channel with local subscribers is broker-subscribed according to the last successful call; after the deferred work drained the broker-subscribed set equals the set of channels with local subscribers.",
		Assumptions:     []string{"every fourth virtual-time case uses map subscriptions and a wrapper around the real memory map broker whose first 0-2 Subscribe calls per channel fail (a map subscriber gets an error reply and stays connected, unlike a stream subscriber)", "real-time cases poll (up to 120 s) until the deferred jobs drained (1 s + 3 x 500 ms nominal); only a state that never converges is reported"},
		Cases:           map[string]int{"quick": realCases + 800, "thorough": realCases*4 + 16000},
		RequireCounters: []string{"map_cases", "injected_map_broker_subscribe_failures", "map_subscribes_refused_after_broker_failure", "map_channels_with_subscribers_at_end", "broker_subscribe_calls", "broker_unsubscribe_calls", "injected_broker_failures", "channels_with_subscribers_at_end"},
		Run:             runCase,
	})
}
