// C26: Broker subscription tracks local interest.
package c26

import (
	"context"
	"fmt"
	"sort"
	"sync"
	"testing"
	"time"

	"github.com/centrifugal/centrifuge"
	"github.com/centrifugal/centrifuge/verifx/kit"
	"github.com/centrifugal/protocol"
)

const realCases = 16

type step struct {
	At   time.Duration // offset from scenario start
	Conn int
	Op   string // sub | unsub | close
	Ch   string
}

type scenario struct {
	c     *kit.Case
	w     *kit.World
	node  *centrifuge.Node
	fb    *kit.FaultBroker
	conns []*kit.Conn
}

func newScenario(c *kit.Case, nConn int, failSub func(ch string, nth int) bool, failUnsub func(ch string, nth int) bool, dissolveDelay func(ch string) time.Duration) *scenario {
	s := &scenario{c: c, w: kit.NewWorld(c)}
	s.node, _ = s.w.NewNode(centrifuge.Config{ClientStaleCloseDelay: time.Hour, ClientChannelLimit: 100000}, func(n *centrifuge.Node) {
		s.fb = kit.NewFaultBroker(s.w, n)
		s.fb.FailSubscribe = failSub
		s.fb.FailUnsubscribe = failUnsub
		n.SetBroker(s.fb)
		n.OnConnecting(func(context.Context, centrifuge.ConnectEvent) (centrifuge.ConnectReply, error) {
			return kit.Creds("u"), nil
		})
		n.OnConnect(func(cl *centrifuge.Client) {
			cl.OnSubscribe(func(e centrifuge.SubscribeEvent, cb centrifuge.SubscribeCallback) {
				cb(centrifuge.SubscribeReply{}, nil)
			})
		})
	})
	if dissolveDelay != nil {
		kit.SetHook(s.node, func(point string, _ *centrifuge.Client, ch string) {
			if point == "dissolve.beforeLock" {
				if d := dissolveDelay(ch); d > 0 {
					time.Sleep(d)
				}
			}
		})
	}
	for i := 0; i < nConn; i++ {
		conn := s.w.NewConn(s.node, kit.TransportOpts{})
		conn.Connect(nil)
		s.conns = append(s.conns, conn)
	}
	return s
}

func (s *scenario) run(steps []step) {
	sort.SliceStable(steps, func(i, j int) bool { return steps[i].At < steps[j].At })
	// one goroutine per connection keeps the per-connection command order
	perConn := map[int][]step{}
	for _, st := range steps {
		perConn[st.Conn] = append(perConn[st.Conn], st)
	}
	var wg sync.WaitGroup
	start := time.Now()
	for ci, sts := range perConn {
		ci, sts := ci, sts
		wg.Add(1)
		go func() {
			defer wg.Done()
			conn := s.conns[ci]
			for _, st := range sts {
				if d := st.At - time.Since(start); d > 0 {
					time.Sleep(d)
				}
				switch st.Op {
				case "sub":
					conn.Subscribe(&protocol.SubscribeRequest{Channel: st.Ch})
				case "unsub":
					conn.Unsubscribe(st.Ch)
				case "close":
					_ = conn.CloseFn()
				}
			}
		}()
	}
	wg.Wait()
}

// verify checks the invariants on the recorded broker calls and the final state.
func (s *scenario) verify(kind string, steps []step, drained bool) string {
	c := s.c
	calls, _ := s.fb.Snapshot()
	state := map[string]bool{} // channel -> subscribed in broker (after successful calls)
	nSub, nUnsub, nFail := 0, 0, 0
	detail := func(ch string) any {
		var cs []kit.BrokerCall
		for _, x := range calls {
			if x.Channel == ch {
				cs = append(cs, x)
			}
		}
		var ss []step
		for _, st := range steps {
			if st.Ch == ch || st.Op == "close" {
				ss = append(ss, st)
			}
		}
		return map[string]any{"kind": kind, "broker_calls": cs, "steps": ss}
	}
	for _, call := range calls {
		switch call.Op {
		case "subscribe":
			if call.Err {
				nFail++
				continue
			}
			nSub++
			state[call.Channel] = true
		case "unsubscribe":
			if call.LocalSubs != 0 {
				c.Violation("c26-broker-unsubscribe-with-local-subscribers", fmt.Sprintf("broker Unsubscribe(%s) was called while the node had %d local subscribers of it", call.Channel, call.LocalSubs), detail(call.Channel))
			}
			if call.Err {
				nFail++
				continue
			}
			nUnsub++
			state[call.Channel] = false
		}
	}
	// channels with local subscribers must be broker-subscribed
	hubCh := map[string]bool{}
	for _, ch := range s.node.Hub().Channels() {
		if s.node.Hub().NumSubscribers(ch) > 0 {
			hubCh[ch] = true
		}
	}
	for ch := range hubCh {
		if !state[ch] {
			c.Violation("c26-local-subscribers-without-broker-subscription", fmt.Sprintf("channel %s has %d local subscribers but the node is not subscribed to it in the broker", ch, s.node.Hub().NumSubscribers(ch)), detail(ch))
		}
	}
	if drained {
		for ch, sub := range state {
			if sub && !hubCh[ch] {
				c.Violation("c26-broker-subscription-without-local-subscribers", fmt.Sprintf("after deferred work drained the node is still subscribed to %s in the broker with no local subscriber", ch), detail(ch))
			}
		}
	}
	c.Count("broker_subscribe_calls", nSub)
	c.Count("broker_unsubscribe_calls", nUnsub)
	c.Count("injected_broker_failures", nFail)
	c.Count("channels_with_subscribers_at_end", len(hubCh))
	return fmt.Sprintf("%s:s%d:u%d:f%d:h%d", kind, nSub, nUnsub, nFail, len(hubCh))
}

// drained reports whether the broker-subscribed set equals the set of channels with local subscribers.
func (s *scenario) drained() bool {
	calls, _ := s.fb.Snapshot()
	state := map[string]bool{}
	for _, call := range calls {
		if call.Err {
			continue
		}
		state[call.Channel] = call.Op == "subscribe"
	}
	for ch, sub := range state {
		if sub != (s.node.Hub().NumSubscribers(ch) > 0) {
			return false
		}
	}
	return true
}

func (s *scenario) finish() {
	for _, conn := range s.conns {
		_ = conn.CloseFn()
	}
	s.w.Shutdown()
}

// bubbleCase: fault-free interleavings of first-subscribe / last-unsubscribe / the
// delayed broker-unsubscribe job, on a grid of virtual instants around the job's 1s delay.
func bubbleCase(c *kit.Case) {
	r := c.R
	nConn := r.Range(1, 3)
	nCh := r.Range(1, 3)
	jobDelay := map[string]time.Duration{}
	var steps []step
	grid := []time.Duration{0, 1 * time.Millisecond, 500 * time.Millisecond, 990 * time.Millisecond, 999 * time.Millisecond, 1000 * time.Millisecond, 1001 * time.Millisecond, 1010 * time.Millisecond, 1500 * time.Millisecond, 2100 * time.Millisecond}
	for i := 0; i < nCh; i++ {
		ch := fmt.Sprintf("c26:%d", i)
		jobDelay[ch] = kit.Pick(r, []time.Duration{0, 0, time.Millisecond, 5 * time.Millisecond, 20 * time.Millisecond})
		t := time.Duration(0)
		subscribed := map[int]bool{}
		for k, n := 0, r.Range(2, 9); k < n; k++ {
			t += kit.Pick(r, grid)
			ci := r.Intn(nConn)
			if subscribed[ci] {
				steps = append(steps, step{At: t, Conn: ci, Op: "unsub", Ch: ch})
				subscribed[ci] = false
			} else {
				steps = append(steps, step{At: t, Conn: ci, Op: "sub", Ch: ch})
				subscribed[ci] = true
			}
		}
	}
	if r.Chance(1, 4) {
		steps = append(steps, step{At: time.Duration(r.Range(0, 5000)) * time.Millisecond, Conn: r.Intn(nConn), Op: "close"})
	}
	s := newScenario(c, nConn, nil, nil, func(ch string) time.Duration { return jobDelay[ch] })
	s.run(steps)
	sig1 := s.verify("bubble-mid", steps, false)
	time.Sleep(4 * time.Second)
	s.w.Settle()
	sig2 := s.verify("bubble-drained", steps, true)
	c.Nontrivial(sig1 + "|" + sig2)
	if c.Index < realCases+16 {
		c.Sample(map[string]any{"steps": steps, "job_delays": fmt.Sprint(jobDelay)})
	}
	s.finish()
}

// realCase: broker Subscribe / Unsubscribe failures in real time (the deferred job
// sleeps 500ms under the subscription lock after a failed unsubscribe, which a
// virtual clock cannot represent while another goroutine waits for that lock).
func realCase(c *kit.Case) {
	r := c.R
	const nCh = 60
	failSubN := map[string]int{}
	failUnsubN := map[string]int{}
	var steps []step
	nConn := 4
	for i := 0; i < nCh; i++ {
		ch := fmt.Sprintf("c26r:%d", i)
		if r.Chance(1, 3) {
			failSubN[ch] = r.Range(1, 2)
		}
		if r.Chance(1, 2) {
			failUnsubN[ch] = r.Range(1, 3)
		}
		ci := r.Intn(nConn)
		t := time.Duration(r.Range(0, 300)) * time.Millisecond
		// subscribe (possibly failing, then retried), unsubscribe, and a resubscribe
		// placed around the delayed job and its retries
		for k := 0; k <= failSubN[ch]; k++ {
			steps = append(steps, step{At: t, Conn: ci, Op: "sub", Ch: ch})
			t += 20 * time.Millisecond
		}
		t += time.Duration(r.Range(10, 200)) * time.Millisecond
		steps = append(steps, step{At: t, Conn: ci, Op: "unsub", Ch: ch})
		if r.Chance(2, 3) {
			t += kit.Pick(r, []time.Duration{10 * time.Millisecond, 900 * time.Millisecond, 1000 * time.Millisecond, 1100 * time.Millisecond, 1600 * time.Millisecond, 2200 * time.Millisecond})
			steps = append(steps, step{At: t, Conn: (ci + 1) % nConn, Op: "sub", Ch: ch})
			if r.Bool() {
				t += time.Duration(r.Range(50, 900)) * time.Millisecond
				steps = append(steps, step{At: t, Conn: (ci + 1) % nConn, Op: "unsub", Ch: ch})
			}
		}
	}
	s := newScenario(c, nConn,
		func(ch string, nth int) bool { return nth <= failSubN[ch] },
		func(ch string, nth int) bool { return nth <= failUnsubN[ch] }, nil)
	s.run(steps)
	// drain: 1s job delay + up to 3 failed attempts x 500ms. The wait is bounded by
	// the condition, not by a fixed duration (the machine may be overloaded): poll
	// until the broker-subscribed set equals the set with local subscribers, give
	// up after 120 s and report whatever is left then.
	for i := 0; i < 240; i++ {
		time.Sleep(500 * time.Millisecond)
		if i >= 7 && s.drained() {
			break
		}
	}
	sig := s.verify("real-faults", steps, true)
	c.Nontrivial(sig)
	if c.Index < 2 {
		c.Sample(map[string]any{"steps": steps[:12], "channels": nCh})
	}
	s.finish()
}

func runCase(c *kit.Case) {
	if c.Index < realCases {
		realCase(c)
		return
	}
	kit.RunBubble(c, func() { bubbleCase(c) })
}

func TestC26(t *testing.T) {
	kit.Main(t, kit.Spec{
		ID:    "C26",
		Level: "fault_enumeration",
		Rule: fmt.Sprintf("cases 0..%d (real time): 60 channels per node with scripted broker failures (Subscribe fails 0-2 times, Unsubscribe 0-3 times) and a resubscribe placed around the 1s deferred broker-unsubscribe job and its 500ms retries. Other cases (virtual time): 1-3 connections x 1-3 channels, subscribe/unsubscribe toggles on a grid of instants around the job's 1s delay (0, 1ms, 500ms, 990ms, 999ms, 1s, 1.001s, 1.01s, 1.5s, 2.1s), an extra delay at the yield point just before the job takes the subscription lock, optional connection close. ", realCases-1) +
			"Oracle on the broker calls recorded by a wrapper around the real memory broker: every Unsubscribe(ch) call sees 0 local subscribers (sampled inside the call, i.e. under the node's subscription lock); at every check point each channel with local subscribers is broker-subscribed according to the last successful call; after the deferred work drained the broker-subscribed set equals the set of channels with local subscribers.",
		Assumptions:     []string{"stream broker only (map broker subscriptions use the same addSubscription/removeSubscription code path with another broker object)", "real-time cases poll (up to 120 s) until the deferred jobs drained (1 s + 3 x 500 ms nominal); only a state that never converges is reported"},
		Cases:           map[string]int{"quick": realCases + 800, "thorough": realCases*4 + 16000},
		RequireCounters: []string{"broker_subscribe_calls", "broker_unsubscribe_calls", "injected_broker_failures", "channels_with_subscribers_at_end"},
		Run:             runCase,
	})
}
