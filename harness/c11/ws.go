package c11

import (
	"bytes"
	"context"
	"encoding/binary"
	"errors"
	"fmt"
	"io"
	"net/http"
	"net/http/httptest"
	"sort"
	"strings"
	"sync"
	"sync/atomic"
	"time"

	"github.com/centrifugal/centrifuge"
	"github.com/centrifugal/centrifuge/internal/websocket"
	"github.com/centrifugal/centrifuge/verifx/kit"
	"github.com/centrifugal/protocol"
)

// ---------------------------------------------------------------------------------------------
// recording dictionary compression engine

const (
	classClosedTwice     = "c11-encoder-closed-more-than-once"
	classCloseOverlap    = "c11-encoder-closed-while-encode-in-flight"
	classEncodeAfter     = "c11-encode-called-after-encoder-closed"
	classNeverClosed     = "c11-encoder-not-closed-when-connection-ended"
	classReplyEncoded    = "c11-connect-reply-went-through-the-encoder"
	classBypass          = "c11-frame-after-connect-reply-bypassed-the-encoder"
	classTagOrder        = "c11-encoded-frames-not-one-per-encode-call-in-call-order"
	classNotNegotiated   = "c11-encoder-used-on-connection-that-did-not-negotiate"
	classUnheldInstalled = "c11-encoder-naming-unheld-dictionary-was-used"
	// One defect, three symptoms: with ConnectReply.ReplyWithoutQueue command replies are written by
	// the reader goroutine straight to the transport (Client.writeEncodedCommandReply -> WriteFn),
	// outside the writer that Client.close stops before it calls CloseDictionaryCompression. Such a
	// write can (a) be inside Encode when Close runs, (b) happen after Close - the frame then goes
	// out in the plain protocol to a client that expects encoded frames - or (c) promote the pending
	// encoder in websocketTransport.writeData (Swap then Store) around CloseDictionaryCompression,
	// which leaves an installed encoder that is never closed.
	classRWQ = "c11-reply-without-queue-write-races-encoder-close"
)

var tagMagic = []byte{0xC1, 0x1D, 0xDC, 0x11}

const tagLen = 4 + 4 + 8

type engViol struct {
	Class, Msg, User string
}

type recEngine struct {
	mu    sync.Mutex
	plans map[string]*wsPlan // by user id
	conns map[string][]*recDC
	viol  []engViol
	next  atomic.Uint32
}

func (e *recEngine) report(class, user, msg string) {
	e.mu.Lock()
	e.viol = append(e.viol, engViol{Class: class, Msg: msg, User: user})
	e.mu.Unlock()
}

func (e *recEngine) NewDictionaryConnection(p centrifuge.DictionaryConnectionParams) centrifuge.DictionaryConnection {
	e.mu.Lock()
	plan := e.plans[p.UserID]
	e.mu.Unlock()
	if plan == nil {
		return nil
	}
	plan.engineAsked.Add(1)
	if sl := plan.Slow; sl != nil && (sl.At == "new" || sl.At == "both") {
		// a slow engine (it loads a dictionary, say): connectCmd holds no lock while it asks
		sl.wait("new")
	}
	if p.ClientFlags&centrifuge.ConnectionFlagDictionaryCompression == 0 || plan.Mode == "decline" {
		return nil
	}
	dc := &recDC{e: e, user: p.UserID, id: e.next.Add(1), mode: plan.Mode, held: p.HeldDictionaryID, proto: p.ProtocolType, slow: plan.Slow,
		encDelay: time.Duration(plan.EncDelayUs) * time.Microsecond, closeDelay: time.Duration(plan.CloseDelayUs) * time.Microsecond}
	e.mu.Lock()
	e.conns[p.UserID] = append(e.conns[p.UserID], dc)
	e.mu.Unlock()
	return dc
}

type recDC struct {
	e          *recEngine
	user       string
	id         uint32
	mode       string
	held       string
	proto      centrifuge.ProtocolType
	slow       *slowSpec
	encDelay   time.Duration
	closeDelay time.Duration

	calls         atomic.Int64
	inflight      atomic.Int32
	maxInflight   atomic.Int32
	closed        atomic.Int32
	callsAtClose  atomic.Int64
	dictionaryAsk atomic.Int32
}

func (d *recDC) Dictionary() *protocol.Dictionary {
	d.dictionaryAsk.Add(1)
	if sl := d.slow; sl != nil && (sl.At == "dictionary" || sl.At == "both") {
		sl.wait("dictionary")
	}
	switch d.mode {
	case "held":
		return &protocol.Dictionary{Id: d.held}
	case "unheld":
		return &protocol.Dictionary{Id: "never-advertised-id"}
	}
	dict := &protocol.Dictionary{Id: fmt.Sprintf("dict-%d", d.id)}
	if d.proto == centrifuge.ProtocolTypeJSON {
		dict.DataB64 = "YzExLWRpY3Rpb25hcnk="
	} else {
		dict.Data = []byte("c11-dictionary")
	}
	return dict
}

func (d *recDC) Encode(frame []byte) ([]byte, bool) {
	n := d.inflight.Add(1)
	for {
		m := d.maxInflight.Load()
		if n <= m || d.maxInflight.CompareAndSwap(m, n) {
			break
		}
	}
	if d.closed.Load() > 0 {
		d.e.report(classEncodeAfter, d.user, fmt.Sprintf("Encode call %d started after Close had been called (%d calls had been made when Close ran)", d.calls.Load()+1, d.callsAtClose.Load()))
	}
	k := d.calls.Add(1)
	if d.encDelay > 0 {
		time.Sleep(d.encDelay)
	}
	out := make([]byte, 0, tagLen+len(frame))
	out = append(out, tagMagic...)
	out = binary.BigEndian.AppendUint32(out, d.id)
	out = binary.BigEndian.AppendUint64(out, uint64(k))
	out = append(out, frame...)
	if d.closed.Load() > 0 && d.callsAtClose.Load() < k {
		// Close ran (or started) while this call was in flight; reported from Close when it saw us,
		// otherwise from here.
		d.e.report(classCloseOverlap, d.user, fmt.Sprintf("Close was called while Encode call %d was in flight", k))
	}
	d.inflight.Add(-1)
	return out, true
}

func (d *recDC) Close() {
	n := d.closed.Add(1)
	if n > 1 {
		d.e.report(classClosedTwice, d.user, fmt.Sprintf("Close called %d times on one DictionaryConnection", n))
		return
	}
	d.callsAtClose.Store(d.calls.Load())
	if d.inflight.Load() > 0 {
		d.e.report(classCloseOverlap, d.user, "Close called while an Encode call was in flight")
	}
	if d.closeDelay > 0 {
		time.Sleep(d.closeDelay)
	}
}

// ---------------------------------------------------------------------------------------------
// plan of one connection (all PRNG choices are made before anything runs)

// slowSpec makes the engine slow for one connection: NewDictionaryConnection and/or Dictionary()
// call wait, which blocks or sleeps according to the time model of the part that uses it (part 2:
// real time, a gate that opens when the raw client has seen the connection end, or a short real
// sleep; part 3: a virtual sleep inside the bubble - connectCmd holds no mutex around these calls).
type slowSpec struct {
	At      string // new | dictionary | both: which engine call is slow
	Variant string // part 2: until_close | short
	ShortUs int    // part 2, variant short: real sleep inside the engine call

	wait func(where string)

	entered     atomic.Int32
	landed      atomic.Bool // the close was observed while the engine call was still blocked
	gateTimeout atomic.Bool
	closeSeen   chan struct{}
	closeOnce   sync.Once
}

func (sl *slowSpec) sawClose() {
	if sl != nil && sl.closeSeen != nil {
		sl.closeOnce.Do(func() { close(sl.closeSeen) })
	}
}

type wsStep struct {
	Op string
	N  int
	Us int
}

type wsPlan struct {
	Idx               int
	User              string
	Name              string
	Proto             string
	Advertise         bool
	Mode              string // normal | decline | held | unheld
	ReplyWithoutQueue bool
	WriteDelayMs      int
	Positioned        bool
	Channel           string
	HookSleepUs       int
	RaceOp            string
	RaceDelayUs       int
	Script            []wsStep
	End               string
	EncDelayUs        int
	CloseDelayUs      int
	Slow              *slowSpec

	node          *centrifuge.Node
	url           string
	engineAsked   atomic.Int32
	client        atomic.Pointer[centrifuge.Client]
	onDisconnect  atomic.Int32
	closedAtOnDis atomic.Int32 // encoder's closed counter observed inside OnDisconnect (+1), 0 = not observed
	inHubAtRace   atomic.Bool
	raceRan       atomic.Bool
}

type wireFrame struct {
	MT   int
	Data []byte
}

type p2 struct {
	c      *kit.Case
	eng    *recEngine
	plans  []*wsPlan
	byUser map[string]*wsPlan
	pubSeq atomic.Int64
}

func (s *p2) publish(p *wsPlan) {
	n := s.pubSeq.Add(1)
	_, _ = p.node.Publish(p.Channel, []byte(fmt.Sprintf(`{"n":%d}`, n)))
}

func (s *p2) doOp(op string, p *wsPlan) {
	switch op {
	case "send":
		for _, cl := range p.node.Hub().UserConnections(p.User) {
			_ = cl.Send([]byte(`{"racer":"send"}`))
		}
	case "publish":
		s.publish(p)
	case "nsub":
		_ = p.node.Subscribe(p.User, p.Channel+":x")
	case "refresh":
		_ = p.node.Refresh(p.User, centrifuge.WithRefreshExpireAt(time.Now().Unix()+3600))
	case "disconnect":
		_ = p.node.Disconnect(p.User)
	}
}

func waitUntil(cond func() bool, d time.Duration) bool {
	deadline := time.Now().Add(d)
	for {
		if cond() {
			return true
		}
		if time.Now().After(deadline) {
			return cond()
		}
		time.Sleep(200 * time.Microsecond)
	}
}

type connResult struct {
	frames       []wireFrame
	readErr      error
	closeCode    int
	sawCloseAt   time.Time
	sawEOFAt     time.Time
	sawEOF       bool
	dialErr      error
	inconclusive string
}

func runPart2(c *kit.Case) {
	r := c.R
	w := kit.NewWorld(c)
	eng := &recEngine{plans: map[string]*wsPlan{}, conns: map[string][]*recDC{}}
	s := &p2{c: c, eng: eng, byUser: map[string]*wsPlan{}}
	offReadLoop := r.Chance(1, 4)

	nConn := r.Range(4, 8)
	for i := 0; i < nConn; i++ {
		p := &wsPlan{Idx: i, User: fmt.Sprintf("w%d", i), Name: fmt.Sprintf("ws%d", i)}
		p.Proto = kit.Pick(r, []string{"json", "json", "protobuf"})
		p.Advertise = !r.Chance(1, 8)
		p.Mode = kit.Pick(r, []string{"normal", "normal", "normal", "normal", "held", "decline", "unheld"})
		p.ReplyWithoutQueue = r.Chance(1, 4)
		p.WriteDelayMs = kit.Pick(r, []int{0, 0, 0, 1})
		p.Positioned = r.Chance(1, 3)
		p.Channel = fmt.Sprintf("c11:w%d", i)
		p.HookSleepUs = kit.Pick(r, []int{0, 200, 1000, 3000})
		p.RaceOp = kit.Pick(r, []string{"", "", "send", "publish", "nsub", "refresh", "disconnect"})
		p.RaceDelayUs = r.Range(0, 2500)
		p.EncDelayUs = kit.Pick(r, []int{0, 0, 50, 300})
		p.CloseDelayUs = kit.Pick(r, []int{0, 100, 300})
		for j, n := 0, r.Range(2, 9); j < n; j++ {
			switch x := r.Intn(100); {
			case x < 40:
				p.Script = append(p.Script, wsStep{Op: "pub", N: kit.Pick(r, []int{1, 1, 2, 4, 10})})
			case x < 55:
				p.Script = append(p.Script, wsStep{Op: "send"})
			case x < 65:
				p.Script = append(p.Script, wsStep{Op: "nsub"})
			case x < 78:
				p.Script = append(p.Script, wsStep{Op: "cmd_ping", N: r.Range(1, 4)})
			case x < 88:
				p.Script = append(p.Script, wsStep{Op: "cmd_rpc", N: r.Range(1, 4)})
			default:
				p.Script = append(p.Script, wsStep{Op: "pause", Us: r.Range(0, 1500)})
			}
		}
		p.End = kit.Pick(r, []string{"server_node_disconnect", "server_client_disconnect", "client_close", "client_close_immediately", "disconnect_during_burst", "client_close_during_burst"})
		if p.RaceOp == "disconnect" {
			p.End = "disconnect_during_connect"
		}
		s.plans = append(s.plans, p)
		s.byUser[p.User] = p
		eng.plans[p.User] = p
	}
	// Slow-engine connections (drawn after everything else, so the plans above are what they were
	// before these existed). They live on a second node whose stale-connection delay is short: the
	// real WebSocket handler processes the connect command on the goroutine that owns the read loop
	// (ProcessCommandsOffReadLoop waits for the hand-off too), so while the engine call is blocked
	// the only close that can land is the stale-connection timer's.
	staleMs := kit.Pick(r, []int{20, 30, 50})
	for i, n := 0, r.Range(0, 2); i < n; i++ {
		p := &wsPlan{Idx: nConn + i, User: fmt.Sprintf("s%d", i), Name: fmt.Sprintf("slow%d", i)}
		p.Proto = kit.Pick(r, []string{"json", "json", "protobuf"})
		p.Advertise = !r.Chance(1, 10)
		p.Mode = kit.Pick(r, []string{"normal", "normal", "normal", "held", "held", "decline", "unheld"})
		p.Channel = fmt.Sprintf("c11:s%d", i)
		p.EncDelayUs = kit.Pick(r, []int{0, 0, 50, 300})
		p.CloseDelayUs = kit.Pick(r, []int{0, 100, 300})
		p.Slow = &slowSpec{At: kit.Pick(r, []string{"new", "new", "dictionary", "both"}), Variant: kit.Pick(r, []string{"until_close", "until_close", "short"}), closeSeen: make(chan struct{})}
		// short: sometimes well below, sometimes around the stale delay (a natural race)
		p.Slow.ShortUs = kit.Pick(r, []int{200, 1000, 5000, staleMs*1000 - 2000, staleMs * 1000, staleMs*1000 + 3000})
		for j, n := 0, r.Range(1, 5); j < n; j++ {
			p.Script = append(p.Script, kit.Pick(r, []wsStep{{Op: "pub", N: 2}, {Op: "send"}, {Op: "cmd_ping", N: 2}, {Op: "cmd_rpc", N: 1}}))
		}
		p.End = endStaleInEngine
		if p.Slow.Variant == "short" {
			p.End = kit.Pick(r, []string{"server_node_disconnect", "server_client_disconnect", "client_close"})
		}
		sl := p.Slow
		sl.wait = func(string) {
			sl.entered.Add(1)
			if sl.Variant == "short" {
				time.Sleep(time.Duration(sl.ShortUs) * time.Microsecond)
				return
			}
			select {
			case <-sl.closeSeen:
				sl.landed.Store(true)
			case <-time.After(20 * time.Second):
				sl.gateTimeout.Store(true)
			}
		}
		s.plans = append(s.plans, p)
		s.byUser[p.User] = p
		eng.plans[p.User] = p
	}
	byName := map[string]*wsPlan{}
	for _, p := range s.plans {
		byName[p.Name] = p
	}

	setup := func(n *centrifuge.Node) {
		n.OnConnecting(func(_ context.Context, e centrifuge.ConnectEvent) (centrifuge.ConnectReply, error) {
			p := byName[e.Name]
			if p == nil {
				return centrifuge.ConnectReply{}, centrifuge.DisconnectBadRequest
			}
			return centrifuge.ConnectReply{
				Credentials:       &centrifuge.Credentials{UserID: p.User},
				Subscriptions:     map[string]centrifuge.SubscribeOptions{p.Channel: {EnablePositioning: p.Positioned}},
				ReplyWithoutQueue: p.ReplyWithoutQueue,
				WriteDelay:        time.Duration(p.WriteDelayMs) * time.Millisecond,
			}, nil
		})
		n.OnConnect(func(cl *centrifuge.Client) {
			p := s.byUser[cl.UserID()]
			if p == nil {
				return
			}
			p.client.Store(cl)
			cl.OnRPC(func(e centrifuge.RPCEvent, cb centrifuge.RPCCallback) {
				cb(centrifuge.RPCReply{Data: e.Data}, nil)
			})
			cl.OnDisconnect(func(centrifuge.DisconnectEvent) {
				// Client.close calls CloseDictionaryCompression before this handler
				eng.mu.Lock()
				dcs := eng.conns[p.User]
				eng.mu.Unlock()
				if len(dcs) > 0 {
					p.closedAtOnDis.Store(dcs[len(dcs)-1].closed.Load() + 1)
				}
				p.onDisconnect.Add(1)
			})
		})
	}
	node, _ := w.NewNode(centrifuge.Config{DictionaryCompression: eng}, setup)
	slowNode, _ := w.NewNode(centrifuge.Config{DictionaryCompression: eng, ClientStaleCloseDelay: time.Duration(staleMs) * time.Millisecond}, setup)
	kit.SetHook(node, func(point string, cl *centrifuge.Client, _ string) {
		if point != "connect.afterAddClient" || cl == nil {
			return
		}
		if p := s.byUser[cl.UserID()]; p != nil && p.HookSleepUs > 0 {
			time.Sleep(time.Duration(p.HookSleepUs) * time.Microsecond)
		}
	})

	mux := http.NewServeMux()
	mux.Handle("/ws", centrifuge.NewWebsocketHandler(node, centrifuge.WebsocketConfig{
		PingPongConfig:             centrifuge.PingPongConfig{PingInterval: 10 * time.Minute, PongTimeout: time.Minute},
		ProcessCommandsOffReadLoop: offReadLoop,
	}))
	srv := httptest.NewServer(mux)
	url := "ws" + strings.TrimPrefix(srv.URL, "http") + "/ws"
	slowMux := http.NewServeMux()
	slowMux.Handle("/ws", centrifuge.NewWebsocketHandler(slowNode, centrifuge.WebsocketConfig{
		PingPongConfig:             centrifuge.PingPongConfig{PingInterval: 10 * time.Minute, PongTimeout: time.Minute},
		ProcessCommandsOffReadLoop: offReadLoop,
	}))
	slowSrv := httptest.NewServer(slowMux)
	for _, p := range s.plans {
		p.node, p.url = node, url
		if p.Slow != nil {
			p.node, p.url = slowNode, "ws"+strings.TrimPrefix(slowSrv.URL, "http")+"/ws"
		}
	}

	results := make([]*connResult, len(s.plans))
	var wg sync.WaitGroup
	for i, p := range s.plans {
		wg.Add(1)
		go func(i int, p *wsPlan) {
			defer wg.Done()
			results[i] = s.runConn(p)
		}(i, p)
	}
	wg.Wait()
	// let stragglers (spawned closes) finish before judging "exactly once"
	time.Sleep(2 * time.Millisecond)
	srv.CloseClientConnections()
	srv.Close()
	slowSrv.CloseClientConnections()
	slowSrv.Close()
	w.Shutdown()

	var sigs []string
	for i, p := range s.plans {
		res := results[i]
		if res.inconclusive != "" {
			c.Inconclusive(fmt.Sprintf("part 2 conn %d (%s): %s", p.Idx, p.End, res.inconclusive))
			continue
		}
		sigs = append(sigs, s.judge(p, res))
	}
	eng.mu.Lock()
	viol := append([]engViol(nil), eng.viol...)
	eng.mu.Unlock()
	seen := map[string]bool{}
	for _, v := range viol {
		cls, msg := v.Class, v.Msg
		if pl := s.byUser[v.User]; pl != nil && pl.ReplyWithoutQueue && (cls == classCloseOverlap || cls == classEncodeAfter) {
			cls = classRWQ
			msg += " (connection uses ReplyWithoutQueue: replies are written by the reader goroutine, outside the writer that close() stops first)"
		}
		c.Count("p2_engine_reports_"+cls, 1)
		if seen[cls+v.User] {
			continue
		}
		seen[cls+v.User] = true
		report(c, cls, fmt.Sprintf("part 2 user %s: %s", v.User, msg), map[string]any{"plan": s.byUser[v.User], "symptom": v.Class})
	}
	if len(sigs) > 0 {
		sort.Strings(sigs)
		c.Nontrivial("p2|" + strings.Join(sigs, "|"))
	}
}

func encodeCmd(proto string, cmd *protocol.Command) (int, []byte) {
	if proto == "protobuf" {
		b, _ := protocol.NewProtobufCommandEncoder().Encode(cmd)
		return websocket.BinaryMessage, b
	}
	b, _ := protocol.NewJSONCommandEncoder().Encode(cmd)
	return websocket.TextMessage, b
}

const connectCmdID = 41

// how a slow-engine connection of variant until_close ends
const endStaleInEngine = "stale_close_during_engine_call"

func (s *p2) runConn(p *wsPlan) *connResult {
	res := &connResult{}
	d := &websocket.Dialer{HandshakeTimeout: 45 * time.Second}
	if p.Proto == "protobuf" {
		d.Subprotocols = []string{"centrifuge-protobuf"}
	}
	conn, resp, _, err := d.Dial(p.url, nil)
	if err != nil {
		res.inconclusive = "dial failed: " + err.Error()
		return res
	}
	if resp != nil && resp.Body != nil {
		_ = resp.Body.Close()
	}
	defer func() { _ = conn.Close() }()

	req := &protocol.ConnectRequest{Name: p.Name}
	if p.Advertise {
		req.Flag = centrifuge.ConnectionFlagDictionaryCompression
	}
	if p.Mode == "held" {
		req.Dict = "held-dict-id"
	}
	mt, data := encodeCmd(p.Proto, &protocol.Command{Id: connectCmdID, Connect: req})

	// racing operation inside the connect window
	var raceWG sync.WaitGroup
	if p.RaceOp != "" {
		raceWG.Add(1)
		go func() {
			defer raceWG.Done()
			// wait (bounded) until the client is registered, then a PRNG-chosen moment later
			inHub := waitUntil(func() bool { return len(p.node.Hub().UserConnections(p.User)) > 0 }, 10*time.Second)
			if !inHub {
				return
			}
			time.Sleep(time.Duration(p.RaceDelayUs) * time.Microsecond)
			p.inHubAtRace.Store(true)
			s.doOp(p.RaceOp, p)
			p.raceRan.Store(true)
		}()
	}
	if err := conn.WriteMessage(mt, data); err != nil {
		res.inconclusive = "cannot write connect command: " + err.Error()
		raceWG.Wait()
		return res
	}
	if p.End == "client_close_immediately" {
		// the engine is created, the client is gone before it reads anything
		_ = conn.NetConn().Close()
		raceWG.Wait()
		s.awaitServerSideEnd(p, res)
		return res
	}

	// reader
	readDone := make(chan struct{})
	var fmu sync.Mutex
	go func() {
		defer close(readDone)
		for {
			_ = conn.SetReadDeadline(time.Now().Add(30 * time.Second))
			mt, msg, err := conn.ReadMessage()
			if err != nil {
				res.readErr = err
				// Client.close writes the close frame (transport.Close) after CloseDictionaryCompression:
				// a slow engine call that is still blocked now returns into a close() that is past it
				p.Slow.sawClose()
				var ce *websocket.CloseError
				if errors.As(err, &ce) {
					res.closeCode = ce.Code
					res.sawCloseAt = time.Now()
					// wait for the server to close the TCP connection
					nc := conn.NetConn()
					_ = nc.SetReadDeadline(time.Now().Add(10 * time.Second))
					buf := make([]byte, 256)
					for {
						_, rerr := nc.Read(buf)
						if rerr != nil {
							if errors.Is(rerr, io.EOF) || strings.Contains(rerr.Error(), "reset") {
								res.sawEOF = true
								res.sawEOFAt = time.Now()
							}
							break
						}
					}
				}
				return
			}
			fmu.Lock()
			res.frames = append(res.frames, wireFrame{MT: mt, Data: append([]byte(nil), msg...)})
			fmu.Unlock()
		}
	}()
	nFrames := func() int { fmu.Lock(); defer fmu.Unlock(); return len(res.frames) }

	// wait (bounded) until connectCmd is over on the server: OnConnect has run, or the
	// connection ended
	waitUntil(func() bool {
		select {
		case <-readDone:
			return true
		default:
		}
		return nFrames() > 0 && p.client.Load() != nil
	}, 45*time.Second)
	raceWG.Wait()

	nextID := uint32(100)
	alive := func() bool {
		select {
		case <-readDone:
			return false
		default:
			return true
		}
	}
	for _, st := range p.Script {
		if !alive() {
			break
		}
		switch st.Op {
		case "pub":
			for i := 0; i < st.N; i++ {
				s.publish(p)
			}
		case "send":
			s.doOp("send", p)
		case "nsub":
			s.doOp("nsub", p)
		case "cmd_ping":
			for i := 0; i < st.N; i++ {
				nextID++
				mt, b := encodeCmd(p.Proto, &protocol.Command{Id: nextID, Ping: &protocol.PingRequest{}})
				_ = conn.WriteMessage(mt, b)
			}
		case "cmd_rpc":
			for i := 0; i < st.N; i++ {
				nextID++
				payload := []byte(`{"x":1}`)
				mt, b := encodeCmd(p.Proto, &protocol.Command{Id: nextID, Rpc: &protocol.RPCRequest{Method: "m", Data: payload}})
				_ = conn.WriteMessage(mt, b)
			}
		case "pause":
			time.Sleep(time.Duration(st.Us) * time.Microsecond)
		}
	}

	burst := func() *sync.WaitGroup {
		var bw sync.WaitGroup
		for g := 0; g < 2; g++ {
			bw.Add(1)
			go func(g int) {
				defer bw.Done()
				for i := 0; i < 25; i++ {
					if g == 0 {
						s.publish(p)
					} else {
						s.doOp("send", p)
						nextIDLocal := uint32(10000 + i)
						mt, b := encodeCmd(p.Proto, &protocol.Command{Id: nextIDLocal, Ping: &protocol.PingRequest{}})
						_ = conn.WriteMessage(mt, b)
					}
				}
			}(g)
		}
		return &bw
	}

	switch p.End {
	case "server_node_disconnect":
		_ = p.node.Disconnect(p.User)
	case "server_client_disconnect":
		if cl := p.client.Load(); cl != nil {
			cl.Disconnect(centrifuge.DisconnectForceReconnect)
		} else {
			_ = p.node.Disconnect(p.User)
		}
	case "disconnect_during_burst":
		bw := burst()
		time.Sleep(time.Duration(p.RaceDelayUs) * time.Microsecond)
		_ = p.node.Disconnect(p.User)
		bw.Wait()
	case "client_close_during_burst":
		bw := burst()
		time.Sleep(time.Duration(p.RaceDelayUs) * time.Microsecond)
		_ = conn.NetConn().Close()
		bw.Wait()
	case "client_close":
		_ = conn.NetConn().Close()
	case "disconnect_during_connect":
		// already issued by the racing operation; if it did not hit, end the connection now
		_ = p.node.Disconnect(p.User)
	case endStaleInEngine:
		// the stale-connection timer of the slow-engine node ends this connection while the engine
		// call is blocked; the gate opens when this client has read the close. If the connection
		// got through nevertheless (the gate timed out), end it.
		if alive() {
			_ = p.node.Disconnect(p.User)
		}
	}
	select {
	case <-readDone:
	case <-time.After(45 * time.Second):
		res.inconclusive = "connection did not end within the bound"
		return res
	}
	s.awaitServerSideEnd(p, res)
	return res
}

// awaitServerSideEnd waits (bounded) until the server side of the connection is known to be over.
func (s *p2) awaitServerSideEnd(p *wsPlan, res *connResult) {
	gone := waitUntil(func() bool { return len(p.node.Hub().UserConnections(p.User)) == 0 }, 45*time.Second)
	if !gone {
		res.inconclusive = "client still registered in the hub after the bound"
		return
	}
	if p.client.Load() != nil {
		// OnConnect ran, so OnDisconnect will: it is the deterministic point after CloseDictionaryCompression
		if !waitUntil(func() bool { return p.onDisconnect.Load() > 0 }, 45*time.Second) {
			res.inconclusive = "OnDisconnect did not fire within the bound"
		}
	}
}

func hasTag(b []byte) bool { return len(b) >= tagLen && bytes.Equal(b[:4], tagMagic) }

func decodeReplies(proto string, b []byte) ([]*protocol.Reply, error) {
	var out []*protocol.Reply
	if proto == "protobuf" {
		dec := protocol.NewProtobufReplyDecoder(b)
		for {
			r, err := dec.Decode()
			if err == io.EOF {
				return out, nil
			}
			if err != nil {
				return out, err
			}
			out = append(out, r)
		}
	}
	dec := protocol.NewJSONReplyDecoder(b)
	for {
		r, err := dec.Decode()
		if err == io.EOF {
			return out, nil
		}
		if err != nil {
			return out, err
		}
		out = append(out, r)
	}
}

// judge applies the wire oracle and the lifecycle oracle to one connection.
func (s *p2) judge(p *wsPlan, res *connResult) string {
	c := s.c
	c.Eval(1)
	s.eng.mu.Lock()
	dcs := append([]*recDC(nil), s.eng.conns[p.User]...)
	s.eng.mu.Unlock()
	var dc *recDC
	if len(dcs) > 0 {
		dc = dcs[len(dcs)-1]
	}
	negotiated := dc != nil && dc.mode != "unheld"
	detail := func(extra map[string]any) map[string]any {
		m := map[string]any{"plan": p, "frames_received": len(res.frames), "close_code": res.closeCode}
		var heads []string
		for i, f := range res.frames {
			if i >= 6 {
				break
			}
			n := len(f.Data)
			if n > 90 {
				n = 90
			}
			heads = append(heads, fmt.Sprintf("mt=%d tagged=%v %q", f.MT, hasTag(f.Data), f.Data[:n]))
		}
		m["first_frames"] = heads
		if dc != nil {
			m["encode_calls"] = dc.calls.Load()
			m["close_calls"] = dc.closed.Load()
			m["encode_calls_when_closed"] = dc.callsAtClose.Load()
		}
		for k, v := range extra {
			m[k] = v
		}
		return m
	}

	// ---- wire order
	firstKind := "nothing"
	type fr struct {
		tagged bool
		ctr    uint64
		id     uint32
		kinds  []string
		chans  []string
		err    error
	}
	frs := make([]fr, len(res.frames))
	for i, f := range res.frames {
		body := f.Data
		if hasTag(body) {
			frs[i].tagged = true
			frs[i].id = binary.BigEndian.Uint32(body[4:8])
			frs[i].ctr = binary.BigEndian.Uint64(body[8:16])
			body = body[tagLen:]
		}
		reps, err := decodeReplies(p.Proto, body)
		frs[i].err = err
		for _, rp := range reps {
			frs[i].kinds = append(frs[i].kinds, replyKind(rp, connectCmdID))
			ch := ""
			if rp.Push != nil {
				ch = rp.Push.Channel
			}
			frs[i].chans = append(frs[i].chans, ch)
		}
	}
	var allKinds, allChans []string
	for _, f := range frs {
		allKinds = append(allKinds, f.kinds...)
		allChans = append(allChans, f.chans...)
	}
	if len(allKinds) > 0 {
		firstKind = allKinds[0]
	}
	classes, replyIdx := judgeOrder(allKinds, allChans, map[string]bool{p.Channel: true})
	for cls, why := range classes {
		c.Count("p2_violations_"+cls, 1)
		msg := fmt.Sprintf("part 2 (WebSocket) connection %d: %s; connect reply is message %d", p.Idx, why, replyIdx)
		if negotiated {
			msg += "; dictionary compression was negotiated, so the racing push went out raw and armed the encoder, and the connect reply carrying the dictionary went through Encode"
		}
		report(c, cls, msg, detail(map[string]any{"message_kinds": head(allKinds, 10)}))
	}
	orderBroken := len(classes) > 0

	if negotiated {
		c.Count("p2_connections_negotiated", 1)
		// first data frame: the untagged connect reply
		if len(frs) > 0 && !orderBroken {
			if frs[0].tagged {
				report(c, classReplyEncoded, fmt.Sprintf("part 2 connection %d: the first frame on the wire carries an encoder tag", p.Idx), detail(nil))
			} else if len(frs[0].kinds) == 0 || frs[0].kinds[0] != "connect_reply" {
				report(c, classOther, fmt.Sprintf("part 2 connection %d: the first frame is untagged but is not the connect reply (%v, decode error %v)", p.Idx, frs[0].kinds, frs[0].err), detail(nil))
			} else {
				c.Count("p2_untagged_connect_reply_first", 1)
			}
		}
		// every later frame: tag of exactly one Encode call, in call order
		want := uint64(1)
		for i := 1; i < len(frs); i++ {
			f := frs[i]
			if !f.tagged {
				cls, note := classBypass, ""
				if p.ReplyWithoutQueue && dc.closed.Load() > 0 && uint64(dc.callsAtClose.Load()) == want-1 {
					cls = classRWQ
					note = " (ReplyWithoutQueue: the reply was written by the reader goroutine after Client.close had closed the encoder and before it closed the transport)"
				}
				report(c, cls, fmt.Sprintf("part 2 connection %d: frame %d (after the first frame) carries no encoder tag: %v%s", p.Idx, i, f.kinds, note), detail(map[string]any{"frame": i, "symptom": classBypass}))
				break
			}
			if f.id != dc.id || f.ctr != want {
				report(c, classTagOrder, fmt.Sprintf("part 2 connection %d: frame %d carries tag (encoder %d, call %d), expected (encoder %d, call %d)", p.Idx, i, f.id, f.ctr, dc.id, want), detail(map[string]any{"frame": i}))
				break
			}
			if f.err != nil {
				report(c, classTagOrder, fmt.Sprintf("part 2 connection %d: frame %d does not decode after removing the tag: %v", p.Idx, i, f.err), detail(map[string]any{"frame": i}))
				break
			}
			want++
			c.Count("p2_tagged_frames_checked", 1)
		}
		if want-1 > uint64(dc.calls.Load()) {
			report(c, classTagOrder, fmt.Sprintf("part 2 connection %d: %d tagged frames received but only %d Encode calls were made", p.Idx, want-1, dc.calls.Load()), detail(nil))
		}
		if dc.maxInflight.Load() > 1 {
			c.Count("p2_concurrent_encode_calls_observed", 1)
		}
	} else {
		c.Count("p2_connections_not_negotiated", 1)
		if dc == nil {
			c.Count("p2_not_negotiated_"+map[bool]string{true: "flag_not_advertised", false: "engine_declined"}[!p.Advertise], 1)
		}
		for i, f := range frs {
			if f.tagged {
				cls := classNotNegotiated
				if dc != nil {
					cls = classUnheldInstalled
				}
				report(c, cls, fmt.Sprintf("part 2 connection %d: frame %d carries an encoder tag although compression was not negotiated", p.Idx, i), detail(nil))
				break
			}
		}
		if dc != nil && dc.calls.Load() > 0 {
			report(c, classUnheldInstalled, fmt.Sprintf("part 2 connection %d: Encode was called %d times on an encoder that named a dictionary the client never advertised", p.Idx, dc.calls.Load()), detail(nil))
		}
	}
	if len(dcs) > 1 {
		report(c, classOther, fmt.Sprintf("part 2 connection %d: NewDictionaryConnection produced %d encoders for one connection", p.Idx, len(dcs)), detail(nil))
	}

	// ---- lifecycle: closed exactly once, and closed by the time the connection is over
	cause := p.End
	if dc != nil {
		closed := dc.closed.Load()
		if dc.mode == "unheld" {
			cause = "unheld_id_refused"
		} else if p.End == endStaleInEngine {
			cause = endStaleInEngine
		} else if p.End == "disconnect_during_connect" && replyIdx < 0 {
			cause = "disconnect_during_connect"
		} else if p.End == "disconnect_during_connect" {
			cause = "server_disconnect"
		} else if strings.HasPrefix(p.End, "server_") || p.End == "disconnect_during_burst" {
			cause = "server_disconnect"
		} else if p.End == "client_close_immediately" {
			cause = "client_close_immediately"
		} else {
			cause = "client_close"
		}
		// deterministic points after which Close must have happened
		mustBeClosed, why := false, ""
		if v := p.closedAtOnDis.Load(); v > 0 {
			c.Count("p2_close_checked_at_on_disconnect", 1)
			if v-1 == 0 {
				report(c, classNeverClosed, fmt.Sprintf("part 2 connection %d (%s): the encoder had not been closed when OnDisconnect ran (Client.close calls CloseDictionaryCompression before it)", p.Idx, cause), detail(nil))
			}
			mustBeClosed, why = true, "OnDisconnect fired"
		}
		if res.sawEOF && res.sawEOFAt.Sub(res.sawCloseAt) < 3*time.Second {
			mustBeClosed, why = true, "the server closed the TCP connection after its close frame"
			c.Count("p2_close_checked_at_server_eof", 1)
		}
		if dc.mode == "unheld" {
			mustBeClosed, why = true, "the server refused the unheld dictionary id during connect"
		}
		if closed == 0 {
			if mustBeClosed {
				cls, note := classNeverClosed, ""
				if p.ReplyWithoutQueue && (cause == "disconnect_during_connect" || cause == "server_disconnect") {
					cls = classRWQ
					note = " (ReplyWithoutQueue: the connect reply is written by the reader goroutine; its promotion of the pending encoder in websocketTransport.writeData can straddle CloseDictionaryCompression)"
				}
				report(c, cls, fmt.Sprintf("part 2 connection %d (%s): DictionaryConnection.Close was never called although %s%s", p.Idx, cause, why, note), detail(map[string]any{"symptom": classNeverClosed}))
			} else if !waitUntil(func() bool { return dc.closed.Load() > 0 }, 10*time.Second) {
				c.Inconclusive(fmt.Sprintf("part 2 connection %d (%s): encoder not closed within the bound and no deterministic end-of-connection event was observed", p.Idx, cause))
			}
		}
		if dc.closed.Load() >= 1 {
			c.Count("p2_encoder_closed_cause_"+cause, 1)
			if dc.callsAtClose.Load() == 0 {
				c.Count("p2_encoder_closed_never_used", 1)
			}
		}
	}
	if p.raceRan.Load() && p.inHubAtRace.Load() {
		c.Count("p2_race_op_ran_in_connect_window_"+p.RaceOp, 1)
	}
	if sl := p.Slow; sl != nil {
		// coverage of the slow-engine situations (the verdict is the lifecycle oracle above)
		c.Count("p2_slow_engine_connections_"+sl.Variant, 1)
		if sl.entered.Load() > 0 {
			c.Count("p2_slow_engine_call_entered_at_"+sl.At, 1)
		}
		if sl.gateTimeout.Load() {
			c.Inconclusive(fmt.Sprintf("part 2 connection %d: the slow engine call was not released by a close within the bound", p.Idx))
		}
		if sl.landed.Load() {
			// the raw client had read the connection's end while NewDictionaryConnection / Dictionary()
			// was still blocked: close() was past CloseDictionaryCompression before the encoder existed
			c.Count("p2_slow_engine_close_landed_during_engine_call_stale_timer", 1)
			if dc != nil {
				c.Count("p2_slow_engine_encoder_handed_over_after_close_had_finished", 1)
				if dc.closed.Load() == 1 {
					c.Count("p2_slow_engine_encoder_handed_over_after_close_closed_once", 1)
				}
			}
		}
	}
	if c.Index < 64 {
		c.Sample(map[string]any{"part": 2, "plan": p, "frames": len(res.frames), "message_kinds": head(allKinds, 8), "negotiated": negotiated, "ended_by": cause})
	}
	slow := ""
	if sl := p.Slow; sl != nil {
		slow = fmt.Sprintf(":slow=%s/%s/landed%v", sl.At, sl.Variant, sl.landed.Load())
	}
	return fmt.Sprintf("%s:%s:adv%v:rwq%v:first=%s:race=%s:end=%s:neg%v%s", p.Proto, p.Mode, p.Advertise, p.ReplyWithoutQueue, firstKind, p.RaceOp, cause, negotiated, slow)
}

func head(xs []string, n int) []string {
	if len(xs) > n {
		return xs[:n]
	}
	return xs
}
