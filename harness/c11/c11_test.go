// C11: The connect reply is the first server message.
//
// Even case indexes (part 1) run inside a testing/synctest bubble over kit.RecTransport: a
// bidirectional connection whose OnConnecting returns server-side subscriptions connects while
// publishers publish to those channels and Node.Subscribe / Unsubscribe / Refresh / Disconnect
// for the user and Client.Send (client taken from the hub) run concurrently; the windows inside
// connectCmd are widened at the yield points. Oracle: the first frame the transport receives
// is the connect reply.
//
// Odd case indexes (part 2, ws.go) run in real time against the real WebsocketHandler with a
// recording DictionaryCompression engine and a raw WebSocket client.
package c11

import (
	"context"
	"fmt"
	"runtime"
	"runtime/debug"
	"sort"
	"strings"
	"sync"
	"sync/atomic"
	"testing"
	"testing/synctest"
	"time"

	"github.com/centrifugal/centrifuge"
	"github.com/centrifugal/centrifuge/verifx/kit"
	"github.com/centrifugal/protocol"
)

const (
	// a push produced by a server API call (Client.Send, Node.Subscribe/Unsubscribe/Refresh)
	// on a client that is registered in the hub but has not been sent its connect reply yet
	classAPIPush = "c11-server-api-push-precedes-connect-reply"
	// a publication on a connect-time server-side subscription channel written before the
	// connect reply that establishes the subscription
	classPubPush = "c11-publication-push-precedes-connect-reply"
	// anything else that is first on the wire instead of the connect reply
	classOther = "c11-first-frame-is-not-the-connect-reply"
)

type subSpec struct {
	Channel   string
	Mode      string // plain | plain_history | positioned | recoverable
	JoinLeave bool
	Presence  bool
}

func (s subSpec) positioned() bool { return s.Mode == "positioned" || s.Mode == "recoverable" }
func (s subSpec) history() bool    { return s.Mode != "plain" }

type connCfg struct {
	Idx               int
	User              string
	Proto             string
	Subs              []subSpec
	ReplyWithoutQueue bool
	WriteDelayMs      int
	StartMs           int
	SleepAfterAdd     int // ms, at connect.afterAddClient
	SleepBeforeReply  int // ms, only without positioned subscriptions
	SleepAfterReply   int
	SpinPoint         string // with positioned subscriptions: point at which SpinOp is launched
	SpinOp            string
	PositionedAny     bool
	conn              *kit.Conn
	connectID         uint32
	spun              atomic.Bool
}

type opRec struct {
	Kind    string
	User    string
	AtMs    int
	CallSeq int64
	RetSeq  int64
	InHub   bool // the user's client was registered in the hub when the operation started
	Via     string
}

type p1 struct {
	c     *kit.Case
	w     *kit.World
	node  *centrifuge.Node
	mu    sync.Mutex
	byCl  map[*centrifuge.Client]*connCfg
	ops   []*opRec
	pubN  atomic.Int64
	extra string
}

func (s *p1) record(kind, user string, at int, via string) *opRec {
	o := &opRec{Kind: kind, User: user, AtMs: at, Via: via}
	o.InHub = len(s.node.Hub().UserConnections(user)) > 0
	o.CallSeq = s.w.Seq()
	s.mu.Lock()
	s.ops = append(s.ops, o)
	s.mu.Unlock()
	return o
}

func (s *p1) done(o *opRec) {
	s.mu.Lock()
	o.RetSeq = s.w.Seq()
	s.mu.Unlock()
}

// doOp performs one racing operation against user.
func (s *p1) doOp(kind, user string, at int, via string, cfg *connCfg) {
	o := s.record(kind, user, at, via)
	defer s.done(o)
	switch kind {
	case "send":
		for _, cl := range s.node.Hub().UserConnections(user) {
			_ = cl.Send([]byte(`{"racer":"send"}`))
		}
	case "nsub":
		_ = s.node.Subscribe(user, s.extra)
	case "nunsub_extra":
		_ = s.node.Unsubscribe(user, s.extra)
	case "nunsub_conn":
		if cfg != nil && len(cfg.Subs) > 0 {
			_ = s.node.Unsubscribe(user, cfg.Subs[0].Channel)
		}
	case "refresh":
		_ = s.node.Refresh(user, centrifuge.WithRefreshExpireAt(time.Now().Unix()+3600))
	case "disconnect":
		_ = s.node.Disconnect(user)
	case "publish":
		if cfg != nil && len(cfg.Subs) > 0 {
			s.publish(cfg.Subs[int(o.CallSeq)%len(cfg.Subs)])
		}
	}
}

func (s *p1) publish(sub subSpec) {
	n := s.pubN.Add(1)
	var opts []centrifuge.PublishOption
	if sub.history() {
		opts = append(opts, centrifuge.WithHistory(50, time.Minute))
	}
	_, _ = s.node.Publish(sub.Channel, []byte(fmt.Sprintf(`{"n":%d}`, n)), opts...)
}

func (s *p1) hook(point string, cl *centrifuge.Client, _ string) {
	if cl == nil {
		return
	}
	s.mu.Lock()
	cfg := s.byCl[cl]
	s.mu.Unlock()
	if cfg == nil {
		return
	}
	switch point {
	case "connect.afterAddClient":
		// no lock held here: sleeping is allowed
		if cfg.SleepAfterAdd > 0 {
			time.Sleep(time.Duration(cfg.SleepAfterAdd) * time.Millisecond)
		}
	case "connect.beforeReply", "connect.afterReply":
		if cfg.PositionedAny {
			// inside the recovery-buffer lock window: never sleep; launch the racing
			// operation on another goroutine and busy-yield.
			if cfg.SpinPoint == point && cfg.SpinOp != "" && cfg.spun.CompareAndSwap(false, true) {
				var entered atomic.Bool
				go func() {
					entered.Store(true)
					s.doOp(cfg.SpinOp, cfg.User, -1, "spin@"+point, cfg)
				}()
				kit.SpinUntil(entered.Load, 10000)
				kit.Yield(300)
			}
			return
		}
		d := cfg.SleepBeforeReply
		if point == "connect.afterReply" {
			d = cfg.SleepAfterReply
		}
		if d > 0 {
			time.Sleep(time.Duration(d) * time.Millisecond)
		}
	}
}

func pushKind(p *protocol.Push) string {
	switch {
	case p == nil:
		return "none"
	case p.Pub != nil:
		return "pub"
	case p.Join != nil:
		return "join"
	case p.Leave != nil:
		return "leave"
	case p.Message != nil:
		return "message"
	case p.Subscribe != nil:
		return "subscribe"
	case p.Unsubscribe != nil:
		return "unsubscribe"
	case p.Refresh != nil:
		return "refresh"
	case p.Disconnect != nil:
		return "disconnect"
	case p.Connect != nil:
		return "connect_push"
	}
	return "push_other"
}

func replyKind(r *protocol.Reply, connectID uint32) string {
	if r == nil {
		return "undecodable"
	}
	if r.Id == connectID && r.Id != 0 {
		if r.Connect != nil {
			return "connect_reply"
		}
		if r.Error != nil {
			return "connect_error"
		}
	}
	if r.Push != nil {
		return pushKind(r.Push)
	}
	if r.Id == 0 {
		return "ping"
	}
	return "reply"
}

// judgeOrder applies the oracle to the decoded frame kinds of one connection. channels are the
// connect-time server-side subscription channels. It returns the classes violated.
func judgeOrder(kinds []string, chans []string, connectChannels map[string]bool) (classes map[string]string, replyIdx int) {
	classes = map[string]string{}
	replyIdx = -1
	for i, k := range kinds {
		if k == "connect_reply" || k == "connect_error" {
			replyIdx = i
			break
		}
	}
	end := replyIdx
	if replyIdx < 0 {
		// no connect reply at all: the connection was closed during connect. A disconnect
		// push alone is the protocol's way to refuse a connection; anything else was
		// written to a client that never got its connect reply.
		end = len(kinds)
	}
	for i := 0; i < end; i++ {
		k := kinds[i]
		if replyIdx < 0 && k == "disconnect" {
			break
		}
		switch k {
		case "pub", "join", "leave":
			if connectChannels[chans[i]] && k == "pub" {
				setOnce(classes, classPubPush, fmt.Sprintf("frame %d is a publication push on connect-time channel %q", i, chans[i]))
			} else {
				// a channel push on a channel subscribed through a racing Node.Subscribe
				setOnce(classes, classAPIPush, fmt.Sprintf("frame %d is a %s push on channel %q", i, k, chans[i]))
			}
		case "message", "subscribe", "unsubscribe", "refresh", "disconnect":
			setOnce(classes, classAPIPush, fmt.Sprintf("frame %d is a %s push", i, k))
		default:
			setOnce(classes, classOther, fmt.Sprintf("frame %d is %s", i, k))
		}
	}
	return classes, replyIdx
}

// Every class is reported at most reportCap times per child process (later occurrences are only
// counted): the runner stops a child after 50 violations, and a defect that fires in most cases
// would otherwise truncate the run.
const reportCap = 3

var (
	reportMu    sync.Mutex
	reportCount = map[string]int{}
)

func report(c *kit.Case, class, msg string, detail any) {
	reportMu.Lock()
	reportCount[class]++
	n := reportCount[class]
	reportMu.Unlock()
	c.Count("violations_observed_"+class, 1)
	if n > reportCap {
		return
	}
	c.Violation(class, msg, detail)
}

func setOnce(m map[string]string, k, v string) {
	if _, ok := m[k]; !ok {
		m[k] = v
	}
}

func runPart1(c *kit.Case) {
	r := c.R
	w := kit.NewWorld(c)
	s := &p1{c: c, w: w, byCl: map[*centrifuge.Client]*connCfg{}, extra: "c11:extra"}

	nConn := r.Range(1, 2)
	sameUser := nConn == 2 && r.Chance(1, 3)
	cfgs := make([]*connCfg, nConn)
	byUserName := map[string]*connCfg{}
	for i := range cfgs {
		cfg := &connCfg{Idx: i, User: fmt.Sprintf("u%d", i), Proto: kit.Pick(r, []string{"json", "protobuf"})}
		if sameUser {
			cfg.User = "u0"
		}
		for j, n := 0, r.Range(1, 3); j < n; j++ {
			cfg.Subs = append(cfg.Subs, subSpec{
				Channel:   fmt.Sprintf("c11:ch%d", r.Intn(3)),
				Mode:      kit.Pick(r, []string{"plain", "plain", "plain_history", "positioned", "recoverable"}),
				JoinLeave: r.Chance(1, 3),
				Presence:  r.Chance(1, 3),
			})
		}
		// one entry per channel
		seen := map[string]bool{}
		var subs []subSpec
		for _, sp := range cfg.Subs {
			if !seen[sp.Channel] {
				seen[sp.Channel] = true
				subs = append(subs, sp)
				if sp.positioned() {
					cfg.PositionedAny = true
				}
			}
		}
		cfg.Subs = subs
		cfg.ReplyWithoutQueue = r.Chance(1, 5)
		cfg.WriteDelayMs = kit.Pick(r, []int{0, 0, 0, 1, 3})
		cfg.StartMs = r.Range(0, 12)
		cfg.SleepAfterAdd = kit.Pick(r, []int{0, 1, 2, 5, 9, 14})
		if cfg.PositionedAny {
			cfg.SpinPoint = kit.Pick(r, []string{"", "connect.beforeReply", "connect.afterReply"})
			cfg.SpinOp = kit.Pick(r, []string{"send", "nsub", "refresh", "publish", "disconnect", "nunsub_extra"})
		} else {
			cfg.SleepBeforeReply = kit.Pick(r, []int{0, 0, 1, 4, 8})
			// no sleep at connect.afterReply: when a racing Disconnect closed the client, the
			// failed reply enqueue spawns a second close() that blocks on connectMu while the
			// first one waits (holding it) for the reservation's subscribingCh, which connectCmd
			// closes only after this point; a mutex waiter is not durably blocked, so a sleep
			// here would freeze the bubble's clock.
			cfg.SleepAfterReply = 0
		}
		cfgs[i] = cfg
		byUserName[fmt.Sprintf("conn%d", i)] = cfg
	}
	// channel -> mode must be consistent across connections (history is a channel property here)
	modeOf := map[string]subSpec{}
	for _, cfg := range cfgs {
		for j, sp := range cfg.Subs {
			if m, ok := modeOf[sp.Channel]; ok {
				sp.Mode = m.Mode
				cfg.Subs[j] = sp
			} else {
				modeOf[sp.Channel] = sp
			}
		}
		cfg.PositionedAny = false
		for _, sp := range cfg.Subs {
			if sp.positioned() {
				cfg.PositionedAny = true
			}
		}
		if cfg.PositionedAny {
			cfg.SleepBeforeReply, cfg.SleepAfterReply = 0, 0
			if cfg.SpinOp == "" {
				cfg.SpinPoint = kit.Pick(r, []string{"", "connect.beforeReply", "connect.afterReply"})
				cfg.SpinOp = kit.Pick(r, []string{"send", "nsub", "refresh", "publish", "disconnect", "nunsub_extra"})
			}
		} else {
			cfg.SpinPoint, cfg.SpinOp = "", ""
		}
	}

	node, _ := w.NewNode(centrifuge.Config{ClientStaleCloseDelay: time.Hour}, func(n *centrifuge.Node) {
		n.OnConnecting(func(_ context.Context, e centrifuge.ConnectEvent) (centrifuge.ConnectReply, error) {
			cfg := byUserName[e.Name]
			if cfg == nil {
				return centrifuge.ConnectReply{}, centrifuge.DisconnectBadRequest
			}
			rep := centrifuge.ConnectReply{
				Credentials:       &centrifuge.Credentials{UserID: cfg.User},
				Subscriptions:     map[string]centrifuge.SubscribeOptions{},
				ReplyWithoutQueue: cfg.ReplyWithoutQueue,
				WriteDelay:        time.Duration(cfg.WriteDelayMs) * time.Millisecond,
			}
			for _, sp := range cfg.Subs {
				o := centrifuge.SubscribeOptions{EmitJoinLeave: sp.JoinLeave, PushJoinLeave: sp.JoinLeave, EmitPresence: sp.Presence}
				switch sp.Mode {
				case "positioned":
					o.EnablePositioning = true
				case "recoverable":
					o.EnableRecovery = true
				}
				rep.Subscriptions[sp.Channel] = o
			}
			return rep, nil
		})
	})
	s.node = node
	kit.SetHook(node, s.hook)

	horizon := 45 // ms of activity
	var wg sync.WaitGroup
	// history before anybody connects
	for _, sp := range modeOf {
		if sp.history() {
			for i, n := 0, r.Range(0, 4); i < n; i++ {
				s.publish(sp)
			}
		}
	}
	// publishers
	for _, sp := range modeOf {
		gaps := make([]int, r.Range(6, 30))
		for i := range gaps {
			gaps[i] = r.Range(0, 3)
		}
		wg.Add(1)
		go func(sp subSpec) {
			defer wg.Done()
			for _, g := range gaps {
				time.Sleep(time.Duration(g)*time.Millisecond + time.Duration(100)*time.Microsecond)
				s.publish(sp)
			}
		}(sp)
	}
	// racers
	opKinds := []string{"send", "send", "nsub", "nunsub_extra", "nunsub_conn", "refresh", "publish"}
	nOps := r.Range(3, 14)
	disconnectAt := -1
	if r.Chance(1, 4) {
		disconnectAt = r.Range(0, horizon)
	}
	for i := 0; i < nOps; i++ {
		kind := kit.Pick(r, opKinds)
		cfg := kit.Pick(r, cfgs)
		at := r.Range(0, 30)
		us := r.Intn(1000)
		wg.Add(1)
		go func() {
			defer wg.Done()
			time.Sleep(time.Duration(at)*time.Millisecond + time.Duration(us)*time.Microsecond)
			s.doOp(kind, cfg.User, at, "timed", cfg)
		}()
	}
	if disconnectAt >= 0 {
		cfg := kit.Pick(r, cfgs)
		wg.Add(1)
		go func() {
			defer wg.Done()
			time.Sleep(time.Duration(disconnectAt) * time.Millisecond)
			s.doOp("disconnect", cfg.User, disconnectAt, "timed", cfg)
		}()
	}
	// connections
	for _, cfg := range cfgs {
		pt := centrifuge.ProtocolTypeJSON
		if cfg.Proto == "protobuf" {
			pt = centrifuge.ProtocolTypeProtobuf
		}
		conn := w.NewConn(node, kit.TransportOpts{Protocol: pt})
		cfg.conn = conn
		s.mu.Lock()
		s.byCl[conn.Client] = cfg
		s.mu.Unlock()
		wg.Add(1)
		go func(cfg *connCfg) {
			defer wg.Done()
			time.Sleep(time.Duration(cfg.StartMs) * time.Millisecond)
			cfg.connectID = cfg.conn.Connect(&protocol.ConnectRequest{Name: fmt.Sprintf("conn%d", cfg.Idx)})
		}(cfg)
	}
	wg.Wait()
	time.Sleep(2 * time.Second)
	synctest.Wait()

	// ---- oracle
	var sigParts []string
	s.mu.Lock()
	ops := append([]*opRec(nil), s.ops...)
	s.mu.Unlock()
	for _, cfg := range cfgs {
		frames := cfg.conn.T.Frames()
		connectChannels := map[string]bool{}
		for _, sp := range cfg.Subs {
			connectChannels[sp.Channel] = true
		}
		kinds := make([]string, len(frames))
		chans := make([]string, len(frames))
		for i, f := range frames {
			if f.DecodeErr != "" {
				kinds[i] = "undecodable"
				continue
			}
			kinds[i] = replyKind(f.Reply, cfg.connectID)
			if f.Push != nil {
				chans[i] = f.Push.Channel
			}
		}
		classes, replyIdx := judgeOrder(kinds, chans, connectChannels)
		c.Eval(1)
		var replySeq int64 = -1
		if replyIdx >= 0 {
			replySeq = frames[replyIdx].Seq
			c.Count("p1_connect_replies_observed", 1)
		} else {
			c.Count("p1_connections_closed_before_connect_reply", 1)
		}
		if cfg.PositionedAny {
			c.Count("p1_connections_with_positioned_subs", 1)
		} else {
			c.Count("p1_connections_without_positioned_subs", 1)
		}
		// racing operations that reached the client before its connect reply was written
		landed := map[string]bool{}
		for _, o := range ops {
			if o.User != cfg.User || !o.InHub {
				continue
			}
			if replySeq < 0 || o.CallSeq < replySeq {
				c.Count("p1_op_started_in_hub_before_connect_reply_"+o.Kind, 1)
				landed[o.Kind] = true
			}
		}
		head := kinds
		if replyIdx >= 0 {
			head = kinds[:replyIdx+1]
		}
		if len(head) > 12 {
			head = head[:12]
		}
		if len(classes) > 0 {
			var opl []opRec
			for _, o := range ops {
				if o.User == cfg.User {
					opl = append(opl, *o)
				}
			}
			for cls, why := range classes {
				c.Count("p1_violations_"+cls, 1)
				report(c, cls, fmt.Sprintf("connection %d (%s, user %s): %s; the connect reply is frame %d of %d", cfg.Idx, cfg.Proto, cfg.User, why, replyIdx, len(frames)),
					map[string]any{"config": cfg, "frames_up_to_connect_reply": head, "racing_operations": opl})
			}
		}
		sigParts = append(sigParts, fmt.Sprintf("%s:pos%v:rwq%v:first=%s:landed=%s", cfg.Proto, cfg.PositionedAny, cfg.ReplyWithoutQueue, first(kinds), strings.Join(keysOf(landed), ",")))
		if c.Index < 64 {
			c.Sample(map[string]any{"part": 1, "config": cfg, "frames_up_to_connect_reply": head, "frames": len(frames), "ops_before_reply": keysOf(landed)})
		}
		if c.Verbose {
			for i, f := range frames {
				c.Logf("conn %d frame %d seq=%d %s %s", cfg.Idx, i, f.Seq, kinds[i], string(f.Raw))
			}
		}
	}
	sort.Strings(sigParts)
	c.Nontrivial("p1|" + strings.Join(sigParts, "|"))
	for _, cfg := range cfgs {
		_ = cfg.conn.CloseFn()
	}
	w.Shutdown()
}

func first(kinds []string) string {
	if len(kinds) == 0 {
		return "nothing"
	}
	return kinds[0]
}

func keysOf(m map[string]bool) []string {
	out := make([]string, 0, len(m))
	for k := range m {
		out = append(out, k)
	}
	sort.Strings(out)
	return out
}

// inBubble runs fn inside a synctest bubble the way kit.Main does for Spec.Bubble.
func inBubble(c *kit.Case, fn func(c *kit.Case)) {
	defer func() {
		// timers pooled by centrifuge are bound to the bubble that created them
		runtime.GC()
		runtime.GC()
	}()
	outer := c.T
	synctest.Test(outer, func(bt *testing.T) {
		defer func() {
			if r := recover(); r != nil {
				report(c, "panic:"+fmt.Sprint(r), fmt.Sprintf("panic: %v", r), string(debug.Stack()))
			}
		}()
		c.T = bt
		c.Bubble = true
		fn(c)
	})
	c.T = outer
	c.Bubble = false
}

func runCase(c *kit.Case) {
	if c.Index%2 == 0 {
		inBubble(c, runPart1)
		return
	}
	runPart2(c)
}

func TestC11(t *testing.T) {
	kit.Main(t, kit.Spec{
		ID:    "C11",
		Level: "exploration",
		Rule: "even case indexes (part 1): one virtual-time bubble with 1-2 bidirectional kit.RecTransport connections (JSON/Protobuf, optionally the same user) whose OnConnecting returns 1-3 server-side subscriptions (plain / plain with history / positioned / recoverable, join-leave, presence; ReplyWithoutQueue and WriteDelay varied), publishers on those channels, and 3-14 timed racing operations (Client.Send on clients taken from the hub, Node.Subscribe, Node.Unsubscribe, Node.Refresh, Node.Publish, sometimes Node.Disconnect); " +
			"connect.afterAddClient is widened by a virtual sleep, connect.beforeReply by a sleep (no positioned subscription), connect.beforeReply/afterReply by launching an operation and busy-yielding (positioned subscriptions: recovery-buffer lock held); oracle: the first frame handed to the transport is the connect reply (a lone disconnect push is accepted when no connect reply is ever written). " +
			"Odd case indexes (part 2): real time, real NewWebsocketHandler (httptest) with Config.DictionaryCompression set to a recording engine, 4-8 raw WebSocket connections per case built with internal/websocket.Dialer (JSON/Protobuf; flag advertised or not; engine declining, naming a held id, naming an unheld id; ReplyWithoutQueue, WriteDelay), publications / Client.Send / Node.Subscribe / client pings and RPCs at PRNG-chosen moments, a racing operation inside the connect window, ended by server disconnect, client close, close during connect or during a burst; " +
			"oracle: first data frame is the untagged connect reply, every later frame carries the tag of exactly one Encode call in call order, Close exactly once per created DictionaryConnection, never during an Encode, no Encode after Close (checked inside Encode/Close with atomics). Non-trivial = a connection whose frame sequence was judged; signature = configuration x first frame kind x racing operations that reached the client before its connect reply x how the connection ended.",
		Assumptions: []string{
			"Client.Send is applied to clients obtained from Node.Hub().UserConnections, i.e. only once the client is registered",
			"a disconnect push that is the only thing written (no connect reply ever) is accepted: it is how the protocol refuses a connection",
			"part 2: when the raw client sees the server's TCP close less than 3 s after the close frame, the handler goroutine has left its read loop, so connectCmd and Client.close are over and DictionaryConnection.Close must have been called; OnDisconnect runs after CloseDictionaryCompression in Client.close, so Close must have been called when it fires",
			"part 2 waits are bounded (10-45 s); a timeout makes the case inconclusive",
			"each violation class is reported at most 3 times per child process (the rest is counted in violations_observed_<class>) so that a frequent finding does not truncate the run",
			"the recording engine sleeps up to 300 microseconds inside Encode and Close to widen overlap windows",
		},
		Cases:       map[string]int{"quick": 640, "thorough": 9600},
		CaseTimeout: 300 * time.Second,
		RequireCounters: []string{
			"p1_connect_replies_observed", "p1_connections_with_positioned_subs", "p1_connections_without_positioned_subs",
			"p1_op_started_in_hub_before_connect_reply_send", "p1_op_started_in_hub_before_connect_reply_nsub", "p1_op_started_in_hub_before_connect_reply_refresh",
			"p1_op_started_in_hub_before_connect_reply_publish", "p1_op_started_in_hub_before_connect_reply_disconnect",
			"p2_connections_negotiated", "p2_connections_not_negotiated", "p2_tagged_frames_checked", "p2_encoder_closed_cause_server_disconnect", "p2_encoder_closed_cause_client_close",
			"p2_encoder_closed_cause_disconnect_during_connect", "p2_encoder_closed_cause_client_close_immediately", "p2_encoder_closed_cause_unheld_id_refused", "p2_close_checked_at_on_disconnect",
		},
		Run: runCase,
	})
}
