// C11: The connect reply is the first server message.
//
// Even case indexes (part 1) run inside a testing/synctest bubble over kit.RecTransport: a
// bidirectional connection whose OnConnecting returns server-side subscriptions connects while
// publishers publish to those channels and Node.Subscribe / Unsubscribe / Refresh / Disconnect
// for the user and Client.Send (client taken from the hub) run concurrently; the windows inside
// connectCmd are widened at the yield points. Oracle: the first frame the transport receives
// is the connect reply.
//
// Odd case indexes (part 2, ws.go) run in real time against the real WebsocketHandler with a
// recording DictionaryCompression engine and a raw WebSocket client; some of its connections meet
// a slow engine on a node whose stale-connection timer fires while the engine call is blocked.
//
// Part 3 (second bubble of the even case indexes): the harness's own DictionaryAwareTransport,
// a slow engine (virtual sleep inside NewDictionaryConnection / Dictionary()) and a close from
// Client.Disconnect, the transport's close function or the stale-connection timer landing before,
// during or after that call; every encoder handed to the library must have been closed exactly
// once when the connection is completely over.
package c11

import (
	"context"
	"fmt"
	"runtime"
	"runtime/debug"
	"sort"
	"strings"
	"sync"
	"sync/atomic"
	"testing"
	"testing/synctest"
	"time"

	"github.com/centrifugal/centrifuge"
	"github.com/centrifugal/centrifuge/verifx/kit"
	"github.com/centrifugal/protocol"
)

const (
	// a push produced by a server API call (Client.Send, Node.Subscribe/Unsubscribe/Refresh)
	// on a client that is registered in the hub but has not been sent its connect reply yet
	classAPIPush = "c11-server-api-push-precedes-connect-reply"
	// a publication on a connect-time server-side subscription channel written before the
	// connect reply that establishes the subscription
	classPubPush = "c11-publication-push-precedes-connect-reply"
	// anything else that is first on the wire instead of the connect reply
	classOther = "c11-first-frame-is-not-the-connect-reply"
)

type subSpec struct {
	Channel   string
	Mode      string // plain | plain_history | positioned | recoverable
	JoinLeave bool
	Presence  bool
}

func (s subSpec) positioned() bool { return s.Mode == "positioned" || s.Mode == "recoverable" }
func (s subSpec) history() bool    { return s.Mode != "plain" }

type connCfg struct {
	Idx               int
	User              string
	Proto             string
	Subs              []subSpec
	ReplyWithoutQueue bool
	WriteDelayMs      int
	StartMs           int
	SleepAfterAdd     int // ms, at connect.afterAddClient
	SleepBeforeReply  int // ms, only without positioned subscriptions
	SleepAfterReply   int
	SpinPoint         string // with positioned subscriptions: point at which SpinOp is launched
	SpinOp            string
	PositionedAny     bool
	conn              *kit.Conn
	connectID         uint32
	spun              atomic.Bool
}

type opRec struct {
	Kind    string
	User    string
	AtMs    int
	CallSeq int64
	RetSeq  int64
	InHub   bool // the user's client was registered in the hub when the operation started
	Via     string
}

type p1 struct {
	c     *kit.Case
	w     *kit.World
	node  *centrifuge.Node
	mu    sync.Mutex
	byCl  map[*centrifuge.Client]*connCfg
	ops   []*opRec
	pubN  atomic.Int64
	extra string
}

func (s *p1) record(kind, user string, at int, via string) *opRec {
	o := &opRec{Kind: kind, User: user, AtMs: at, Via: via}
	o.InHub = len(s.node.Hub().UserConnections(user)) > 0
	o.CallSeq = s.w.Seq()
	s.mu.Lock()
	s.ops = append(s.ops, o)
	s.mu.Unlock()
	return o
}

func (s *p1) done(o *opRec) {
	s.mu.Lock()
	o.RetSeq = s.w.Seq()
	s.mu.Unlock()
}

// doOp performs one racing operation against user.
func (s *p1) doOp(kind, user string, at int, via string, cfg *connCfg) {
	o := s.record(kind, user, at, via)
	defer s.done(o)
	switch kind {
	case "send":
		for _, cl := range s.node.Hub().UserConnections(user) {
			_ = cl.Send([]byte(`{"racer":"send"}`))
		}
	case "nsub":
		_ = s.node.Subscribe(user, s.extra)
	case "nunsub_extra":
		_ = s.node.Unsubscribe(user, s.extra)
	case "nunsub_conn":
		if cfg != nil && len(cfg.Subs) > 0 {
			_ = s.node.Unsubscribe(user, cfg.Subs[0].Channel)
		}
	case "refresh":
		_ = s.node.Refresh(user, centrifuge.WithRefreshExpireAt(time.Now().Unix()+3600))
	case "disconnect":
		_ = s.node.Disconnect(user)
	case "publish":
		if cfg != nil && len(cfg.Subs) > 0 {
			s.publish(cfg.Subs[int(o.CallSeq)%len(cfg.Subs)])
		}
	}
}

func (s *p1) publish(sub subSpec) {
	n := s.pubN.Add(1)
	var opts []centrifuge.PublishOption
	if sub.history() {
		opts = append(opts, centrifuge.WithHistory(50, time.Minute))
	}
	_, _ = s.node.Publish(sub.Channel, []byte(fmt.Sprintf(`{"n":%d}`, n)), opts...)
}

func (s *p1) hook(point string, cl *centrifuge.Client, _ string) {
	if cl == nil {
		return
	}
	s.mu.Lock()
	cfg := s.byCl[cl]
	s.mu.Unlock()
	if cfg == nil {
		return
	}
	switch point {
	case "connect.afterAddClient":
		// no lock held here: sleeping is allowed
		if cfg.SleepAfterAdd > 0 {
			time.Sleep(time.Duration(cfg.SleepAfterAdd) * time.Millisecond)
		}
	case "connect.beforeReply", "connect.afterReply":
		if cfg.PositionedAny {
			// inside the recovery-buffer lock window: never sleep; launch the racing
			// operation on another goroutine and busy-yield.
			if cfg.SpinPoint == point && cfg.SpinOp != "" && cfg.spun.CompareAndSwap(false, true) {
				var entered atomic.Bool
				go func() {
					entered.Store(true)
					s.doOp(cfg.SpinOp, cfg.User, -1, "spin@"+point, cfg)
				}()
				kit.SpinUntil(entered.Load, 10000)
				kit.Yield(300)
			}
			return
		}
		d := cfg.SleepBeforeReply
		if point == "connect.afterReply" {
			d = cfg.SleepAfterReply
		}
		if d > 0 {
			time.Sleep(time.Duration(d) * time.Millisecond)
		}
	}
}

func pushKind(p *protocol.Push) string {
	switch {
	case p == nil:
		return "none"
	case p.Pub != nil:
		return "pub"
	case p.Join != nil:
		return "join"
	case p.Leave != nil:
		return "leave"
	case p.Message != nil:
		return "message"
	case p.Subscribe != nil:
		return "subscribe"
	case p.Unsubscribe != nil:
		return "unsubscribe"
	case p.Refresh != nil:
		return "refresh"
	case p.Disconnect != nil:
		return "disconnect"
	case p.Connect != nil:
		return "connect_push"
	}
	return "push_other"
}

func replyKind(r *protocol.Reply, connectID uint32) string {
	if r == nil {
		return "undecodable"
	}
	if r.Id == connectID && r.Id != 0 {
		if r.Connect != nil {
			return "connect_reply"
		}
		if r.Error != nil {
			return "connect_error"
		}
	}
	if r.Push != nil {
		return pushKind(r.Push)
	}
	if r.Id == 0 {
		return "ping"
	}
	return "reply"
}

// judgeOrder applies the oracle to the decoded frame kinds of one connection. channels are the
// connect-time server-side subscription channels. It returns the classes violated.
func judgeOrder(kinds []string, chans []string, connectChannels map[string]bool) (classes map[string]string, replyIdx int) {
	classes = map[string]string{}
	replyIdx = -1
	for i, k := range kinds {
		if k == "connect_reply" || k == "connect_error" {
			replyIdx = i
			break
		}
	}
	end := replyIdx
	if replyIdx < 0 {
		// no connect reply at all: the connection was closed during connect. A disconnect
		// push alone is the protocol's way to refuse a connection; anything else was
		// written to a client that never got its connect reply.
		end = len(kinds)
	}
	for i := 0; i < end; i++ {
		k := kinds[i]
		if replyIdx < 0 && k == "disconnect" {
			break
		}
		switch k {
		case "pub", "join", "leave":
			if connectChannels[chans[i]] && k == "pub" {
				setOnce(classes, classPubPush, fmt.Sprintf("frame %d is a publication push on connect-time channel %q", i, chans[i]))
			} else {
				// a channel push on a channel subscribed through a racing Node.Subscribe
				setOnce(classes, classAPIPush, fmt.Sprintf("frame %d is a %s push on channel %q", i, k, chans[i]))
			}
		case "message", "subscribe", "unsubscribe", "refresh", "disconnect":
			setOnce(classes, classAPIPush, fmt.Sprintf("frame %d is a %s push", i, k))
		default:
			setOnce(classes, classOther, fmt.Sprintf("frame %d is %s", i, k))
		}
	}
	return classes, replyIdx
}

// Every class is reported at most reportCap times per child process (later occurrences are only
// counted): the runner stops a child after 50 violations, and a defect that fires in most cases
// would otherwise truncate the run.
const reportCap = 3

var (
	reportMu    sync.Mutex
	reportCount = map[string]int{}
)

func report(c *kit.Case, class, msg string, detail any) {
	reportMu.Lock()
	reportCount[class]++
	n := reportCount[class]
	reportMu.Unlock()
	c.Count("violations_observed_"+class, 1)
	if n > reportCap {
		return
	}
	c.Violation(class, msg, detail)
}

func setOnce(m map[string]string, k, v string) {
	if _, ok := m[k]; !ok {
		m[k] = v
	}
}

func runPart1(c *kit.Case) {
	r := c.R
	w := kit.NewWorld(c)
	s := &p1{c: c, w: w, byCl: map[*centrifuge.Client]*connCfg{}, extra: "c11:extra"}

	nConn := r.Range(1, 2)
	sameUser := nConn == 2 && r.Chance(1, 3)
	cfgs := make([]*connCfg, nConn)
	byUserName := map[string]*connCfg{}
	for i := range cfgs {
		cfg := &connCfg{Idx: i, User: fmt.Sprintf("u%d", i), Proto: kit.Pick(r, []string{"json", "protobuf"})}
		if sameUser {
			cfg.User = "u0"
		}
		for j, n := 0, r.Range(1, 3); j < n; j++ {
			cfg.Subs = append(cfg.Subs, subSpec{
				Channel:   fmt.Sprintf("c11:ch%d", r.Intn(3)),
				Mode:      kit.Pick(r, []string{"plain", "plain", "plain_history", "positioned", "recoverable"}),
				JoinLeave: r.Chance(1, 3),
				Presence:  r.Chance(1, 3),
			})
		}
		// one entry per channel
		seen := map[string]bool{}
		var subs []subSpec
		for _, sp := range cfg.Subs {
			if !seen[sp.Channel] {
				seen[sp.Channel] = true
				subs = append(subs, sp)
				if sp.positioned() {
					cfg.PositionedAny = true
				}
			}
		}
		cfg.Subs = subs
		cfg.ReplyWithoutQueue = r.Chance(1, 5)
		cfg.WriteDelayMs = kit.Pick(r, []int{0, 0, 0, 1, 3})
		cfg.StartMs = r.Range(0, 12)
		cfg.SleepAfterAdd = kit.Pick(r, []int{0, 1, 2, 5, 9, 14})
		if cfg.PositionedAny {
			cfg.SpinPoint = kit.Pick(r, []string{"", "connect.beforeReply", "connect.afterReply"})
			cfg.SpinOp = kit.Pick(r, []string{"send", "nsub", "refresh", "publish", "disconnect", "nunsub_extra"})
		} else {
			cfg.SleepBeforeReply = kit.Pick(r, []int{0, 0, 1, 4, 8})
			// no sleep at connect.afterReply: when a racing Disconnect closed the client, the
			// failed reply enqueue spawns a second close() that blocks on connectMu while the
			// first one waits (holding it) for the reservation's subscribingCh, which connectCmd
			// closes only after this point; a mutex waiter is not durably blocked, so a sleep
			// here would freeze the bubble's clock.
			cfg.SleepAfterReply = 0
		}
		cfgs[i] = cfg
		byUserName[fmt.Sprintf("conn%d", i)] = cfg
	}
	// channel -> mode must be consistent across connections (history is a channel property here)
	modeOf := map[string]subSpec{}
	for _, cfg := range cfgs {
		for j, sp := range cfg.Subs {
			if m, ok := modeOf[sp.Channel]; ok {
				sp.Mode = m.Mode
				cfg.Subs[j] = sp
			} else {
				modeOf[sp.Channel] = sp
			}
		}
		cfg.PositionedAny = false
		for _, sp := range cfg.Subs {
			if sp.positioned() {
				cfg.PositionedAny = true
			}
		}
		if cfg.PositionedAny {
			cfg.SleepBeforeReply, cfg.SleepAfterReply = 0, 0
			if cfg.SpinOp == "" {
				cfg.SpinPoint = kit.Pick(r, []string{"", "connect.beforeReply", "connect.afterReply"})
				cfg.SpinOp = kit.Pick(r, []string{"send", "nsub", "refresh", "publish", "disconnect", "nunsub_extra"})
			}
		} else {
			cfg.SpinPoint, cfg.SpinOp = "", ""
		}
	}

	node, _ := w.NewNode(centrifuge.Config{ClientStaleCloseDelay: time.Hour}, func(n *centrifuge.Node) {
		n.OnConnecting(func(_ context.Context, e centrifuge.ConnectEvent) (centrifuge.ConnectReply, error) {
			cfg := byUserName[e.Name]
			if cfg == nil {
				return centrifuge.ConnectReply{}, centrifuge.DisconnectBadRequest
			}
			rep := centrifuge.ConnectReply{
				Credentials:       &centrifuge.Credentials{UserID: cfg.User},
				Subscriptions:     map[string]centrifuge.SubscribeOptions{},
				ReplyWithoutQueue: cfg.ReplyWithoutQueue,
				WriteDelay:        time.Duration(cfg.WriteDelayMs) * time.Millisecond,
			}
			for _, sp := range cfg.Subs {
				o := centrifuge.SubscribeOptions{EmitJoinLeave: sp.JoinLeave, PushJoinLeave: sp.JoinLeave, EmitPresence: sp.Presence}
				switch sp.Mode {
				case "positioned":
					o.EnablePositioning = true
				case "recoverable":
					o.EnableRecovery = true
				}
				rep.Subscriptions[sp.Channel] = o
			}
			return rep, nil
		})
	})
	s.node = node
	kit.SetHook(node, s.hook)

	horizon := 45 // ms of activity
	var wg sync.WaitGroup
	// history before anybody connects
	for _, sp := range modeOf {
		if sp.history() {
			for i, n := 0, r.Range(0, 4); i < n; i++ {
				s.publish(sp)
			}
		}
	}
	// publishers
	for _, sp := range modeOf {
		gaps := make([]int, r.Range(6, 30))
		for i := range gaps {
			gaps[i] = r.Range(0, 3)
		}
		wg.Add(1)
		go func(sp subSpec) {
			defer wg.Done()
			for _, g := range gaps {
				time.Sleep(time.Duration(g)*time.Millisecond + time.Duration(100)*time.Microsecond)
				s.publish(sp)
			}
		}(sp)
	}
	// racers
	opKinds := []string{"send", "send", "nsub", "nunsub_extra", "nunsub_conn", "refresh", "publish"}
	nOps := r.Range(3, 14)
	disconnectAt := -1
	if r.Chance(1, 4) {
		disconnectAt = r.Range(0, horizon)
	}
	for i := 0; i < nOps; i++ {
		kind := kit.Pick(r, opKinds)
		cfg := kit.Pick(r, cfgs)
		at := r.Range(0, 30)
		us := r.Intn(1000)
		wg.Add(1)
		go func() {
			defer wg.Done()
			time.Sleep(time.Duration(at)*time.Millisecond + time.Duration(us)*time.Microsecond)
			s.doOp(kind, cfg.User, at, "timed", cfg)
		}()
	}
	if disconnectAt >= 0 {
		cfg := kit.Pick(r, cfgs)
		wg.Add(1)
		go func() {
			defer wg.Done()
			time.Sleep(time.Duration(disconnectAt) * time.Millisecond)
			s.doOp("disconnect", cfg.User, disconnectAt, "timed", cfg)
		}()
	}
	// connections
	for _, cfg := range cfgs {
		pt := centrifuge.ProtocolTypeJSON
		if cfg.Proto == "protobuf" {
			pt = centrifuge.ProtocolTypeProtobuf
		}
		conn := w.NewConn(node, kit.TransportOpts{Protocol: pt})
		cfg.conn = conn
		s.mu.Lock()
		s.byCl[conn.Client] = cfg
		s.mu.Unlock()
		wg.Add(1)
		go func(cfg *connCfg) {
			defer wg.Done()
			time.Sleep(time.Duration(cfg.StartMs) * time.Millisecond)
			cfg.connectID = cfg.conn.Connect(&protocol.ConnectRequest{Name: fmt.Sprintf("conn%d", cfg.Idx)})
		}(cfg)
	}
	wg.Wait()
	time.Sleep(2 * time.Second)
	synctest.Wait()

	// ---- oracle
	var sigParts []string
	s.mu.Lock()
	ops := append([]*opRec(nil), s.ops...)
	s.mu.Unlock()
	for _, cfg := range cfgs {
		frames := cfg.conn.T.Frames()
		connectChannels := map[string]bool{}
		for _, sp := range cfg.Subs {
			connectChannels[sp.Channel] = true
		}
		kinds := make([]string, len(frames))
		chans := make([]string, len(frames))
		for i, f := range frames {
			if f.DecodeErr != "" {
				kinds[i] = "undecodable"
				continue
			}
			kinds[i] = replyKind(f.Reply, cfg.connectID)
			if f.Push != nil {
				chans[i] = f.Push.Channel
			}
		}
		classes, replyIdx := judgeOrder(kinds, chans, connectChannels)
		c.Eval(1)
		var replySeq int64 = -1
		if replyIdx >= 0 {
			replySeq = frames[replyIdx].Seq
			c.Count("p1_connect_replies_observed", 1)
		} else {
			c.Count("p1_connections_closed_before_connect_reply", 1)
		}
		if cfg.PositionedAny {
			c.Count("p1_connections_with_positioned_subs", 1)
		} else {
			c.Count("p1_connections_without_positioned_subs", 1)
		}
		// racing operations that reached the client before its connect reply was written
		landed := map[string]bool{}
		for _, o := range ops {
			if o.User != cfg.User || !o.InHub {
				continue
			}
			if replySeq < 0 || o.CallSeq < replySeq {
				c.Count("p1_op_started_in_hub_before_connect_reply_"+o.Kind, 1)
				landed[o.Kind] = true
			}
		}
		head := kinds
		if replyIdx >= 0 {
			head = kinds[:replyIdx+1]
		}
		if len(head) > 12 {
			head = head[:12]
		}
		if len(classes) > 0 {
			var opl []opRec
			for _, o := range ops {
				if o.User == cfg.User {
					opl = append(opl, *o)
				}
			}
			for cls, why := range classes {
				c.Count("p1_violations_"+cls, 1)
				report(c, cls, fmt.Sprintf("connection %d (%s, user %s): %s; the connect reply is frame %d of %d", cfg.Idx, cfg.Proto, cfg.User, why, replyIdx, len(frames)),
					map[string]any{"config": cfg, "frames_up_to_connect_reply": head, "racing_operations": opl})
			}
		}
		sigParts = append(sigParts, fmt.Sprintf("%s:pos%v:rwq%v:first=%s:landed=%s", cfg.Proto, cfg.PositionedAny, cfg.ReplyWithoutQueue, first(kinds), strings.Join(keysOf(landed), ",")))
		if c.Index < 64 {
			c.Sample(map[string]any{"part": 1, "config": cfg, "frames_up_to_connect_reply": head, "frames": len(frames), "ops_before_reply": keysOf(landed)})
		}
		if c.Verbose {
			for i, f := range frames {
				c.Logf("conn %d frame %d seq=%d %s %s", cfg.Idx, i, f.Seq, kinds[i], string(f.Raw))
			}
		}
	}
	sort.Strings(sigParts)
	c.Nontrivial("p1|" + strings.Join(sigParts, "|"))
	for _, cfg := range cfgs {
		_ = cfg.conn.CloseFn()
	}
	w.Shutdown()
}

func first(kinds []string) string {
	if len(kinds) == 0 {
		return "nothing"
	}
	return kinds[0]
}

func keysOf(m map[string]bool) []string {
	out := make([]string, 0, len(m))
	for k := range m {
		out = append(out, k)
	}
	sort.Strings(out)
	return out
}

// ---------------------------------------------------------------------------------------------
// part 3: a slow compression engine and a close that lands during its call (virtual time)
//
// The real WebSocket handler processes the connect command on the goroutine that owns the read
// loop, so over it only the stale-connection timer can close a connection while the engine is
// consulted (part 2 drives that). Here the transport is the harness's own DictionaryAwareTransport
// (the interface is exported for exactly that) over kit.RecTransport inside a bubble, which makes
// the other origins of a close available: Client.Disconnect, the transport's close function, the
// stale-connection timer in virtual time. connectCmd holds no mutex while it calls
// NewDictionaryConnection / Dictionary(), so the engine may sleep (virtual time) there.

// dictTransport mirrors websocketTransport's handling of the encoder: SetDictionaryCompression
// parks it for one frame (the connect reply), the first write promotes it, every later message
// goes through Encode, CloseDictionaryCompression closes whichever of the two slots is occupied.
type dictTransport struct {
	*kit.RecTransport
	w           *kit.World
	compression atomic.Pointer[centrifuge.DictionaryConnection]
	pending     atomic.Pointer[centrifuge.DictionaryConnection]

	mu        sync.Mutex
	wire      [][]byte
	setSeqs   []int64
	closeSeqs []int64
}

func (t *dictTransport) SetDictionaryCompression(cc centrifuge.DictionaryConnection) {
	t.mu.Lock()
	t.setSeqs = append(t.setSeqs, t.w.Seq())
	t.mu.Unlock()
	t.pending.Store(&cc)
}

func (t *dictTransport) CloseDictionaryCompression() {
	t.mu.Lock()
	t.closeSeqs = append(t.closeSeqs, t.w.Seq())
	t.mu.Unlock()
	if ccp := t.compression.Swap(nil); ccp != nil {
		(*ccp).Close()
		return
	}
	if ccp := t.pending.Swap(nil); ccp != nil {
		(*ccp).Close()
	}
}

func (t *dictTransport) Write(m []byte) error { return t.WriteMany(m) }

func (t *dictTransport) WriteMany(ms ...[]byte) error {
	if closed, _, _ := t.Closed(); closed {
		return nil
	}
	for _, m := range ms {
		out := m
		if ccp := t.compression.Load(); ccp != nil {
			out, _ = (*ccp).Encode(m)
		} else if t.pending.Load() != nil {
			if p := t.pending.Swap(nil); p != nil {
				t.compression.Store(p)
			}
		}
		t.mu.Lock()
		t.wire = append(t.wire, append([]byte(nil), out...))
		t.mu.Unlock()
	}
	return t.RecTransport.WriteMany(ms...)
}

type p3Conn struct {
	Plan     *wsPlan
	Origin   string // client_disconnect | close_fn | stale_timer | none: where the racing close comes from
	When     string // in_engine_call: launched from inside the slow engine call | timed: AtMs after the connect command
	AtMs     int
	EngineMs int // virtual duration of every slow engine call
	StartMs  int
	Pubs     int
	EndBy    string // for connections that got connected: client_disconnect | close_fn | node_disconnect

	t       *dictTransport
	cl      *centrifuge.Client
	closeFn centrifuge.ClientCloseFunc
	ready   chan struct{}
	fired   atomic.Bool
	// world sequence numbers around the slow engine calls
	engineEnter atomic.Int64
	engineExit  atomic.Int64
}

const p3ConnectID = 7

func (pc *p3Conn) fire() {
	if !pc.fired.CompareAndSwap(false, true) {
		return
	}
	switch pc.Origin {
	case "client_disconnect":
		pc.cl.Disconnect(centrifuge.DisconnectForceNoReconnect)
	case "close_fn":
		go func() { _ = pc.closeFn() }()
	}
}

func decodeOne(proto string, b []byte) *protocol.Reply {
	var rep protocol.Reply
	if proto == "protobuf" {
		if err := rep.UnmarshalVT(b); err != nil {
			return nil
		}
		return &rep
	}
	r, err := protocol.NewJSONReplyDecoder(b).Decode()
	if err != nil {
		return nil
	}
	return r
}

func runPart3(c *kit.Case) {
	r := c.R
	w := kit.NewWorld(c)
	eng := &recEngine{plans: map[string]*wsPlan{}, conns: map[string][]*recDC{}}
	staleMs := kit.Pick(r, []int{15, 30, 3600000})
	nConn := r.Range(2, 4)
	conns := make([]*p3Conn, nConn)
	byName := map[string]*p3Conn{}
	for i := range conns {
		p := &wsPlan{Idx: i, User: fmt.Sprintf("v%d", i), Name: fmt.Sprintf("p3c%d", i)}
		p.Proto = kit.Pick(r, []string{"json", "protobuf"})
		p.Advertise = !r.Chance(1, 10)
		p.Mode = kit.Pick(r, []string{"normal", "normal", "normal", "held", "held", "decline", "unheld"})
		p.Channel = fmt.Sprintf("c11:v%d", i)
		// no delays inside Encode / Close: Close runs with the connection's connect mutex held
		pc := &p3Conn{Plan: p, ready: make(chan struct{})}
		pc.Origin = kit.Pick(r, []string{"client_disconnect", "client_disconnect", "close_fn", "close_fn", "stale_timer", "none"})
		if pc.Origin == "stale_timer" && staleMs > 1000 {
			pc.Origin = kit.Pick(r, []string{"client_disconnect", "close_fn"})
		}
		pc.When = kit.Pick(r, []string{"in_engine_call", "in_engine_call", "timed"})
		pc.StartMs = r.Range(0, 6)
		pc.EngineMs = r.Range(1, 25)
		pc.AtMs = r.Range(0, 30)
		if pc.Origin == "stale_timer" {
			// the timer runs from the creation of the client (StartMs): make the engine outlast it
			pc.EngineMs = staleMs + r.Range(1, 10)
		}
		pc.Pubs = r.Range(0, 5)
		pc.EndBy = kit.Pick(r, []string{"client_disconnect", "close_fn", "node_disconnect"})
		if !r.Chance(1, 8) {
			sl := &slowSpec{At: kit.Pick(r, []string{"new", "new", "dictionary", "both"})}
			sl.wait = func(string) {
				sl.entered.Add(1)
				pc.engineEnter.CompareAndSwap(0, w.Seq())
				if pc.When == "in_engine_call" {
					pc.fire()
				}
				// connectCmd holds no mutex here, and nothing in a close() waits for connectCmd
				// before the client is registered: a virtual sleep cannot freeze the bubble
				time.Sleep(time.Duration(pc.EngineMs) * time.Millisecond)
				pc.engineExit.Store(w.Seq())
			}
			p.Slow = sl
		} else {
			pc.When = "timed"
		}
		conns[i] = pc
		byName[p.Name] = pc
		eng.plans[p.User] = p
	}

	node, _ := w.NewNode(centrifuge.Config{DictionaryCompression: eng, ClientStaleCloseDelay: time.Duration(staleMs) * time.Millisecond}, func(n *centrifuge.Node) {
		n.OnConnecting(func(_ context.Context, e centrifuge.ConnectEvent) (centrifuge.ConnectReply, error) {
			pc := byName[e.Name]
			if pc == nil {
				return centrifuge.ConnectReply{}, centrifuge.DisconnectBadRequest
			}
			return centrifuge.ConnectReply{
				Credentials:   &centrifuge.Credentials{UserID: pc.Plan.User},
				Subscriptions: map[string]centrifuge.SubscribeOptions{pc.Plan.Channel: {}},
			}, nil
		})
		n.OnConnect(func(cl *centrifuge.Client) {})
	})

	var wg sync.WaitGroup
	for _, pc := range conns {
		pc := pc
		p := pc.Plan
		if pc.When == "timed" && pc.Origin != "none" && pc.Origin != "stale_timer" {
			wg.Add(1)
			go func() {
				defer wg.Done()
				<-pc.ready
				time.Sleep(time.Duration(pc.AtMs)*time.Millisecond + 100*time.Microsecond)
				pc.fire()
			}()
		}
		wg.Add(1)
		go func() {
			defer wg.Done()
			time.Sleep(time.Duration(pc.StartMs) * time.Millisecond)
			pt := centrifuge.ProtocolTypeJSON
			if p.Proto == "protobuf" {
				pt = centrifuge.ProtocolTypeProtobuf
			}
			pc.t = &dictTransport{RecTransport: w.NewTransport(kit.TransportOpts{Protocol: pt}), w: w}
			cl, closeFn, err := centrifuge.NewClient(context.Background(), node, pc.t)
			if err != nil {
				panic(fmt.Sprintf("c11 part 3: NewClient: %v", err))
			}
			pc.cl, pc.closeFn = cl, closeFn
			close(pc.ready)
			req := &protocol.ConnectRequest{Name: p.Name}
			if p.Advertise {
				req.Flag = centrifuge.ConnectionFlagDictionaryCompression
			}
			if p.Mode == "held" {
				req.Dict = "held-dict-id"
			}
			cmd := &protocol.Command{Id: p3ConnectID, Connect: req}
			cl.HandleCommand(cmd, cmd.SizeVT())
			// a connection that got through: traffic through the encoder, then an ordinary end
			for i := 0; i < pc.Pubs; i++ {
				if closed, _, _ := pc.t.Closed(); closed {
					break
				}
				_, _ = node.Publish(p.Channel, []byte(fmt.Sprintf(`{"n":%d}`, i)))
				_ = cl.Send([]byte(`{"p3":"send"}`))
				time.Sleep(time.Millisecond)
			}
			switch pc.EndBy {
			case "client_disconnect":
				cl.Disconnect(centrifuge.DisconnectForceNoReconnect)
			case "close_fn":
				_ = closeFn()
			case "node_disconnect":
				_ = node.Disconnect(p.User)
			}
		}()
	}
	wg.Wait()
	time.Sleep(2 * time.Second)
	synctest.Wait()
	for _, pc := range conns {
		_ = pc.closeFn()
	}
	time.Sleep(time.Second)
	synctest.Wait()
	w.Shutdown()

	// ---- oracle: every connection is completely over now (all goroutines of the bubble but this
	// one have exited or are durably blocked, the node is shut down)
	var sigs []string
	for _, pc := range conns {
		p := pc.Plan
		c.Eval(1)
		c.Count("p3_connections_judged", 1)
		eng.mu.Lock()
		dcs := append([]*recDC(nil), eng.conns[p.User]...)
		eng.mu.Unlock()
		pc.t.mu.Lock()
		wire := append([][]byte(nil), pc.t.wire...)
		setSeqs := append([]int64(nil), pc.t.setSeqs...)
		closeSeqs := append([]int64(nil), pc.t.closeSeqs...)
		pc.t.mu.Unlock()
		_, disc, _ := pc.t.Closed()
		endedBy := "other"
		switch disc.Code {
		case centrifuge.DisconnectStale.Code:
			endedBy = "stale_timer"
		case centrifuge.DisconnectForceNoReconnect.Code:
			endedBy = "client_disconnect"
		case centrifuge.DisconnectConnectionClosed.Code:
			endedBy = "close_fn"
		}
		enter, exit := pc.engineEnter.Load(), pc.engineExit.Load()
		landed := false
		if enter > 0 && len(closeSeqs) > 0 && closeSeqs[0] > enter && closeSeqs[0] < exit {
			// close() reached CloseDictionaryCompression while the engine call was in progress
			landed = true
			c.Count("p3_close_landed_during_slow_engine_call_"+endedBy, 1)
			c.Count("p3_close_landed_during_slow_engine_call_at_"+p.Slow.At, 1)
		}
		installedAfterClose := len(setSeqs) > 0 && len(closeSeqs) > 0 && closeSeqs[0] < setSeqs[0]
		if installedAfterClose {
			c.Count("p3_encoder_installed_after_close_had_closed_compression", 1)
		}
		detail := map[string]any{"connection": pc, "engine_call_seq": []int64{enter, exit}, "set_dictionary_compression_seq": setSeqs,
			"close_dictionary_compression_seq": closeSeqs, "transport_closed_with": disc, "wire_frames": len(wire), "stale_close_delay_ms": staleMs}
		if len(dcs) > 1 {
			report(c, classOther, fmt.Sprintf("part 3 connection %d: NewDictionaryConnection produced %d encoders for one connection", p.Idx, len(dcs)), detail)
		}
		state := "no_encoder"
		for _, dc := range dcs {
			detail["encode_calls"] = dc.calls.Load()
			detail["close_calls"] = dc.closed.Load()
			switch n := dc.closed.Load(); {
			case n == 0:
				state = "never_closed"
				why := "the connection is over (transport closed, node shut down, bubble quiescent)"
				if landed {
					why += fmt.Sprintf("; close() (%s) ran while the engine was inside its slow %s call, so the encoder was handed over after the connection's one-shot close had called CloseDictionaryCompression", endedBy, p.Slow.At)
				}
				report(c, classNeverClosed, fmt.Sprintf("part 3 connection %d: DictionaryConnection.Close was never called although %s", p.Idx, why), detail)
			case n == 1:
				state = "closed_once"
				c.Count("p3_encoder_closed_exactly_once", 1)
				if landed {
					c.Count("p3_encoder_handed_over_during_close_closed_exactly_once", 1)
				}
			default:
				state = "closed_more_than_once" // reported by the engine itself
			}
			if dc.mode == "unheld" && dc.calls.Load() > 0 {
				report(c, classUnheldInstalled, fmt.Sprintf("part 3 connection %d: Encode was called %d times on an encoder that named a dictionary the client never advertised", p.Idx, dc.calls.Load()), detail)
			}
		}
		// wire: when the connect reply is the first frame it is untagged and everything after it
		// carries the tag of one Encode call, in call order
		first := "nothing"
		if len(wire) > 0 {
			body, tagged := wire[0], hasTag(wire[0])
			if tagged {
				body = body[tagLen:]
			}
			first = replyKind(decodeOne(p.Proto, body), p3ConnectID)
			if len(dcs) == 1 && dcs[0].mode != "unheld" && first == "connect_reply" {
				dc := dcs[0]
				if tagged {
					report(c, classReplyEncoded, fmt.Sprintf("part 3 connection %d: the connect reply went through Encode", p.Idx), detail)
				} else {
					c.Count("p3_untagged_connect_reply_first", 1)
					for i := 1; i < len(wire); i++ {
						f := wire[i]
						if !hasTag(f) {
							report(c, classBypass, fmt.Sprintf("part 3 connection %d: frame %d (after the connect reply) carries no encoder tag", p.Idx, i), detail)
							break
						}
						id, ctr := uint32(f[4])<<24|uint32(f[5])<<16|uint32(f[6])<<8|uint32(f[7]), uint64(0)
						for _, b := range f[8:16] {
							ctr = ctr<<8 | uint64(b)
						}
						if id != dc.id || ctr != uint64(i) {
							report(c, classTagOrder, fmt.Sprintf("part 3 connection %d: frame %d carries tag (encoder %d, call %d), expected (encoder %d, call %d)", p.Idx, i, id, ctr, dc.id, i), detail)
							break
						}
						c.Count("p3_tagged_frames_checked", 1)
					}
				}
			} else if len(dcs) == 0 || dcs[0].mode == "unheld" {
				for i, f := range wire {
					if hasTag(f) {
						report(c, classNotNegotiated, fmt.Sprintf("part 3 connection %d: frame %d carries an encoder tag although compression was not negotiated", p.Idx, i), detail)
						break
					}
				}
			}
		}
		slowAt := "none"
		if p.Slow != nil {
			slowAt = p.Slow.At
		}
		sigs = append(sigs, fmt.Sprintf("%s:%s:adv%v:slow=%s:%s/%s:landed%v:after%v:end=%s:first=%s:%s", p.Proto, p.Mode, p.Advertise, slowAt, pc.Origin, pc.When, landed, installedAfterClose, endedBy, first, state))
		if c.Index < 64 {
			c.Sample(map[string]any{"part": 3, "connection": pc, "close_landed_during_engine_call": landed, "ended_by": endedBy, "encoder": state, "wire_frames": len(wire)})
		}
	}
	eng.mu.Lock()
	viol := append([]engViol(nil), eng.viol...)
	eng.mu.Unlock()
	seen := map[string]bool{}
	for _, v := range viol {
		c.Count("p3_engine_reports_"+v.Class, 1)
		if seen[v.Class+v.User] {
			continue
		}
		seen[v.Class+v.User] = true
		report(c, v.Class, fmt.Sprintf("part 3 user %s: %s", v.User, v.Msg), map[string]any{"plan": eng.plans[v.User]})
	}
	sort.Strings(sigs)
	c.Nontrivial("p3|" + strings.Join(sigs, "|"))
}

// inBubble runs fn inside a synctest bubble the way kit.Main does for Spec.Bubble.
func inBubble(c *kit.Case, fn func(c *kit.Case)) {
	defer func() {
		// timers pooled by centrifuge are bound to the bubble that created them
		runtime.GC()
		runtime.GC()
	}()
	outer := c.T
	synctest.Test(outer, func(bt *testing.T) {
		defer func() {
			if r := recover(); r != nil {
				report(c, "panic:"+fmt.Sprint(r), fmt.Sprintf("panic: %v", r), string(debug.Stack()))
			}
		}()
		c.T = bt
		c.Bubble = true
		fn(c)
	})
	c.T = outer
	c.Bubble = false
}

func runCase(c *kit.Case) {
	if c.Index%2 == 0 {
		inBubble(c, runPart1)
		// part 3 draws from c.R after part 1 has made all its choices
		inBubble(c, runPart3)
		return
	}
	runPart2(c)
}

func TestC11(t *testing.T) {
	kit.Main(t, kit.Spec{
		ID:    "C11",
		Level: "exploration",
		Rule: "even case indexes (part 1): one virtual-time bubble with 1-2 bidirectional kit.RecTransport connections (JSON/Protobuf, optionally the same user) whose OnConnecting returns 1-3 server-side subscriptions (plain / plain with history / positioned / recoverable, join-leave, presence; ReplyWithoutQueue and WriteDelay varied), publishers on those channels, and 3-14 timed racing operations (Client.Send on clients taken from the hub, Node.Subscribe, Node.Unsubscribe, Node.Refresh, Node.Publish, sometimes Node.Disconnect); " +
			"connect.afterAddClient is widened by a virtual sleep, connect.beforeReply by a sleep (no positioned subscription), connect.beforeReply/afterReply by launching an operation and busy-yielding (positioned subscriptions: recovery-buffer lock held); oracle: the first frame handed to the transport is the connect reply (a lone disconnect push is accepted when no connect reply is ever written). " +
			"Odd case indexes (part 2): real time, real NewWebsocketHandler (httptest) with Config.DictionaryCompression set to a recording engine, 4-8 raw WebSocket connections per case built with internal/websocket.Dialer (JSON/Protobuf; flag advertised or not; engine declining, naming a held id, naming an unheld id; ReplyWithoutQueue, WriteDelay), publications / Client.Send / Node.Subscribe / client pings and RPCs at PRNG-chosen moments, a racing operation inside the connect window, ended by server disconnect, client close, close during connect or during a burst; " +
			"oracle: first data frame is the untagged connect reply, every later frame carries the tag of exactly one Encode call in call order, Close exactly once per created DictionaryConnection, never during an Encode, no Encode after Close (checked inside Encode/Close with atomics). Slow engine: 0-2 extra part 2 connections per case on a second node (ClientStaleCloseDelay 20-50 ms) whose NewDictionaryConnection and/or Dictionary() blocks until the raw client has read the connection's end (the stale-connection timer is the only close that can land there over the real WebSocket handler) or sleeps 0.2 ms - a little more than the stale delay; same oracle. " +
			"Part 3 (second bubble of the even case indexes): 2-4 connections over the harness's DictionaryAwareTransport (websocketTransport's pending/promote/close logic over kit.RecTransport), engine call slow by a virtual sleep (connectCmd holds no mutex there) at new / dictionary / both, racing close from Client.Disconnect, the close function of the transport, or the stale-connection timer (15/30 ms), launched from inside the engine call or at a PRNG-chosen time; connections that get through carry publications and sends and are ended by Client.Disconnect / close function / Node.Disconnect; oracle after the node is shut down and the bubble quiescent: every DictionaryConnection handed to the library was closed exactly once, no Encode after or during Close, untagged connect reply first and tagged frames in call order. " +
			"Non-trivial = a connection whose frame sequence was judged; signature = configuration x first frame kind x racing operations that reached the client before its connect reply x how the connection ended.",
		Assumptions: []string{
			"Client.Send is applied to clients obtained from Node.Hub().UserConnections, i.e. only once the client is registered",
			"a disconnect push that is the only thing written (no connect reply ever) is accepted: it is how the protocol refuses a connection",
			"part 2: when the raw client sees the server's TCP close less than 3 s after the close frame, the handler goroutine has left its read loop, so connectCmd and Client.close are over and DictionaryConnection.Close must have been called; OnDisconnect runs after CloseDictionaryCompression in Client.close, so Close must have been called when it fires",
			"part 2 waits are bounded (10-45 s); a timeout makes the case inconclusive",
			"each violation class is reported at most 3 times per child process (the rest is counted in violations_observed_<class>) so that a frequent finding does not truncate the run",
			"the recording engine sleeps up to 300 microseconds inside Encode and Close to widen overlap windows",
			"part 2 slow engine: the gate inside the engine call opens when the raw client's read fails (close frame or EOF); Client.close writes the close frame after CloseDictionaryCompression, so the encoder is handed over after the one-shot close is past that call; the verdict uses the same end-of-connection events as the other part 2 connections (the server closes the TCP connection only after the handler left its read loop, i.e. after connectCmd returned)",
			"part 3: the transport is harness code implementing the exported DictionaryAwareTransport the way websocketTransport does; Node.Disconnect cannot reach a client during the engine call (it is registered in the hub later), so it is only used to end connected clients",
		},
		Cases:       map[string]int{"quick": 640, "thorough": 9600},
		CaseTimeout: 300 * time.Second,
		RequireCounters: []string{
			"p1_connect_replies_observed", "p1_connections_with_positioned_subs", "p1_connections_without_positioned_subs",
			"p1_op_started_in_hub_before_connect_reply_send", "p1_op_started_in_hub_before_connect_reply_nsub", "p1_op_started_in_hub_before_connect_reply_refresh",
			"p1_op_started_in_hub_before_connect_reply_publish", "p1_op_started_in_hub_before_connect_reply_disconnect",
			"p2_connections_negotiated", "p2_connections_not_negotiated", "p2_tagged_frames_checked", "p2_encoder_closed_cause_server_disconnect", "p2_encoder_closed_cause_client_close",
			"p2_encoder_closed_cause_disconnect_during_connect", "p2_encoder_closed_cause_client_close_immediately", "p2_encoder_closed_cause_unheld_id_refused", "p2_close_checked_at_on_disconnect",
			"p2_slow_engine_close_landed_during_engine_call_stale_timer", "p2_slow_engine_encoder_handed_over_after_close_had_finished", "p2_slow_engine_call_entered_at_new", "p2_slow_engine_call_entered_at_dictionary", "p2_slow_engine_connections_short",
			"p3_close_landed_during_slow_engine_call_client_disconnect", "p3_close_landed_during_slow_engine_call_close_fn", "p3_close_landed_during_slow_engine_call_stale_timer",
			"p3_close_landed_during_slow_engine_call_at_new", "p3_close_landed_during_slow_engine_call_at_dictionary", "p3_close_landed_during_slow_engine_call_at_both",
			"p3_encoder_installed_after_close_had_closed_compression", "p3_encoder_handed_over_during_close_closed_exactly_once", "p3_encoder_closed_exactly_once", "p3_tagged_frames_checked",
		},
		Run: runCase,
	})
}
