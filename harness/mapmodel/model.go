// Package mapmodel is the reference model of a map channel (state + stream +
// idempotency cache) shared by the C20 / C21 / C24 checks. It is written from the
// property statement of C20 and the documented contract in map_broker.go, not from
// map_broker_memory.go: state is the fold of the unsuppressed operations, checks
// apply in the order version -> key mode -> compare-and-swap, a suppressed
// operation changes nothing (except the documented RefreshTTLOnSuppress), and each
// unsuppressed operation of a stream-backed channel appends exactly one entry.
package mapmodel

import (
	"fmt"
	"sort"
	"strings"
)

const (
	ModeEphemeral   = 1
	ModeRecoverable = 2
	ModePersistent  = 3
)

// Pos is a stream position.
type Pos struct {
	Offset uint64 `json:"offset"`
	Epoch  string `json:"epoch"`
}

// Cfg is the part of MapChannelOptions the model depends on.
type Cfg struct {
	Mode       int   `json:"mode"`
	Ordered    bool  `json:"ordered"`
	KeyTTLms   int64 `json:"key_ttl_ms"`
	StreamSize int   `json:"stream_size"`
}

func (c Cfg) HasStream() bool { return c.Mode == ModeRecoverable || c.Mode == ModePersistent }

func (c Cfg) ModeName() string {
	switch c.Mode {
	case ModeEphemeral:
		return "ephemeral"
	case ModeRecoverable:
		return "recoverable"
	case ModePersistent:
		return "persistent"
	}
	return "?"
}

// Entry is one key of the state.
type Entry struct {
	Data         string
	Tags         string
	Score        int64
	Offset       uint64
	ExpireAt     int64 // virtual UnixMilli, 0 = never
	Version      uint64
	VersionEpoch string
}

// PubView is the observable part of a publication (state entry, stream entry or broadcast).
type PubView struct {
	Key     string `json:"key"`
	Data    string `json:"data,omitempty"`
	Removed bool   `json:"removed,omitempty"`
	Offset  uint64 `json:"offset"`
	Score   int64  `json:"score,omitempty"`
	Tags    string `json:"tags,omitempty"`
}

type idem struct {
	Pos      Pos
	ExpireAt int64
}

// Chan is the model of one channel. Epoch == "" means the channel object does not
// exist in the broker yet (the epoch is random, the model learns it from the first
// observation that reveals it).
type Chan struct {
	Cfg    Cfg
	Epoch  string
	Top    uint64
	State  map[string]Entry
	Stream []PubView
	Idem   map[string]idem
}

func NewChan(cfg Cfg) *Chan {
	return &Chan{Cfg: cfg, State: map[string]Entry{}, Idem: map[string]idem{}}
}

func (m *Chan) Clone() *Chan {
	n := &Chan{Cfg: m.Cfg, Epoch: m.Epoch, Top: m.Top,
		State: make(map[string]Entry, len(m.State)), Idem: make(map[string]idem, len(m.Idem))}
	for k, v := range m.State {
		n.State[k] = v
	}
	for k, v := range m.Idem {
		n.Idem[k] = v
	}
	n.Stream = append([]PubView(nil), m.Stream...)
	return n
}

// Fingerprint is a canonical rendering used as the equality of model states.
func (m *Chan) Fingerprint() string {
	var b strings.Builder
	fmt.Fprintf(&b, "%s|%d|", m.Epoch, m.Top)
	keys := make([]string, 0, len(m.State))
	for k := range m.State {
		keys = append(keys, k)
	}
	sort.Strings(keys)
	for _, k := range keys {
		e := m.State[k]
		fmt.Fprintf(&b, "%q=%q,%q,%d,%d,%d,%d,%q;", k, e.Data, e.Tags, e.Score, e.Offset, e.ExpireAt, e.Version, e.VersionEpoch)
	}
	b.WriteString("|")
	for _, s := range m.Stream {
		fmt.Fprintf(&b, "%d:%q:%v:%q;", s.Offset, s.Key, s.Removed, s.Data)
	}
	b.WriteString("|")
	ik := make([]string, 0, len(m.Idem))
	for k := range m.Idem {
		ik = append(ik, k)
	}
	sort.Strings(ik)
	for _, k := range ik {
		fmt.Fprintf(&b, "%q=%d,%q,%d;", k, m.Idem[k].Pos.Offset, m.Idem[k].Pos.Epoch, m.Idem[k].ExpireAt)
	}
	return b.String()
}

// TagStr renders tags canonically ("" for none).
func TagStr(t map[string]string) string {
	if len(t) == 0 {
		return ""
	}
	ks := make([]string, 0, len(t))
	for k := range t {
		ks = append(ks, k)
	}
	sort.Strings(ks)
	var b strings.Builder
	for _, k := range ks {
		fmt.Fprintf(&b, "%s=%s;", k, t[k])
	}
	return b.String()
}

// Op is one broker call on a channel.
type Op struct {
	Kind string `json:"kind"` // publish | remove | clear | read_state | read_stream
	Key  string `json:"key,omitempty"`

	Data         string            `json:"data,omitempty"`
	Tags         map[string]string `json:"tags,omitempty"`
	Score        int64             `json:"score,omitempty"`
	KeyMode      string            `json:"key_mode,omitempty"` // "" | if_new | if_exists
	Refresh      bool              `json:"refresh_ttl_on_suppress,omitempty"`
	Version      uint64            `json:"version,omitempty"`
	VersionEpoch string            `json:"version_epoch,omitempty"`
	Idem         string            `json:"idempotency_key,omitempty"`
	IdemTTLms    int64             `json:"idempotent_result_ttl_ms,omitempty"`
	CAS          *Pos              `json:"expected_position,omitempty"`

	// reads
	Limit    int   `json:"limit,omitempty"`
	Asc      bool  `json:"asc,omitempty"`
	Revision *Pos  `json:"revision,omitempty"`
	Since    *Pos  `json:"since,omitempty"`
	Reverse  bool  `json:"reverse,omitempty"`
	NowMs    int64 `json:"now_ms,omitempty"` // virtual time of the call (filled by the driver)
}

// Cur mirrors MapCurrentEntry.
type Cur struct {
	Offset uint64 `json:"offset"`
	Data   string `json:"data"`
}

// Res is what a call returned.
type Res struct {
	Err        string    `json:"err,omitempty"` // "" | unrecoverable | other error text
	Suppressed bool      `json:"suppressed,omitempty"`
	Reason     string    `json:"reason,omitempty"`
	Pos        Pos       `json:"pos"`
	Cur        *Cur      `json:"current_entry,omitempty"`
	Pubs       []PubView `json:"pubs,omitempty"`
	Cursor     string    `json:"cursor,omitempty"`
}

// Note tells the caller which documented path an operation took (coverage counters).
type Note struct {
	Unsuppressed    bool
	Bcast           *PubView // expected broadcast (nil for suppressed ops, reads, clear)
	WouldVersion    bool     // the version check alone would suppress
	WouldKeyMode    bool     // the key mode check alone would suppress
	WouldCAS        bool     // the CAS check alone would suppress
	TTLRefreshed    bool
	CASSuccess      bool
	EphemeralReject bool
	VersionWildcard bool // opts.VersionEpoch=="" compared against a stored non-empty epoch (outcome left open)
	IdemExpiredMiss bool // idempotency key was cached but its result TTL had elapsed
	Trimmed         bool
}

// Mismatch describes a difference between the observation and the model.
type Mismatch struct {
	Class string
	Msg   string
}

func mm(class, format string, a ...any) *Mismatch {
	return &Mismatch{Class: class, Msg: fmt.Sprintf(format, a...)}
}

func (m *Chan) pos() Pos { return Pos{Offset: m.Top, Epoch: m.Epoch} }

// learn makes the channel exist; the (random) epoch is taken from the observation.
func (m *Chan) learn(obsEpoch string) *Mismatch {
	if m.Epoch != "" {
		return nil
	}
	if obsEpoch == "" {
		return mm("result-position-differs", "call that creates the channel returned an empty epoch")
	}
	m.Epoch = obsEpoch
	return nil
}

func (m *Chan) appendStream(p PubView) (trimmed bool) {
	m.Stream = append(m.Stream, p)
	for len(m.Stream) > m.Cfg.StreamSize {
		m.Stream = m.Stream[1:]
		trimmed = true
	}
	return
}

// Step applies op (called at virtual time now) to m IN PLACE and compares obs with what the
// reference allows. Where the contract leaves the outcome open (unknown random epoch,
// version-epoch wildcard, position reported for a channel that does not exist) the
// observation decides. Callers that need purity Clone first.
func (m *Chan) Step(op Op, now int64, obs Res) (Note, *Mismatch) {
	switch op.Kind {
	case "publish":
		return m.publish(op, now, obs)
	case "remove":
		return m.remove(op, now, obs)
	case "clear":
		if obs.Err != "" {
			return Note{}, mm("unexpected-error", "Clear returned %q", obs.Err)
		}
		m.State = map[string]Entry{}
		m.Stream = nil
		m.Top = 0
		m.Epoch = ""
		m.Idem = map[string]idem{}
		return Note{}, nil
	case "read_state":
		return Note{}, m.readState(op, obs)
	case "read_stream":
		return Note{}, m.readStream(op, obs)
	}
	return Note{}, mm("harness-bug", "unknown op kind %q", op.Kind)
}

func cmpUpdate(kind string, want, got Res) *Mismatch {
	if got.Err != "" {
		return mm("unexpected-error", "%s returned error %q, reference expects %+v", kind, got.Err, want)
	}
	if want.Suppressed != got.Suppressed || want.Reason != got.Reason {
		return mm(kind+"-suppress-outcome-differs", "%s: got suppressed=%v reason=%q, reference says suppressed=%v reason=%q",
			kind, got.Suppressed, got.Reason, want.Suppressed, want.Reason)
	}
	if want.Pos != got.Pos {
		return mm("result-position-differs", "%s (suppressed=%v reason=%q): got position %+v, reference says %+v", kind, got.Suppressed, got.Reason, got.Pos, want.Pos)
	}
	if (want.Cur == nil) != (got.Cur == nil) || (want.Cur != nil && *want.Cur != *got.Cur) {
		return mm("cas-current-entry-differs", "%s: CurrentEntry got %+v, reference says %+v", kind, got.Cur, want.Cur)
	}
	return nil
}

func (m *Chan) publish(op Op, now int64, obs Res) (Note, *Mismatch) {
	var note Note
	cfg := m.Cfg
	if cfg.Mode == ModeEphemeral && (op.CAS != nil || op.Version > 0) {
		note.EphemeralReject = true
		if obs.Err == "" {
			return note, mm("ephemeral-cas-or-version-accepted", "publish with CAS/Version on an ephemeral channel did not fail: %+v", obs)
		}
		return note, nil
	}
	if op.Idem != "" {
		if e, ok := m.Idem[op.Idem]; ok {
			if e.ExpireAt > now {
				return note, cmpUpdate("publish", Res{Suppressed: true, Reason: "idempotency", Pos: e.Pos}, obs)
			}
			note.IdemExpiredMiss = true
		}
	}
	if obs.Err != "" {
		return note, mm("unexpected-error", "publish returned error %q", obs.Err)
	}
	if e := m.learn(obs.Pos.Epoch); e != nil {
		return note, e
	}
	cur, exists := m.State[op.Key]

	// what each check says on its own
	if cfg.HasStream() && op.Version > 0 && exists && op.Version <= cur.Version {
		if op.VersionEpoch == cur.VersionEpoch {
			note.WouldVersion = true
		} else if op.VersionEpoch == "" {
			// empty epoch against a stored non-empty one: "use when only incremental version
			// matters" vs "different epochs reset version comparison": left open.
			note.VersionWildcard = true
			if obs.Suppressed && obs.Reason == "version" {
				note.WouldVersion = true
			}
		}
	}
	if (op.KeyMode == "if_new" && exists) || (op.KeyMode == "if_exists" && !exists) {
		note.WouldKeyMode = true
	}
	if op.CAS != nil && (!exists || cur.Offset != op.CAS.Offset || m.Epoch != op.CAS.Epoch) {
		note.WouldCAS = true
	}

	// canonical order: version -> key mode -> CAS
	if note.WouldVersion {
		return note, cmpUpdate("publish", Res{Suppressed: true, Reason: "version", Pos: m.pos()}, obs)
	}
	if note.WouldKeyMode {
		want := Res{Suppressed: true, Pos: m.pos()}
		if op.KeyMode == "if_new" {
			want.Reason = "key_exists"
			if op.Refresh && cfg.KeyTTLms > 0 {
				cur.ExpireAt = now + cfg.KeyTTLms
				m.State[op.Key] = cur
				note.TTLRefreshed = true
			}
		} else {
			want.Reason = "key_not_found"
		}
		return note, cmpUpdate("publish", want, obs)
	}
	if note.WouldCAS {
		want := Res{Suppressed: true, Reason: "position_mismatch", Pos: m.pos()}
		if exists {
			want.Cur = &Cur{Offset: cur.Offset, Data: cur.Data}
		}
		return note, cmpUpdate("publish", want, obs)
	}
	note.CASSuccess = op.CAS != nil

	// unsuppressed
	note.Unsuppressed = true
	pv := PubView{Key: op.Key, Data: op.Data, Score: op.Score, Tags: TagStr(op.Tags)}
	if cfg.HasStream() {
		m.Top++
		pv.Offset = m.Top
		note.Trimmed = m.appendStream(pv)
	} else {
		pv.Offset = m.Top
	}
	ver, vep := op.Version, op.VersionEpoch
	if ver == 0 && exists {
		ver, vep = cur.Version, cur.VersionEpoch
	}
	ent := Entry{Data: op.Data, Tags: pv.Tags, Score: op.Score, Offset: pv.Offset, Version: ver, VersionEpoch: vep}
	if cfg.KeyTTLms > 0 {
		ent.ExpireAt = now + cfg.KeyTTLms
	}
	m.State[op.Key] = ent
	if op.Idem != "" {
		ttl := int64(300000)
		if op.IdemTTLms != 0 {
			ttl = op.IdemTTLms
		}
		m.Idem[op.Idem] = idem{Pos: m.pos(), ExpireAt: now + ttl}
	}
	note.Bcast = &pv
	return note, cmpUpdate("publish", Res{Pos: m.pos()}, obs)
}

func (m *Chan) remove(op Op, now int64, obs Res) (Note, *Mismatch) {
	var note Note
	cfg := m.Cfg
	if cfg.Mode == ModeEphemeral && op.CAS != nil {
		note.EphemeralReject = true
		if obs.Err == "" {
			return note, mm("ephemeral-cas-or-version-accepted", "remove with CAS on an ephemeral channel did not fail: %+v", obs)
		}
		return note, nil
	}
	if op.Idem != "" {
		if e, ok := m.Idem[op.Idem]; ok {
			if e.ExpireAt > now {
				return note, cmpUpdate("remove", Res{Suppressed: true, Reason: "idempotency", Pos: e.Pos}, obs)
			}
			note.IdemExpiredMiss = true
		}
	}
	if obs.Err != "" {
		return note, mm("unexpected-error", "remove returned error %q", obs.Err)
	}
	if m.Epoch == "" {
		// channel does not exist: nothing to remove. The position reported for a channel
		// without metadata is not specified: accept the zero position or a fresh epoch.
		want := Res{Suppressed: true, Reason: "key_not_found", Pos: obs.Pos}
		if op.CAS != nil {
			want.Reason = "position_mismatch"
			note.WouldCAS = true
		}
		if obs.Pos.Offset != 0 {
			want.Pos = Pos{}
		}
		if obs.Pos.Offset == 0 && obs.Pos.Epoch != "" {
			m.Epoch = obs.Pos.Epoch
		}
		return note, cmpUpdate("remove", want, obs)
	}
	cur, exists := m.State[op.Key]
	if op.CAS != nil {
		if !exists {
			note.WouldCAS = true
			return note, cmpUpdate("remove", Res{Suppressed: true, Reason: "position_mismatch", Pos: m.pos()}, obs)
		}
		if cur.Offset != op.CAS.Offset || m.Epoch != op.CAS.Epoch {
			note.WouldCAS = true
			return note, cmpUpdate("remove", Res{Suppressed: true, Reason: "position_mismatch", Pos: m.pos(), Cur: &Cur{Offset: cur.Offset, Data: cur.Data}}, obs)
		}
		note.CASSuccess = true
	}
	if !exists {
		return note, cmpUpdate("remove", Res{Suppressed: true, Reason: "key_not_found", Pos: m.pos()}, obs)
	}
	note.Unsuppressed = true
	delete(m.State, op.Key)
	tags := cur.Tags
	if op.Tags != nil {
		tags = TagStr(op.Tags)
	}
	pv := PubView{Key: op.Key, Removed: true, Tags: tags}
	if cfg.HasStream() {
		m.Top++
		pv.Offset = m.Top
		note.Trimmed = m.appendStream(pv)
	} else {
		pv.Offset = m.Top
	}
	if op.Idem != "" {
		ttl := int64(300000)
		if op.IdemTTLms != 0 {
			ttl = op.IdemTTLms
		}
		m.Idem[op.Idem] = idem{Pos: m.pos(), ExpireAt: now + ttl}
	}
	note.Bcast = &pv
	return note, cmpUpdate("remove", Res{Pos: m.pos()}, obs)
}

// Due returns the keys whose TTL has elapsed at virtual time t (ExpireAt <= t), sorted.
func (m *Chan) Due(t int64) []string {
	var out []string
	for k, e := range m.State {
		if e.ExpireAt > 0 && e.ExpireAt <= t {
			out = append(out, k)
		}
	}
	sort.Strings(out)
	return out
}

// Expire removes key because its TTL elapsed and returns the expected removal broadcast.
func (m *Chan) Expire(key string) PubView {
	cur := m.State[key]
	delete(m.State, key)
	pv := PubView{Key: key, Removed: true, Tags: cur.Tags}
	if m.Cfg.HasStream() {
		m.Top++
		pv.Offset = m.Top
		m.appendStream(pv)
	} else {
		pv.Offset = m.Top
	}
	return pv
}

// SortedKeys returns the keys in the channel's documented sort order: ordered channels by
// (score, key) descending, or ascending with asc; unordered channels have no promised order
// (the keys are returned in byte order for convenience).
func (m *Chan) SortedKeys(asc bool) []string {
	keys := make([]string, 0, len(m.State))
	for k := range m.State {
		keys = append(keys, k)
	}
	if !m.Cfg.Ordered {
		sort.Strings(keys)
		return keys
	}
	sort.Slice(keys, func(i, j int) bool {
		si, sj := m.State[keys[i]].Score, m.State[keys[j]].Score
		if si != sj {
			if asc {
				return si < sj
			}
			return si > sj
		}
		if asc {
			return keys[i] < keys[j]
		}
		return keys[i] > keys[j]
	})
	return keys
}

func (m *Chan) View(key string) PubView {
	e := m.State[key]
	return PubView{Key: key, Data: e.Data, Offset: e.Offset, Score: e.Score, Tags: e.Tags}
}

func viewsEqual(a, b []PubView) bool {
	if len(a) != len(b) {
		return false
	}
	for i := range a {
		if a[i] != b[i] {
			return false
		}
	}
	return true
}

func sortViews(v []PubView) []PubView {
	out := append([]PubView(nil), v...)
	sort.Slice(out, func(i, j int) bool { return out[i].Key < out[j].Key })
	return out
}

func (m *Chan) readState(op Op, obs Res) *Mismatch {
	if m.Epoch == "" {
		// Reading a channel that does not exist establishes its epoch. Whether a Revision
		// (necessarily of another epoch) is then reported as unrecoverable is left open.
		if obs.Err != "" && !(obs.Err == "unrecoverable" && op.Revision != nil) {
			return mm("unexpected-error", "ReadState returned %q", obs.Err)
		}
		if e := m.learn(obs.Pos.Epoch); e != nil {
			return e
		}
		if op.Revision != nil {
			if len(obs.Pubs) != 0 {
				return mm("state-differs-from-model", "ReadState of a channel without data returned %+v", obs.Pubs)
			}
			return nil
		}
	}
	if op.Revision != nil && op.Revision.Epoch != m.Epoch {
		if obs.Err != "unrecoverable" {
			return mm("read-state-result-differs", "ReadState with Revision of another epoch returned err=%q, reference expects ErrorUnrecoverablePosition", obs.Err)
		}
		return nil
	}
	if obs.Err != "" {
		return mm("unexpected-error", "ReadState returned %q", obs.Err)
	}
	if obs.Pos != m.pos() {
		return mm("result-position-differs", "ReadState position %+v, reference says %+v", obs.Pos, m.pos())
	}
	if op.Key != "" {
		var want []PubView
		if _, ok := m.State[op.Key]; ok {
			want = []PubView{m.View(op.Key)}
		}
		if !viewsEqual(want, obs.Pubs) {
			return mm("state-differs-from-model", "ReadState(Key=%q) returned %+v, reference says %+v", op.Key, obs.Pubs, want)
		}
		return nil
	}
	if op.Limit == 0 {
		if len(obs.Pubs) != 0 {
			return mm("read-state-result-differs", "ReadState(Limit=0) returned %d entries", len(obs.Pubs))
		}
		return nil
	}
	keys := m.SortedKeys(op.Asc)
	all := make([]PubView, len(keys))
	for i, k := range keys {
		all[i] = m.View(k)
	}
	if op.Limit < 0 || op.Limit >= len(all) {
		if m.Cfg.Ordered {
			if !viewsEqual(all, obs.Pubs) {
				return mm("state-differs-from-model", "ReadState returned %+v, reference says %+v", obs.Pubs, all)
			}
		} else if !viewsEqual(sortViews(all), sortViews(obs.Pubs)) {
			return mm("state-differs-from-model", "ReadState returned %+v, reference says (any order) %+v", obs.Pubs, all)
		}
		if obs.Cursor != "" {
			return mm("read-state-result-differs", "ReadState returned the whole state and a non-empty cursor %q", obs.Cursor)
		}
		return nil
	}
	// first page of a larger state
	if len(obs.Pubs) != op.Limit {
		return mm("read-state-result-differs", "ReadState(Limit=%d) over %d keys returned %d entries", op.Limit, len(all), len(obs.Pubs))
	}
	if obs.Cursor == "" {
		return mm("read-state-result-differs", "ReadState(Limit=%d) over %d keys returned no cursor", op.Limit, len(all))
	}
	if m.Cfg.Ordered {
		if !viewsEqual(all[:op.Limit], obs.Pubs) {
			return mm("state-differs-from-model", "ReadState first page %+v, reference says %+v", obs.Pubs, all[:op.Limit])
		}
		return nil
	}
	seen := map[string]bool{}
	for _, p := range obs.Pubs {
		if _, ok := m.State[p.Key]; !ok || seen[p.Key] || p != m.View(p.Key) {
			return mm("state-differs-from-model", "ReadState page entry %+v is not (once) in the reference state", p)
		}
		seen[p.Key] = true
	}
	return nil
}

func (m *Chan) readStream(op Op, obs Res) *Mismatch {
	if m.Epoch == "" {
		// same as ReadState: the channel is created by the read; a Since of another epoch may
		// or may not be reported as unrecoverable.
		if obs.Err != "" && !(obs.Err == "unrecoverable" && op.Since != nil) {
			return mm("unexpected-error", "ReadStream returned %q", obs.Err)
		}
		if e := m.learn(obs.Pos.Epoch); e != nil {
			return e
		}
		if op.Since != nil {
			if len(obs.Pubs) != 0 {
				return mm("stream-differs-from-model", "ReadStream of a channel without data returned %+v", obs.Pubs)
			}
			return nil
		}
	}
	if op.Since != nil && op.Since.Epoch != "" && op.Since.Epoch != m.Epoch {
		if obs.Err != "unrecoverable" {
			return mm("read-stream-result-differs", "ReadStream since another epoch returned err=%q, reference expects ErrorUnrecoverablePosition", obs.Err)
		}
		return nil
	}
	if obs.Err != "" {
		return mm("unexpected-error", "ReadStream returned %q", obs.Err)
	}
	if obs.Pos != m.pos() {
		return mm("result-position-differs", "ReadStream position %+v, reference says %+v", obs.Pos, m.pos())
	}
	if op.Limit == 0 {
		if len(obs.Pubs) != 0 {
			return mm("read-stream-result-differs", "ReadStream(Limit=0) returned %d entries", len(obs.Pubs))
		}
		return nil
	}
	var want []PubView
	if !op.Reverse {
		for _, s := range m.Stream {
			if op.Since == nil || s.Offset > op.Since.Offset {
				want = append(want, s)
			}
		}
	} else {
		if op.Since != nil {
			// Reverse reads from a position: only "older than Since, newest first" is
			// implied by the contract; what happens when Since-1 is not retained is open.
			prev := op.Since.Offset
			for _, p := range obs.Pubs {
				if p.Offset >= prev {
					return mm("read-stream-result-differs", "reverse ReadStream since %d returned offset %d after %d", op.Since.Offset, p.Offset, prev)
				}
				prev = p.Offset
				if !m.inStream(p) {
					return mm("stream-differs-from-model", "reverse ReadStream returned %+v which is not in the reference stream", p)
				}
			}
			if op.Limit > 0 && len(obs.Pubs) > op.Limit {
				return mm("read-stream-result-differs", "ReadStream(Limit=%d) returned %d entries", op.Limit, len(obs.Pubs))
			}
			return nil
		}
		for i := len(m.Stream) - 1; i >= 0; i-- {
			want = append(want, m.Stream[i])
		}
	}
	if op.Limit > 0 && len(want) > op.Limit {
		want = want[:op.Limit]
	}
	if !viewsEqual(want, obs.Pubs) {
		return mm("stream-differs-from-model", "ReadStream(since=%+v limit=%d reverse=%v) returned %+v, reference says %+v", op.Since, op.Limit, op.Reverse, obs.Pubs, want)
	}
	return nil
}

func (m *Chan) inStream(p PubView) bool {
	for _, s := range m.Stream {
		if s == p {
			return true
		}
	}
	return false
}
