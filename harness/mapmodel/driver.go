package mapmodel

import (
	"context"
	"errors"
	"strconv"
	"strings"
	"sync"
	"time"

	"github.com/centrifugal/centrifuge"
)

// Call is one recorded BrokerEventHandler.HandlePublication call.
type Call struct {
	Ch     string  `json:"ch"`
	Pub    PubView `json:"pub"`
	SP     Pos     `json:"sp"`
	TimeMs int64   `json:"time_ms"` // virtual time of the call
	Seq    int     `json:"seq"`
}

// Recorder is a recording BrokerEventHandler.
type Recorder struct {
	mu    sync.Mutex
	calls []Call
	// OnCall, when set before the broker is used, runs at the end of every handler call (the
	// broker is then in the middle of Publish/Remove, still holding its per-channel publish lock):
	// the concurrent checks yield here so that other goroutines' calls overlap this one.
	OnCall func()
	// OnRecord, when set before the broker is used, receives every recorded call (after it was
	// appended; called without the recorder's lock).
	OnRecord func(Call)
}

func View(p *centrifuge.Publication) PubView {
	return PubView{Key: p.Key, Data: string(p.Data), Removed: p.Removed, Offset: p.Offset, Score: p.Score, Tags: TagStr(p.Tags)}
}

func (r *Recorder) HandlePublication(ch string, pub *centrifuge.Publication, sp centrifuge.StreamPosition, _ bool, _ *centrifuge.Publication) error {
	now := time.Now().UnixMilli()
	r.mu.Lock()
	cl := Call{Ch: ch, Pub: View(pub), SP: Pos{Offset: sp.Offset, Epoch: sp.Epoch}, TimeMs: now, Seq: len(r.calls)}
	r.calls = append(r.calls, cl)
	r.mu.Unlock()
	if r.OnRecord != nil {
		r.OnRecord(cl)
	}
	if r.OnCall != nil {
		r.OnCall()
	}
	return nil
}
func (r *Recorder) HandleJoin(string, *centrifuge.ClientInfo) error  { return nil }
func (r *Recorder) HandleLeave(string, *centrifuge.ClientInfo) error { return nil }

// Len returns the number of calls recorded so far.
func (r *Recorder) Len() int {
	r.mu.Lock()
	defer r.mu.Unlock()
	return len(r.calls)
}

// Since returns a copy of the calls recorded from index i on.
func (r *Recorder) Since(i int) []Call {
	r.mu.Lock()
	defer r.mu.Unlock()
	if i >= len(r.calls) {
		return nil
	}
	return append([]Call(nil), r.calls[i:]...)
}

// Env is a standalone memory map broker with a recording handler.
type Env struct {
	Node   *centrifuge.Node
	Broker *centrifuge.MemoryMapBroker
	Rec    *Recorder
}

// ChannelOptions converts a Cfg to MapChannelOptions. streamTTL/metaTTL zero = defaults.
func ChannelOptions(cfg Cfg, streamTTL, metaTTL time.Duration) centrifuge.MapChannelOptions {
	o := centrifuge.MapChannelOptions{KeyTTL: time.Duration(cfg.KeyTTLms) * time.Millisecond}
	switch cfg.Mode {
	case ModeEphemeral:
		o.Mode = centrifuge.MapModeEphemeral
	case ModeRecoverable:
		o.Mode = centrifuge.MapModeRecoverable
	case ModePersistent:
		o.Mode = centrifuge.MapModePersistent
	}
	if cfg.HasStream() {
		o.StreamSize = cfg.StreamSize
		o.StreamTTL = streamTTL
		o.MetaTTL = metaTTL
	}
	centrifuge.VerifSetMapOrdered(&o, cfg.Ordered)
	return o
}

// NewEnv creates a Node (never Run) and a standalone MemoryMapBroker whose handler is a Recorder.
// RegisterEventHandler starts the broker's four sweep goroutines; Close stops them.
func NewEnv(resolve func(ch string) centrifuge.MapChannelOptions) (*Env, error) {
	return NewEnvWith(resolve, &Recorder{})
}

// NewEnvWith is NewEnv with a caller-prepared Recorder (OnCall / OnRecord set before any
// broker goroutine exists).
func NewEnvWith(resolve func(ch string) centrifuge.MapChannelOptions, rec *Recorder) (*Env, error) {
	node, err := centrifuge.New(centrifuge.Config{
		Map: centrifuge.MapConfig{GetMapChannelOptions: resolve},
	})
	if err != nil {
		return nil, err
	}
	b, err := centrifuge.NewMemoryMapBroker(node, centrifuge.MemoryMapBrokerConfig{})
	if err != nil {
		return nil, err
	}
	if err := b.RegisterEventHandler(rec); err != nil {
		return nil, err
	}
	return &Env{Node: node, Broker: b, Rec: rec}, nil
}

// Close stops the broker goroutines and shuts the node down.
func (e *Env) Close() {
	_ = e.Broker.Close(context.Background())
	_ = e.Node.Shutdown(context.Background())
}

func errStr(err error) string {
	if err == nil {
		return ""
	}
	if errors.Is(err, centrifuge.ErrorUnrecoverablePosition) {
		return "unrecoverable"
	}
	return err.Error()
}

func sp(p *Pos) *centrifuge.StreamPosition {
	if p == nil {
		return nil
	}
	return &centrifuge.StreamPosition{Offset: p.Offset, Epoch: p.Epoch}
}

func views(pubs []*centrifuge.Publication) []PubView {
	if len(pubs) == 0 {
		return nil
	}
	out := make([]PubView, len(pubs))
	for i, p := range pubs {
		out[i] = View(p)
	}
	return out
}

func updateRes(r centrifuge.MapUpdateResult, err error) Res {
	res := Res{Err: errStr(err), Suppressed: r.Suppressed, Reason: string(r.SuppressReason),
		Pos: Pos{Offset: r.Position.Offset, Epoch: r.Position.Epoch}}
	if r.CurrentEntry != nil {
		res.Cur = &Cur{Offset: r.CurrentEntry.Offset, Data: string(r.CurrentEntry.Data)}
	}
	return res
}

// PublishOptions converts op to MapPublishOptions.
func PublishOptions(op Op) centrifuge.MapPublishOptions {
	o := centrifuge.MapPublishOptions{
		Data:                 []byte(op.Data),
		Tags:                 op.Tags,
		KeyMode:              centrifuge.KeyMode(op.KeyMode),
		RefreshTTLOnSuppress: op.Refresh,
		Version:              op.Version,
		VersionEpoch:         op.VersionEpoch,
		IdempotencyKey:       op.Idem,
		IdempotentResultTTL:  time.Duration(op.IdemTTLms) * time.Millisecond,
		ExpectedPosition:     sp(op.CAS),
	}
	centrifuge.VerifSetMapPublishScore(&o, op.Score)
	return o
}

// Exec runs op against the broker and converts the result. cursor is only used by read_state.
func Exec(b centrifuge.MapBroker, ch string, op Op, cursor string) Res {
	ctx := context.Background()
	switch op.Kind {
	case "publish":
		return updateRes(b.Publish(ctx, ch, op.Key, PublishOptions(op)))
	case "remove":
		return updateRes(b.Remove(ctx, ch, op.Key, centrifuge.MapRemoveOptions{
			IdempotencyKey: op.Idem, IdempotentResultTTL: time.Duration(op.IdemTTLms) * time.Millisecond,
			ExpectedPosition: sp(op.CAS), Tags: op.Tags,
		}))
	case "clear":
		return Res{Err: errStr(b.Clear(ctx, ch, centrifuge.MapClearOptions{}))}
	case "read_state":
		r, err := b.ReadState(ctx, ch, centrifuge.MapReadStateOptions{Revision: sp(op.Revision), Cursor: cursor, Limit: op.Limit, Key: op.Key, Asc: op.Asc})
		return Res{Err: errStr(err), Pos: Pos{Offset: r.Position.Offset, Epoch: r.Position.Epoch}, Pubs: views(r.Publications), Cursor: r.Cursor}
	case "read_stream":
		r, err := b.ReadStream(ctx, ch, centrifuge.MapReadStreamOptions{Filter: centrifuge.StreamFilter{Since: sp(op.Since), Limit: op.Limit, Reverse: op.Reverse}})
		return Res{Err: errStr(err), Pos: Pos{Offset: r.Position.Offset, Epoch: r.Position.Epoch}, Pubs: views(r.Publications)}
	}
	return Res{Err: "harness: unknown op"}
}

// Clean escapes control and non-ASCII bytes (keys contain NUL) so that verdict lines stay text.
func Clean(msg string) string {
	var b strings.Builder
	for _, r := range msg {
		if r >= 0x20 && r < 0x7f && r != '\\' {
			b.WriteRune(r)
			continue
		}
		q := strconv.QuoteRuneToASCII(r)
		b.WriteString(q[1 : len(q)-1])
	}
	return b.String()
}
