// C20: Memory map broker implements the map-state specification.
package c20

import (
	"fmt"
	"math"
	"runtime"
	"sort"
	"sync"
	"sync/atomic"
	"testing"
	"testing/synctest"
	"time"

	"github.com/anishathalye/porcupine"
	"github.com/centrifugal/centrifuge"
	"github.com/centrifugal/centrifuge/verifx/kit"
	mm "github.com/centrifugal/centrifuge/verifx/mapmodel"
)

var keyPool = []string{"a", "b", "k\x00z", "ключ"}

type chanCtx struct {
	name      string
	cfg       mm.Cfg
	m         *mm.Chan
	oldEpochs []string
}

type histEntry struct {
	T   int64   `json:"t_ms"` // virtual ms since the broker started
	Ch  string  `json:"ch"`
	Op  any     `json:"op"`
	Res *mm.Res `json:"res,omitempty"`
}

func genCfg(r *kit.Rand, longTTL bool) mm.Cfg {
	cfg := mm.Cfg{Mode: r.Range(1, 3), Ordered: r.Chance(2, 5)}
	if cfg.Mode != mm.ModePersistent {
		if longTTL {
			cfg.KeyTTLms = 600000
		} else {
			cfg.KeyTTLms = kit.Pick(r, []int64{1700, 2000, 4300, 30000, 600000})
		}
	}
	if cfg.HasStream() {
		cfg.StreamSize = kit.Pick(r, []int{1, 2, 3, 8, 100})
	}
	return cfg
}

func setup(r *kit.Rand, nch int, longTTL bool) ([]*chanCtx, func(string) centrifuge.MapChannelOptions) {
	chans := make([]*chanCtx, nch)
	byName := map[string]*chanCtx{}
	for i := range chans {
		cfg := genCfg(r, longTTL)
		chans[i] = &chanCtx{name: fmt.Sprintf("ch%d", i), cfg: cfg, m: mm.NewChan(cfg)}
		byName[chans[i].name] = chans[i]
	}
	resolve := func(ch string) centrifuge.MapChannelOptions {
		cc, ok := byName[ch]
		if !ok {
			return centrifuge.MapChannelOptions{}
		}
		// StreamTTL 10 min (MetaTTL auto-derived: 100 min / permanent): never crossed by a case.
		return mm.ChannelOptions(cc.cfg, 10*time.Minute, 0)
	}
	return chans, resolve
}

func bogusEpoch(r *kit.Rand, cc *chanCtx) string {
	if len(cc.oldEpochs) > 0 && r.Bool() {
		return kit.Pick(r, cc.oldEpochs)
	}
	return "zzzzzzzz"
}


func genPublish(r *kit.Rand, cc *chanCtx, keys []string, uniq string) mm.Op {
	m := cc.m
	op := mm.Op{Kind: "publish", Key: kit.Pick(r, keys), Data: "v" + uniq}
	cur, exists := m.State[op.Key]
	if r.Chance(3, 10) {
		op.Tags = map[string]string{"t": "x" + uniq}
	}
	if cc.cfg.Ordered {
		op.Score = int64(r.Range(-2, 2))
	}
	switch x := r.Intn(100); {
	case x < 25:
		op.KeyMode = "if_new"
	case x < 45:
		op.KeyMode = "if_exists"
	}
	op.Refresh = r.Bool()
	pVer, pCAS := 45, 30
	if cc.cfg.Mode == mm.ModeEphemeral {
		pVer, pCAS = 6, 5
	}
	if r.Chance(pVer, 100) {
		base := uint64(r.Range(1, 5))
		if exists && cur.Version > 0 {
			base = cur.Version
		}
		switch r.Intn(7) {
		case 0:
			if base > 1 {
				op.Version = base - 1
			} else {
				op.Version = base
			}
		case 1, 2:
			op.Version = base
		case 3:
			if base < math.MaxUint64 {
				op.Version = base + 1
			} else {
				op.Version = base
			}
		case 4:
			op.Version = 1
		case 5:
			op.Version = math.MaxUint64
		default:
			op.Version = uint64(r.Range(1, 9))
		}
		if exists && r.Chance(3, 5) {
			op.VersionEpoch = cur.VersionEpoch
		} else {
			op.VersionEpoch = kit.Pick(r, []string{"", "e1", "e2"})
		}
	}
	if r.Chance(1, 4) {
		op.Idem = kit.Pick(r, []string{"i1", "i2", "i3"})
		op.IdemTTLms = kit.Pick(r, []int64{0, 1500, 4000})
	}
	if r.Chance(pCAS, 100) {
		op.CAS = genCAS(r, cc, cur, exists)
	}
	return op
}

func genCAS(r *kit.Rand, cc *chanCtx, cur mm.Entry, exists bool) *mm.Pos {
	m := cc.m
	p := &mm.Pos{Offset: m.Top, Epoch: m.Epoch}
	if exists {
		p.Offset = cur.Offset
	}
	switch x := r.Intn(100); {
	case x < 60: // as read
	case x < 72:
		p.Offset++
	case x < 80:
		if p.Offset > 0 {
			p.Offset--
		}
	case x < 90:
		p.Epoch = bogusEpoch(r, cc)
	case x < 95:
		p.Epoch = ""
	default:
		p.Offset = 0
	}
	return p
}

func genOp(r *kit.Rand, cc *chanCtx, keys []string, uniq string) mm.Op {
	m := cc.m
	switch x := r.Intn(100); {
	case x < 60:
		return genPublish(r, cc, keys, uniq)
	case x < 79:
		op := mm.Op{Kind: "remove", Key: kit.Pick(r, keys)}
		cur, exists := m.State[op.Key]
		if r.Chance(1, 5) {
			op.Idem = kit.Pick(r, []string{"i1", "i2", "i3"})
			op.IdemTTLms = kit.Pick(r, []int64{0, 1500, 4000})
		}
		pCAS := 30
		if cc.cfg.Mode == mm.ModeEphemeral {
			pCAS = 5
		}
		if r.Chance(pCAS, 100) {
			op.CAS = genCAS(r, cc, cur, exists)
		}
		if r.Chance(3, 10) {
			op.Tags = map[string]string{"rm": uniq}
		}
		return op
	case x < 83:
		return mm.Op{Kind: "clear"}
	case x < 92:
		op := mm.Op{Kind: "read_state", Limit: kit.Pick(r, []int{-1, 0, 1, 2, 5}), Asc: r.Bool()}
		if r.Chance(2, 5) {
			op.Key = kit.Pick(r, keys)
		}
		if r.Chance(3, 10) {
			ep := m.Epoch
			if r.Chance(2, 5) || ep == "" {
				ep = bogusEpoch(r, cc)
			}
			op.Revision = &mm.Pos{Offset: m.Top, Epoch: ep}
		}
		return op
	default:
		op := mm.Op{Kind: "read_stream", Limit: kit.Pick(r, []int{-1, 0, 1, 2, 3, 10}), Reverse: r.Chance(1, 4)}
		if r.Chance(3, 5) {
			ep := kit.Pick(r, []string{"", m.Epoch, m.Epoch, bogusEpoch(r, cc)})
			op.Since = &mm.Pos{Offset: uint64(r.Range(0, int(m.Top)+2)), Epoch: ep}
		}
		return op
	}
}

func countNote(c *kit.Case, op mm.Op, res mm.Res, n mm.Note) {
	if op.Kind != "publish" && op.Kind != "remove" {
		return
	}
	if res.Suppressed {
		c.Count("suppress_"+res.Reason, 1)
		c.Count(op.Kind+"_suppress_"+res.Reason, 1)
	} else if res.Err == "" {
		c.Count("unsuppressed_"+op.Kind, 1)
	}
	if n.WouldVersion && n.WouldKeyMode {
		c.Count("order_version_before_keymode", 1)
	}
	if n.WouldVersion && n.WouldCAS {
		c.Count("order_version_before_cas", 1)
	}
	if !n.WouldVersion && n.WouldKeyMode && n.WouldCAS && op.Kind == "publish" {
		c.Count("order_keymode_before_cas", 1)
	}
	if n.TTLRefreshed {
		c.Count("ttl_refreshed_on_suppress", 1)
	}
	if n.CASSuccess && n.Unsuppressed {
		c.Count("cas_success", 1)
	}
	if n.EphemeralReject {
		c.Count("ephemeral_cas_or_version_rejected", 1)
	}
	if n.VersionWildcard {
		if res.Suppressed && res.Reason == "version" {
			c.Count("version_empty_epoch_vs_stored_epoch_suppressed", 1)
		} else {
			c.Count("version_empty_epoch_vs_stored_epoch_passed", 1)
		}
	}
	if n.IdemExpiredMiss {
		c.Count("idempotency_result_ttl_elapsed", 1)
	}
	if n.Trimmed {
		c.Count("stream_trimmed", 1)
	}
}

func tail(h []histEntry, n int) []histEntry {
	if len(h) > n {
		return h[len(h)-n:]
	}
	return h
}

// ---------------------------------------------------------------------------------------------
// sequential variant

func runSequential(c *kit.Case) {
	r := c.R
	nch := r.Range(1, 3)
	chans, resolve := setup(r, nch, false)
	keys := append([]string(nil), keyPool[:r.Range(1, 4)]...)
	env, err := mm.NewEnv(resolve)
	if err != nil {
		c.Inconclusive("cannot create broker: " + err.Error())
		return
	}
	defer func() {
		env.Close()
		synctest.Wait()
	}()
	synctest.Wait() // sweep goroutines have armed their 1 s timers at t0
	t0 := time.Now().UnixMilli()
	time.Sleep(time.Duration(r.Range(1, 999)) * time.Millisecond)

	cfgs := map[string]mm.Cfg{}
	for _, cc := range chans {
		cfgs[cc.name] = cc.cfg
	}
	var hist []histEntry
	fail := func(cls, msg string) {
		c.Violation(cls, mm.Clean(msg), map[string]any{"channels": cfgs, "keys": keys, "history_tail": tail(hist, 40), "variant": "sequential"})
	}
	readMode := r.Intn(10) // <5: read state+stream after every op; <8: same but never create a channel by reading; else: sometimes
	seen := 0             // handler calls consumed
	sig := ""

	fullRead := func(cc *chanCtx) bool {
		for _, kind := range []string{"read_state", "read_stream"} {
			op := mm.Op{Kind: kind, Limit: -1}
			res := mm.Exec(env.Broker, cc.name, op, "")
			hist = append(hist, histEntry{T: time.Now().UnixMilli() - t0, Ch: cc.name, Op: "oracle:" + kind, Res: &res})
			if _, mis := cc.m.Step(op, time.Now().UnixMilli(), res); mis != nil {
				fail(mis.Class, "after the last operation: "+mis.Msg)
				return false
			}
		}
		if env.Rec.Len() != seen {
			fail("read-broadcasts", "a read caused handler calls")
			return false
		}
		return true
	}

	nops := r.Range(10, 60)
	for i := 0; i < nops; i++ {
		now := time.Now().UnixMilli()
		if r.Chance(15, 100) {
			// advance the virtual clock; never stop exactly on a sweep tick (t0 + k*1000)
			d := kit.Pick(r, []int64{1, 7, 250, 600, 1000, 1300, 2100, 3000, 4500, 9000})
			if (now-t0+d)%1000 == 0 {
				d++
			}
			hist = append(hist, histEntry{T: now - t0, Op: fmt.Sprintf("sleep %dms", d)})
			time.Sleep(time.Duration(d) * time.Millisecond)
			synctest.Wait()
			calls := env.Rec.Since(seen)
			seen += len(calls)
			if !checkExpiry(c, chans, calls, t0, now, now+d, fail) {
				return
			}
			if readMode < 8 {
				for _, cc := range chans {
					if cc.m.Epoch != "" && !fullRead(cc) {
						return
					}
				}
			}
			continue
		}
		cc := kit.Pick(r, chans)
		op := genOp(r, cc, keys, fmt.Sprint(i))
		op.NowMs = now - t0
		if op.Kind == "clear" && cc.m.Epoch != "" {
			cc.oldEpochs = append(cc.oldEpochs, cc.m.Epoch)
		}
		res := mm.Exec(env.Broker, cc.name, op, "")
		hist = append(hist, histEntry{T: now - t0, Ch: cc.name, Op: op, Res: &res})
		note, mis := cc.m.Step(op, now, res)
		if mis != nil {
			fail(mis.Class, mis.Msg)
			return
		}
		countNote(c, op, res, note)
		if op.Kind == "clear" {
			c.Count("clear", 1)
		}
		calls := env.Rec.Since(seen)
		seen += len(calls)
		if note.Bcast == nil {
			if len(calls) != 0 {
				fail("suppressed-op-broadcast", fmt.Sprintf("%s with result %+v caused %d handler call(s): %+v", op.Kind, res, len(calls), calls))
				return
			}
		} else {
			if len(calls) != 1 {
				fail("unsuppressed-op-not-broadcast-once", fmt.Sprintf("unsuppressed %s caused %d handler calls, want exactly 1: %+v", op.Kind, len(calls), calls))
				return
			}
			want := mm.Call{Ch: cc.name, Pub: *note.Bcast, SP: mm.Pos{Offset: note.Bcast.Offset, Epoch: cc.m.Epoch}}
			got := calls[0]
			if got.Ch != want.Ch || got.Pub != want.Pub || got.SP != want.SP || got.SP.Offset != res.Pos.Offset {
				fail("broadcast-differs", fmt.Sprintf("handler call %+v, reference says %+v (result position %+v)", got, want, res.Pos))
				return
			}
			c.Count("broadcast_"+cc.cfg.ModeName(), 1)
		}
		sig += fmt.Sprintf("%s%v%s;", op.Kind[:2], res.Suppressed, res.Reason)
		doRead := readMode < 5 || (readMode < 8 && cc.m.Epoch != "") || (readMode >= 8 && r.Chance(1, 3) && cc.m.Epoch != "")
		if doRead && !fullRead(cc) {
			return
		}
	}
	for _, cc := range chans {
		if !fullRead(cc) {
			return
		}
	}
	c.Eval(nops)
	c.Nontrivial(sig)
	c.Count("sequential_cases", 1)
	for _, cc := range chans {
		o := ""
		if cc.cfg.Ordered {
			o = "_ordered"
		}
		c.Count("channel_"+cc.cfg.ModeName()+o, 1)
	}
	if c.Index < 8 {
		c.Sample(map[string]any{"variant": "sequential", "channels": cfgs, "keys": keys, "history_head": hist[:min(len(hist), 14)]})
	}
}

// checkExpiry compares the handler calls made while the clock moved from `from` to `to` with the
// reference: the sweep ticks at t0+k*1000; at tick T exactly the keys with ExpireAt <= T are removed
// (in any order), each with one removal entry / broadcast.
func checkExpiry(c *kit.Case, chans []*chanCtx, calls []mm.Call, t0, from, to int64, fail func(string, string)) bool {
	byTick := map[int64][]mm.Call{}
	for _, cl := range calls {
		byTick[cl.TimeMs] = append(byTick[cl.TimeMs], cl)
	}
	first := from + (1000 - (from-t0)%1000)
	for T := first; T <= to; T += 1000 {
		obs := byTick[T]
		delete(byTick, T)
		for _, cc := range chans {
			due := map[string]bool{}
			for _, k := range cc.m.Due(T) {
				due[k] = true
			}
			for _, cl := range obs {
				if cl.Ch != cc.name {
					continue
				}
				if !cl.Pub.Removed || !due[cl.Pub.Key] {
					fail("expiry-removal-differs", fmt.Sprintf("sweep at +%dms broadcast %+v but the reference has no key %q due on %s (due: %v)", T-t0, cl, cl.Pub.Key, cc.name, cc.m.Due(T)))
					return false
				}
				delete(due, cl.Pub.Key)
				want := cc.m.Expire(cl.Pub.Key)
				if cl.Pub != want || cl.SP != (mm.Pos{Offset: want.Offset, Epoch: cc.m.Epoch}) {
					fail("expiry-removal-differs", fmt.Sprintf("expiry broadcast %+v, reference says %+v epoch %s", cl, want, cc.m.Epoch))
					return false
				}
				c.Count("expired_keys", 1)
			}
			if len(due) > 0 {
				fail("expired-key-not-removed", fmt.Sprintf("sweep at +%dms: keys %v of %s had ExpireAt <= tick but no removal was broadcast", T-t0, keysOf(due), cc.name))
				return false
			}
		}
	}
	if len(byTick) > 0 {
		fail("expiry-removal-differs", fmt.Sprintf("handler calls outside sweep ticks while only the clock moved: %+v", byTick))
		return false
	}
	return true
}

func keysOf(m map[string]bool) []string {
	var out []string
	for k := range m {
		out = append(out, k)
	}
	sort.Strings(out)
	return out
}

// ---------------------------------------------------------------------------------------------
// concurrent variant (linearizability per channel)

type linIn struct {
	Op  mm.Op
	Now int64
}

type linState struct {
	ch *mm.Chan
	fp string
}

type cOp struct {
	ch      int
	op      mm.Op
	casMode int // 0 none, 1 as last seen by this goroutine, 2 seen offset+1, 3 zero
	yield   bool
}

type cRec struct {
	G      int    `json:"g"`
	Ch     string `json:"ch"`
	Op     mm.Op  `json:"op"`
	Res    mm.Res `json:"res"`
	Call   int64  `json:"call"`
	Return int64  `json:"return"`
}

func runConcurrent(c *kit.Case) {
	r := c.R
	nch := r.Range(1, 2)
	chans, resolve := setup(r, nch, true)
	keys := append([]string(nil), keyPool[:r.Range(1, 3)]...)
	G := r.Range(2, 4)
	plans := make([][]cOp, G)
	id := 0
	for g := range plans {
		n := r.Range(4, 9)
		for i := 0; i < n; i++ {
			id++
			ci := r.Intn(nch)
			cc := chans[ci]
			uniq := fmt.Sprintf("g%d.%d", g, i)
			var op mm.Op
			switch x := r.Intn(100); {
			case x < 55:
				op = genPublish(r, cc, keys, uniq)
				op.Tags = map[string]string{"op": uniq}
			case x < 75:
				op = mm.Op{Kind: "remove", Key: kit.Pick(r, keys), Tags: map[string]string{"rm": uniq}}
				if r.Chance(1, 5) {
					op.Idem = kit.Pick(r, []string{"i1", "i2"})
				}
			case x < 78:
				op = mm.Op{Kind: "clear"}
			case x < 90:
				op = mm.Op{Kind: "read_state", Limit: -1}
				if r.Bool() {
					op.Key = kit.Pick(r, keys)
				}
			default:
				op = mm.Op{Kind: "read_stream", Limit: -1}
			}
			co := cOp{ch: ci, op: op, yield: r.Chance(1, 3)}
			// the model is empty at generation time: CAS positions are filled at run time
			op.CAS = nil
			co.op = op
			if (op.Kind == "publish" || op.Kind == "remove") && cc.cfg.Mode != mm.ModeEphemeral && r.Chance(3, 10) {
				co.casMode = r.Range(1, 3)
			}
			// versions: the model is empty, pick small absolute numbers so that they collide
			if op.Kind == "publish" && cc.cfg.Mode != mm.ModeEphemeral && r.Chance(2, 5) {
				co.op.Version = uint64(r.Range(1, 4))
				co.op.VersionEpoch = kit.Pick(r, []string{"e1", "e1", "e2"})
			} else if op.Kind == "publish" {
				co.op.Version, co.op.VersionEpoch = 0, ""
			}
			plans[g] = append(plans[g], co)
		}
	}

	// the handler yields: widens the window between the state change and the return of Publish/Remove
	env, err := mm.NewEnvWith(resolve, &mm.Recorder{OnCall: func() {
		runtime.Gosched()
		runtime.Gosched()
	}})
	if err != nil {
		c.Inconclusive("cannot create broker: " + err.Error())
		return
	}
	defer func() {
		env.Close()
		synctest.Wait()
	}()
	synctest.Wait()
	time.Sleep(time.Duration(r.Range(1, 999)) * time.Millisecond)
	now := time.Now().UnixMilli()

	var clock atomic.Int64
	var mu sync.Mutex
	var recs []cRec
	var wg sync.WaitGroup
	start := make(chan struct{})
	var arrived atomic.Int64
	rounds := 0
	for _, p := range plans {
		rounds = max(rounds, len(p))
	}
	for g := 0; g < G; g++ {
		wg.Add(1)
		go func(g int) {
			defer wg.Done()
			<-start
			seenPos := map[string]mm.Pos{}
			for round := 0; round < rounds; round++ {
				// all goroutines start their round-th call together (spin barrier: nobody blocks)
				arrived.Add(1)
				for arrived.Load() < int64((round+1)*G) {
					runtime.Gosched()
				}
				if round >= len(plans[g]) {
					continue
				}
				co := plans[g][round]
				cc := chans[co.ch]
				op := co.op
				if co.casMode != 0 {
					p := seenPos[cc.name+"\x00"+op.Key]
					switch co.casMode {
					case 2:
						p.Offset++
					case 3:
						p.Offset = 0
					}
					op.CAS = &p
				}
				if co.yield {
					runtime.Gosched()
				}
				call := clock.Add(1)
				res := mm.Exec(env.Broker, cc.name, op, "")
				ret := clock.Add(1)
				switch {
				case op.Kind == "publish" && !res.Suppressed && res.Err == "":
					seenPos[cc.name+"\x00"+op.Key] = res.Pos
				case res.Cur != nil:
					seenPos[cc.name+"\x00"+op.Key] = mm.Pos{Offset: res.Cur.Offset, Epoch: res.Pos.Epoch}
				case op.Kind == "read_state" && op.Key != "" && len(res.Pubs) == 1:
					seenPos[cc.name+"\x00"+op.Key] = mm.Pos{Offset: res.Pubs[0].Offset, Epoch: res.Pos.Epoch}
				}
				mu.Lock()
				recs = append(recs, cRec{G: g, Ch: cc.name, Op: op, Res: res, Call: call, Return: ret})
				mu.Unlock()
			}
		}(g)
	}
	close(start)
	wg.Wait()
	synctest.Wait()
	if time.Now().UnixMilli() != now {
		c.Inconclusive("virtual clock moved during the concurrent phase")
		return
	}
	sort.Slice(recs, func(i, j int) bool { return recs[i].Call < recs[j].Call })
	cfgs := map[string]mm.Cfg{}
	for _, cc := range chans {
		cfgs[cc.name] = cc.cfg
	}
	fail := func(cls, msg string) {
		c.Violation(cls, mm.Clean(msg), map[string]any{"channels": cfgs, "keys": keys, "history": recs, "handler_calls": env.Rec.Since(0), "variant": "concurrent"})
	}

	overlap := 0
	for i := 1; i < len(recs); i++ {
		if recs[i].Call < recs[i-1].Return {
			overlap++
		}
	}
	calls := env.Rec.Since(0)
	for _, cc := range chans {
		var ops []porcupine.Operation
		for _, rc := range recs {
			if rc.Ch == cc.name {
				ops = append(ops, porcupine.Operation{ClientId: rc.G, Input: linIn{Op: rc.Op, Now: now}, Output: rc.Res, Call: rc.Call, Return: rc.Return})
			}
		}
		if len(ops) == 0 {
			continue
		}
		var steps int64
		var exceeded atomic.Bool
		cfg := cc.cfg
		model := porcupine.Model{
			Init: func() any { m := mm.NewChan(cfg); return linState{ch: m, fp: m.Fingerprint()} },
			Step: func(st, in, out any) (bool, any) {
				if atomic.AddInt64(&steps, 1) > 3_000_000 {
					exceeded.Store(true)
					return false, st
				}
				n := st.(linState).ch.Clone()
				if _, mis := n.Step(in.(linIn).Op, in.(linIn).Now, out.(mm.Res)); mis != nil {
					return false, st
				}
				return true, linState{ch: n, fp: n.Fingerprint()}
			},
			Equal: func(a, b any) bool { return a.(linState).fp == b.(linState).fp },
		}
		result := porcupine.CheckOperationsTimeout(model, ops, 0)
		if exceeded.Load() || result == porcupine.Unknown {
			c.Inconclusive(fmt.Sprintf("linearizability search budget exceeded on %s (%d ops)", cc.name, len(ops)))
			return
		}
		if result != porcupine.Ok {
			fail("not-linearizable", fmt.Sprintf("history of %d operations on %s (%s) has no linearization against the reference map", len(ops), cc.name, cc.cfg.ModeName()))
			return
		}
		c.Count("lin_histories_checked", 1)

		// broadcasts: every unsuppressed operation exactly once, with its offset; per epoch the
		// offsets of a stream-backed channel are 1,2,3,... in call order.
		want := map[string]int{}
		for _, rc := range recs {
			if rc.Ch != cc.name || rc.Res.Err != "" || rc.Res.Suppressed {
				continue
			}
			switch rc.Op.Kind {
			case "publish":
				want[fmt.Sprint(mm.PubView{Key: rc.Op.Key, Data: rc.Op.Data, Offset: rc.Res.Pos.Offset, Score: rc.Op.Score, Tags: mm.TagStr(rc.Op.Tags)}, rc.Res.Pos.Epoch)]++
			case "remove":
				want[fmt.Sprint(mm.PubView{Key: rc.Op.Key, Removed: true, Offset: rc.Res.Pos.Offset, Tags: mm.TagStr(rc.Op.Tags)}, rc.Res.Pos.Epoch)]++
			}
		}
		last := map[string]uint64{}
		var lastEpoch string
		fold := map[string]mm.PubView{}
		var stream []mm.PubView
		for _, cl := range calls {
			if cl.Ch != cc.name {
				continue
			}
			k := fmt.Sprint(cl.Pub, cl.SP.Epoch)
			if want[k] == 0 {
				fail("broadcast-differs", fmt.Sprintf("handler call %+v matches no unsuppressed operation result (or is a duplicate)", cl))
				return
			}
			want[k]--
			if cl.SP.Offset != cl.Pub.Offset {
				fail("broadcast-differs", fmt.Sprintf("handler call position %+v differs from publication offset %d", cl.SP, cl.Pub.Offset))
				return
			}
			if cl.SP.Epoch != lastEpoch {
				lastEpoch = cl.SP.Epoch
				fold = map[string]mm.PubView{}
				stream = nil
			}
			if cc.cfg.HasStream() {
				if cl.SP.Offset != last[cl.SP.Epoch]+1 {
					fail("broadcast-differs", fmt.Sprintf("handler call offsets of epoch %s not contiguous: %d after %d", cl.SP.Epoch, cl.SP.Offset, last[cl.SP.Epoch]))
					return
				}
				last[cl.SP.Epoch] = cl.SP.Offset
				stream = append(stream, cl.Pub)
			}
			if cl.Pub.Removed {
				delete(fold, cl.Pub.Key)
			} else {
				fold[cl.Pub.Key] = cl.Pub
			}
		}
		for k, n := range want {
			if n != 0 {
				fail("unsuppressed-op-not-broadcast-once", fmt.Sprintf("unsuppressed operation %s was broadcast %d time(s) too few", k, n))
				return
			}
		}
		// quiescent end state == fold of the broadcasts of the last epoch (when that epoch is still current)
		st := mm.Exec(env.Broker, cc.name, mm.Op{Kind: "read_state", Limit: -1}, "")
		if st.Err == "" && st.Pos.Epoch == lastEpoch {
			got := map[string]mm.PubView{}
			for _, p := range st.Pubs {
				got[p.Key] = p
			}
			if fmt.Sprint(got) != fmt.Sprint(fold) {
				fail("state-differs-from-model", fmt.Sprintf("final state %+v is not the fold of the broadcasts %+v", got, fold))
				return
			}
			if cc.cfg.HasStream() {
				sr := mm.Exec(env.Broker, cc.name, mm.Op{Kind: "read_stream", Limit: -1}, "")
				if len(stream) > cc.cfg.StreamSize {
					stream = stream[len(stream)-cc.cfg.StreamSize:]
				}
				if fmt.Sprint(sr.Pubs) != fmt.Sprint(stream) {
					fail("stream-differs-from-model", fmt.Sprintf("final stream %+v is not the sequence of broadcasts %+v", sr.Pubs, stream))
					return
				}
			}
		}
	}
	sup := map[string]int{}
	for _, rc := range recs {
		if rc.Res.Suppressed {
			sup[rc.Res.Reason]++
			c.Count("concurrent_suppress_"+rc.Res.Reason, 1)
		}
	}
	c.Eval(len(recs))
	c.Count("concurrent_cases", 1)
	c.Count("concurrent_overlapping_calls", overlap)
	c.Nontrivial(fmt.Sprintf("conc g%d n%d ov%d %v", G, len(recs), overlap, sup))
	if c.Index < 8 {
		c.Sample(map[string]any{"variant": "concurrent", "channels": cfgs, "goroutines": G, "history_head": recs[:min(len(recs), 10)]})
	}
}

func TestC20(t *testing.T) {
	kit.Main(t, kit.Spec{
		ID:    "C20",
		Level: "exploration",
		Rule: "Each case builds a standalone MemoryMapBroker (recording BrokerEventHandler) in a synctest bubble over 1-3 channels with PRNG-chosen mode (ephemeral/recoverable/persistent), ordered flag, KeyTTL and StreamSize (1..100), and 1-4 keys (incl. NUL and non-ASCII). " +
			"3 of 4 cases are sequential: 10-60 PRNG-chosen calls (Publish with KeyMode, ExpectedPosition derived from the reference state or perturbed, Version/VersionEpoch around the stored version, IdempotencyKey with result TTL, RefreshTTLOnSuppress, tags, score; Remove with CAS/idempotency/tags; Clear; ReadState; ReadStream) mixed with virtual clock advances that cross key TTLs and idempotency result TTLs; after every call the result, the handler calls and (ReadState/ReadStream Limit=-1) state and stream are compared with the reference model; key expiry is compared per sweep tick. " +
			"1 of 4 cases is concurrent: 2-4 goroutines x 4-9 calls at one virtual instant, call/return history checked per channel for linearizability against the same model with porcupine, plus broadcast/stream/state bookkeeping. " +
			"Non-trivial = a completed case; signature = sequence of (operation kind, suppressed, reason) resp. concurrent shape.",
		Assumptions: []string{
			"reference model harness/mapmodel/model.go (written from the property statement and the doc comments of map_broker.go) is correct",
			"stream retention is out of scope: StreamTTL=10min and the auto-derived MetaTTL are never crossed; StreamSize trimming is modelled",
			"open outcomes are accepted either way and only counted: Version with empty VersionEpoch against a stored non-empty epoch; the position reported by Remove/reads for a channel that does not exist yet; reverse ReadStream from a position; page order of unordered channels",
			"a key whose TTL elapsed stays visible until the next 1 s sweep tick (the model removes it at the tick, as the broker does); operations are never issued exactly on a tick instant",
			"idempotency check precedes the version/key-mode/CAS checks and a hit reports the cached position of the original operation",
			"only the in-memory map broker is covered",
		},
		Cases:  map[string]int{"quick": 4000, "thorough": 40000},
		Bubble: true,
		RequireCounters: []string{
			"suppress_idempotency", "suppress_version", "suppress_key_exists", "suppress_key_not_found", "suppress_position_mismatch",
			"remove_suppress_position_mismatch", "remove_suppress_key_not_found",
			"unsuppressed_publish", "unsuppressed_remove", "cas_success", "clear", "expired_keys", "ttl_refreshed_on_suppress",
			"order_version_before_keymode", "order_version_before_cas", "order_keymode_before_cas",
			"idempotency_result_ttl_elapsed", "stream_trimmed", "ephemeral_cas_or_version_rejected",
			"broadcast_ephemeral", "broadcast_recoverable", "broadcast_persistent",
			"lin_histories_checked", "concurrent_overlapping_calls",
		},
		Run: func(c *kit.Case) {
			if c.Index%4 == 3 {
				runConcurrent(c)
			} else {
				runSequential(c)
			}
		},
	})
}
