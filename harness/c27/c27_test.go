// C27: Server-side operations act the same from any node.
package c27

import (
	"fmt"
	"sort"
	"strings"
	"testing"
	"time"

	"github.com/centrifugal/centrifuge"
	"github.com/centrifugal/centrifuge/verifx/cluster"
	"github.com/centrifugal/centrifuge/verifx/kit"
)

// Channels: h* carry a history stream (3 publications on both nodes before the
// connections are made), p* have no stream at all until somebody positions on them.
var channels = []string{"h0", "h1", "p0", "p1", "p2"}

func hasHistory(ch string) bool { return ch[0] == 'h' }

// Every option the four calls accept (names are part of the violation classes).
var optionNames = map[string][]string{
	"subscribe": {"positioning", "recovery", "recovery-mode", "auto-cache-recover", "recover-since", "history-meta-ttl", "expire-at", "channel-info",
		"emit-presence", "emit-join-leave", "push-join-leave", "data", "source", "client", "session", "label-filter", "all-users"},
	"unsubscribe": {"custom-unsubscribe", "client", "session", "label-filter", "all-users"},
	"disconnect":  {"custom-disconnect", "client", "session", "whitelist", "label-filter", "all-users"},
	"refresh":     {"expired", "expire-at", "info", "client", "session", "label-filter", "all-users"},
}

type op struct {
	Kind    string          `json:"kind"`
	User    string          `json:"user"`
	Channel string          `json:"channel,omitempty"`
	Opts    map[string]bool `json:"-"`
	OptList []string        `json:"options"`

	// option values
	ClientSlot   int                    `json:"client_slot"`  // index into slots
	SessionSlot  int                    `json:"session_slot"` // -2 = unknown session id
	Filter       *centrifuge.FilterNode `json:"-"`
	FilterText   string                 `json:"label_filter,omitempty"`
	SinceOffset  uint64                 `json:"since_offset,omitempty"`
	SinceEpoch   string                 `json:"since_epoch,omitempty"`
	MetaTTL      int                    `json:"meta_ttl_s,omitempty"`
	ExpireIn     int                    `json:"expire_in_s,omitempty"` // relative to the start of the op
	Info         string                 `json:"info,omitempty"`
	Data         string                 `json:"data,omitempty"`
	Source       uint8                  `json:"source,omitempty"`
	Code         uint32                 `json:"code,omitempty"`
	Reason       string                 `json:"reason,omitempty"`
	Whitelist    []int                  `json:"whitelist_slots,omitempty"`
	RemoteFirst  bool                   `json:"remote_first,omitempty"` // order of the two calls when targeting by client / session id
	ProbeTTL     int                    `json:"-"`
	ProbeExpiry  int                    `json:"-"`
	EmptyChannel bool                   `json:"-"`
}

func (o *op) has(name string, removed map[string]bool) bool { return o.Opts[name] && !removed[name] }

type plan struct {
	Slots []*cluster.SlotSpec `json:"slots"`
	Ops   []*op               `json:"ops"`
}

func genPlan(r *kit.Rand) *plan {
	pl := &plan{}
	n := r.Range(2, 4)
	for i := 0; i < n; i++ {
		s := &cluster.SlotSpec{Name: fmt.Sprintf("s%d", i), User: kit.Pick(r, []string{"u1", "u1", "u2", ""}),
			Labels: cluster.RandLabels(r), Protobuf: r.Chance(1, 3), Emulation: r.Bool(), Info: fmt.Sprintf(`{"slot":%d}`, i),
			ClientSubs: map[string]cluster.SubSpec{}, ServerSubs: map[string]cluster.SubSpec{}}
		for _, ch := range channels {
			if !r.Chance(1, 3) {
				continue
			}
			sp := cluster.SubSpec{Presence: r.Bool(), JoinLeave: r.Bool(), PushJoinLeave: r.Chance(1, 4)}
			if hasHistory(ch) && r.Bool() {
				sp.Position, sp.Recover = true, r.Bool()
			}
			if r.Chance(2, 5) {
				s.ServerSubs[ch] = sp
			} else {
				s.ClientSubs[ch] = sp
			}
		}
		pl.Slots = append(pl.Slots, s)
	}
	obs := &cluster.SlotSpec{Name: "obs", User: "watcher", Labels: map[string]string{"tier": "staff"}, ClientSubs: map[string]cluster.SubSpec{}}
	for _, ch := range channels {
		obs.ClientSubs[ch] = cluster.SubSpec{PushJoinLeave: true}
	}
	pl.Slots = append(pl.Slots, obs)

	nOps := r.Range(1, 3)
	for i := 0; i < nOps; i++ {
		pl.Ops = append(pl.Ops, genOp(r, pl.Slots))
	}
	return pl
}

func genOp(r *kit.Rand, slots []*cluster.SlotSpec) *op {
	o := &op{Kind: kit.Pick(r, []string{"subscribe", "subscribe", "subscribe", "unsubscribe", "disconnect", "refresh"}), Opts: map[string]bool{}, ClientSlot: -1, SessionSlot: -1}
	set := func(name string) { o.Opts[name] = true }
	real := slots[:len(slots)-1]
	// ---- targeting (common to the four calls)
	o.User = real[r.Intn(len(real))].User
	if r.Chance(1, 8) {
		o.User = kit.Pick(r, []string{"u1", "u2", "", "ghost"})
	}
	if o.User == "" && r.Chance(2, 3) || o.User != "" && r.Chance(1, 10) {
		set("all-users")
	}
	if r.Chance(1, 4) {
		set("client")
		o.ClientSlot = r.Intn(len(real))
		if r.Chance(4, 5) {
			o.User = real[o.ClientSlot].User
		}
	}
	if r.Chance(1, 5) {
		set("session")
		var cand []int
		for i, s := range real {
			if s.Emulation {
				cand = append(cand, i)
			}
		}
		if o.ClientSlot >= 0 && real[o.ClientSlot].Emulation && r.Bool() {
			cand = []int{o.ClientSlot}
		}
		if len(cand) > 0 && r.Chance(5, 6) {
			o.SessionSlot = kit.Pick(r, cand)
			if r.Chance(4, 5) && o.ClientSlot < 0 {
				o.User = real[o.SessionSlot].User
			}
		} else {
			o.SessionSlot = -2
		}
	}
	if r.Chance(1, 3) {
		set("label-filter")
		o.Filter = cluster.RandFilter(r, 2)
		o.FilterText = cluster.FilterString(o.Filter)
	}
	o.RemoteFirst = r.Bool()

	switch o.Kind {
	case "subscribe":
		o.Channel = kit.Pick(r, channels)
		p := func(num, den int, name string) bool {
			if r.Chance(num, den) {
				set(name)
				return true
			}
			return false
		}
		p(1, 3, "positioning")
		rec := p(1, 2, "recovery")
		cache := p(1, 3, "recovery-mode")
		if rec && cache {
			p(2, 3, "auto-cache-recover")
		} else {
			p(1, 6, "auto-cache-recover")
		}
		if p(1, 4, "recover-since") {
			o.SinceOffset = kit.Pick(r, []uint64{0, 1, 2, 3, 3, 9})
			o.SinceEpoch = kit.Pick(r, []string{"", "", "", "bogus"})
			if cache {
				// a position at or beyond the stream top (or of another epoch) recovers nothing in stream mode:
				// there the option has no observable effect at all, which would make the
				// attribution of a lost cache mode ambiguous
				o.SinceOffset = kit.Pick(r, []uint64{0, 1, 2})
				o.SinceEpoch = "" // an unknown epoch recovers nothing in stream mode either
			}
		}
		if p(1, 4, "history-meta-ttl") {
			o.MetaTTL = 3
			if o.Opts["positioning"] || o.Opts["recovery"] {
				o.ProbeTTL = o.MetaTTL
			}
		}
		if p(1, 4, "expire-at") {
			o.ExpireIn = kit.Pick(r, []int{3, 6, -5})
			o.ProbeExpiry = max(o.ExpireIn, 0)
		}
		if p(1, 4, "channel-info") {
			o.Info = fmt.Sprintf(`{"ci":%d}`, r.Intn(100))
		}
		p(1, 3, "emit-presence")
		p(1, 3, "emit-join-leave")
		p(1, 4, "push-join-leave")
		if p(1, 3, "data") {
			o.Data = fmt.Sprintf(`{"d":%d}`, r.Intn(1000))
		}
		if p(1, 3, "source") {
			o.Source = uint8(r.Range(1, 250))
		}
	case "unsubscribe":
		o.Channel = kit.Pick(r, channels)
		if r.Chance(1, 8) {
			// the empty channel is accepted by the call; what it must do is C28's business
			o.Channel, o.EmptyChannel = "", true
		}
		if r.Chance(1, 2) {
			set("custom-unsubscribe")
			o.Code, o.Reason = uint32(r.Range(2500, 2999)), fmt.Sprintf("custom-%d", r.Intn(100))
		}
	case "disconnect":
		if r.Chance(1, 2) {
			set("custom-disconnect")
			o.Code, o.Reason = uint32(r.Range(3500, 4999)), fmt.Sprintf("bye-%d", r.Intn(100))
		}
		if r.Chance(1, 3) {
			set("whitelist")
			for i := range real {
				if r.Chance(1, 2) {
					o.Whitelist = append(o.Whitelist, i)
				}
			}
			if len(o.Whitelist) == 0 {
				o.Whitelist = []int{r.Intn(len(real))}
			}
		}
	case "refresh":
		if r.Chance(1, 5) {
			set("expired")
		}
		if r.Chance(1, 2) {
			set("expire-at")
			o.ExpireIn = kit.Pick(r, []int{3, 6, 40, -5})
			if o.ExpireIn < 10 {
				o.ProbeExpiry = max(o.ExpireIn, 0)
			}
		}
		if r.Chance(1, 2) {
			set("info")
			o.Info = fmt.Sprintf(`{"ri":%d}`, r.Intn(100))
		}
	}
	for _, name := range optionNames[o.Kind] {
		if o.Opts[name] {
			o.OptList = append(o.OptList, name)
		}
	}
	return o
}

// ---------------------------------------------------------------------------------------------
// execution

// effects[node][slot or "node"] = sorted lines
type effects [2]map[string][]string

type runResult struct {
	perOp    []effects
	setupErr string
	affected []bool // the op changed something on some connection
	callErr  []string
}

const (
	expiredCloseDelay = time.Second
)

// execute runs the plan's ops [0..upTo] on a fresh pair of nodes; removed[name]
// drops option name from op upTo (used to attribute a difference to an option).
func execute(c *kit.Case, pl *plan, upTo int, removed map[string]bool) runResult {
	res := runResult{}
	p := cluster.NewPair(c, 2, pl.Slots, func(cfg *centrifuge.Config) {
		cfg.ClientPresenceUpdateInterval = time.Second
		cfg.ClientExpiredCloseDelay = expiredCloseDelay
		cfg.ClientExpiredSubCloseDelay = time.Second
	})
	defer p.Finish()
	for _, n := range p.Nodes {
		for _, ch := range channels {
			if !hasHistory(ch) {
				continue
			}
			for k := 1; k <= 3; k++ {
				if _, err := n.Publish(ch, []byte(fmt.Sprintf(`{"seed":%d}`, k)), centrifuge.WithHistory(20, time.Hour)); err != nil {
					res.setupErr = "publish: " + err.Error()
					return res
				}
			}
		}
	}
	if msg := p.ConnectAll(); msg != "" {
		res.setupErr = msg
		return res
	}
	for _, ms := range p.Members {
		for _, m := range ms {
			m.NewFrames()
			m.NewEvents()
		}
	}
	seenClosed := map[*cluster.Member]bool{}
	for i := 0; i <= upTo; i++ {
		rm := map[string]bool{}
		if i == upTo {
			rm = removed
		}
		eff, affected, callErr := runOp(p, seenClosed, i, pl.Ops[i], rm)
		res.perOp = append(res.perOp, eff)
		res.affected = append(res.affected, affected)
		res.callErr = append(res.callErr, callErr)
	}
	return res
}

func alignToSecond() {
	now := time.Now()
	next := now.Truncate(time.Second).Add(time.Second + 100*time.Millisecond)
	time.Sleep(next.Sub(now))
}

func runOp(p *cluster.Pair, seenClosed map[*cluster.Member]bool, idx int, o *op, removed map[string]bool) (effects, bool, string) {
	eff := effects{map[string][]string{}, map[string][]string{}}
	alignToSecond()
	p.W.Settle()
	start := time.Now().Unix()
	nodeA := p.Nodes[0]
	has := func(name string) bool { return o.has(name, removed) }

	byID := has("client") && o.ClientSlot >= 0 || has("session") && o.SessionSlot >= 0
	sides := []int{0}
	if byID {
		sides = []int{0, 1}
		if o.RemoteFirst {
			sides = []int{1, 0}
		}
	}
	var callErr string
	for _, side := range sides {
		client, session := "", ""
		if has("client") {
			client = p.Members[side][o.ClientSlot].ID
		}
		if has("session") {
			if o.SessionSlot >= 0 {
				session = p.Members[side][o.SessionSlot].Session
			} else {
				session = "no-such-session"
			}
		}
		var err error
		switch o.Kind {
		case "subscribe":
			var opts []centrifuge.SubscribeOption
			if has("positioning") {
				opts = append(opts, centrifuge.WithPositioning(true))
			}
			if has("recovery") {
				opts = append(opts, centrifuge.WithRecovery(true))
			}
			if has("recovery-mode") {
				opts = append(opts, centrifuge.WithRecoveryMode(centrifuge.RecoveryModeCache))
			}
			if has("auto-cache-recover") {
				opts = append(opts, centrifuge.WithAutoCacheRecover(true))
			}
			if has("recover-since") {
				opts = append(opts, centrifuge.WithRecoverSince(&centrifuge.StreamPosition{Offset: o.SinceOffset, Epoch: o.SinceEpoch}))
			}
			if has("history-meta-ttl") {
				opts = append(opts, centrifuge.WithSubscribeHistoryMetaTTL(time.Duration(o.MetaTTL)*time.Second))
			}
			if has("expire-at") {
				opts = append(opts, centrifuge.WithExpireAt(start+int64(o.ExpireIn)))
			}
			if has("channel-info") {
				opts = append(opts, centrifuge.WithChannelInfo([]byte(o.Info)))
			}
			if has("emit-presence") {
				opts = append(opts, centrifuge.WithEmitPresence(true))
			}
			if has("emit-join-leave") {
				opts = append(opts, centrifuge.WithEmitJoinLeave(true))
			}
			if has("push-join-leave") {
				opts = append(opts, centrifuge.WithPushJoinLeave(true))
			}
			if has("data") {
				opts = append(opts, centrifuge.WithSubscribeData([]byte(o.Data)))
			}
			if has("source") {
				opts = append(opts, centrifuge.WithSubscribeSource(o.Source))
			}
			if client != "" {
				opts = append(opts, centrifuge.WithSubscribeClient(client))
			}
			if session != "" {
				opts = append(opts, centrifuge.WithSubscribeSession(session))
			}
			if has("label-filter") {
				opts = append(opts, centrifuge.WithSubscribeLabelFilter(o.Filter))
			}
			if has("all-users") {
				opts = append(opts, centrifuge.WithSubscribeAllUsers(true))
			}
			err = nodeA.Subscribe(o.User, o.Channel, opts...)
		case "unsubscribe":
			var opts []centrifuge.UnsubscribeOption
			if has("custom-unsubscribe") {
				opts = append(opts, centrifuge.WithCustomUnsubscribe(centrifuge.Unsubscribe{Code: o.Code, Reason: o.Reason}))
			}
			if client != "" {
				opts = append(opts, centrifuge.WithUnsubscribeClient(client))
			}
			if session != "" {
				opts = append(opts, centrifuge.WithUnsubscribeSession(session))
			}
			if has("label-filter") {
				opts = append(opts, centrifuge.WithUnsubscribeLabelFilter(o.Filter))
			}
			if has("all-users") {
				opts = append(opts, centrifuge.WithUnsubscribeAllUsers(true))
			}
			err = nodeA.Unsubscribe(o.User, o.Channel, opts...)
		case "disconnect":
			var opts []centrifuge.DisconnectOption
			if has("custom-disconnect") {
				opts = append(opts, centrifuge.WithCustomDisconnect(centrifuge.Disconnect{Code: o.Code, Reason: o.Reason}))
			}
			if client != "" {
				opts = append(opts, centrifuge.WithDisconnectClient(client))
			}
			if session != "" {
				opts = append(opts, centrifuge.WithDisconnectSession(session))
			}
			if has("whitelist") {
				var wl []string
				for _, si := range o.Whitelist {
					wl = append(wl, p.Members[0][si].ID, p.Members[1][si].ID)
				}
				opts = append(opts, centrifuge.WithDisconnectClientWhitelist(wl))
			}
			if has("label-filter") {
				opts = append(opts, centrifuge.WithDisconnectLabelFilter(o.Filter))
			}
			if has("all-users") {
				opts = append(opts, centrifuge.WithDisconnectAllUsers(true))
			}
			err = nodeA.Disconnect(o.User, opts...)
		case "refresh":
			var opts []centrifuge.RefreshOption
			if has("expired") {
				opts = append(opts, centrifuge.WithRefreshExpired(true))
			}
			if has("expire-at") {
				opts = append(opts, centrifuge.WithRefreshExpireAt(start+int64(o.ExpireIn)))
			}
			if has("info") {
				opts = append(opts, centrifuge.WithRefreshInfo([]byte(o.Info)))
			}
			if client != "" {
				opts = append(opts, centrifuge.WithRefreshClient(client))
			}
			if session != "" {
				opts = append(opts, centrifuge.WithRefreshSession(session))
			}
			if has("label-filter") {
				opts = append(opts, centrifuge.WithRefreshLabelFilter(o.Filter))
			}
			if has("all-users") {
				opts = append(opts, centrifuge.WithRefreshAllUsers(true))
			}
			err = nodeA.Refresh(o.User, opts...)
		}
		if err != nil {
			callErr += err.Error() + ";"
		}
		p.W.Settle()
	}
	time.Sleep(20 * time.Millisecond)
	p.W.Settle()

	affected := false
	pushEpoch := [2]string{}
	collect := func(phase string) {
		for ni, ms := range p.Members {
			for _, m := range ms {
				var lines []string
				frames := m.NewFrames()
				events := m.NewEvents()
				// Joins and leaves of OTHER connections race with this connection's own
				// (un)subscribe or close within the same phase: whether it still / already
				// listens when they are broadcast is scheduling, not the call's effect.
				closedNow := false
				touched := map[string]bool{}
				if closed, _ := m.Closed(); closed && !seenClosed[m] {
					closedNow = true
				}
				for _, f := range frames {
					if f.Push != nil && (f.Push.Subscribe != nil || f.Push.Unsubscribe != nil) {
						touched[f.Push.Channel] = true
					}
					if f.Push != nil && f.Push.Disconnect != nil {
						closedNow = true
					}
				}
				for _, e := range events {
					if e.Kind == "unsubscribe" {
						touched[e.Channel] = true
					}
				}
				for _, f := range frames {
					if phase == "call" && f.Push != nil && f.Push.Subscribe != nil && f.Push.Channel == o.Channel && f.Push.Subscribe.Epoch != "" {
						pushEpoch[ni] = f.Push.Subscribe.Epoch
					}
					if f.Push != nil && (f.Push.Join != nil || f.Push.Leave != nil) {
						own := f.Push.Join != nil && f.Push.Join.Info != nil && f.Push.Join.Info.Client == m.ID
						if closedNow || (touched[f.Push.Channel] && !own) {
							continue
						}
					}
					lines = append(lines, phase+"| frame "+p.Canon(f))
				}
				for _, e := range events {
					lines = append(lines, fmt.Sprintf("%s| callback %s ch=%q code=%d reason=%q server=%v", phase, e.Kind, e.Channel, e.Code, e.Reason, e.Server))
				}
				if closed, d := m.Closed(); closed && !seenClosed[m] {
					seenClosed[m] = true
					lines = append(lines, fmt.Sprintf("%s| transport closed code=%d reason=%q", phase, d.Code, d.Reason))
				}
				if len(lines) > 0 && phase == "call" {
					affected = true
				}
				sort.Strings(lines)
				eff[ni][m.Slot.Name] = append(eff[ni][m.Slot.Name], lines...)
			}
		}
	}
	collect("call")

	// history meta TTL: was the stream the subscription was positioned on dropped after the TTL?
	if o.ProbeTTL > 0 {
		time.Sleep(time.Duration(o.ProbeTTL+2) * time.Second)
		p.W.Settle()
		for ni, n := range p.Nodes {
			line := "ttl| no connection of this node was subscribed"
			if pushEpoch[ni] != "" {
				hr, err := n.History(o.Channel)
				switch {
				case err != nil:
					line = "ttl| history error " + err.Error()
				default:
					line = fmt.Sprintf("ttl| stream meta of %s dropped %ds after the subscribe = %v", o.Channel, o.ProbeTTL+2, hr.Epoch != pushEpoch[ni])
				}
			}
			eff[ni]["node"] = append(eff[ni]["node"], line)
		}
		collect("ttl")
	}

	// markers: who receives publications now, positioned or not
	for _, n := range p.Nodes {
		for _, ch := range channels {
			data := []byte(fmt.Sprintf(`{"marker":"%s","op":%d}`, ch, idx))
			if hasHistory(ch) {
				_, _ = n.Publish(ch, data, centrifuge.WithHistory(20, time.Hour))
			} else {
				_, _ = n.Publish(ch, data)
			}
		}
	}
	p.W.Settle()
	time.Sleep(20 * time.Millisecond)
	p.W.Settle()
	collect("marker")

	// expiry: advance past ExpireAt plus the close delays and the presence tick
	if o.ProbeExpiry > 0 || (o.Opts["expire-at"] && o.ExpireIn < 0) {
		target := time.Unix(start+int64(o.ProbeExpiry)+5, 0)
		if d := time.Until(target); d > 0 {
			time.Sleep(d)
		}
		p.W.Settle()
		collect("expiry")
	}

	// resulting state
	for ni, ms := range p.Members {
		for _, m := range ms {
			var lines []string
			closed, _ := m.Closed()
			lines = append(lines, fmt.Sprintf("state| closed=%v info=%q", closed, m.Conn.Client.Info()))
			view := centrifuge.VerifClient(m.Conn.Client)
			ctxs := m.Conn.Client.ChannelsWithContext()
			chs := m.Conn.Client.Channels()
			sort.Strings(chs)
			for _, ch := range chs {
				v := view.Channels[ch]
				exp := "none"
				if v.ExpireAt != 0 {
					exp = fmt.Sprintf("%+ds", v.ExpireAt-start)
				}
				lines = append(lines, fmt.Sprintf("state| subscribed ch=%s source=%d flags=%s expire_at=%s offset=%d", ch, ctxs[ch].Source, flagNames(v.Flags), exp, v.Offset))
			}
			eff[ni][m.Slot.Name] = append(eff[ni][m.Slot.Name], lines...)
		}
		for _, ch := range channels {
			eff[ni]["node"] = append(eff[ni]["node"], fmt.Sprintf("state| presence %s = %v", ch, p.Presence(ni, ch)))
		}
	}
	return eff, affected, callErr
}

func flagNames(f uint16) string {
	names := []string{"subscribed", "emit-presence", "emit-join-leave", "push-join-leave", "positioning", "server-side", "client-side-refresh", "delta-allowed"}
	var out []string
	for i, n := range names {
		if f&(1<<i) != 0 {
			out = append(out, n)
		}
	}
	if f>>len(names) != 0 {
		out = append(out, fmt.Sprintf("other:%#x", f>>len(names)))
	}
	return strings.Join(out, "+")
}

// diff returns the lines that differ between the two sides, per slot.
func diff(a, b map[string][]string) []string {
	keys := map[string]bool{}
	for k := range a {
		keys[k] = true
	}
	for k := range b {
		keys[k] = true
	}
	var ks []string
	for k := range keys {
		ks = append(ks, k)
	}
	sort.Strings(ks)
	var out []string
	for _, k := range ks {
		ca, cb := map[string]int{}, map[string]int{}
		for _, l := range a[k] {
			ca[l]++
		}
		for _, l := range b[k] {
			cb[l]++
		}
		var ls []string
		for l, n := range ca {
			if cb[l] < n {
				ls = append(ls, fmt.Sprintf("%s: local  only: %s", k, l))
			}
		}
		for l, n := range cb {
			if ca[l] < n {
				ls = append(ls, fmt.Sprintf("%s: remote only: %s", k, l))
			}
		}
		sort.Strings(ls)
		out = append(out, ls...)
	}
	return out
}

func runCase(c *kit.Case) {
	pl := genPlan(c.R)
	res := execute(c, pl, len(pl.Ops)-1, nil)
	if res.setupErr != "" {
		c.Inconclusive("setup: " + res.setupErr)
		return
	}
	for i, o := range pl.Ops {
		c.Count("calls_"+o.Kind, 1)
		for _, name := range o.OptList {
			c.Count("opt_"+o.Kind+"_"+name, 1)
		}
		if o.EmptyChannel {
			c.Count("calls_unsubscribe_empty_channel", 1)
		}
		if res.callErr[i] != "" {
			c.Count("calls_returning_error", 1)
		}
		eff := res.perOp[i]
		d := diff(eff[0], eff[1])
		if res.affected[i] {
			c.Count("calls_affecting_connections", 1)
			c.Count("calls_affecting_connections_"+o.Kind, 1)
			c.Nontrivial(fmt.Sprintf("%s|%v|%d", o.Kind, o.OptList, len(d)))
		} else {
			c.Count("calls_matching_nothing", 1)
		}
		c.Eval(len(pl.Slots))
		if len(d) == 0 {
			continue
		}
		if o.EmptyChannel {
			// what an empty channel must do is checked by C28; with the defect found
			// there the two nodes still behave alike, so this is only counted
			c.Count("empty_channel_unsubscribe_differs", 1)
			break
		}
		// Attribute the difference: the remote node behaved like the local node does
		// when the options in O are not given at all.
		var culprit []string
		set := o.OptList
		try := func(names ...string) bool {
			rm := map[string]bool{}
			for _, n := range names {
				rm[n] = true
			}
			v := execute(c, pl, i, rm)
			c.Count("attribution_runs", 1)
			if v.setupErr != "" {
				return false
			}
			return len(diff(v.perOp[i][0], eff[1])) == 0
		}
		// every single option that explains the difference on its own is reported
		// (e.g. auto cache recover only acts in cache recovery mode: losing either
		// one loses the effect of both)
		for _, a := range set {
			if try(a) {
				culprit = append(culprit, a)
			}
		}
		if culprit == nil {
		pairs:
			for x := 0; x < len(set); x++ {
				for y := x + 1; y < len(set); y++ {
					if try(set[x], set[y]) {
						culprit = []string{set[x], set[y]}
						break pairs
					}
				}
			}
		}
		detail := map[string]any{"plan": pl, "op_index": i, "op": o, "differences": d, "local": eff[0], "remote": eff[1], "culprit_options": culprit}
		msg := fmt.Sprintf("Node.%s(%q, %q) with options %v issued on node 0: effect on the mirrored connections of node 1 differs: %s", strings.ToUpper(o.Kind[:1])+o.Kind[1:], o.User, o.Channel, o.OptList, strings.Join(firstN(d, 6), " || "))
		if culprit == nil {
			c.Violation("c27-"+o.Kind+"-remote-effect-differs", msg, detail)
		}
		for _, name := range culprit {
			c.Violation("c27-"+o.Kind+"-option-"+name+"-not-carried-to-remote-node", msg+fmt.Sprintf(" -- the remote node behaves exactly like the local node does without %v", culprit), detail)
		}
		break // later ops start from diverged states
	}
	if c.Index < 40 {
		c.Sample(map[string]any{"slots": len(pl.Slots), "ops": pl.Ops})
	}
}

func firstN(xs []string, n int) []string {
	if len(xs) > n {
		return xs[:n]
	}
	return xs
}

func TestC27(t *testing.T) {
	var req []string
	for kind, names := range optionNames {
		req = append(req, "calls_"+kind, "calls_affecting_connections_"+kind)
		for _, n := range names {
			req = append(req, "opt_"+kind+"_"+n)
		}
	}
	sort.Strings(req)
	req = append(req, "calls_matching_nothing", "calls_unsubscribe_empty_channel")
	kit.Main(t, kit.Spec{
		ID:     "C27",
		Bubble: true,
		Rule: "each case = one bubble with two nodes joined by an in-memory Controller bus (separate in-memory brokers / presence); 2-4 logical connections (users u1/u2/anonymous, random labels via ConnectReply.Labels, JSON/Protobuf, with/without session id, random client-side and connect-time server-side subscriptions incl. positioned ones on channels with history) plus a join/leave observer are created identically on BOTH nodes. " +
			"1-3 PRNG-chosen calls of Node.Subscribe/Unsubscribe/Disconnect/Refresh are issued on node 0, each with an independent random subset of EVERY With* option the call accepts (subscribe: positioning, recovery, recovery mode cache, auto cache recover, recover since, history meta TTL, expire at, channel info, emit presence, emit/push join-leave, data, source; unsubscribe: custom code/reason, empty channel; disconnect: custom disconnect, whitelist; refresh: expired, expire at, info; all: user/anonymous/unknown user, all-users, client id, session id, label filter tree). Targeting by client/session id issues the call twice (id of the node-0 and of the node-1 instance). " +
			"Oracle: after each call the effect on every connection of node 1 (reached over the bus) equals the effect on its twin on node 0: multiset of frames written (subscribe push offset/epoch-set/recoverable/positioned/data, recovered publications, unsubscribe/disconnect code+reason, refresh push, join/leave), callbacks, transport close, then probes - stream meta dropped after the history meta TTL, marker publications on every channel (who receives, with which offset), virtual time advanced past ExpireAt (+5s), Channels(), ChannelsWithContext().Source, channel flags/expire_at/offset, Client.Info(), presence per node. " +
			"A difference is attributed by re-running the plan with single options (then pairs) of the call removed: options O such that the remote effect equals the local effect of the call without O give the class c27-<call>-option-<o>-not-carried-to-remote-node. Non-trivial = the call changed something on some connection; signature = call x option set x #differences.",
		Assumptions: []string{
			"the two nodes use separate in-memory brokers and presence managers: publications, joins, leaves and stream epochs are per node, so epochs are compared as set/empty and RecoverSince uses an empty or a bogus epoch",
			"options = the exported With* option constructors of the four calls (fields of SubscribeOptions without a constructor, e.g. AllowedDeltaTypes, are not exercised)",
			"frames are compared as multisets per connection (the order in which different connections are processed is not part of the property)",
			"the empty-channel unsubscribe is issued but a difference on it is only counted (owned by C28)",
			"the first presence tick of a connection is randomised by the library; expiry outcomes are sampled 5 s after ExpireAt with a 1 s tick and 1 s close delays",
		},
		Cases:           map[string]int{"quick": 1200, "thorough": 18000},
		RequireCounters: req,
		Run:             runCase,
	})
}
