// C13: Per-channel batching preserves order and coalesces correctly.
//
// One case = one virtual-time bubble. A single driver goroutine executes a
// scripted list of events (publishes with keys, joins/leaves of other clients,
// unsubscribe / resubscribe / close of the observing connections) at scripted
// virtual instants, so the production order on every channel is total and every
// flush instant of the per-channel batch writers is known. The oracle replays
// the production log through a small model of the batch configuration (MaxSize,
// MaxDelay, FlushLatestPublication) and compares, per subscription incarnation,
// the pushes the observing transport received with the model's flush contents.
package c13

import (
	"context"
	"encoding/json"
	"fmt"
	"strings"
	"sync"
	"sync/atomic"
	"testing"
	"testing/synctest"
	"time"

	"github.com/centrifugal/centrifuge"
	"github.com/centrifugal/centrifuge/verifx/kit"
	"github.com/centrifugal/protocol"
)

const (
	classWindow    = "c13-unsubscribe-window-publication-delivered-after-subscription-end"
	classRace      = "c13-push-added-to-batch-during-unsubscribe-delivered-after-subscription-end"
	classAfterEnd  = "c13-push-delivered-after-subscription-end"
	classStale     = "c13-stale-push-delivered-in-later-subscription"
	classOutside   = "c13-push-delivered-without-subscription"
	classDup       = "c13-push-duplicated"
	classUnknown   = "c13-unknown-push-delivered"
	classOrder     = "c13-channel-order-violated"
	classLost      = "c13-push-lost-while-subscribed"
	classCoalesce  = "c13-superseded-publication-delivered"
	classModel     = "c13-flush-contents-differ-from-batch-config"
	classCloseCode = "c13-unexpected-connection-close"
)

// The runner stops a child process after 50 recorded violations. A defect that
// many cases witness would cut the exploration short, so each child process
// reports the first few witnesses of the window class and counts the rest.
var windowReports atomic.Int32

const maxWindowReportsPerProcess = 12

type chanCfg struct {
	Name     string  `json:"channel"`
	MaxSize  int64   `json:"max_size"`
	MaxDelay float64 `json:"max_delay_ms"`
	Latest   bool    `json:"flush_latest_publication"`
	Hist     bool    `json:"publish_with_history"`
}

func (cc chanCfg) delay() time.Duration {
	return time.Duration(cc.MaxDelay * float64(time.Millisecond))
}
func (cc chanCfg) batching() bool { return cc.MaxSize > 0 || cc.MaxDelay > 0 }

// prodRec is one produced push: a Node.Publish call, or the join / leave that a
// subscribe / unsubscribe / close of another client emits.
type prodRec struct {
	ID      string        `json:"id"`
	Kind    string        `json:"kind"` // pub | join | leave
	Ch      string        `json:"ch"`
	Key     string        `json:"key,omitempty"`
	Hist    bool          `json:"hist,omitempty"`
	CallSeq int64         `json:"call"`
	RetSeq  int64         `json:"ret"`
	At      time.Duration `json:"at"`
	Window  bool          `json:"in_unsubscribe_window,omitempty"`
	Raced   bool          `json:"unsubscribe_ran_before_its_batch_add,omitempty"`
	idx     int
}

type inc struct {
	Obs      int           `json:"observer"`
	Ch       string        `json:"ch"`
	N        int           `json:"n"`
	Via      string        `json:"subscribed_via"` // command | server
	SubCall  int64         `json:"sub_call"`
	SubRet   int64         `json:"sub_ret"`
	SubCmd   uint32        `json:"sub_cmd,omitempty"`
	EndKind  string        `json:"end_kind,omitempty"` // unsub-command | unsub-server | close-noflush | close-flush
	EndCall  int64         `json:"end_call,omitempty"`
	EndRet   int64         `json:"end_ret,omitempty"`
	EndAt    time.Duration `json:"end_at,omitempty"`
	EndCmd   uint32        `json:"end_cmd,omitempty"`
	HookAt   string        `json:"hook_point,omitempty"`
	StartSeq int64         `json:"start_frame_seq"`
	EndSeq   int64         `json:"end_frame_seq,omitempty"`
	// from the frames
	delivered []dItem
	started   bool
	ended     bool
	raceLate  bool // the raced unsubscribe removed the writer only after the publication was added
}

type dItem struct {
	rec   *prodRec
	id    string
	seq   int64
	at    time.Duration
	call  int
	after bool // recorded after the incarnation's end frame
}

type observer struct {
	idx    int
	kind   string // command | server
	proto  centrifuge.ProtocolType
	uni    bool
	conn   *kit.Conn
	alive  bool
	incs   map[string][]*inc // per channel
	closeK string
}

type joiner struct {
	conn *kit.Conn
	subs map[string]string // channel -> join id
}

type hookPlan struct {
	point   string
	ch      string
	before  time.Duration
	after   time.Duration
	actions []hookAction
}

type hookAction struct {
	kind string // pub | pubhist | join
	key  string
	gap  time.Duration
}

// racePlan: while the publication is on its way to the observer's batch writer
// (yield point write.beforeChannelBatchAdd: it already passed the subscribed
// check), the observer unsubscribes in another goroutine; the publishing
// goroutine busy-yields (it holds the hub shard lock: no sleeping) until the
// unsubscribe has removed the channel and its batch writer.
type racePlan struct {
	client  *centrifuge.Client
	ch      string
	run     func()
	fired   bool
	deleted atomic.Bool
	done    chan struct{}
}

type event struct {
	gapKind string // fixed | aim | near
	gap     time.Duration
	kind    string // pub | join | leave | jclose | unsub | resub | close
	ch      int
	key     string
	joiner  int
	obs     int
	via     string // unsub: command | server; close: noflush | flush
	hook    *hookPlan
}

type scenario struct {
	c     *kit.Case
	w     *kit.World
	node  *centrifuge.Node
	chans []chanCfg
	cfgBy map[string]chanCfg

	mu      sync.Mutex
	log     []*prodRec
	nextPub int
	nextJ   int
	plans   map[*centrifuge.Client]*hookPlan
	race    *racePlan
	joiners []*joiner
	allConn []*kit.Conn
	windowN int
	racedN  int
}

func (s *scenario) record(rec *prodRec) {
	s.mu.Lock()
	rec.idx = len(s.log)
	s.log = append(s.log, rec)
	s.mu.Unlock()
}

func (s *scenario) publish(ch string, key string, hist bool, window bool) *prodRec {
	s.mu.Lock()
	s.nextPub++
	id := fmt.Sprintf("P%d", s.nextPub)
	s.mu.Unlock()
	rec := &prodRec{ID: id, Kind: "pub", Ch: ch, Key: key, Hist: hist, Window: window, At: s.w.Now()}
	data, _ := json.Marshal(map[string]string{"id": id})
	var opts []centrifuge.PublishOption
	if key != "" {
		opts = append(opts, centrifuge.WithKey(key))
	}
	if hist {
		opts = append(opts, centrifuge.WithHistory(100, time.Minute))
	}
	rec.CallSeq = s.w.Seq()
	s.record(rec)
	_, err := s.node.Publish(ch, data, opts...)
	rec.RetSeq = s.w.Seq()
	if err != nil {
		panic(fmt.Sprintf("publish: %v", err))
	}
	return rec
}

func (s *scenario) newJoinerConn() *kit.Conn {
	conn := s.w.NewConn(s.node, kit.TransportOpts{PingPong: centrifuge.PingPongConfig{PingInterval: -1, PongTimeout: -1}, Name: "joiner"})
	conn.Connect(nil)
	s.allConn = append(s.allConn, conn)
	return conn
}

func (s *scenario) join(j *joiner, ch string, window bool) {
	if j.conn == nil {
		j.conn = s.newJoinerConn()
		j.subs = map[string]string{}
	}
	if _, ok := j.subs[ch]; ok {
		return
	}
	s.mu.Lock()
	s.nextJ++
	jid := fmt.Sprintf("j%d", s.nextJ)
	s.mu.Unlock()
	info, _ := json.Marshal(map[string]string{"id": jid})
	rec := &prodRec{ID: "J-" + jid, Kind: "join", Ch: ch, Window: window, At: s.w.Now()}
	rec.CallSeq = s.w.Seq()
	s.record(rec)
	j.conn.Subscribe(&protocol.SubscribeRequest{Channel: ch, Data: info})
	rec.RetSeq = s.w.Seq()
	j.subs[ch] = jid
}

func (s *scenario) leave(j *joiner, ch string) {
	jid, ok := j.subs[ch]
	if !ok || j.conn == nil {
		return
	}
	rec := &prodRec{ID: "L-" + jid, Kind: "leave", Ch: ch, At: s.w.Now()}
	rec.CallSeq = s.w.Seq()
	s.record(rec)
	j.conn.Unsubscribe(ch)
	rec.RetSeq = s.w.Seq()
	delete(j.subs, ch)
}

func (s *scenario) jclose(j *joiner) {
	if j.conn == nil {
		return
	}
	var recs []*prodRec
	call := s.w.Seq()
	for ch, jid := range j.subs {
		rec := &prodRec{ID: "L-" + jid, Kind: "leave", Ch: ch, At: s.w.Now(), CallSeq: call}
		recs = append(recs, rec)
	}
	// deterministic log order (distinct channels: no order between them is asserted)
	for i := range recs {
		for k := i + 1; k < len(recs); k++ {
			if recs[k].Ch < recs[i].Ch {
				recs[i], recs[k] = recs[k], recs[i]
			}
		}
	}
	for _, rec := range recs {
		s.record(rec)
	}
	_ = j.conn.CloseFn()
	ret := s.w.Seq()
	for _, rec := range recs {
		rec.RetSeq = ret
	}
	j.conn, j.subs = nil, nil
}

func (s *scenario) hook(point string, cl *centrifuge.Client, ch string) {
	if cl == nil {
		return
	}
	s.mu.Lock()
	pl := s.plans[cl]
	rp := s.race
	s.mu.Unlock()
	if rp != nil && rp.client == cl && rp.ch == ch {
		switch point {
		case "write.beforeChannelBatchAdd":
			if !rp.fired {
				rp.fired = true
				go rp.run()
				kit.SpinUntil(rp.deleted.Load, 300000)
			}
		case "unsub.afterDelete":
			rp.deleted.Store(true)
		}
		return
	}
	if pl == nil || pl.point != point || pl.ch != ch {
		return
	}
	// Reached from an unsubscribe command / Client.Unsubscribe of a live client
	// (plans are only installed around those calls): no lock is held here.
	if pl.before > 0 {
		time.Sleep(pl.before)
	}
	for _, a := range pl.actions {
		if a.gap > 0 {
			time.Sleep(a.gap)
		}
		switch a.kind {
		case "pub":
			s.publish(ch, a.key, false, true)
			s.windowN++
		case "pubhist":
			s.publish(ch, a.key, true, true)
		case "join":
			// a fresh client joins inside the window
			j := &joiner{}
			s.joiners = append(s.joiners, j)
			s.join(j, ch, true)
		}
	}
	if pl.after > 0 {
		time.Sleep(pl.after)
	}
}

// ---------------------------------------------------------------------------------------------
// model of one channel writer

type flushG struct {
	At   time.Duration `json:"at"`
	Kind string        `json:"kind"` // size | timer | close | direct
	IDs  []string      `json:"ids"`
}

type endEv struct {
	kind string // "" (alive) | unsub | close-noflush | close-flush
	at   time.Duration
}

type cand struct {
	groups   []flushG
	pending  []string // still buffered when the observation ended (alive incarnation, no timer)
	prefixOK bool
	races    string // T = timer won a coincidence, E = the event won
}

func (cd cand) flat() []string {
	var out []string
	for _, g := range cd.groups {
		out = append(out, g.IDs...)
	}
	return out
}

type simState struct {
	buffer  []*prodRec
	latest  []*prodRec
	timerOn bool
	timerAt time.Duration
	groups  []flushG
	races   string
}

func (st simState) clone() simState {
	n := st
	n.buffer = append([]*prodRec(nil), st.buffer...)
	n.latest = append([]*prodRec(nil), st.latest...)
	n.groups = append([]flushG(nil), st.groups...)
	return n
}

func (st *simState) flush(at time.Duration, kind string) {
	if len(st.buffer)+len(st.latest) == 0 {
		return
	}
	g := flushG{At: at, Kind: kind}
	for _, it := range st.buffer {
		g.IDs = append(g.IDs, it.ID)
	}
	for _, it := range st.latest {
		g.IDs = append(g.IDs, it.ID)
	}
	st.buffer, st.latest = nil, nil
	st.groups = append(st.groups, g)
}

func (st *simState) add(cc chanCfg, it *prodRec) {
	if !cc.batching() {
		st.groups = append(st.groups, flushG{At: it.At, Kind: "direct", IDs: []string{it.ID}})
		return
	}
	if cc.Latest && it.Kind == "pub" {
		for i, ex := range st.latest {
			if ex.Key == it.Key {
				st.latest = append(st.latest[:i:i], st.latest[i+1:]...)
				break
			}
		}
		st.latest = append(st.latest, it)
	} else {
		st.buffer = append(st.buffer, it)
	}
	total := int64(len(st.buffer) + len(st.latest))
	if cc.MaxDelay > 0 && total == 1 && !st.timerOn {
		st.timerOn = true
		st.timerAt = it.At + cc.delay()
	}
	if cc.MaxSize > 0 && total >= cc.MaxSize {
		st.timerOn = false
		st.flush(it.At, "size")
	}
}

func (st *simState) pendingIDs() []string {
	var out []string
	for _, it := range st.buffer {
		out = append(out, it.ID)
	}
	for _, it := range st.latest {
		out = append(out, it.ID)
	}
	return out
}

// simulate returns every outcome the batch configuration allows for the adds of
// one incarnation; more than one only when a flush timer expires at the very
// virtual instant of an add or of the end event (both orders are legitimate).
func simulate(cc chanCfg, adds []*prodRec, end endEv) []cand {
	var out []cand
	var rec func(st simState, i int)
	finish := func(st simState) {
		switch end.kind {
		case "":
			if st.timerOn {
				st.flush(st.timerAt, "timer")
				st.timerOn = false
			}
			out = append(out, cand{groups: st.groups, pending: st.pendingIDs(), races: st.races})
		case "unsub":
			out = append(out, cand{groups: st.groups, races: st.races})
		case "close-noflush":
			out = append(out, cand{groups: st.groups, races: st.races, prefixOK: true})
		case "close-flush":
			out = append(out, cand{groups: st.groups, races: st.races})
			if len(st.buffer)+len(st.latest) > 0 {
				b := st.clone()
				b.flush(end.at, "close")
				out = append(out, cand{groups: b.groups, races: st.races})
			}
		}
	}
	rec = func(st simState, i int) {
		if len(out) >= 128 {
			return
		}
		haveNext := i < len(adds) || end.kind != ""
		var nextAt time.Duration
		if i < len(adds) {
			nextAt = adds[i].At
		} else {
			nextAt = end.at
		}
		if st.timerOn && (!haveNext || st.timerAt < nextAt) {
			st.flush(st.timerAt, "timer")
			st.timerOn = false
			rec(st, i)
			return
		}
		if st.timerOn && st.timerAt == nextAt {
			a := st.clone()
			a.flush(a.timerAt, "timer")
			a.timerOn = false
			a.races += "T"
			rec(a, i)
			st = st.clone()
			st.races += "E"
			// fall through: the event goes first, the timer stays armed
		}
		if i < len(adds) {
			st.add(cc, adds[i])
			rec(st, i+1)
			return
		}
		finish(st)
	}
	rec(simState{}, 0)
	return out
}

// pendingTimer tells the driver when the armed flush timer of a writer expires.
func pendingTimer(cc chanCfg, adds []*prodRec, now time.Duration) (time.Duration, bool) {
	st := simState{}
	for _, it := range adds {
		if st.timerOn && st.timerAt <= it.At {
			st.flush(st.timerAt, "timer")
			st.timerOn = false
		}
		st.add(cc, it)
	}
	if st.timerOn && st.timerAt > now {
		return st.timerAt, true
	}
	return 0, false
}

// ---------------------------------------------------------------------------------------------

func itemID(p *protocol.Push) (string, string) {
	var m map[string]string
	switch {
	case p.Pub != nil:
		if json.Unmarshal(p.Pub.Data, &m) == nil && m["id"] != "" {
			return m["id"], "pub"
		}
		return "", "pub"
	case p.Join != nil:
		if p.Join.Info != nil && json.Unmarshal(p.Join.Info.ChanInfo, &m) == nil && m["id"] != "" {
			return "J-" + m["id"], "join"
		}
		return "", "join"
	case p.Leave != nil:
		if p.Leave.Info != nil && json.Unmarshal(p.Leave.Info.ChanInfo, &m) == nil && m["id"] != "" {
			return "L-" + m["id"], "leave"
		}
		return "", "leave"
	}
	return "", ""
}

type frameW struct {
	Seq  int64  `json:"seq"`
	AtUs int64  `json:"at_us"`
	Call int    `json:"write_call"`
	What string `json:"what"`
}

func frameWitness(frames []kit.Frame, ch string) []frameW {
	var out []frameW
	for _, f := range frames {
		what := ""
		switch {
		case f.Reply != nil && f.Reply.Id != 0:
			switch {
			case f.Reply.Subscribe != nil:
				what = fmt.Sprintf("subscribe reply #%d", f.Reply.Id)
			case f.Reply.Unsubscribe != nil:
				what = fmt.Sprintf("unsubscribe reply #%d", f.Reply.Id)
			case f.Reply.Connect != nil:
				what = "connect reply"
			case f.Reply.Error != nil:
				what = fmt.Sprintf("error reply #%d %d", f.Reply.Id, f.Reply.Error.Code)
			default:
				what = fmt.Sprintf("reply #%d", f.Reply.Id)
			}
		case f.Push != nil:
			p := f.Push
			if p.Channel != "" && p.Channel != ch {
				continue
			}
			id, kind := itemID(p)
			switch {
			case kind != "":
				what = kind + " " + id
			case p.Subscribe != nil:
				what = "subscribe push"
			case p.Unsubscribe != nil:
				what = fmt.Sprintf("unsubscribe push %d", p.Unsubscribe.Code)
			case p.Disconnect != nil:
				what = fmt.Sprintf("disconnect push %d", p.Disconnect.Code)
			case p.Connect != nil:
				what = "connect push"
			default:
				continue
			}
		default:
			continue
		}
		out = append(out, frameW{Seq: f.Seq, AtUs: int64(f.At / time.Microsecond), Call: f.WriteCall, What: what})
	}
	if len(out) > 80 {
		out = out[len(out)-80:]
	}
	return out
}

func runCase(c *kit.Case) {
	r := c.R
	w := kit.NewWorld(c)
	s := &scenario{c: c, w: w, cfgBy: map[string]chanCfg{}, plans: map[*centrifuge.Client]*hookPlan{}}

	nCh := r.Range(1, 2)
	for i := 0; i < nCh; i++ {
		cc := chanCfg{Name: fmt.Sprintf("c13:%c", 'a'+i)}
		cc.MaxSize = int64(kit.Pick(r, []int{0, 1, 2, 3, 3, 5, 8}))
		cc.MaxDelay = kit.Pick(r, []float64{0, 4, 4, 10, 25})
		if cc.MaxSize == 0 && cc.MaxDelay == 0 && r.Chance(3, 4) {
			cc.MaxDelay = 10
		}
		cc.Latest = r.Bool()
		cc.Hist = r.Chance(1, 3)
		s.chans = append(s.chans, cc)
		s.cfgBy[cc.Name] = cc
	}
	nObs := r.Range(1, 2)
	nJoin := r.Range(1, 3)
	keys := []string{"", "a", "b", "c"}
	if r.Chance(1, 3) {
		keys = []string{"a", "b"}
	}

	nodeCfg := centrifuge.Config{
		GetChannelBatchConfig: func(ch string) centrifuge.ChannelBatchConfig {
			cc, ok := s.cfgBy[ch]
			if !ok {
				return centrifuge.ChannelBatchConfig{}
			}
			return centrifuge.ChannelBatchConfig{MaxSize: cc.MaxSize, MaxDelay: cc.delay(), FlushLatestPublication: cc.Latest}
		},
	}
	node, _ := w.NewNode(nodeCfg, func(n *centrifuge.Node) {
		n.OnConnecting(func(_ context.Context, e centrifuge.ConnectEvent) (centrifuge.ConnectReply, error) {
			return centrifuge.ConnectReply{Credentials: &centrifuge.Credentials{UserID: e.Transport.Name()}}, nil
		})
		n.OnConnect(func(cl *centrifuge.Client) {
			isJoiner := cl.Transport().Name() == "joiner"
			cl.OnSubscribe(func(e centrifuge.SubscribeEvent, cb centrifuge.SubscribeCallback) {
				if isJoiner {
					cb(centrifuge.SubscribeReply{Options: centrifuge.SubscribeOptions{EmitJoinLeave: true, ChannelInfo: e.Data}}, nil)
					return
				}
				cb(centrifuge.SubscribeReply{Options: centrifuge.SubscribeOptions{PushJoinLeave: true}}, nil)
			})
		})
	})
	s.node = node
	kit.SetHook(node, s.hook)

	// observers
	observers := make([]*observer, nObs)
	for i := range observers {
		o := &observer{idx: i, alive: true, incs: map[string][]*inc{}}
		o.kind = kit.Pick(r, []string{"command", "command", "server"})
		o.proto = kit.Pick(r, []centrifuge.ProtocolType{centrifuge.ProtocolTypeJSON, centrifuge.ProtocolTypeProtobuf})
		o.uni = o.kind == "server" && r.Bool()
		o.conn = w.NewConn(node, kit.TransportOpts{Protocol: o.proto, Unidirectional: o.uni, Name: "observer",
			PingPong: centrifuge.PingPongConfig{PingInterval: -1, PongTimeout: -1}})
		s.allConn = append(s.allConn, o.conn)
		if o.uni {
			o.conn.Client.Connect(centrifuge.ConnectRequest{})
		} else {
			o.conn.Connect(nil)
		}
		observers[i] = o
	}
	for i := 0; i < nJoin; i++ {
		s.joiners = append(s.joiners, &joiner{})
	}

	subscribe := func(o *observer, ch string) {
		in := &inc{Obs: o.idx, Ch: ch, N: len(o.incs[ch]), Via: o.kind}
		o.incs[ch] = append(o.incs[ch], in)
		in.SubCall = w.Seq()
		if o.kind == "command" {
			in.SubCmd = o.conn.NextID()
			o.conn.Do(&protocol.Command{Id: in.SubCmd, Subscribe: &protocol.SubscribeRequest{Channel: ch}})
		} else {
			if err := o.conn.Client.Subscribe(ch, centrifuge.WithPushJoinLeave(true)); err != nil {
				panic(fmt.Sprintf("Client.Subscribe: %v", err))
			}
		}
		in.SubRet = w.Seq()
	}
	current := func(o *observer, ch string) *inc {
		l := o.incs[ch]
		if len(l) == 0 || l[len(l)-1].EndKind != "" {
			return nil
		}
		return l[len(l)-1]
	}
	for _, o := range observers {
		for _, cc := range s.chans {
			subscribe(o, cc.Name)
		}
	}

	// ---- script
	nEv := r.Range(12, 60)
	var script []event
	gapSet := []time.Duration{0, 0, 0, 0, time.Millisecond, time.Millisecond, 2 * time.Millisecond, 3 * time.Millisecond, 6 * time.Millisecond}
	for i := 0; i < nEv; i++ {
		ev := event{gapKind: "fixed", gap: kit.Pick(r, gapSet), ch: r.Intn(nCh)}
		switch x := r.Intn(100); {
		case x < 12:
			ev.gapKind = "aim"
		case x < 18:
			ev.gapKind = "near"
		case x < 22:
			ev.gap = time.Duration(r.Range(8, 40)) * time.Millisecond
		}
		switch x := r.Intn(100); {
		case x < 62:
			ev.kind = "pub"
			ev.key = kit.Pick(r, keys)
		case x < 74:
			ev.kind = "join"
			ev.joiner = r.Intn(nJoin)
		case x < 82:
			ev.kind = "leave"
			ev.joiner = r.Intn(nJoin)
		case x < 84:
			ev.kind = "jclose"
			ev.joiner = r.Intn(nJoin)
		case x < 91:
			ev.kind = "unsub"
			ev.obs = r.Intn(nObs)
			ev.via = kit.Pick(r, []string{"command", "command", "server"})
			ev.key = kit.Pick(r, keys)
			if r.Chance(1, 4) {
				ev.kind = "raceunsub"
			} else if r.Chance(3, 4) {
				pl := &hookPlan{point: kit.Pick(r, []string{"unsub.afterDelete", "unsub.beforeHubRemove"})}
				pl.before = kit.Pick(r, []time.Duration{0, 0, time.Millisecond, 5 * time.Millisecond})
				pl.after = kit.Pick(r, []time.Duration{0, 0, 2 * time.Millisecond, 12 * time.Millisecond, 30 * time.Millisecond})
				for k, n := 0, r.Range(1, 3); k < n; k++ {
					a := hookAction{kind: kit.Pick(r, []string{"pub", "pub", "pub", "pubhist", "join"}), key: kit.Pick(r, keys)}
					a.gap = kit.Pick(r, []time.Duration{0, 0, time.Millisecond})
					pl.actions = append(pl.actions, a)
				}
				ev.hook = pl
			}
		case x < 98:
			ev.kind = "resub"
			ev.obs = r.Intn(nObs)
		default:
			ev.kind = "close"
			ev.obs = r.Intn(nObs)
			ev.via = kit.Pick(r, []string{"noflush", "flush"})
		}
		script = append(script, ev)
	}

	liveAdds := func(o *observer, ch string) []*prodRec {
		in := current(o, ch)
		if in == nil {
			return nil
		}
		var adds []*prodRec
		for _, rec := range s.log {
			if rec.Ch == ch && rec.CallSeq > in.SubRet {
				adds = append(adds, rec)
			}
		}
		return adds
	}

	// ---- driver
	for _, ev := range script {
		cc := s.chans[ev.ch]
		switch ev.gapKind {
		case "fixed":
			if ev.gap > 0 {
				time.Sleep(ev.gap)
			}
		case "aim", "near":
			d := time.Millisecond
			for _, o := range observers {
				if !o.alive {
					continue
				}
				if at, ok := pendingTimer(cc, liveAdds(o, cc.Name), w.Now()); ok {
					d = at - w.Now()
					if ev.gapKind == "near" && d > time.Millisecond {
						d -= time.Millisecond
					}
					break
				}
			}
			if d > 0 {
				time.Sleep(d)
			}
		}
		switch ev.kind {
		case "pub":
			s.publish(cc.Name, ev.key, cc.Hist, false)
		case "join":
			s.join(s.joiners[ev.joiner], cc.Name, false)
		case "leave":
			s.leave(s.joiners[ev.joiner], cc.Name)
		case "jclose":
			s.jclose(s.joiners[ev.joiner])
		case "unsub":
			o := observers[ev.obs]
			in := current(o, cc.Name)
			if !o.alive || in == nil {
				continue
			}
			via := ev.via
			if o.uni {
				via = "server"
			}
			if ev.hook != nil {
				pl := *ev.hook
				pl.ch = cc.Name
				in.HookAt = pl.point
				s.mu.Lock()
				s.plans[o.conn.Client] = &pl
				s.mu.Unlock()
			}
			in.EndAt = w.Now()
			in.EndCall = w.Seq()
			if via == "command" {
				in.EndKind = "unsub-command"
				in.EndCmd = o.conn.NextID()
				o.conn.Do(&protocol.Command{Id: in.EndCmd, Unsubscribe: &protocol.UnsubscribeRequest{Channel: cc.Name}})
			} else {
				in.EndKind = "unsub-server"
				o.conn.Client.Unsubscribe(cc.Name)
			}
			in.EndRet = w.Seq()
			s.mu.Lock()
			delete(s.plans, o.conn.Client)
			s.mu.Unlock()
		case "raceunsub":
			o := observers[ev.obs]
			in := current(o, cc.Name)
			if !o.alive || in == nil {
				continue
			}
			via := ev.via
			if o.uni {
				via = "server"
			}
			rp := &racePlan{client: o.conn.Client, ch: cc.Name, done: make(chan struct{})}
			rp.run = func() {
				defer close(rp.done)
				in.HookAt = "write.beforeChannelBatchAdd"
				in.EndAt = w.Now()
				in.EndCall = w.Seq()
				if via == "command" {
					in.EndKind = "unsub-command"
					in.EndCmd = o.conn.NextID()
					o.conn.Do(&protocol.Command{Id: in.EndCmd, Unsubscribe: &protocol.UnsubscribeRequest{Channel: cc.Name}})
				} else {
					in.EndKind = "unsub-server"
					o.conn.Client.Unsubscribe(cc.Name)
				}
				in.EndRet = w.Seq()
			}
			s.mu.Lock()
			s.race = rp
			s.mu.Unlock()
			rec := s.publish(cc.Name, ev.key, cc.Hist, false)
			s.mu.Lock()
			s.race = nil
			s.mu.Unlock()
			if rp.fired {
				<-rp.done
				rec.Raced = rp.deleted.Load()
				if rec.Raced {
					s.racedN++
				} else {
					// the add went to the old writer (and may have flushed it) while the
					// unsubscribe was already stamped: this incarnation's end is not modelled
					in.raceLate = true
					c.Count("raced_unsubscribe_too_late", 1)
				}
			}
		case "resub":
			o := observers[ev.obs]
			if !o.alive || current(o, cc.Name) != nil {
				continue
			}
			subscribe(o, cc.Name)
		case "close":
			o := observers[ev.obs]
			if !o.alive {
				continue
			}
			o.alive = false
			o.closeK = ev.via
			now, call := w.Now(), w.Seq()
			if ev.via == "noflush" {
				_ = o.conn.CloseFn()
			} else {
				o.conn.Client.Disconnect(centrifuge.DisconnectForceNoReconnect)
				synctest.Wait() // the close runs in its own goroutine: let it finish at this instant
			}
			ret := w.Seq()
			for _, l := range o.incs {
				if in := l[len(l)-1]; in.EndKind == "" {
					in.EndKind, in.EndAt, in.EndCall, in.EndRet = "close-"+ev.via, now, call, ret
				}
			}
		}
	}
	time.Sleep(3 * time.Second)
	synctest.Wait()

	// ----------------------------------------------------------------- oracle
	byID := map[string]*prodRec{}
	for _, rec := range s.log {
		byID[rec.ID] = rec
	}
	sig := ""
	for _, o := range observers {
		frames := o.conn.T.Frames()
		closed, disc, _ := o.conn.T.Closed()
		if c.Verbose {
			for _, f := range frames {
				c.Logf("obs %d frame seq=%d at=%v call=%d %s", o.idx, f.Seq, f.At, f.WriteCall, string(f.Raw))
			}
		}
		if closed && o.closeK == "" {
			c.Violation(classCloseCode, fmt.Sprintf("observer %d was closed with %d %q although the script never closed it", o.idx, disc.Code, disc.Reason), map[string]any{"log": w.Logs})
			continue
		}
		for _, cc := range s.chans {
			sig += checkChannel(c, s, o, cc, frames, byID)
		}
	}
	c.Count("window_publishes_without_history", s.windowN)
	c.Count("unsubscribes_run_between_subscribed_check_and_batch_add", s.racedN)
	c.Count("productions", len(s.log))
	if c.Verbose {
		for _, rec := range s.log {
			c.Logf("prod %+v", *rec)
		}
	}
	if sig != "" {
		c.Nontrivial(sig)
	}
	for _, conn := range s.allConn {
		_ = conn.CloseFn()
	}
	w.Shutdown()
}

func checkChannel(c *kit.Case, s *scenario, o *observer, cc chanCfg, frames []kit.Frame, byID map[string]*prodRec) string {
	incs := o.incs[cc.Name]
	ch := cc.Name
	detail := func(in *inc, extra map[string]any) map[string]any {
		var prods []*prodRec
		for _, rec := range s.log {
			if rec.Ch == ch {
				prods = append(prods, rec)
			}
		}
		if len(prods) > 60 {
			prods = prods[len(prods)-60:]
		}
		d := map[string]any{"batch_config": cc, "observer": map[string]any{"idx": o.idx, "kind": o.kind, "unidirectional": o.uni, "protocol": string(o.proto)},
			"incarnations": incs, "frames": frameWitness(frames, ch), "productions": prods}
		if in != nil {
			d["incarnation"] = in
		}
		for k, v := range extra {
			d[k] = v
		}
		return d
	}

	// fold frames into incarnations
	var cur *inc
	next := 0
	var last *inc // most recently ended incarnation
	startNext := func(seq int64) {
		if next < len(incs) {
			cur = incs[next]
			cur.started, cur.StartSeq = true, seq
			next++
		}
	}
	for _, f := range frames {
		if f.Reply != nil && f.Reply.Id != 0 {
			if next < len(incs) && incs[next].SubCmd != 0 && f.Reply.Id == incs[next].SubCmd && f.Reply.Error == nil {
				startNext(f.Seq)
			} else if cur != nil && cur.EndCmd != 0 && f.Reply.Id == cur.EndCmd {
				cur.ended, cur.EndSeq = true, f.Seq
				last, cur = cur, nil
			}
			continue
		}
		p := f.Push
		if p == nil {
			continue
		}
		if p.Disconnect != nil {
			continue
		}
		if p.Channel != ch {
			continue
		}
		switch {
		case p.Subscribe != nil:
			startNext(f.Seq)
		case p.Unsubscribe != nil:
			if cur != nil {
				cur.ended, cur.EndSeq = true, f.Seq
				last, cur = cur, nil
			}
		default:
			id, kind := itemID(p)
			if kind == "" {
				continue
			}
			rec := byID[id]
			if rec == nil || rec.Ch != ch || rec.Kind != kind {
				c.Violation(classUnknown, fmt.Sprintf("observer %d received a %s push %q on %s that nobody produced there", o.idx, kind, id, ch), detail(cur, nil))
				return ""
			}
			it := dItem{rec: rec, id: id, seq: f.Seq, at: f.At, call: f.WriteCall}
			if cur != nil {
				cur.delivered = append(cur.delivered, it)
			} else if last != nil {
				it.after = true
				last.delivered = append(last.delivered, it)
			} else {
				c.Violation(classOutside, fmt.Sprintf("observer %d received %s on %s at frame seq %d before any subscription existed", o.idx, id, ch, f.Seq), detail(nil, nil))
				return ""
			}
		}
	}

	sig := ""
	orphanPossible := false // an earlier unsubscribe window may have left a re-created writer behind
	for _, in := range incs {
		if (!in.started || ((in.EndKind == "unsub-command" || in.EndKind == "unsub-server") && !in.ended)) && o.closeK == "noflush" {
			// the connection was closed without flush at the same virtual instant:
			// the queued acknowledgement was discarded with the queue.
			c.Count("acknowledgement_discarded_by_close_without_flush", 1)
			return sig
		}
		if !in.started {
			c.Violation("c13-subscribe-not-acknowledged", fmt.Sprintf("observer %d: subscription %d to %s was never acknowledged on the transport", o.idx, in.N, ch), detail(in, nil))
			return sig
		}
		if (in.EndKind == "unsub-command" || in.EndKind == "unsub-server") && !in.ended {
			c.Violation("c13-unsubscribe-not-acknowledged", fmt.Sprintf("observer %d: %s of %s was never acknowledged on the transport", o.idx, in.EndKind, ch), detail(in, nil))
			return sig
		}
		c.Count("incarnations", 1)
		if in.EndKind != "" {
			c.Count("ended_by_"+in.EndKind, 1)
		}
		// 1. everything delivered must have been produced while this subscription lived
		var legit []dItem
		seen := map[string]int64{}
		windowBuffered := false
		for _, it := range in.delivered {
			if prev, dup := seen[it.id]; dup {
				c.Violation(classDup, fmt.Sprintf("observer %d received %s on %s twice (frame seqs %d and %d)", o.idx, it.id, ch, prev, it.seq), detail(in, nil))
				return sig
			}
			seen[it.id] = it.seq
			rec := it.rec
			// produced while the unsubscribe was in progress (inside the hook window, or
			// a publication whose batch add the unsubscribe overtook)
			inWindow := in.EndCall != 0 && rec.RetSeq > in.EndCall && rec.CallSeq < in.EndRet
			switch {
			case it.after:
				cls, what := classAfterEnd, "a push"
				if rec.Kind == "pub" && !rec.Hist && rec.Window {
					cls, what = classWindow, "a publication without history, published between channel-writer removal and hub removal,"
				} else if rec.Raced {
					cls, what = classRace, "a publication that had passed the subscribed check and was added to the channel batch after the unsubscribe removed the batch writer,"
				}
				report(c, cls, fmt.Sprintf("observer %d (%s): %s %s (produced seq %d..%d at %v) was delivered on %s at frame seq %d (%v), after the %s acknowledged at frame seq %d",
					o.idx, o.kind, what, it.id, rec.CallSeq, rec.RetSeq, rec.At, ch, it.seq, it.at, in.EndKind, in.EndSeq), func() any { return detail(in, map[string]any{"item": rec}) })
				return sig
			case rec.RetSeq < in.SubCall:
				cls, what := classStale, "a push"
				if rec.Kind == "pub" && !rec.Hist && rec.Window {
					cls, what = classWindow, "a publication without history, published between channel-writer removal and hub removal of the previous subscription,"
				} else if rec.Raced {
					cls, what = classRace, "a publication that had passed the subscribed check and was added to the channel batch after the previous subscription's unsubscribe removed the batch writer,"
				}
				report(c, cls, fmt.Sprintf("observer %d (%s): %s %s (produced seq %d..%d at %v, before this subscription was requested at seq %d) was delivered on %s at frame seq %d (%v) inside subscription %d",
					o.idx, o.kind, what, it.id, rec.CallSeq, rec.RetSeq, rec.At, in.SubCall, ch, it.seq, it.at, in.N), func() any { return detail(in, map[string]any{"item": rec}) })
				return sig
			case inWindow:
				c.Count("window_items_delivered_before_end_frame", 1)
			default:
				legit = append(legit, it)
			}
		}
		// window publications that were neither delivered before the end frame nor
		// refused may sit in a re-created writer: later incarnations are not modelled.
		nWindow := 0
		for _, rec := range s.log {
			if rec.Ch != ch || in.EndCall == 0 || !(rec.RetSeq > in.EndCall && rec.CallSeq < in.EndRet) {
				continue
			}
			if rec.Window && rec.Kind == "pub" && !rec.Hist {
				nWindow++
			}
			if (rec.Window && rec.Kind == "pub" && !rec.Hist) || rec.Raced {
				if _, ok := seen[rec.ID]; !ok && cc.batching() {
					windowBuffered = true
				}
			}
		}
		if nWindow > 0 {
			c.Count("unsubscribe_windows_hit", 1)
		}

		if in.raceLate {
			c.Count("incarnations_not_modelled_race_too_late", 1)
			continue
		}
		if orphanPossible {
			c.Count("incarnations_not_modelled_after_window", 1)
			if windowBuffered {
				orphanPossible = true
			}
			continue
		}
		if windowBuffered {
			orphanPossible = true
		}

		// 2. the model
		var adds []*prodRec
		for _, rec := range s.log {
			if rec.Ch != ch || rec.CallSeq < in.SubRet {
				continue
			}
			if in.EndCall != 0 && rec.RetSeq > in.EndCall {
				continue // not completed before the unsubscribe / close began
			}
			adds = append(adds, rec)
		}
		end := endEv{at: in.EndAt}
		switch in.EndKind {
		case "unsub-command", "unsub-server":
			end.kind = "unsub"
		case "close-noflush", "close-flush":
			end.kind = in.EndKind
		}
		cands := simulate(cc, adds, end)
		got := make([]string, len(legit))
		for i, it := range legit {
			got[i] = it.id
		}
		var match *cand
		for i := range cands {
			exp := cands[i].flat()
			if eqStr(got, exp) || (cands[i].prefixOK && isPrefix(got, exp)) {
				match = &cands[i]
				break
			}
		}
		if len(cands) >= 128 {
			c.Count("too_many_timer_coincidences", 1)
		}
		if match == nil {
			if len(cands) >= 128 {
				continue
			}
			classify(c, o, cc, in, adds, legit, cands, end, detail)
			return sig
		}
		// 3. evidence
		nPub, nDelPub, nJL := 0, 0, 0
		for _, a := range adds {
			if a.Kind == "pub" {
				nPub++
			} else {
				nJL++
			}
		}
		bySize, byTimer, byClose, multi := 0, 0, 0, 0
		for _, g := range match.groups {
			switch g.Kind {
			case "size":
				bySize++
			case "timer":
				byTimer++
			case "close":
				byClose++
			}
			if len(g.IDs) > 1 {
				multi++
			}
		}
		joins, leaves := 0, 0
		for _, it := range legit {
			switch it.rec.Kind {
			case "pub":
				nDelPub++
			case "join":
				joins++
			case "leave":
				leaves++
			}
		}
		c.Count("flush_size_triggered", bySize)
		c.Count("flush_timer_triggered", byTimer)
		c.Count("flush_on_close", byClose)
		c.Count("flushes_with_several_items", multi)
		c.Count("pushes_delivered", len(legit))
		c.Count("joins_delivered", joins)
		c.Count("leaves_delivered", leaves)
		c.Count("timer_coincidences_timer_first", strings.Count(match.races, "T"))
		c.Count("timer_coincidences_event_first", strings.Count(match.races, "E"))
		if len(cands) > 1 {
			c.Count("incarnations_with_timer_coincidence", 1)
		}
		if cc.Latest {
			c.Count("latest_mode_incarnations", 1)
			c.Count("coalesced_publications", supersededInGroups(cc, adds, match))
		} else {
			c.Count("plain_mode_incarnations", 1)
		}
		if !cc.batching() {
			c.Count("unbatched_channel_incarnations", 1)
		}
		if len(match.pending) > 0 {
			c.Count("incarnations_with_items_left_buffered", 1)
		}
		if end.kind == "unsub" && len(got) < len(adds) {
			c.Count("unsubscribes_discarding_buffered_items", 1)
		}
		sig += fmt.Sprintf("|o%s%v:ms%d:md%v:l%v:h%v:%s:s%d:t%d:r%s:n%d", o.kind[:1], o.uni, cc.MaxSize, cc.MaxDelay, cc.Latest, cc.Hist, in.EndKind, b(bySize), b(byTimer), match.races, b(len(legit)))
		if c.Index < 80 && len(legit) > 3 {
			c.Sample(map[string]any{"batch_config": cc, "observer_kind": o.kind, "unidirectional": o.uni, "end": in.EndKind, "produced": len(adds),
				"delivered": got, "model_flushes": match.groups, "left_buffered": match.pending, "timer_coincidences": match.races})
		}
	}
	return sig
}

// report records a violation; witnesses of the window class beyond the first
// few of this process are only counted (see windowReports).
func report(c *kit.Case, class, msg string, detail func() any) {
	if class == classWindow || class == classRace {
		if windowReports.Add(1) > maxWindowReportsPerProcess {
			c.Count("window_defect_witnesses_not_reported", 1)
			return
		}
		c.Count("window_defect_witnesses_reported", 1)
	}
	c.Violation(class, msg, detail())
}

// supersededInGroups counts publications the model coalesced away inside flushed groups.
func supersededInGroups(cc chanCfg, adds []*prodRec, m *cand) int {
	if !cc.Latest {
		return 0
	}
	flushed := map[string]bool{}
	for _, g := range m.groups {
		for _, id := range g.IDs {
			flushed[id] = true
		}
	}
	// a publication is superseded-in-a-flushed-group when a later publication of its
	// key, with no flushed publication of that key in between, was flushed.
	n := 0
	for i, a := range adds {
		if a.Kind != "pub" || flushed[a.ID] {
			continue
		}
		for _, l := range adds[i+1:] {
			if l.Kind == "pub" && l.Key == a.Key {
				if flushed[l.ID] {
					n++
				}
				break
			}
		}
	}
	return n
}

func b(n int) int {
	switch {
	case n < 2:
		return n
	case n < 5:
		return 2
	case n < 12:
		return 3
	}
	return 4
}

func eqStr(a, b []string) bool {
	if len(a) != len(b) {
		return false
	}
	for i := range a {
		if a[i] != b[i] {
			return false
		}
	}
	return true
}

func isPrefix(a, b []string) bool {
	return len(a) <= len(b) && eqStr(a, b[:len(a)])
}

// classify names the way the delivered sequence departs from every outcome the
// model allows, in terms of the property statement where possible.
func classify(c *kit.Case, o *observer, cc chanCfg, in *inc, adds []*prodRec, legit []dItem, cands []cand, end endEv,
	detail func(*inc, map[string]any) map[string]any) {
	var exp [][]string
	for _, cd := range cands {
		exp = append(exp, cd.flat())
	}
	got := make([]string, len(legit))
	for i, it := range legit {
		got[i] = it.id
	}
	extra := map[string]any{"delivered": got, "model_outcomes": candView(cands)}
	who := fmt.Sprintf("observer %d (%s) on %s, subscription %d", o.idx, o.kind, cc.Name, in.N)

	// order (statement: pushes arrive in the order they were produced; in latest mode
	// joins/leaves of a flush precede its publications, so a join may overtake
	// publications, never the other way round)
	lastJL, lastPub, lastAny := -1, -1, -1
	var lastJLid, lastPubid, lastAnyid string
	for _, it := range legit {
		idx := it.rec.idx
		bad := ""
		if it.rec.Kind == "pub" {
			if idx < lastPub {
				bad = lastPubid
			}
			lastPub, lastPubid = idx, it.id
		} else {
			if idx < lastJL {
				bad = lastJLid
			}
			lastJL, lastJLid = idx, it.id
		}
		if !cc.Latest && idx < lastAny {
			bad = lastAnyid
		}
		if cc.Latest && it.rec.Kind != "pub" && idx < lastPub {
			// a join/leave produced before a publication that was already delivered:
			// flushes are sequential and put joins/leaves first, so this cannot be legitimate.
			bad = lastPubid
		}
		if bad != "" {
			c.Violation(classOrder, fmt.Sprintf("%s: %s (production #%d) was delivered at frame seq %d after %s, which was produced later", who, it.id, idx, it.seq, bad), detail(in, extra))
			return
		}
		if idx > lastAny {
			lastAny, lastAnyid = idx, it.id
		}
	}
	// loss
	del := map[string]bool{}
	maxIdx := -1
	for _, it := range legit {
		del[it.id] = true
		if it.rec.idx > maxIdx {
			maxIdx = it.rec.idx
		}
	}
	inAll := func(id string) bool {
		for _, e := range exp {
			found := false
			for _, x := range e {
				if x == id {
					found = true
					break
				}
			}
			if !found {
				return false
			}
		}
		return true
	}
	inNone := func(id string) bool {
		for _, e := range exp {
			for _, x := range e {
				if x == id {
					return false
				}
			}
		}
		return true
	}
	for _, a := range adds {
		if del[a.ID] || !inAll(a.ID) {
			continue
		}
		// every allowed outcome delivers a; it is missing
		if a.idx < maxIdx || end.kind == "" || end.kind == "unsub" || end.kind == "close-flush" {
			c.Violation(classLost, fmt.Sprintf("%s: %s (%s, produced at %v) was never delivered although the subscription lived on (every outcome the batch configuration allows flushes it)", who, a.ID, a.Kind, a.At), detail(in, extra))
			return
		}
	}
	if cc.Latest {
		for _, it := range legit {
			if it.rec.Kind == "pub" && inNone(it.id) {
				c.Violation(classCoalesce, fmt.Sprintf("%s: publication %s (key %q) was delivered at frame seq %d although a newer publication of the same key was added to the same batch before any flush", who, it.id, it.rec.Key, it.seq), detail(in, extra))
				return
			}
		}
	}
	c.Violation(classModel, fmt.Sprintf("%s: the delivered pushes %v match none of the %d outcome(s) of the batch configuration", who, got, len(cands)), detail(in, extra))
}

func candView(cands []cand) []map[string]any {
	var out []map[string]any
	for i, cd := range cands {
		if i >= 6 {
			break
		}
		out = append(out, map[string]any{"flushes": cd.groups, "left_buffered": cd.pending, "races": cd.races, "prefix_allowed": cd.prefixOK})
	}
	return out
}

func TestC13(t *testing.T) {
	kit.Main(t, kit.Spec{
		ID:     "C13",
		Level:  "exploration",
		Bubble: true,
		Rule: "each case = one virtual-time bubble with Config.GetChannelBatchConfig over 1-2 channels drawn from MaxSize {0,1,2,3,5,8} x MaxDelay {0,4,10,25 ms} x FlushLatestPublication x publish with/without history; " +
			"1-2 observing connections (subscribe command or Client.Subscribe, JSON/Protobuf, bi/unidirectional, PushJoinLeave) and 1-3 other clients whose subscribe/unsubscribe/close emit join/leave pushes carrying unique ids; " +
			"one driver goroutine executes 12-60 scripted events (Node.Publish with WithKey from a 2-4 key alphabet, join, leave, client close, observer unsubscribe by command or Client.Unsubscribe, resubscribe, close with/without flush) at scripted virtual instants, some aimed exactly at (or 1 ms before) the expiry of the armed flush timer; " +
			"most unsubscribes install a plan for the yield points unsub.afterDelete / unsub.beforeHubRemove that sleeps and publishes (with and without history) or lets a client join inside the window between channel-writer removal and hub removal; " +
			"1 of 4 instead runs the unsubscribe from the yield point write.beforeChannelBatchAdd of a publication that already passed the subscribed check (the publisher busy-yields until the channel writer was removed, then adds). " +
			"Oracle: the production log (call/return stamps, virtual instant) is replayed through a model of the batch writer (buffer, per-key latest list, timer armed by the first item, size flush); when a timer expires at the instant of an event both orders are allowed. Per subscription incarnation the delivered pushes must equal one allowed outcome " +
			"(plain: production order, nothing missing; latest: per flush joins/leaves then the newest publication per key ordered by the production of those newest publications); nothing may be delivered after the unsubscribe reply / unsubscribe push, and nothing produced before a subscription was requested may be delivered inside it. " +
			"Non-trivial = an incarnation with a matched outcome; signature = observer kind x batch config x ending x flush kinds x coincidence choices.",
		Assumptions: []string{
			"'last-update order' is read from the code as: the newest publication of each key, ordered by the production order of those newest publications (equivalently ascending offsets); a publication with an empty key coalesces with other empty-key publications",
			"join/leave pushes count towards MaxSize and arm the timer like publications (code); the model follows that, a deviation that still satisfies the statement is reported under the separate class " + classModel,
			"pushes produced while an unsubscribe is in progress (inside the hook window) may be delivered before the unsubscribe reply/push or dropped; only delivery after it is a violation",
			"after an unsubscribe window in which publications without history were neither delivered before the reply nor dropped visibly, later incarnations of that observer/channel are checked only for stale deliveries (a re-created writer would shift the model's flush boundaries)",
			"close without flush: the delivered pushes may be any prefix of the model outcome (the connection queue is discarded); close with flush may or may not deliver what the channel writer still buffered",
			"the observing connections use the default connection writer (no WriteDelay) and a transport without latency, so a flush reaches the transport at its own virtual instant",
		},
		Cases:       map[string]int{"quick": 3200, "thorough": 32000},
		CaseTimeout: 120 * time.Second,
		RequireCounters: []string{"flush_size_triggered", "flush_timer_triggered", "flushes_with_several_items", "coalesced_publications", "joins_delivered", "leaves_delivered",
			"timer_coincidences_timer_first", "timer_coincidences_event_first", "latest_mode_incarnations", "plain_mode_incarnations", "unbatched_channel_incarnations",
			"ended_by_unsub-command", "ended_by_unsub-server", "ended_by_close-noflush", "ended_by_close-flush", "unsubscribe_windows_hit", "window_publishes_without_history",
			"unsubscribes_run_between_subscribed_check_and_batch_add",
			"unsubscribes_discarding_buffered_items", "incarnations_with_items_left_buffered"},
		Run: runCase,
	})
}
