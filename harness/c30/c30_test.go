// C30: WebSocket messages round-trip through writer and reader.
//
// A server Conn (real Upgrader) and a client Conn (real Dialer) talk over an
// in-memory pipe whose two directions are tapped. Every write API is used; the
// peer must read the same messages, and the tapped bytes must decode with the
// independent reference decoder (wsmodel) into valid frames carrying the same messages.
package c30

import (
	"bufio"
	"bytes"
	"encoding/binary"
	"errors"
	"fmt"
	"io"
	"net"
	"net/http"
	"runtime"
	"runtime/debug"
	"strings"
	"sync"
	"testing"
	"time"
	"unicode/utf8"

	"github.com/centrifugal/centrifuge/internal/websocket"
	"github.com/centrifugal/centrifuge/verifx/kit"
	"github.com/centrifugal/centrifuge/verifx/wsmodel"
)

// ---------------------------------------------------------------------------------------------
// scenario description

type sideCfg struct {
	WriteBuf  int  `json:"write_buf"`
	ReadBuf   int  `json:"read_buf"`
	Pool      bool `json:"pool"`
	HijackBuf int  `json:"hijack_buf,omitempty"` // server only: size of the hijacked bufio.Writer (reused when WriteBuf==0)
	MaxRead   int  `json:"max_read"`             // network reads on this side return at most 1..MaxRead bytes (0 = unbounded)
	ReadMode  int  `json:"read_mode"`            // 0 ReadMessage, 1 NextReader in pieces
}

type op struct {
	Kind   string // msg | writer | prepared | control | nextwriter-control | bad-control | level | enable
	Type   int
	Data   []byte
	Pieces []int // piece sizes for "writer"
	How    int   // writer: 0 Write, 1 io.WriteString, 2 io.Copy (ReadFrom)
	Level  int
	Enable bool
	PM     int // index of the shared prepared message
}

type scenario struct {
	Deflate    bool    `json:"deflate"`
	Concurrent bool    `json:"concurrent"`
	Client     sideCfg `json:"client"`
	Server     sideCfg `json:"server"`
	ClientOps  []op    `json:"-"`
	ServerOps  []op    `json:"-"`
	Prepared   []op    `json:"-"` // shared prepared messages (Type, Data)
	// closing handshake
	ServerCloses bool   `json:"server_closes"`
	CloseCode    int    `json:"close_code"`
	CloseReason  string `json:"close_reason"`
	CloseVia     int    `json:"close_via"` // 0 WriteControl, 1 WriteMessage(CloseMessage)
}

var bufSizes = []int{0, 0, 1, 16, 111, 125, 126, 127, 256, 512, 1024, 1024, 4096, 4096, 4096, 4096, 16384, 65536}

func msgSize(r *kit.Rand, wb int) int {
	n := msgSize0(r, wb)
	if wb > 0 && wb < 100 && n > 12000 {
		// a tiny write buffer turns a client message into one frame per wb bytes: keep the frame count bounded
		n = r.Range(0, 12000)
	}
	return n
}

func msgSize0(r *kit.Rand, wb int) int {
	if wb <= 0 {
		wb = 4096
	}
	full := wb + 14 // length of the connection's write buffer (payload area + header room)
	switch x := r.Intn(100); {
	case x < 8:
		return 0
	case x < 25:
		return r.Range(1, 30)
	case x < 40:
		return kit.Pick(r, []int{123, 124, 125, 126, 127, 128, 129})
	case x < 60: // around the write buffer
		return max(0, kit.Pick(r, []int{wb, full, 2 * wb, 2 * full, 3 * wb})+r.Range(-2, 2))
	case x < 68:
		return kit.Pick(r, []int{65533, 65534, 65535, 65536, 65537, 65550})
	case x < 90:
		return r.Range(30, 5000)
	case x < 98:
		return r.Range(5000, 70000)
	}
	return r.Range(70000, 200000)
}

var pieces = []string{"a", "Z", "0", " ", "\n", "é", "ß", "π", "Ж", "中", "日本", "€", "😀", "𝄞", "{\"k\":1}", "abcabcabc"}

func content(r *kit.Rand, n int, text bool) []byte {
	b := make([]byte, 0, n)
	switch mode := r.Intn(3); {
	case text || mode == 0:
		for len(b) < n {
			p := kit.Pick(r, pieces)
			if len(b)+len(p) > n {
				p = "x"
			}
			b = append(b, p...)
		}
	case mode == 1:
		pat := r.Bytes(r.Range(1, 6))
		for len(b) < n {
			b = append(b, pat...)
		}
		b = b[:n]
	default:
		b = r.Bytes(n)
	}
	return b
}

func genOps(r *kit.Rand, wb int, deflate bool, npm int, isServer bool) []op {
	n := r.Range(3, 14)
	var ops []op
	for i := 0; i < n; i++ {
		text := r.Bool()
		typ := websocket.BinaryMessage
		if text {
			typ = websocket.TextMessage
		}
		switch x := r.Intn(100); {
		case x < 30:
			ops = append(ops, op{Kind: "msg", Type: typ, Data: content(r, msgSize(r, wb), text)})
		case x < 60:
			data := content(r, msgSize(r, wb), text)
			var ps []int
			rem := len(data)
			for rem > 0 {
				k := rem
				if r.Chance(3, 4) {
					k = r.Range(0, min(rem, kit.Pick(r, []int{1, 10, 200, wb + 20, 3 * (wb + 20), 70000})))
				}
				ps = append(ps, k)
				rem -= k
				if len(ps) > 40 {
					ps = append(ps, rem)
					rem = 0
				}
			}
			if r.Chance(1, 5) {
				ps = append(ps, 0)
			}
			ops = append(ops, op{Kind: "writer", Type: typ, Data: data, Pieces: ps, How: r.Intn(3)})
		case x < 70 && npm > 0:
			ops = append(ops, op{Kind: "prepared", PM: r.Intn(npm)})
		case x < 84:
			t := kit.Pick(r, []int{websocket.PingMessage, websocket.PingMessage, websocket.PongMessage})
			ops = append(ops, op{Kind: "control", Type: t, Data: content(r, kit.Pick(r, []int{0, 1, 4, 124, 125, r.Intn(126)}), false)})
		case x < 88:
			// a control message written through NextWriter must fit the write buffer (it cannot be fragmented)
			ops = append(ops, op{Kind: "nextwriter-control", Type: websocket.PingMessage, Data: content(r, min(wb, kit.Pick(r, []int{0, 5, 125})), false)})
		case x < 92:
			ops = append(ops, op{Kind: "bad-control", Type: kit.Pick(r, []int{websocket.PingMessage, websocket.PongMessage, websocket.CloseMessage}), Data: content(r, kit.Pick(r, []int{126, 127, 200, 5000}), false), How: r.Intn(2)})
		case x < 94 && deflate:
			ops = append(ops, op{Kind: "level", Level: kit.Pick(r, []int{-2, -1, 0, 1, 1, 1, 2, 5, 6, 9})})
		case deflate:
			ops = append(ops, op{Kind: "enable", Enable: r.Chance(1, 3)})
		default:
			ops = append(ops, op{Kind: "msg", Type: typ, Data: content(r, r.Intn(200), text)})
		}
	}
	return ops
}

func genScenario(r *kit.Rand) *scenario {
	sc := &scenario{Deflate: r.Chance(3, 10), Concurrent: r.Chance(1, 3)}
	sc.Client = sideCfg{WriteBuf: kit.Pick(r, bufSizes), ReadBuf: kit.Pick(r, bufSizes), Pool: r.Chance(1, 4), MaxRead: kit.Pick(r, []int{0, 0, 1, 3, 100, 4096}), ReadMode: r.Intn(2)}
	sc.Server = sideCfg{WriteBuf: kit.Pick(r, bufSizes), ReadBuf: kit.Pick(r, bufSizes), Pool: r.Chance(1, 4), HijackBuf: kit.Pick(r, []int{4096, 4096, 300, 200, 1000}), MaxRead: kit.Pick(r, []int{0, 0, 1, 3, 100, 4096}), ReadMode: r.Intn(2)}
	npm := r.Intn(3)
	for i := 0; i < npm; i++ {
		text := r.Bool()
		typ := websocket.BinaryMessage
		if text {
			typ = websocket.TextMessage
		}
		sc.Prepared = append(sc.Prepared, op{Type: typ, Data: content(r, msgSize(r, 4096), text)})
	}
	// effective payload area of the write buffers
	swb := sc.Server.WriteBuf
	if swb == 0 {
		swb = 4096
		if !sc.Server.Pool && sc.Server.HijackBuf >= 14+256 {
			swb = sc.Server.HijackBuf - 14 // the hijacked buffer is reused
		}
	}
	cwb := sc.Client.WriteBuf
	if cwb == 0 {
		cwb = 4096
	}
	sc.ClientOps = genOps(r, cwb, sc.Deflate, npm, false)
	sc.ServerOps = genOps(r, swb, sc.Deflate, npm, true)
	sc.ServerCloses = r.Bool()
	sc.CloseCode = kit.Pick(r, []int{1000, 1001, 1008, 1011, 3000, 3500, 4000, 4999, r.Range(3000, 4999)})
	rl := kit.Pick(r, []int{0, 0, 5, 122, 123})
	sc.CloseReason = string(content(r, rl, true))
	if !utf8.ValidString(sc.CloseReason) {
		sc.CloseReason = strings.Repeat("r", rl)
	}
	sc.CloseVia = r.Intn(2)
	wb := cwb
	if sc.ServerCloses {
		wb = swb
	}
	if 2+len(sc.CloseReason) > wb {
		sc.CloseVia = 0 // WriteMessage(CloseMessage) cannot fragment: the payload has to fit the write buffer
	}
	return sc
}

// ---------------------------------------------------------------------------------------------
// running one scenario

type event struct {
	Ctl  bool
	Type int // websocket message type
	Data []byte
}

type endpoint struct {
	name   string
	conn   *websocket.Conn
	pc     *wsmodel.PipeConn
	cfg    sideCfg
	sent   []event // what the application wrote successfully, in call order (data and controls)
	gotMu  sync.Mutex
	got    []event // what the application received: data messages and ping/pong payloads in arrival order
	werr   error
	rerr   error
	badOK  int
	closed *websocket.CloseError
	auto   []event // pong replies the ping handler managed to write
}

type strReader struct{ r *bytes.Reader } // hides WriterTo so that io.Copy uses ReadFrom of the destination

func (s strReader) Read(p []byte) (int, error) { return s.r.Read(p) }

type simplePool struct {
	mu sync.Mutex
	xs []interface{}
}

func (p *simplePool) Get() interface{} {
	p.mu.Lock()
	defer p.mu.Unlock()
	if n := len(p.xs); n > 0 {
		x := p.xs[n-1]
		p.xs = p.xs[:n-1]
		return x
	}
	return nil
}
func (p *simplePool) Put(x interface{}) { p.mu.Lock(); p.xs = append(p.xs, x); p.mu.Unlock() }

// write performs the side's ops; ctlOnly/dataOnly split them for the concurrent mode.
func (e *endpoint) write(ops []op, pms []*websocket.PreparedMessage, pmData []op, filter func(op) bool, record func(event)) error {
	c := e.conn
	for _, o := range ops {
		if filter != nil && !filter(o) {
			continue
		}
		var err error
		switch o.Kind {
		case "msg":
			err = c.WriteMessage(o.Type, o.Data)
			if err == nil {
				record(event{Type: o.Type, Data: o.Data})
			}
		case "writer":
			var w io.WriteCloser
			w, err = c.NextWriter(o.Type)
			if err != nil {
				break
			}
			pos := 0
			for _, k := range o.Pieces {
				p := o.Data[pos : pos+k]
				pos += k
				switch o.How {
				case 1:
					_, err = io.WriteString(w, string(p))
				case 2:
					_, err = io.Copy(w, strReader{bytes.NewReader(p)})
				default:
					var n int
					n, err = w.Write(p)
					if err == nil && n != len(p) {
						err = fmt.Errorf("short write %d of %d without error", n, len(p))
					}
				}
				if err != nil {
					break
				}
			}
			if err == nil {
				err = w.Close()
			}
			if err == nil {
				record(event{Type: o.Type, Data: o.Data})
			}
		case "prepared":
			err = c.WritePreparedMessage(pms[o.PM])
			if err == nil {
				record(event{Type: pmData[o.PM].Type, Data: pmData[o.PM].Data})
			}
		case "control":
			err = c.WriteControl(o.Type, o.Data, time.Time{})
			if err == nil {
				record(event{Ctl: true, Type: o.Type, Data: o.Data})
			}
		case "nextwriter-control":
			var w io.WriteCloser
			w, err = c.NextWriter(o.Type)
			if err == nil {
				_, err = w.Write(o.Data)
			}
			if err == nil {
				err = w.Close()
			}
			if err == nil {
				record(event{Ctl: true, Type: o.Type, Data: o.Data})
			}
		case "bad-control":
			// must be refused without anything reaching the wire
			var berr error
			if o.How == 0 {
				berr = c.WriteControl(o.Type, o.Data, time.Time{})
			} else {
				berr = c.WriteMessage(o.Type, o.Data)
			}
			if berr == nil {
				return fmt.Errorf("BAD-CONTROL-ACCEPTED: control frame type %d with %d payload bytes was written without error", o.Type, len(o.Data))
			}
			e.badOK++
		case "level":
			err = c.SetCompressionLevel(o.Level)
		case "enable":
			c.EnableWriteCompression(o.Enable)
		}
		if err != nil {
			return fmt.Errorf("%s of %d bytes (type %d): %w", o.Kind, len(o.Data), o.Type, err)
		}
	}
	return nil
}

// read reads until ndata data messages have arrived (or an error).
func (e *endpoint) read(ndata int, rr *kit.Rand) {
	c := e.conn
	for i := 0; i < ndata; i++ {
		if e.cfg.ReadMode == 0 {
			mt, p, err := c.ReadMessage()
			if err != nil {
				e.rerr = err
				return
			}
			e.gotMu.Lock()
			e.got = append(e.got, event{Type: mt, Data: p})
			e.gotMu.Unlock()
			continue
		}
		mt, rd, err := c.NextReader()
		if err != nil {
			e.rerr = err
			return
		}
		var data []byte
		buf := make([]byte, 1+rr.Intn(9000))
		for {
			n, rerr := rd.Read(buf[:1+rr.Intn(len(buf))])
			data = append(data, buf[:n]...)
			if rerr == io.EOF {
				break
			}
			if rerr != nil {
				e.rerr = rerr
				return
			}
		}
		e.gotMu.Lock()
		e.got = append(e.got, event{Type: mt, Data: data})
		e.gotMu.Unlock()
	}
}

// readClose reads until the close frame (anything else before it is recorded).
func (e *endpoint) readClose() {
	for i := 0; i < 4; i++ {
		mt, p, err := e.conn.ReadMessage()
		if err != nil {
			var ce *websocket.CloseError
			if errors.As(err, &ce) {
				e.closed = ce
			} else {
				e.rerr = err
			}
			return
		}
		e.gotMu.Lock()
		e.got = append(e.got, event{Type: mt, Data: p})
		e.gotMu.Unlock()
	}
}

func (e *endpoint) installHandlers() {
	e.conn.SetPingHandler(func(b []byte) error {
		e.gotMu.Lock()
		e.got = append(e.got, event{Ctl: true, Type: websocket.PingMessage, Data: append([]byte(nil), b...)})
		e.gotMu.Unlock()
		// like the default handler
		if err := e.conn.WriteControl(websocket.PongMessage, b, time.Time{}); err == nil {
			e.gotMu.Lock()
			e.auto = append(e.auto, event{Ctl: true, Type: websocket.PongMessage, Data: append([]byte(nil), b...)})
			e.gotMu.Unlock()
		}
		return nil
	})
	e.conn.SetPongHandler(func(b []byte) error {
		e.gotMu.Lock()
		e.got = append(e.got, event{Ctl: true, Type: websocket.PongMessage, Data: append([]byte(nil), b...)})
		e.gotMu.Unlock()
		return nil
	})
}

const readBound = 5 * time.Minute // only a hang guard; reaching it is reported as inconclusive

type result struct {
	sc           *scenario
	cl, sv       *endpoint
	negotiated   bool
	handshakeErr error
	c2s, s2c     []byte // tapped frame bytes (after the HTTP heads)
	timeout      bool
}

func countData(ops []op) int {
	n := 0
	for _, o := range ops {
		if o.Kind == "msg" || o.Kind == "writer" || o.Kind == "prepared" {
			n++
		}
	}
	return n
}

func isCtlOp(o op) bool { return o.Kind == "control" }

func run(sc *scenario, seed uint64) *result {
	res := &result{sc: sc}
	a, b := wsmodel.Pipe()
	if sc.Client.MaxRead > 0 {
		rr := kit.NewRand(seed, 11)
		a.MaxRead = func() int { return rr.Range(1, sc.Client.MaxRead) }
	}
	if sc.Server.MaxRead > 0 {
		rr := kit.NewRand(seed, 12)
		b.MaxRead = func() int { return rr.Range(1, sc.Server.MaxRead) }
	}
	_ = a.SetReadDeadline(time.Now().Add(readBound))
	_ = b.SetReadDeadline(time.Now().Add(readBound))

	// handshake
	type upRes struct {
		c   *websocket.Conn
		err error
	}
	upCh := make(chan upRes, 1)
	go func() {
		br := bufio.NewReaderSize(b, 4096)
		req, err := http.ReadRequest(br)
		if err != nil {
			upCh <- upRes{nil, err}
			return
		}
		up := &websocket.Upgrader{ReadBufferSize: sc.Server.ReadBuf, WriteBufferSize: sc.Server.WriteBuf, EnableCompression: sc.Deflate}
		if sc.Server.Pool {
			up.WriteBufferPool = &simplePool{}
		}
		rw := wsmodel.NewHijackRW(b, br, 4096, sc.Server.HijackBuf)
		c, _, err := up.Upgrade(rw, req, nil)
		upCh <- upRes{c, err}
	}()
	d := &websocket.Dialer{
		NetDial:         func(network, addr string) (net.Conn, error) { return a, nil },
		ReadBufferSize:  sc.Client.ReadBuf,
		WriteBufferSize: sc.Client.WriteBuf, EnableCompression: sc.Deflate,
		HandshakeTimeout: readBound,
	}
	if sc.Client.Pool {
		d.WriteBufferPool = &simplePool{}
	}
	cc, _, _, err := d.Dial("ws://example.test/ws", nil)
	ur := <-upCh
	if err != nil || ur.err != nil {
		res.handshakeErr = fmt.Errorf("dial: %v, upgrade: %v", err, ur.err)
		_ = a.Close()
		_ = b.Close()
		return res
	}
	res.cl = &endpoint{name: "client", conn: cc, pc: a, cfg: sc.Client}
	res.sv = &endpoint{name: "server", conn: ur.c, pc: b, cfg: sc.Server}
	_ = a.SetReadDeadline(time.Now().Add(readBound)) // the dialer cleared it
	res.negotiated = cc.IsCompressionNegotiated() && ur.c.IsCompressionNegotiated()
	res.cl.installHandlers()
	res.sv.installHandlers()

	var pms []*websocket.PreparedMessage
	for _, p := range sc.Prepared {
		pm, perr := websocket.NewPreparedMessage(p.Type, append([]byte(nil), p.Data...))
		if perr != nil {
			res.handshakeErr = fmt.Errorf("NewPreparedMessage: %v", perr)
			return res
		}
		pms = append(pms, pm)
	}
	rec := func(e *endpoint) func(event) {
		return func(ev event) { e.gotMu.Lock(); e.sent = append(e.sent, ev); e.gotMu.Unlock() }
	}
	nc, ns := countData(sc.ClientOps), countData(sc.ServerOps)
	rrC, rrS := kit.NewRand(seed, 13), kit.NewRand(seed, 14)

	if !sc.Concurrent {
		// strictly sequential: nothing ever has to wait, so reads never block
		a.NonBlocking.Store(true)
		b.NonBlocking.Store(true)
		res.cl.werr = res.cl.write(sc.ClientOps, pms, sc.Prepared, nil, rec(res.cl))
		res.sv.read(nc, rrS)
		res.sv.werr = res.sv.write(sc.ServerOps, pms, sc.Prepared, nil, rec(res.sv))
		res.cl.read(ns, rrC)
	} else {
		var wg sync.WaitGroup
		// controls are written from a second goroutine per side, concurrently with the
		// data writer (WriteControl is documented as safe for that)
		var csent, ssent []event
		var cmu sync.Mutex
		wg.Add(6)
		go func() {
			defer wg.Done()
			res.cl.werr = res.cl.write(sc.ClientOps, pms, sc.Prepared, func(o op) bool { return !isCtlOp(o) }, rec(res.cl))
		}()
		go func() {
			defer wg.Done()
			_ = res.cl.write(sc.ClientOps, pms, sc.Prepared, isCtlOp, func(ev event) { cmu.Lock(); csent = append(csent, ev); cmu.Unlock() })
		}()
		go func() {
			defer wg.Done()
			res.sv.werr = res.sv.write(sc.ServerOps, pms, sc.Prepared, func(o op) bool { return !isCtlOp(o) }, rec(res.sv))
		}()
		go func() {
			defer wg.Done()
			_ = res.sv.write(sc.ServerOps, pms, sc.Prepared, isCtlOp, func(ev event) { cmu.Lock(); ssent = append(ssent, ev); cmu.Unlock() })
		}()
		go func() { defer wg.Done(); res.sv.read(nc, rrS) }()
		go func() { defer wg.Done(); res.cl.read(ns, rrC) }()
		wg.Wait()
		res.cl.sent = append(res.cl.sent, csent...) // order between the two writers is not defined; compared per kind
		res.sv.sent = append(res.sv.sent, ssent...)
		a.NonBlocking.Store(true) // from here on everything is sequential again
		b.NonBlocking.Store(true)
	}

	// closing handshake
	if res.cl.werr == nil && res.sv.werr == nil && res.cl.rerr == nil && res.sv.rerr == nil {
		first, second := res.cl, res.sv
		if sc.ServerCloses {
			first, second = res.sv, res.cl
		}
		payload := websocket.FormatCloseMessage(sc.CloseCode, sc.CloseReason)
		var err error
		if sc.CloseVia == 0 {
			err = first.conn.WriteControl(websocket.CloseMessage, payload, time.Time{})
		} else {
			err = first.conn.WriteMessage(websocket.CloseMessage, payload)
		}
		if err != nil {
			first.werr = fmt.Errorf("close frame: %w", err)
		} else {
			first.sent = append(first.sent, event{Ctl: true, Type: websocket.CloseMessage, Data: payload})
			second.readClose() // receives it, answers automatically
			first.readClose()
		}
	}
	for _, e := range []*endpoint{res.cl, res.sv} {
		if errors.Is(e.rerr, wsmodel.ErrWouldBlock) {
			continue
		}
		var ne net.Error
		if e.rerr != nil && errors.As(e.rerr, &ne) && ne.Timeout() {
			res.timeout = true
		}
	}
	_ = cc.Close()
	_ = ur.c.Close()
	res.c2s, res.s2c = a.Sent(), b.Sent()
	return res
}

// ---------------------------------------------------------------------------------------------
// oracle

type verdict struct{ class, msg string }

func opcodeOf(t int) byte { return byte(t) }

func evBrief(ev event) string {
	return fmt.Sprintf("{ctl=%v type=%d len=%d}", ev.Ctl, ev.Type, len(ev.Data))
}

func split(evs []event) (data, ctl []event) {
	for _, e := range evs {
		if e.Ctl {
			ctl = append(ctl, e)
		} else {
			data = append(data, e)
		}
	}
	return
}

func sameEvents(a, b []event) (int, bool) {
	if len(a) != len(b) {
		return min(len(a), len(b)), false
	}
	for i := range a {
		if a[i].Ctl != b[i].Ctl || a[i].Type != b[i].Type || !bytes.Equal(a[i].Data, b[i].Data) {
			return i, false
		}
	}
	return 0, true
}

// wireEvents decodes one tapped direction with the reference receiver.
func wireEvents(dirName string, tap []byte, head string, toServer, deflate bool) (evs []event, out wsmodel.Outcome, frames []wsmodel.Frame, v *verdict) {
	i := bytes.Index(tap, []byte("\r\n\r\n"))
	if i < 0 || !bytes.HasPrefix(tap, []byte(head)) {
		return nil, out, nil, &verdict{"handshake-bytes-malformed", dirName + ": tapped bytes do not start with an HTTP head"}
	}
	body := tap[i+4:]
	frames, rest, perr := wsmodel.ParseAll(body)
	if perr != nil {
		return nil, out, frames, &verdict{"wire-bytes-not-frames", fmt.Sprintf("%s: after %d frames the remaining %d bytes are not a complete frame (%v)", dirName, len(frames), len(rest), perr)}
	}
	out = wsmodel.Decode(body, wsmodel.RecvConfig{Server: toServer, Deflate: deflate})
	if out.End == wsmodel.EndFail {
		return nil, out, frames, &verdict{"wire-invalid:" + out.FailKind, fmt.Sprintf("%s: frame %d on the wire violates %q", dirName, out.Frames, out.FailKind)}
	}
	// sender-side MUSTs the receiver model does not enforce
	for k, f := range frames {
		if f.LenBits != wsmodel.MinimalLenBits(uint64(len(f.Payload))) {
			return nil, out, frames, &verdict{"wire-non-minimal-length", fmt.Sprintf("%s: frame %d encodes length %d with %d bits", dirName, k, len(f.Payload), f.LenBits)}
		}
		if f.Opcode == wsmodel.OpClose && len(f.Payload) >= 2 {
			code := int(binary.BigEndian.Uint16(f.Payload))
			if wsmodel.ClassifyCloseCode(code) == wsmodel.CloseCodeForbidden {
				return nil, out, frames, &verdict{"wire-close-code-forbidden", fmt.Sprintf("%s: close frame with code %d", dirName, code)}
			}
		}
	}
	// rebuild the event order from the model outcome
	ci := 0
	for mi := 0; mi <= len(out.Msgs); mi++ {
		for ci < len(out.Controls) && out.Controls[ci].AfterMsgs == mi {
			c := out.Controls[ci]
			evs = append(evs, event{Ctl: true, Type: int(c.Opcode), Data: c.Payload})
			ci++
		}
		if mi < len(out.Msgs) {
			evs = append(evs, event{Type: int(out.Msgs[mi].Type), Data: out.Msgs[mi].Data})
		}
	}
	if out.End == wsmodel.EndClose {
		p := []byte{}
		if out.CloseCode != 1005 {
			p = wsmodel.ClosePayload(out.CloseCode, out.CloseReason)
		}
		evs = append(evs, event{Ctl: true, Type: websocket.CloseMessage, Data: p})
	}
	return evs, out, frames, nil
}

// without removes from evs the control events that were produced automatically
// (pong replies by the ping handler, the close echo): those listed in auto, in order.
func removeAutoUnused(evs []event, auto []event) []event {
	var out []event
	j := 0
	for _, e := range evs {
		if j < len(auto) && e.Ctl && e.Type == auto[j].Type && bytes.Equal(e.Data, auto[j].Data) {
			j++
			continue
		}
		out = append(out, e)
	}
	return out
}

func judge(c *kit.Case, res *result) *verdict {
	sc := res.sc
	if res.handshakeErr != nil {
		return &verdict{"handshake-failed", res.handshakeErr.Error()}
	}
	if res.negotiated != sc.Deflate {
		return &verdict{"compression-negotiation-mismatch", fmt.Sprintf("offered and enabled=%v, negotiated=%v", sc.Deflate, res.negotiated)}
	}
	for _, e := range []*endpoint{res.cl, res.sv} {
		if e.werr != nil {
			if strings.Contains(e.werr.Error(), "BAD-CONTROL-ACCEPTED") {
				return &verdict{"oversized-control-frame-accepted-by-writer", e.name + ": " + e.werr.Error()}
			}
			return &verdict{"write-failed", e.name + ": " + e.werr.Error()}
		}
	}
	// 1. the wire
	c2sEv, c2sOut, c2sFrames, v := wireEvents("client->server", res.c2s, "GET ", true, sc.Deflate)
	if v != nil {
		return v
	}
	s2cEv, s2cOut, s2cFrames, v := wireEvents("server->client", res.s2c, "HTTP/1.1 101", false, sc.Deflate)
	if v != nil {
		return v
	}
	type dir struct {
		name      string
		from, to  *endpoint
		wire      []event
		out       wsmodel.Outcome
		frames    []wsmodel.Frame
		wroteLast bool
	}
	dirs := []dir{
		{"client->server", res.cl, res.sv, c2sEv, c2sOut, c2sFrames, !sc.ServerCloses},
		{"server->client", res.sv, res.cl, s2cEv, s2cOut, s2cFrames, sc.ServerCloses},
	}
	for _, d := range dirs {
		if d.to.rerr != nil && !res.timeout {
			// the closing handshake was skipped; decide whether the wire or the reader is at fault
			wd, _ := split(d.wire)
			sd, _ := split(d.from.sent)
			gd, _ := split(d.to.got)
			if i, ok := sameEvents(wd, sd); !ok {
				return &verdict{"wire-content-differs-from-written", fmt.Sprintf("%s: decoded data messages on the wire differ from the written ones at index %d (wire %d, written %d): wire=%s written=%s", d.name, i, len(wd), len(sd), at(wd, i), at(sd, i))}
			}
			return &verdict{"reader-error", fmt.Sprintf("%s: reader failed with %v after %d of %d data messages although the wire carries valid frames with the written content", d.name, d.to.rerr, len(gd), len(sd))}
		}
	}
	if res.timeout {
		return nil
	}
	for _, d := range dirs {
		if d.out.End != wsmodel.EndClose {
			return &verdict{"wire-ends-without-close-frame", fmt.Sprintf("%s: the tapped direction ends with %v instead of a close frame", d.name, d.out.End)}
		}
		// automatic frames written by `from`: pongs for the pings it received, and the close echo
		auto := d.from.auto
		wire := d.wire
		sent := d.from.sent
		if !sc.Concurrent {
			// exact order of everything the application wrote; the automatic frames (pong
			// replies, close echo) are produced while `from` reads and may sit anywhere.
			want := append([]event{}, auto...)
			if !d.wroteLast { // close echo
				if n := len(wire); n == 0 || !wire[n-1].Ctl || wire[n-1].Type != websocket.CloseMessage {
					return &verdict{"close-frame-not-answered", d.name + ": no close frame answered the peer's close frame"}
				}
				wire = wire[:len(wire)-1]
			}
			if i, ok := isSubsequence(sent, wire); !ok {
				return &verdict{"wire-content-differs-from-written", fmt.Sprintf("%s: written event %d %s is missing from (or out of order in) the %d events decoded from the wire", d.name, i, at(sent, i), len(wire))}
			}
			if !sameMultiset(wire, append(want, sent...)) {
				return &verdict{"wire-content-differs-from-written", fmt.Sprintf("%s: the wire carries %d events, the application wrote %d and %d automatic replies", d.name, len(wire), len(sent), len(auto))}
			}
		} else {
			wd, wc := split(wire)
			sd, sctl := split(sent)
			if i, ok := sameEvents(wd, sd); !ok {
				return &verdict{"wire-content-differs-from-written", fmt.Sprintf("%s: decoded data messages on the wire differ from the written ones at index %d (wire %d, written %d): wire=%s written=%s", d.name, i, len(wd), len(sd), at(wd, i), at(sd, i))}
			}
			// controls: multiset equality (two writers + automatic replies interleave freely)
			want := append(append([]event{}, sctl...), auto...)
			if !d.wroteLast {
				want = append(want, event{Ctl: true, Type: websocket.CloseMessage, Data: wc[len(wc)-1].Data})
			}
			if !sameMultiset(wc, want) {
				return &verdict{"wire-controls-differ-from-written", fmt.Sprintf("%s: %d control frames on the wire, %d written (incl. automatic replies)", d.name, len(wc), len(want))}
			}
		}
		// 2. what the peer application received
		gd, gc := split(d.to.got)
		sd, sctl := split(d.from.sent)
		if d.to.rerr != nil {
			if res.timeout {
				return nil // reported as inconclusive by the caller
			}
			return &verdict{"reader-error", fmt.Sprintf("%s: reader failed with %v after %d of %d data messages although the wire carries valid frames", d.name, d.to.rerr, len(gd), len(sd))}
		}
		if i, ok := sameEvents(gd, sd); !ok {
			return &verdict{"received-differs-from-written", fmt.Sprintf("%s: data messages read by the peer differ from the written ones at index %d (read %d, written %d): read=%s written=%s", d.name, i, len(gd), len(sd), at(gd, i), at(sd, i))}
		}
		// ping/pong payloads seen by the peer's handlers = written controls + automatic pongs (order per kind)
		var wantCtl []event
		for _, e := range append(append([]event{}, sctl...), auto...) {
			if e.Type != websocket.CloseMessage {
				wantCtl = append(wantCtl, e)
			}
		}
		if !sameMultiset(gc, wantCtl) {
			return &verdict{"control-payload-misdelivered", fmt.Sprintf("%s: peer handlers saw %d ping/pong payloads, %d were written", d.name, len(gc), len(wantCtl))}
		}
		if !sc.Concurrent {
			// exact interleaving of data and controls as seen by the reading application
			var want []event
			for _, e := range d.from.sent {
				if !(e.Ctl && e.Type == websocket.CloseMessage) {
					want = append(want, e)
				}
			}
			got := d.to.got
			if i, ok := isSubsequence(want, got); !ok {
				return &verdict{"received-order-differs", fmt.Sprintf("%s: written event %d %s is missing from (or out of order in) the %d events seen by the reader", d.name, i, at(want, i), len(got))}
			}
			if !sameMultiset(got, append(append([]event{}, want...), auto...)) {
				return &verdict{"received-order-differs", fmt.Sprintf("%s: reader saw %d events, %d were written plus %d automatic pongs", d.name, len(got), len(want), len(auto))}
			}
		}
		// 3. the close frame
		if d.wroteLast {
			ce := d.to.closed
			if ce == nil {
				return &verdict{"close-frame-not-reported", d.name + ": the close frame was not reported to the reader"}
			}
			if ce.Code != sc.CloseCode || ce.Text != sc.CloseReason {
				return &verdict{"close-frame-misreported", fmt.Sprintf("%s: close %d %q reported as %d %q", d.name, sc.CloseCode, sc.CloseReason, ce.Code, ce.Text)}
			}
		} else if d.to.closed == nil {
			return &verdict{"close-echo-not-reported", d.name + ": the answering close frame was not reported to the initiator"}
		}
	}
	return nil
}

// isSubsequence reports whether sub occurs in seq in order (index of the first
// element of sub that cannot be placed otherwise).
func isSubsequence(sub, seq []event) (int, bool) {
	j := 0
	for i := range sub {
		for j < len(seq) && !(seq[j].Ctl == sub[i].Ctl && seq[j].Type == sub[i].Type && bytes.Equal(seq[j].Data, sub[i].Data)) {
			j++
		}
		if j == len(seq) {
			return i, false
		}
		j++
	}
	return 0, true
}

func at(evs []event, i int) string {
	if i < len(evs) {
		return evBrief(evs[i])
	}
	return "<none>"
}

func sameMultiset(a, b []event) bool {
	if len(a) != len(b) {
		return false
	}
	m := map[string]int{}
	for _, e := range a {
		m[string(rune('A'+e.Type))+string(e.Data)]++
	}
	for _, e := range b {
		m[string(rune('A'+e.Type))+string(e.Data)]--
	}
	for _, v := range m {
		if v != 0 {
			return false
		}
	}
	return true
}

func describeOps(ops []op) string {
	var sb strings.Builder
	for _, o := range ops {
		switch o.Kind {
		case "writer":
			fmt.Fprintf(&sb, "writer(t%d,%dB,%dpieces,how%d) ", o.Type, len(o.Data), len(o.Pieces), o.How)
		case "level":
			fmt.Fprintf(&sb, "level(%d) ", o.Level)
		case "enable":
			fmt.Fprintf(&sb, "compress(%v) ", o.Enable)
		case "prepared":
			fmt.Fprintf(&sb, "prepared(#%d) ", o.PM)
		default:
			fmt.Fprintf(&sb, "%s(t%d,%dB) ", o.Kind, o.Type, len(o.Data))
		}
	}
	return sb.String()
}

func TestC30(t *testing.T) {
	kit.Main(t, kit.Spec{
		ID:    "C30",
		Level: "exploration",
		Rule: "Each case connects a server Conn (real Upgrader, driven through an http.Hijacker) and a client Conn (real Dialer) over an in-memory pipe with a wire tap per direction. " +
			"Per side 3-14 operations: WriteMessage, NextWriter written in 1..40 pieces via Write / io.WriteString / io.Copy (ReadFrom), WritePreparedMessage (0-2 prepared messages shared by both sides), WriteControl ping/pong (0..125 bytes), NextWriter(PingMessage), oversized control frames (must be refused), SetCompressionLevel(-2..9), EnableWriteCompression on/off; " +
			"message sizes 0..200 kB concentrated at 0, 123..129, 65533..65550 and at 1x/2x/3x the write buffer (+-2, with and without the 14 header bytes); write buffer sizes 0 (hijacked buffer reused)..65536, optional WriteBufferPool, read buffer sizes 0..65536, network reads of 1..N bytes; permessage-deflate negotiated in 30% of the cases; " +
			"one third of the cases run both directions concurrently with a second goroutine per side issuing the WriteControl calls; closing handshake initiated by either side via WriteControl or WriteMessage(CloseMessage) with reasons up to 123 bytes. " +
			"Oracle: (a) reader results = written messages (type, bytes, order; ping/pong payloads via handlers; close code and reason), (b) tapped bytes decode with wsmodel (RFC 6455 / 7692 reference receiver) without any violation, client frames masked, server frames unmasked, minimal length encodings, RSV1 only on first frames of compressed messages, and carry exactly the written messages. " +
			"Non-trivial = a case with at least one data message per direction compared; signature = (deflate, concurrent, write-buffer class, APIs used, size classes).",
		Assumptions: []string{
			"wsmodel.Decode is a correct reference receiver for RFC 6455 framing and RFC 7692 message inflation (compress/flate assumed correct)",
			"the in-memory pipe (unbounded buffer, optional 1..N byte reads) is a faithful stand-in for a TCP connection",
			"one writer goroutine for data plus concurrent WriteControl callers per connection is the concurrency the package documents as supported",
			"fresh-mask-key-per-frame (RFC 6455 5.3) is not part of the property statement; key reuse (prepared client frames) is only counted",
			"the read bound of 5 minutes per connection only guards against hangs; reaching it yields INCONCLUSIVE, never a verdict",
		},
		Cases:       map[string]int{"quick": 240, "thorough": 2400},
		CaseTimeout: 15 * time.Minute,
		RequireCounters: []string{
			"data_messages_roundtripped", "compressed_frames_on_wire", "fragmented_messages_on_wire", "frames_len16", "frames_len64", "api:msg", "api:writer", "api:prepared", "api:control", "api:nextwriter-control",
			"oversized_control_refused", "cases_concurrent", "cases_sequential", "client_frames_masked", "server_frames_unmasked", "close_by_server", "close_by_client",
		},
		Setup: func() {
			runtime.GOMAXPROCS(4)
			debug.SetGCPercent(400)
		},
		Run: func(c *kit.Case) {
			sc := genScenario(c.R)
			res := run(sc, c.Seed^uint64(c.Index)*7919)
			detail := func() map[string]any {
				d := map[string]any{"scenario": sc, "client_ops": describeOps(sc.ClientOps), "server_ops": describeOps(sc.ServerOps)}
				if res.cl != nil {
					d["client_read_error"] = fmt.Sprint(res.cl.rerr)
					d["server_read_error"] = fmt.Sprint(res.sv.rerr)
					d["c2s_bytes"], d["s2c_bytes"] = len(res.c2s), len(res.s2c)
				}
				return d
			}
			v := judge(c, res)
			if v != nil {
				c.Violation(v.class, v.msg, detail())
				return
			}
			if res.timeout {
				c.Inconclusive("a reader did not get its messages within the 5 minute bound (machine overloaded?)")
				return
			}
			if c.Index < 2 {
				c.Sample(detail())
			}
			// coverage
			apis := map[string]bool{}
			sizeCls := map[string]bool{}
			for _, ops := range [][]op{sc.ClientOps, sc.ServerOps} {
				for _, o := range ops {
					if o.Kind == "bad-control" || o.Kind == "level" || o.Kind == "enable" {
						continue
					}
					apis[o.Kind] = true
					c.Count("api:"+o.Kind, 1)
					switch n := len(o.Data); {
					case n == 0:
						sizeCls["0"] = true
					case n <= 125:
						sizeCls["s"] = true
					case n <= 65535:
						sizeCls["m"] = true
					default:
						sizeCls["l"] = true
					}
				}
			}
			c.Count("oversized_control_refused", res.cl.badOK+res.sv.badOK)
			cd, _ := split(res.cl.sent)
			sd, _ := split(res.sv.sent)
			c.Count("data_messages_roundtripped", len(cd)+len(sd))
			if sc.Concurrent {
				c.Count("cases_concurrent", 1)
			} else {
				c.Count("cases_sequential", 1)
			}
			if sc.ServerCloses {
				c.Count("close_by_server", 1)
			} else {
				c.Count("close_by_client", 1)
			}
			keys := map[[4]byte]int{}
			count := func(tap []byte, client bool) {
				i := bytes.Index(tap, []byte("\r\n\r\n"))
				fs, _, _ := wsmodel.ParseAll(tap[i+4:])
				inFrag := false
				for _, f := range fs {
					if client {
						c.Count("client_frames_masked", 1)
						keys[f.Key]++
					} else {
						c.Count("server_frames_unmasked", 1)
					}
					if f.RSV1 {
						c.Count("compressed_frames_on_wire", 1)
					}
					switch f.LenBits {
					case 16:
						c.Count("frames_len16", 1)
					case 64:
						c.Count("frames_len64", 1)
					}
					if !wsmodel.IsControl(f.Opcode) {
						if !f.Fin && !inFrag {
							c.Count("fragmented_messages_on_wire", 1)
						}
						inFrag = !f.Fin
					}
				}
			}
			count(res.c2s, true)
			count(res.s2c, false)
			for _, n := range keys {
				if n > 1 {
					c.Count("client_mask_key_reused", n-1)
				}
			}
			if len(cd) > 0 && len(sd) > 0 {
				c.Nontrivial(fmt.Sprintf("z%v|conc%v|cw%d|sw%d|%v|%v", sc.Deflate, sc.Concurrent, bufClass(sc.Client.WriteBuf), bufClass(sc.Server.WriteBuf), keysOf(apis), keysOf(sizeCls)))
			}
		},
	})
}

func bufClass(n int) int {
	switch {
	case n == 0:
		return 0
	case n < 125:
		return 1
	case n < 1024:
		return 2
	case n <= 4096:
		return 3
	}
	return 4
}

func keysOf(m map[string]bool) string {
	var ks []string
	for k := range m {
		ks = append(ks, k)
	}
	// small, order-independent
	for i := 1; i < len(ks); i++ {
		for j := i; j > 0 && ks[j] < ks[j-1]; j-- {
			ks[j], ks[j-1] = ks[j-1], ks[j]
		}
	}
	return strings.Join(ks, ",")
}

var _ = opcodeOf
