// C04: Publication routing matches subscription state.
package c04

import (
	"encoding/json"
	"fmt"
	"sort"
	"testing"
	"time"

	"github.com/centrifugal/centrifuge"
	"github.com/centrifugal/centrifuge/verifx/churn"
	"github.com/centrifugal/centrifuge/verifx/kit"
)

func runCase(c *kit.Case) {
	// 2 of 5 cases race an operation of connection 0 against one of the calls the
	// library makes to its broker / presence manager (grid by case index)
	var br *churn.BoundaryRace
	if c.Index%5 >= 3 {
		k := c.Index / 5
		br = &churn.BoundaryRace{Site: churn.Sites[k%len(churn.Sites)], Op: churn.RaceOps[(k/len(churn.Sites))%len(churn.RaceOps)], Nth: 1 + (k/(len(churn.Sites)*len(churn.RaceOps)))%3}
		if c.Index%5 == 4 && k%2 == 0 {
			// history reads (subscribe-time and periodic position checks) are the longest
			// round trips of a real deployment: give them a larger share
			br.Site, br.Nth = "broker.History", 1+(k/2)%4
		}
		if br.Site == "broker.Unsubscribe" || br.Site == "presence.Remove" {
			br.Nth = 1 // these calls are rare within one case (deferred by the dissolver / only at subscription end)
		}
	}
	presence := c.R.Chance(1, 3)
	joinLeave := c.R.Chance(1, 3)
	if br != nil {
		presence = presence || br.Site == "presence.Add" || br.Site == "presence.Remove"
		joinLeave = joinLeave || br.Site == "broker.PublishJoin" || br.Site == "broker.PublishLeave"
	}
	e := churn.New(c, churn.Options{
		Conns: [2]int{2, 4}, Channels: [2]int{2, 3}, Positioned: true, Closes: true, AsyncLong: br == nil,
		OpsPerConn: [2]int{3, 9}, Presence: presence, JoinLeave: joinLeave, BoundaryRace: br,
	})
	e.Run()
	if br != nil && br.Fired.Load() {
		c.Count("boundary_race_"+br.Site, 1)
		c.Count("boundary_race_op_"+br.Op, 1)
		if br.Done.Load() {
			c.Count("boundary_race_completed_inside_the_call", 1)
		}
	}
	node := e.Node

	// (1) every channel a connection reports corresponds to exactly one routing entry
	hub := centrifuge.VerifHubSubs(node)
	type key struct{ ch, cid string }
	hubCount := map[key]int{}
	hubGen := map[key]uint64{}
	for _, s := range hub {
		k := key{s.Channel, s.ClientID}
		hubCount[k]++
		hubGen[k] = s.SubGen
	}
	plans := map[int][]churn.Op{}
	for _, cc := range e.Conns {
		plans[cc.Idx] = cc.Plan
	}
	detail := func(extra map[string]any) any {
		extra["plans"] = plans
		extra["hub"] = hub
		return extra
	}
	sig := ""
	expectMarker := map[string]map[int]bool{} // channel -> conn idx -> should receive
	for _, cc := range e.Conns {
		cl := cc.Conn.Client
		cid := cl.ID()
		view := centrifuge.VerifClient(cl)
		reported := cl.Channels()
		sort.Strings(reported)
		closed := cc.Closed()
		sig += fmt.Sprintf("|%d:%v:%d", cc.Idx, closed, len(reported))
		if closed {
			for _, s := range hub {
				if s.ClientID == cid {
					c.Violation("c04-routing-entry-for-closed-connection", fmt.Sprintf("closed conn %d still has a routing entry for %s", cc.Idx, s.Channel), detail(map[string]any{"conn": cc.Idx}))
				}
			}
			continue
		}
		for ch, st := range view.Channels {
			if !st.Subscribed {
				c.Violation("c04-reservation-left-after-settle", fmt.Sprintf("conn %d still holds an uncommitted reservation for %s after every operation settled", cc.Idx, ch), detail(map[string]any{"conn": cc.Idx, "view": view}))
			}
		}
		for _, ch := range reported {
			if !cl.IsSubscribed(ch) {
				continue
			}
			k := key{ch, cid}
			if hubCount[k] != 1 {
				c.Violation("c04-subscribed-channel-without-single-routing-entry", fmt.Sprintf("conn %d reports %s as subscribed but the hub has %d routing entries for it", cc.Idx, ch, hubCount[k]), detail(map[string]any{"conn": cc.Idx, "view": view}))
				continue
			}
			if hubGen[k] != view.Channels[ch].SubGen {
				c.Violation("c04-routing-entry-of-another-generation", fmt.Sprintf("conn %d channel %s: hub entry generation %d, client generation %d", cc.Idx, ch, hubGen[k], view.Channels[ch].SubGen), detail(map[string]any{"conn": cc.Idx, "view": view}))
			}
			c.Count("settled_subscriptions", 1)
		}
		for _, s := range hub {
			if s.ClientID == cid && !cl.IsSubscribed(s.Channel) {
				c.Violation("c04-routing-entry-without-subscription", fmt.Sprintf("hub routes %s to conn %d which does not report itself subscribed", s.Channel, cc.Idx), detail(map[string]any{"conn": cc.Idx, "view": view}))
			}
		}
		if len(view.MapSubscribing) > 0 || len(view.PaginationLocks) > 0 {
			c.Violation("c04-map-bookkeeping-left", fmt.Sprintf("conn %d: %v", cc.Idx, view), nil)
		}
	}
	if c.Violated() {
		e.Finish()
		return
	}

	// (2) a marker publication per channel reaches exactly the connections that
	// report themselves subscribed, once.
	for _, ch := range e.Channels {
		expectMarker[ch] = map[int]bool{}
		for _, cc := range e.Conns {
			if !cc.Closed() && cc.Conn.Client.IsSubscribed(ch) {
				expectMarker[ch][cc.Idx] = true
			}
		}
		data, _ := json.Marshal(map[string]string{"marker": ch})
		if e.IsPositioned(ch) {
			_, _ = node.Publish(ch, data, centrifuge.WithHistory(10, time.Minute))
		} else {
			_, _ = node.Publish(ch, data)
		}
	}
	time.Sleep(50 * time.Millisecond)
	e.W.Settle()
	for _, cc := range e.Conns {
		got := map[string]int{}
		for _, f := range cc.Conn.T.Frames() {
			if f.Push != nil && f.Push.Pub != nil {
				var m map[string]string
				if json.Unmarshal(f.Push.Pub.Data, &m) == nil && m["marker"] != "" {
					got[m["marker"]]++
				}
			}
		}
		for _, ch := range e.Channels {
			want := 0
			if expectMarker[ch][cc.Idx] {
				want = 1
			}
			if got[ch] != want {
				cls := "c04-subscribed-connection-missed-publication"
				if got[ch] > want {
					cls = "c04-publication-delivered-to-unsubscribed-connection"
					if want == 1 {
						cls = "c04-publication-delivered-more-than-once"
					}
				}
				c.Violation(cls, fmt.Sprintf("conn %d (closed=%v) received the marker of %s %d times, expected %d (IsSubscribed=%v)", cc.Idx, cc.Closed(), ch, got[ch], want, expectMarker[ch][cc.Idx]),
					detail(map[string]any{"conn": cc.Idx, "view": centrifuge.VerifClient(cc.Conn.Client)}))
			}
			if want == 1 {
				c.Count("markers_delivered", 1)
			} else {
				c.Count("markers_withheld", 1)
			}
		}
	}
	// signature: multiset of callback kinds order
	cbs := e.Callbacks()
	order := ""
	for _, cb := range cbs {
		if cb.Kind == "subscribe" || cb.Kind == "unsubscribe" || cb.Kind == "disconnect" {
			order += fmt.Sprintf("%d%c", cb.Conn, cb.Kind[0])
		}
	}
	c.Nontrivial(sig + "#" + order)
	c.Count("operations", e.Ops())
	if c.Index < 32 {
		c.Sample(map[string]any{"plans": plans, "channels": e.Channels, "callback_order": order})
	}
	e.Finish()
}

func TestC04(t *testing.T) {
	kit.Main(t, kit.Spec{
		ID:     "C04",
		Bubble: true,
		Rule: "each case = one bubble: 2-4 connections x 2-3 channels (some positioned with history); every connection runs a seeded plan of 3-9 operations on two concurrent lanes (client commands: subscribe with synchronous / asynchronous callback incl. callbacks that outlive the 5s unsubscribe wait gate, unsubscribe; server side: Client.Subscribe/Unsubscribe, Node.Subscribe/Unsubscribe) optionally ending in a disconnect (client, node, transport), with seeded virtual delays at the subscribe/unsubscribe yield points; 2 of 5 cases additionally run an unsubscribe / server-side subscribe / close of connection 0 to completion inside one of the calls the library makes to its broker or presence manager (History incl. periodic position checks, Subscribe, Unsubscribe, PublishJoin, PublishLeave, AddPresence, RemovePresence; grid by case index). After settling (8 virtual s + quiescence): " +
			"IsSubscribed(ch) <=> exactly one hub routing entry of the client's own generation, no leftover reservations, and a marker publication per channel is received exactly once by exactly the connections that report themselves subscribed. Signature = per-connection (closed, #channels) x order of subscribe/unsubscribe/disconnect callbacks.",
		Assumptions:     []string{"hub routing entries and per-client generations are read through the tag-guarded accessors VerifHubSubs / VerifClient at a quiescent point"},
		Cases:           map[string]int{"quick": 900, "thorough": 18000},
		RequireCounters: []string{"settled_subscriptions", "markers_delivered", "markers_withheld", "boundary_race_broker.History", "boundary_race_broker.Unsubscribe", "boundary_race_presence.Add", "boundary_race_completed_inside_the_call"},
		Run:             runCase,
	})
}
