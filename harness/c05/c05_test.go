// C05: Nothing of a connection survives its end.
package c05

import (
	"fmt"
	"testing"
	"time"

	"github.com/centrifugal/centrifuge"
	"github.com/centrifugal/centrifuge/verifx/churn"
	"github.com/centrifugal/centrifuge/verifx/kit"
)

var points = []string{
	"connect.afterAddClient", "connect.beforeReply", "connect.afterReply",
	"sub.afterAddSub", "sub.afterRecover", "sub.afterMerge", "sub.beforeReply", "sub.afterReply", "sub.afterCommit",
	"ssub.beforeCommit", "ssub.afterCommit",
	"unsub.afterDelete", "unsub.beforeHubRemove",
	"presence.afterSnapshot",
	"",
}
var causes = []string{"disc-client", "disc-node", "disc-transport", "write-error"}

func runCase(c *kit.Case) {
	if c.Index%4 == 3 {
		// keyed (shared-poll) subscriptions: closes inside the broker calls of a track, at the
		// track / keyed-push yield points and at seeded instants (keyed.go)
		keyedCase(c)
		return
	}
	r := c.R
	// the grid of (close point, cause) is enumerated by case index; the rest is seeded
	k := c.Index - (c.Index+1)/4 // position among the non-keyed cases: the grid stays complete
	pt := points[k%len(points)]
	cause := causes[(k/len(points))%len(causes)]
	var inj *churn.Injection
	if pt != "" {
		inj = &churn.Injection{Point: pt, Conn: 0, Cause: cause}
	}
	e := churn.New(c, churn.Options{
		Conns: [2]int{2, 4}, Channels: [2]int{2, 3}, Positioned: true, Closes: true,
		OpsPerConn: [2]int{3, 8}, Presence: true, JoinLeave: r.Bool(), PresenceInterval: time.Second,
		TickConcurrency: r.Intn(3), Inject: inj,
	})
	baseConn := kit.GaugeSum(e.Reg, "connections_inflight")
	baseSubs := kit.GaugeSum(e.Reg, "subscriptions_inflight")
	e.Run()
	node := e.Node
	plans := map[int][]churn.Op{}
	for _, cc := range e.Conns {
		plans[cc.Idx] = cc.Plan
	}
	detail := func(extra map[string]any) any {
		extra["plans"] = plans
		extra["close_point"] = pt
		extra["close_cause"] = cause
		return extra
	}
	check := func(phase string) {
		hub := centrifuge.VerifHubSubs(node)
		conns := node.Hub().Connections()
		sessions := centrifuge.VerifHubSessions(node)
		for _, cc := range e.Conns {
			if !cc.Closed() {
				continue
			}
			cl := cc.Conn.Client
			cid := cl.ID()
			c.Count("closed_connections_checked", 1)
			for _, s := range hub {
				if s.ClientID == cid {
					c.Violation("c05-routing-entry-survives-close", fmt.Sprintf("%s: closed conn %d still has a routing entry for %s", phase, cc.Idx, s.Channel), detail(map[string]any{"conn": cc.Idx}))
				}
			}
			if _, ok := conns[cid]; ok {
				c.Violation("c05-connection-still-registered", fmt.Sprintf("%s: closed conn %d is still in Hub.Connections()", phase, cc.Idx), detail(map[string]any{"conn": cc.Idx}))
			}
			for s, id := range sessions {
				if id == cid {
					c.Violation("c05-session-still-registered", fmt.Sprintf("%s: closed conn %d still has session %s", phase, cc.Idx, s), detail(map[string]any{"conn": cc.Idx}))
				}
			}
			for _, ch := range e.Channels {
				pr, err := node.Presence(ch)
				if err != nil {
					continue
				}
				if _, ok := pr.Presence[cid]; ok {
					c.Violation("c05-presence-entry-survives-close", fmt.Sprintf("%s: closed conn %d is still present in %s", phase, cc.Idx, ch), detail(map[string]any{"conn": cc.Idx}))
				}
			}
			v := centrifuge.VerifClient(cl)
			if len(v.Channels) > 0 || len(v.MapSubscribing) > 0 || len(v.PaginationLocks) > 0 || len(v.Tracked) > 0 {
				c.Violation("c05-client-bookkeeping-survives-close", fmt.Sprintf("%s: closed conn %d keeps bookkeeping %+v", phase, cc.Idx, v), detail(map[string]any{"conn": cc.Idx}))
			}
		}
		for k, kh := range centrifuge.VerifKeyedHub(node) {
			if len(kh) > 0 {
				c.Violation("c05-keyed-registration-survives", fmt.Sprintf("keyed hub not empty for %s", k), nil)
			}
		}
	}
	check("after-settle")
	injected := inj != nil && inj.Fired.Load()
	if injected {
		c.Count("close_injected_at_"+pt, 1)
		c.Count("close_by_"+cause, 1)
	}
	// close everything: gauges must return to their initial values
	for _, cc := range e.Conns {
		_ = cc.Conn.CloseFn()
	}
	e.SettleLong()
	check("after-all-closed")
	if g := kit.GaugeSum(e.Reg, "connections_inflight"); g != baseConn {
		c.Violation("c05-connections-gauge-drift", fmt.Sprintf("connections_inflight is %v after every connection closed (was %v before)", g, baseConn), detail(map[string]any{}))
	}
	if g := kit.GaugeSum(e.Reg, "subscriptions_inflight"); g != baseSubs {
		c.Violation("c05-subscriptions-gauge-drift", fmt.Sprintf("subscriptions_inflight is %v after every connection closed (was %v before)", g, baseSubs), detail(map[string]any{}))
	}
	if n := len(centrifuge.VerifHubSubs(node)); n != 0 {
		c.Violation("c05-routing-entries-after-all-closed", fmt.Sprintf("%d routing entries left", n), detail(map[string]any{"hub": centrifuge.VerifHubSubs(node)}))
	}
	if n := node.Hub().NumClients(); n != 0 {
		c.Violation("c05-clients-after-all-closed", fmt.Sprintf("%d clients left", n), nil)
	}
	if n := centrifuge.VerifHubNumSubsCounter(node); n != 0 {
		c.Violation("c05-subscription-counter-drift", fmt.Sprintf("hub subscription counter is %d with no routing entries", n), nil)
	}
	sig := fmt.Sprintf("%s/%s/%v", pt, cause, injected)
	for _, cb := range e.Callbacks() {
		if cb.Kind == "disconnect" || cb.Kind == "unsubscribe" {
			sig += fmt.Sprintf("|%d%c%d", cb.Conn, cb.Kind[0], cb.Code)
		}
	}
	c.Nontrivial(sig)
	c.Count("operations", e.Ops())
	if c.Index < 32 {
		c.Sample(map[string]any{"plans": plans, "close_point": pt, "close_cause": cause, "close_injected": injected})
	}
	e.W.Shutdown()
}

func TestC05(t *testing.T) {
	kit.Main(t, kit.Spec{
		ID:     "C05",
		Level:  "fault_enumeration",
		Bubble: true,
		Rule: "case index enumerates the grid (close point x close cause): 14 yield points of connect / client-side subscribe / server-side subscribe / unsubscribe / presence tick (+ none) x {Client.Disconnect, Node.Disconnect, transport close, transport write error}; at the point the close is launched on another goroutine and the operation busy-waits until the close flipped the status, then continues. Around it a seeded churn (2-4 connections, 2-3 channels with presence, optional join/leave, sequential or concurrent presence ticks every virtual second, plans that may end in disconnects). " +
			"After settling: a closed connection has no routing entry, is not registered (connections, sessions), is absent from presence, keeps no bookkeeping; after closing everything the connections/subscriptions gauges are back at their initial values. Signature = (point, cause, injected) x disconnect/unsubscribe callback order.",
		Assumptions: []string{
			"map subscriptions are not part of this workload (their close points are exercised by C22); keyed tracking has its own cases (every fourth case, keyed.go)",
			"gauges are read from a private Prometheus registry per node",
		},
		Cases:           map[string]int{"quick": 840, "thorough": 16800},
		RequireCounters: []string{"keyed_cases", "keyed_closed_connections_checked", "closes_inside_broker_subscribe", "closes_inside_broker_unsubscribe", "closes_at_track_afterReply", "closes_at_keyed_beforeEnqueue", "closes_at_seeded_instants", "closed_connections_checked", "close_injected_at_sub.afterAddSub", "close_injected_at_sub.afterReply", "close_injected_at_connect.afterAddClient", "close_injected_at_unsub.afterDelete", "close_injected_at_presence.afterSnapshot", "close_by_write-error"},
		Run:             runCase,
	})
}
