package c05

// Keyed (shared-poll) close residue: connections that track keys on a shared-poll
// channel are closed inside the windows of the track path, and afterwards nothing
// of them may be left in the keyed hub, in their own bookkeeping, in the shared
// poll manager's key index or among the broker subscriptions of key channels.

import (
	"context"
	"fmt"
	"sort"
	"strconv"
	"strings"
	"sync"
	"sync/atomic"
	"time"

	"github.com/centrifugal/centrifuge"
	"github.com/centrifugal/centrifuge/verifx/kit"
	"github.com/centrifugal/protocol"
)

const keyedChannel = "c05:sp"

var keyedSites = []string{"broker.subscribe", "broker.subscribe", "broker.unsubscribe", "track.afterReply", "keyed.beforeEnqueue", "timed", "none"}
var keyedCauses = []string{"disc-client", "disc-node", "disc-transport", "unsubscribe"}

type keyedConn struct {
	idx   int
	user  string
	proto centrifuge.ProtocolType
	async bool
	conn  *kit.Conn
	ended atomic.Bool // a close (or the injected unsubscribe) was launched for it
	live  atomic.Bool // connected (a server-side unsubscribe needs the connection's writer)
	log   []string
}

func (kc *keyedConn) closed() bool {
	if kc.conn == nil {
		return false
	}
	closed, _, _ := kc.conn.T.Closed()
	return closed
}

// keyedBroker wraps the memory broker: it records which key channels are subscribed
// and lets the case act inside Subscribe / Unsubscribe of a key channel.
type keyedBroker struct {
	*centrifuge.MemoryBroker
	mu        sync.Mutex
	subs      map[string]int
	onSub     func(keys []string)
	onUnsub   func(keys []string)
	subCalls  int
	unsubCall int
}

func keyOfKeyChannel(kch string) (string, bool) {
	i := strings.IndexByte(kch, ':')
	if i <= 0 {
		return "", false
	}
	n, err := strconv.Atoi(kch[:i])
	if err != nil || n != len(keyedChannel) || i+1+n > len(kch) || kch[i+1:i+1+n] != keyedChannel {
		return "", false
	}
	return kch[i+1+n:], true
}

func (b *keyedBroker) Subscribe(chs ...string) error {
	var keys []string
	b.mu.Lock()
	for _, ch := range chs {
		if k, ok := keyOfKeyChannel(ch); ok {
			keys = append(keys, k)
			b.subs[ch]++
		}
	}
	if len(keys) > 0 {
		b.subCalls++
	}
	f := b.onSub
	b.mu.Unlock()
	if len(keys) > 0 && f != nil {
		f(keys)
	}
	return b.MemoryBroker.Subscribe(chs...)
}

func (b *keyedBroker) Unsubscribe(chs ...string) error {
	var keys []string
	b.mu.Lock()
	for _, ch := range chs {
		if k, ok := keyOfKeyChannel(ch); ok {
			keys = append(keys, k)
			delete(b.subs, ch)
		}
	}
	if len(keys) > 0 {
		b.unsubCall++
	}
	f := b.onUnsub
	b.mu.Unlock()
	if len(keys) > 0 && f != nil {
		f(keys)
	}
	return b.MemoryBroker.Unsubscribe(chs...)
}

func (b *keyedBroker) subscribed() []string {
	b.mu.Lock()
	defer b.mu.Unlock()
	var out []string
	for ch := range b.subs {
		out = append(out, ch)
	}
	sort.Strings(out)
	return out
}

type keyedOp struct {
	kind string // track | untrack | resub | end | idle
	keys []string
	gap  time.Duration
	wait bool
}

func keyedCase(c *kit.Case) {
	r := c.R
	w := kit.NewWorld(c)
	site := keyedSites[c.Index%len(keyedSites)]
	cause := keyedCauses[(c.Index/len(keyedSites))%len(keyedCauses)]
	nth := r.Range(1, 3)
	versioned := r.Chance(2, 3)
	publishEnabled := r.Chance(5, 6)
	spOpts := centrifuge.SharedPollChannelOptions{
		RefreshInterval:      time.Duration(kit.Pick(r, []int{40, 150})) * time.Millisecond,
		RefreshBatchSize:     kit.Pick(r, []int{1, 1000}),
		KeepLatestData:       r.Bool(),
		PublishEnabled:       publishEnabled,
		ChannelShutdownDelay: kit.Pick(r, []time.Duration{-1, 100 * time.Millisecond, 0}),
	}
	if versioned {
		spOpts.Mode = centrifuge.SharedPollModeVersioned
	}
	nKeys := r.Range(2, 4)
	keys := make([]string, nKeys)
	for i := range keys {
		keys[i] = fmt.Sprintf("k%d", i)
	}

	// scripted backend
	var bmu sync.Mutex
	ver := map[string]uint64{}
	val := map[string][]byte{}
	bump := func(k string) (uint64, []byte) {
		bmu.Lock()
		defer bmu.Unlock()
		ver[k]++
		val[k] = []byte(fmt.Sprintf(`{"k":%q,"v":%d}`, k, ver[k]))
		return ver[k], val[k]
	}
	for _, k := range keys {
		bump(k)
	}
	handler := func(ctx context.Context, ev centrifuge.SharedPollEvent) (centrifuge.SharedPollResult, error) {
		var res centrifuge.SharedPollResult
		bmu.Lock()
		for _, it := range ev.Items {
			if d, ok := val[it.Key]; ok {
				ri := centrifuge.SharedPollRefreshItem{Key: it.Key, Data: d}
				if versioned {
					ri.Version = ver[it.Key]
				}
				res.Items = append(res.Items, ri)
			}
		}
		bmu.Unlock()
		return res, nil
	}

	nConn := r.Range(2, 4)
	conns := make([]*keyedConn, nConn)
	for i := range conns {
		conns[i] = &keyedConn{idx: i, user: fmt.Sprintf("u%d", i), proto: kit.Pick(r, []centrifuge.ProtocolType{centrifuge.ProtocolTypeJSON, centrifuge.ProtocolTypeProtobuf}), async: r.Bool()}
	}
	byClient := sync.Map{} // *centrifuge.Client -> *keyedConn
	tracking := sync.Map{} // key -> *keyedConn whose track of that key is in flight
	var hookN atomic.Int64

	var kb *keyedBroker
	var node *centrifuge.Node
	nodeV, regV := w.NewNode(centrifuge.Config{
		ClientStaleCloseDelay:        time.Hour,
		ClientPresenceUpdateInterval: time.Second,
		SharedPoll: centrifuge.SharedPollConfig{GetSharedPollChannelOptions: func(ch string) (centrifuge.SharedPollChannelOptions, bool) {
			return spOpts, ch == keyedChannel
		}},
	}, func(n *centrifuge.Node) {
		inner, err := centrifuge.NewMemoryBroker(n, centrifuge.MemoryBrokerConfig{})
		if err != nil {
			panic(err)
		}
		kb = &keyedBroker{MemoryBroker: inner, subs: map[string]int{}}
		n.SetBroker(kb)
		n.OnSharedPoll(handler)
		n.OnConnect(func(cl *centrifuge.Client) {
			cl.OnSubscribe(func(e centrifuge.SubscribeEvent, cb centrifuge.SubscribeCallback) {
				cb(centrifuge.SubscribeReply{}, nil)
			})
			cl.OnTrack(func(e centrifuge.TrackEvent, cb centrifuge.TrackCallback) {
				if v, ok := byClient.Load(cl); ok && v.(*keyedConn).async {
					d := time.Duration(hookN.Add(1)%3) * time.Millisecond
					go func() {
						time.Sleep(d)
						cb(centrifuge.TrackReply{}, nil)
					}()
					return
				}
				cb(centrifuge.TrackReply{}, nil)
			})
		})
	})
	node = nodeV
	ctx := context.Background()

	// end a connection the way the case's cause says
	end := func(kc *keyedConn, how string) {
		kc.ended.Store(true)
		switch how {
		case "disc-client":
			kc.conn.Client.Disconnect(centrifuge.DisconnectForceNoReconnect)
		case "disc-node":
			_ = node.Disconnect(kc.user, centrifuge.WithDisconnectClient(kc.conn.Client.ID()))
		case "unsubscribe":
			kc.conn.Client.Unsubscribe(keyedChannel)
		default:
			_ = kc.conn.CloseFn()
		}
	}
	var fired atomic.Bool
	var siteCount atomic.Int64
	var firedConn atomic.Int64
	firedConn.Store(-1)
	// inject launches the end of kc on another goroutine and busy-waits (never sleeps:
	// locks may be held at the call sites) until it took effect or a yield bound.
	inject := func(kc *keyedConn) {
		if kc == nil || kc.conn == nil || !kc.live.Load() || kc.closed() || kc.ended.Load() {
			return
		}
		if int(siteCount.Add(1)) != nth || !fired.CompareAndSwap(false, true) {
			return
		}
		firedConn.Store(int64(kc.idx))
		var done atomic.Bool
		go func() {
			end(kc, cause)
			done.Store(true)
		}()
		if cause == "unsubscribe" {
			kit.SpinUntil(func() bool {
				_, still := centrifuge.VerifClient(kc.conn.Client).Channels[keyedChannel]
				return done.Load() || !still
			}, 20000)
			return
		}
		kit.SpinUntil(func() bool { return kc.closed() }, 20000)
	}
	pickOpen := func(seed int64) *keyedConn {
		for i := range conns {
			kc := conns[(int(seed)+i)%len(conns)]
			if kc.conn != nil && kc.live.Load() && !kc.closed() && !kc.ended.Load() {
				return kc
			}
		}
		return nil
	}
	kb.mu.Lock()
	kb.onSub = func(ks []string) {
		if site != "broker.subscribe" {
			return
		}
		for _, k := range ks {
			if v, ok := tracking.Load(k); ok {
				inject(v.(*keyedConn))
				return
			}
		}
	}
	kb.onUnsub = func(ks []string) {
		if site != "broker.unsubscribe" {
			return
		}
		// prefer a connection that is tracking one of these keys right now
		for _, k := range ks {
			if v, ok := tracking.Load(k); ok {
				inject(v.(*keyedConn))
				return
			}
		}
		inject(pickOpen(hookN.Add(1)))
	}
	kb.mu.Unlock()
	kit.SetHook(node, func(point string, cl *centrifuge.Client, ch string) {
		if ch != keyedChannel || point != site || cl == nil {
			return
		}
		if v, ok := byClient.Load(cl); ok {
			inject(v.(*keyedConn))
		}
	})

	var wg sync.WaitGroup
	// writer: keeps pushes flowing so that the enqueue window is reached
	var nPub atomic.Int64
	{
		n := r.Range(10, 40)
		gaps := make([]time.Duration, n)
		ks := make([]string, n)
		kinds := make([]int, n)
		for i := range gaps {
			gaps[i] = time.Duration(r.Range(0, 15)) * time.Millisecond
			ks[i] = kit.Pick(r, keys)
			kinds[i] = r.Intn(3)
		}
		wg.Add(1)
		go func() {
			defer wg.Done()
			for i := range gaps {
				time.Sleep(gaps[i])
				v, d := bump(ks[i])
				switch {
				case versioned && kinds[i] == 0:
					_ = node.SharedPollPublish(ctx, keyedChannel, ks[i], v, "", d)
					nPub.Add(1)
				case kinds[i] == 1:
					node.SharedPollNotify([]centrifuge.SharedPollNotificationItem{{Channel: keyedChannel, Key: ks[i]}})
				}
			}
		}()
	}

	var nTrack, nUntrack, nUnsub, nTimedEnd atomic.Int64
	for _, kc := range conns {
		cctx := centrifuge.SetCredentials(context.Background(), &centrifuge.Credentials{UserID: kc.user})
		kc.conn = w.NewConnCtx(cctx, node, kit.TransportOpts{Protocol: kc.proto})
		byClient.Store(kc.conn.Client, kc)
	}
	for _, kc := range conns {
		nOps := r.Range(3, 9)
		plan := make([]keyedOp, nOps)
		for i := range plan {
			o := keyedOp{gap: time.Duration(r.Range(0, 25)) * time.Millisecond, wait: r.Chance(3, 4)}
			for _, k := range keys {
				if r.Bool() {
					o.keys = append(o.keys, k)
				}
			}
			if len(o.keys) == 0 {
				o.keys = []string{kit.Pick(r, keys)}
			}
			switch x := r.Intn(100); {
			case x < 50 || i == 0:
				o.kind = "track"
			case x < 72:
				o.kind = "untrack"
			case x < 82:
				o.kind = "resub"
			case x < 90 && site == "timed":
				o.kind = "end"
			default:
				o.kind = "idle"
				o.gap = time.Duration(r.Range(30, 300)) * time.Millisecond
			}
			plan[i] = o
		}
		if site == "timed" && kc.idx == 0 {
			plan[len(plan)-1].kind = "end"
		}
		startAt := time.Duration(r.Range(0, 40)) * time.Millisecond
		wg.Add(1)
		go func() {
			defer wg.Done()
			time.Sleep(startAt)
			kc.conn.Connect(nil)
			kc.live.Store(true)
			subscribe := func() {
				id := kc.conn.Subscribe(&protocol.SubscribeRequest{Channel: keyedChannel, Type: int32(centrifuge.SubscriptionTypeSharedPoll)})
				kc.conn.PollReply(id, time.Second)
			}
			subscribe()
			for _, o := range plan {
				time.Sleep(o.gap)
				if kc.closed() || kc.ended.Load() {
					return
				}
				switch o.kind {
				case "track":
					items := make([]*protocol.KeyedItem, len(o.keys))
					for i, k := range o.keys {
						items[i] = &protocol.KeyedItem{Key: k}
						tracking.Store(k, kc)
					}
					kc.log = append(kc.log, fmt.Sprintf("%v track %v", w.Now(), o.keys))
					nTrack.Add(1)
					id := kc.conn.NextID()
					kc.conn.Do(&protocol.Command{Id: id, SubRefresh: &protocol.SubRefreshRequest{Channel: keyedChannel, Type: 1, Track: []*protocol.TrackBatch{{Items: items}}}})
					if o.wait || !kc.async {
						kc.conn.PollReply(id, time.Second)
					}
					for _, k := range o.keys {
						tracking.CompareAndDelete(k, kc)
					}
				case "untrack":
					kc.log = append(kc.log, fmt.Sprintf("%v untrack %v", w.Now(), o.keys))
					nUntrack.Add(1)
					id := kc.conn.NextID()
					kc.conn.Do(&protocol.Command{Id: id, SubRefresh: &protocol.SubRefreshRequest{Channel: keyedChannel, Type: 2, Untrack: o.keys}})
					kc.conn.PollReply(id, time.Second)
				case "resub":
					kc.log = append(kc.log, fmt.Sprintf("%v unsubscribe+subscribe", w.Now()))
					nUnsub.Add(1)
					id := kc.conn.Unsubscribe(keyedChannel)
					kc.conn.PollReply(id, time.Second)
					subscribe()
				case "end":
					kc.log = append(kc.log, fmt.Sprintf("%v end by %s", w.Now(), cause))
					nTimedEnd.Add(1)
					end(kc, cause)
					if cause != "unsubscribe" {
						return
					}
				}
			}
		}()
	}
	wg.Wait()
	time.Sleep(500 * time.Millisecond)
	w.Settle()
	// close whatever is still open, let the channel shutdown delay, the deferred broker
	// unsubscribes and one gauge refresh (every 10 s) pass
	for _, kc := range conns {
		if kc.conn != nil && !kc.closed() {
			_ = kc.conn.CloseFn()
		}
	}
	time.Sleep(13 * time.Second)
	w.Settle()

	// ------------------------------------------------------------------------------------
	// residue oracle
	cfg := map[string]any{"site": site, "cause": cause, "nth": nth, "versioned": versioned, "publish_enabled": publishEnabled, "shutdown_delay": spOpts.ChannelShutdownDelay.String(), "keep_latest": spOpts.KeepLatestData, "injected": fired.Load(), "injected_conn": firedConn.Load()}
	detail := func(kc *keyedConn, extra map[string]any) any {
		d := map[string]any{"config": cfg}
		if kc != nil {
			d["conn"] = map[string]any{"idx": kc.idx, "proto": kc.proto, "async_track_handler": kc.async, "log": kc.log}
		}
		for k, v := range extra {
			d[k] = v
		}
		return d
	}
	khub := centrifuge.VerifKeyedHub(node)
	hubSubs := centrifuge.VerifHubSubs(node)
	hubResidue := false
	for _, kc := range conns {
		if kc.conn == nil {
			continue
		}
		cl := kc.conn.Client
		cid := cl.ID()
		c.Count("keyed_closed_connections_checked", 1)
		v := centrifuge.VerifClient(cl)
		var inHub []string
		for ch, m := range khub {
			for k, ids := range m {
				for _, id := range ids {
					if id == cid {
						inHub = append(inHub, ch+"/"+k)
					}
				}
			}
		}
		sort.Strings(inHub)
		if len(v.Tracked) > 0 {
			hubResidue = true
			c.Violation("c05-keyed-tracked-keys-survive-close", fmt.Sprintf("closed conn %d still has tracked keys %v (keyed hub entries: %v)", kc.idx, v.Tracked, inHub), detail(kc, map[string]any{"tracked": v.Tracked, "keyed_hub_entries": inHub}))
		} else if len(inHub) > 0 {
			hubResidue = true
			c.Violation("c05-keyed-hub-join-after-connection-ended", fmt.Sprintf("closed conn %d is still registered in the keyed hub for %v (its own tracked-key bookkeeping is empty: the hub was joined after the end of the connection/subscription had cleaned it up)", kc.idx, inHub), detail(kc, map[string]any{"keyed_hub_entries": inHub}))
		}
		if len(v.Channels) > 0 || len(v.KeyedChannels) > 0 {
			c.Violation("c05-client-bookkeeping-survives-close", fmt.Sprintf("closed conn %d keeps channels %v / keyed channel state %v", kc.idx, v.Channels, v.KeyedChannels), detail(kc, nil))
		}
		for _, s := range hubSubs {
			if s.ClientID == cid {
				c.Violation("c05-routing-entry-survives-close", fmt.Sprintf("closed conn %d still has a routing entry for %s", kc.idx, s.Channel), detail(kc, nil))
			}
		}
	}
	if !hubResidue {
		// every connection is gone and left nothing in the hub: the manager must have
		// dropped the keys and the channel state, and no key channel stays subscribed
		for ch, m := range khub {
			if len(m) > 0 {
				c.Violation("c05-keyed-registration-survives", fmt.Sprintf("keyed hub not empty for %s: %v", ch, m), detail(nil, nil))
			}
		}
		nk := kit.GaugeSum(regV, "shared_poll_num_keys")
		nc := kit.GaugeSum(regV, "shared_poll_num_channels")
		if nk != 0 {
			c.Violation("c05-shared-poll-key-index-survives-last-tracker", fmt.Sprintf("shared poll manager still counts %v tracked keys (%v channels) 13 s after every connection closed", nk, nc), detail(nil, map[string]any{"broker_key_channels": kb.subscribed()}))
		} else if nc != 0 {
			c.Violation("c05-shared-poll-channel-state-survives-last-tracker", fmt.Sprintf("shared poll manager still counts %v channels 13 s after every connection closed", nc), detail(nil, nil))
		}
		if left := kb.subscribed(); len(left) > 0 && nk == 0 {
			c.Violation("c05-broker-key-subscription-survives-last-tracker", fmt.Sprintf("key channels still subscribed at the broker after every connection closed: %v", left), detail(nil, nil))
		}
	}
	if fired.Load() {
		switch site {
		case "broker.subscribe":
			c.Count("closes_inside_broker_subscribe", 1)
		case "broker.unsubscribe":
			c.Count("closes_inside_broker_unsubscribe", 1)
		case "track.afterReply":
			c.Count("closes_at_track_afterReply", 1)
		case "keyed.beforeEnqueue":
			c.Count("closes_at_keyed_beforeEnqueue", 1)
		}
		c.Count("keyed_close_by_"+cause, 1)
	}
	c.Count("closes_at_seeded_instants", int(nTimedEnd.Load()))
	kb.mu.Lock()
	c.Count("keyed_broker_subscribe_calls", kb.subCalls)
	c.Count("keyed_broker_unsubscribe_calls", kb.unsubCall)
	kb.mu.Unlock()
	c.Count("keyed_track_commands", int(nTrack.Load()))
	c.Count("keyed_untrack_commands", int(nUntrack.Load()))
	c.Count("keyed_unsubscribes", int(nUnsub.Load()))
	c.Count("keyed_publishes", int(nPub.Load()))
	c.Count("keyed_cases", 1)
	c.Nontrivial(fmt.Sprintf("keyed %s/%s/%v pe%v v%v sd%v", site, cause, fired.Load(), publishEnabled, versioned, spOpts.ChannelShutdownDelay))
	if c.Index < 64 {
		c.Sample(map[string]any{"scenario": "keyed", "config": cfg, "connections": nConn})
	}
	w.Shutdown()
}
