// C19: Idempotent and versioned publishes suppress exactly the duplicates
// (MemoryBroker and MemoryMapBroker; the Redis halves need a Redis server).
package c19

import (
	"context"
	"fmt"
	"math"
	"sort"
	"testing"
	"testing/synctest"
	"time"

	"github.com/centrifugal/centrifuge"
	"github.com/centrifugal/centrifuge/verifx/kit"
	sm "github.com/centrifugal/centrifuge/verifx/streammodel"
)

const (
	sec              = time.Second
	scenariosPerCase = 8
	defaultResultTTL = 300 * sec // documented: "By default, Centrifuge uses 5 minutes as idempotent result TTL"
	// Cases below resetPatternCases may generate "stale version after an unversioned stored publish" on the
	// STREAM broker (see class stream-unversioned-publish-resets-version-protection); the other cases
	// steer around exactly that combination so that a known defect there does not end every case early
	// (the kit stops a child process after 50 violations).
	resetPatternCases = 320
	// Cases in [collisionFrom, collisionTo) use channel names / idempotency keys containing '_' such that
	// channel+"_"+key coincide for different (channel,key) pairs.
	collisionFrom, collisionTo = 320, 420
)

// ---------------------------------------------------------------------------------------------
// the two brokers behind one small interface

type pubOpts struct {
	hist      bool // stream half: publish with history (size 100, ttl 1h); map half: always stored
	idemKey   string
	resultTTL time.Duration // 0 = default
	version   uint64
	vEpoch    string
}

type pubRes struct {
	pos        centrifuge.StreamPosition
	suppressed bool
	reason     centrifuge.SuppressReason
	err        error
}

type target interface {
	publish(ch, mapKey, id string, o pubOpts) pubRes
	// read returns the whole retained stream, its top position and (map half) key -> payload of the state.
	read(ch string) ([]sm.Entry, centrifuge.StreamPosition, map[string]string, error)
	deliveries() []sm.Delivery
}

type streamTarget struct {
	b   *centrifuge.MemoryBroker
	rec *sm.Recorder
}

func (t *streamTarget) publish(ch, _ string, id string, o pubOpts) pubRes {
	po := centrifuge.PublishOptions{IdempotencyKey: o.idemKey, IdempotentResultTTL: o.resultTTL, Version: o.version, VersionEpoch: o.vEpoch}
	if o.hist {
		po.HistorySize, po.HistoryTTL = 100, time.Hour
	}
	r, err := t.b.Publish(ch, []byte(id), po)
	return pubRes{pos: r.StreamPosition, suppressed: r.Suppressed, reason: r.SuppressReason, err: err}
}

func (t *streamTarget) read(ch string) ([]sm.Entry, centrifuge.StreamPosition, map[string]string, error) {
	pubs, sp, err := t.b.History(ch, centrifuge.HistoryOptions{Filter: centrifuge.HistoryFilter{Limit: -1}})
	return sm.EntriesOf(pubs), sp, nil, err
}

func (t *streamTarget) deliveries() []sm.Delivery { return t.rec.Take() }

type mapTarget struct {
	b   *centrifuge.MemoryMapBroker
	rec *sm.Recorder
}

func (t *mapTarget) publish(ch, mapKey, id string, o pubOpts) pubRes {
	r, err := t.b.Publish(context.Background(), ch, mapKey, centrifuge.MapPublishOptions{
		Data: []byte(id), IdempotencyKey: o.idemKey, IdempotentResultTTL: o.resultTTL, Version: o.version, VersionEpoch: o.vEpoch})
	return pubRes{pos: r.Position, suppressed: r.Suppressed, reason: r.SuppressReason, err: err}
}

func (t *mapTarget) read(ch string) ([]sm.Entry, centrifuge.StreamPosition, map[string]string, error) {
	sr, err := t.b.ReadStream(context.Background(), ch, centrifuge.MapReadStreamOptions{Filter: centrifuge.StreamFilter{Limit: -1}})
	if err != nil {
		return nil, centrifuge.StreamPosition{}, nil, err
	}
	st, err := t.b.ReadState(context.Background(), ch, centrifuge.MapReadStateOptions{Limit: -1})
	if err != nil {
		return nil, centrifuge.StreamPosition{}, nil, err
	}
	state := map[string]string{}
	for _, p := range st.Publications {
		state[p.Key] = string(p.Data)
	}
	return sm.EntriesOf(sr.Publications), sr.Position, state, nil
}

func (t *mapTarget) deliveries() []sm.Delivery { return t.rec.Take() }

// ---------------------------------------------------------------------------------------------
// reference model, written from the statement

type verState struct {
	ver   uint64
	epoch string
}

type cacheEntry struct {
	pos     centrifuge.StreamPosition
	expires time.Time
}

// chModel is the model of one channel. Version protection is kept per "scope": the whole channel for
// the stream broker, one map key for the map broker (MapPublishOptions.Version is documented per key).
type chModel struct {
	name     string
	m        sm.Stream
	epoch    string
	held     map[string]verState // scope -> version held (only ever set by accepted versioned publishes)
	unvSince map[string]bool     // scope -> an unversioned publish was stored after the held version
	cache    map[string]cacheEntry
	keys     []string          // idempotency keys used on this channel
	dead     map[string]bool   // keys whose first attempt was version-suppressed: not reused (statement is silent)
	state    map[string]string // map half: key -> payload
}

type scen struct {
	c          *kit.Case
	t          target
	isMap      bool
	half       string
	allowReset bool
	collision  bool
	epochMode  int // 0 only "", 1 only named, 2 mixed
	chans      []*chModel
	all        *[]*chModel // every stream-half channel of the case (collision classification)
	trace      []string
	start      time.Time
	nextID     int
	nextKey    int
	ops        int
	force      *forced // set by reuseAfterExpiry for the next publish
	// signature flags
	fIdem, fVer, fFresh, fBig, fKeeps, fEither, fBefore bool
}

// forced pins the next publish to one channel / idempotency key / result TTL; window allows it to run
// inside the open +-1 s window around the key's result-TTL deadline (the outcome is then followed, not judged).
type forced struct {
	cm     *chModel
	key    string
	ttl    time.Duration
	window bool
}

func (s *scen) logf(format string, a ...any) {
	ln := fmt.Sprintf("t=+%.3fs ", time.Since(s.start).Seconds()) + fmt.Sprintf(format, a...)
	if len(s.trace) < 300 {
		s.trace = append(s.trace, ln)
	}
	s.c.Logf("%s", ln)
}

func (s *scen) fail(class, msg string) {
	s.c.Violation(class, msg, map[string]any{"broker": s.half, "trace": s.trace})
}

func (s *scen) sleep(d time.Duration) {
	if d > 0 {
		time.Sleep(d)
		synctest.Wait()
	}
}

var bigVersions = []uint64{1 << 53, 1<<53 + 1, 1<<63 - 1, 1 << 63, 1<<63 + 1, math.MaxUint64 - 1, math.MaxUint64}

func (s *scen) pickVersion(h verState, has bool) uint64 {
	r := s.c.R
	switch r.Intn(12) {
	case 0, 1:
		if has {
			return h.ver
		}
	case 2, 3:
		if has && h.ver > 1 {
			return h.ver - 1
		}
	case 4, 5:
		if has && h.ver < math.MaxUint64 {
			return h.ver + 1
		}
	case 6:
		if has && h.ver > 3 {
			return 1 + r.Uint64N(h.ver-1)
		}
	case 7, 8:
		return kit.Pick(r, bigVersions)
	}
	return uint64(r.Range(1, 8))
}

func (s *scen) pickEpoch() string {
	r := s.c.R
	switch s.epochMode {
	case 0:
		return ""
	case 1:
		return kit.Pick(r, []string{"e1", "e1", "e1", "e2"})
	}
	return kit.Pick(r, []string{"", "", "e1", "e1", "e2"})
}

func (s *scen) readAndCompare(cm *chModel, what string) bool {
	got, sp, state, err := s.t.read(cm.name)
	if err != nil {
		s.fail("read-error", fmt.Sprintf("reading %q back failed: %v", cm.name, err))
		return false
	}
	if cm.epoch == "" {
		cm.epoch = sp.Epoch
	}
	if !sm.Equal(got, cm.m.Entries) || sp.Offset != cm.m.Top || sp.Epoch != cm.epoch {
		cls := "history-differs-after-accepted-publish"
		if what != "accepted" {
			cls = "suppressed-publish-changed-history"
		}
		s.fail(cls, fmt.Sprintf("after a publish (%s) on %q the stream is %s top=%d/%s, the reference has %s top=%d/%s", what, cm.name, sm.Fmt(got), sp.Offset, sp.Epoch, sm.Fmt(cm.m.Entries), cm.m.Top, cm.epoch))
		return false
	}
	if s.isMap {
		same := len(state) == len(cm.state)
		for k, v := range cm.state {
			if state[k] != v {
				same = false
			}
		}
		if !same {
			cls := "map-state-differs-after-accepted-publish"
			if what != "accepted" {
				cls = "suppressed-publish-changed-map-state"
			}
			s.fail(cls, fmt.Sprintf("after a publish (%s) on %q the map state is %v, the reference has %v", what, cm.name, state, cm.state))
			return false
		}
	}
	return true
}

// collides reports whether another channel of the case holds a live result whose channel+"_"+key string
// equals name+"_"+key (how a flat string cache key would confuse them).
func (s *scen) collides(cm *chModel, key string, now time.Time) bool {
	if s.all == nil {
		return false
	}
	for _, o := range *s.all {
		if o == cm {
			continue
		}
		for k, e := range o.cache {
			if o.name+"_"+k == cm.name+"_"+key && now.Before(e.expires) {
				return true
			}
		}
	}
	return false
}

func (s *scen) publish() {
	r := s.c.R
	cm := kit.Pick(r, s.chans)
	force := s.force
	s.force = nil
	if force != nil {
		cm = force.cm
	}
	mapKey, scope := "", ""
	if s.isMap {
		mapKey = kit.Pick(r, []string{"a", "b", "c"})
		scope = mapKey
	}
	o := pubOpts{hist: s.isMap || !r.Chance(1, 7)}
	// idempotency key
	if force != nil {
		o.hist = true
		o.idemKey, o.resultTTL = force.key, force.ttl
		known := false
		for _, k := range cm.keys {
			known = known || k == o.idemKey
		}
		if !known {
			cm.keys = append(cm.keys, o.idemKey)
		}
	} else if r.Chance(11, 20) {
		var reuse []string
		for _, k := range cm.keys {
			if !cm.dead[k] {
				reuse = append(reuse, k)
			}
		}
		switch {
		case len(reuse) > 0 && r.Chance(3, 5):
			o.idemKey = kit.Pick(r, reuse)
		case s.collision:
			o.idemKey = kit.Pick(r, []string{"b_c", "c", "b", "c_d", "d"})
			if cm.dead[o.idemKey] {
				o.idemKey = ""
			}
		default:
			o.idemKey = fmt.Sprintf("k%d", s.nextKey)
			s.nextKey++
		}
		if o.idemKey != "" {
			if r.Chance(3, 4) {
				o.resultTTL = time.Duration(kit.Pick(r, []int{1, 2, 3, 5, 10})) * sec
			}
			known := false
			for _, k := range cm.keys {
				known = known || k == o.idemKey
			}
			if !known {
				cm.keys = append(cm.keys, o.idemKey)
			}
		}
	}
	now := time.Now()
	windowProbe := false
	if e, ok := cm.cache[o.idemKey]; ok && o.idemKey != "" {
		// second-resolution TTL: nothing is asserted inside the open +-1 s window around the deadline
		if now.After(e.expires.Add(-sec)) && now.Before(e.expires.Add(sec)) {
			if force != nil && force.window {
				windowProbe = true
			} else {
				s.sleep(e.expires.Add(sec).Sub(now))
				now = time.Now()
			}
		}
	}
	// version
	h, has := cm.held[scope]
	if force == nil && o.hist && r.Chance(11, 20) {
		o.version = s.pickVersion(h, has)
		o.vEpoch = s.pickEpoch()
	}
	stale := func() (suppress, ambiguous bool) {
		if !(o.hist && o.version > 0 && has && o.version <= h.ver) {
			return false, false
		}
		if o.vEpoch == h.epoch {
			return true, false
		}
		// one side names an epoch and the other leaves it empty: "the same version epoch"? The statement
		// does not say (the brokers treat an empty epoch on the publish as "compare versions only").
		if (o.vEpoch == "") != (h.epoch == "") {
			return false, true
		}
		return false, false
	}
	if !s.isMap && !s.allowReset && cm.unvSince[scope] {
		if sup, amb := stale(); sup || amb {
			if h.ver < math.MaxUint64 {
				o.version = h.ver + 1
			} else {
				o.version, o.vEpoch = 0, ""
			}
		}
	}
	if o.version >= 1<<53 {
		s.fBig = true
		s.c.Count("version_beyond_2p53_published", 1)
	}

	// expected outcome
	expect := "accept" // accept | idem | version | either
	freshNow := false
	var idemPos centrifuge.StreamPosition
	if o.idemKey != "" {
		if e, ok := cm.cache[o.idemKey]; ok && !windowProbe {
			if !now.After(e.expires.Add(-sec)) {
				expect, idemPos = "idem", e.pos
				if !now.Before(e.expires.Add(-2 * sec)) {
					s.fBefore = true
					s.c.Count("repeat_within_2s_before_result_ttl", 1)
				}
			} else {
				delete(cm.cache, o.idemKey) // now >= expires+1s
				s.fFresh, freshNow = true, true
				s.c.Count("fresh_after_result_ttl", 1)
				if now.Sub(e.expires) < 3*sec {
					s.c.Count("ttl_expiry_crossed", 1)
				}
			}
		}
	}
	if expect == "accept" {
		if sup, amb := stale(); sup {
			expect = "version"
		} else if amb {
			expect = "either"
		}
	}

	id := fmt.Sprintf("%sp%d", s.half[:1], s.nextID)
	s.nextID++
	s.ops++
	res := s.t.publish(cm.name, mapKey, id, o)
	dels := s.t.deliveries()
	s.logf("Publish(%q key=%q data=%s hist=%v idem=%q resultTTL=%s version=%d vepoch=%q) -> pos=%d/%s suppressed=%v reason=%q err=%v   [model: %s, held=%v/%v]",
		cm.name, mapKey, id, o.hist, o.idemKey, o.resultTTL, o.version, o.vEpoch, res.pos.Offset, res.pos.Epoch, res.suppressed, res.reason, res.err, expect, h, has)
	if res.err != nil {
		s.fail("publish-error", fmt.Sprintf("Publish returned %v", res.err))
		return
	}
	if windowProbe {
		// inside the window either answer is right; the model follows the broker
		if res.suppressed && res.reason == centrifuge.SuppressReasonIdempotency {
			expect, idemPos = "idem", cm.cache[o.idemKey].pos
			s.c.Count("window_probe_answered_from_cache", 1)
		} else {
			delete(cm.cache, o.idemKey)
			freshNow = true
			s.c.Count("window_probe_published_as_fresh", 1)
		}
	}
	if expect == "either" {
		s.fEither = true
		if res.suppressed {
			s.c.Count("either_empty_vs_named_epoch_suppressed", 1)
			expect = "version"
		} else {
			s.c.Count("either_empty_vs_named_epoch_accepted", 1)
			expect = "accept"
		}
	}
	pfx := ""
	if s.isMap {
		pfx = "map-"
	}
	switch expect {
	case "idem":
		if !res.suppressed {
			s.fail(pfx+"idempotent-repeat-not-suppressed", fmt.Sprintf("idempotency key %q was used %.1fs before its result TTL ends, but the publish went through (offset %d)", o.idemKey, cm.cache[o.idemKey].expires.Sub(now).Seconds(), res.pos.Offset))
			return
		}
		if res.reason != centrifuge.SuppressReasonIdempotency {
			s.fail(pfx+"idempotent-repeat-wrong-reason", fmt.Sprintf("repeat of key %q suppressed with reason %q", o.idemKey, res.reason))
			return
		}
		if res.pos != idemPos {
			s.fail(pfx+"idempotent-repeat-wrong-position", fmt.Sprintf("repeat of key %q returned position %+v, the original publish returned %+v", o.idemKey, res.pos, idemPos))
			return
		}
		s.fIdem = true
		s.c.Count("suppressed_idempotent", 1)
		s.c.Count(s.half+"_suppressed_idempotent", 1)
	case "version":
		if !res.suppressed {
			cls := pfx + "stale-version-not-suppressed"
			if cm.unvSince[scope] {
				cls = s.half + "-unversioned-publish-resets-version-protection"
			}
			s.fail(cls, fmt.Sprintf("version %d (epoch %q) was published while the channel holds version %d (epoch %q), and it was accepted at offset %d", o.version, o.vEpoch, h.ver, h.epoch, res.pos.Offset))
			return
		}
		if res.reason != centrifuge.SuppressReasonVersion {
			cls := pfx + "stale-version-wrong-reason"
			if res.reason == centrifuge.SuppressReasonIdempotency {
				cls = pfx + "fresh-key-suppressed-as-idempotent"
				if !s.isMap && s.collides(cm, o.idemKey, now) {
					cls = "idempotency-cache-collision-across-channels"
				}
			}
			s.fail(cls, fmt.Sprintf("stale version %d suppressed with reason %q", o.version, res.reason))
			return
		}
		if res.pos == (centrifuge.StreamPosition{Offset: cm.m.Top, Epoch: cm.epoch}) {
			s.c.Count("version_suppressed_returns_current_top", 1)
		} else {
			s.c.Count("version_suppressed_returns_other_position", 1)
		}
		if o.idemKey != "" {
			cm.dead[o.idemKey] = true
		}
		s.fVer = true
		s.c.Count("suppressed_version", 1)
		s.c.Count(s.half+"_suppressed_version", 1)
		if cm.unvSince[scope] {
			s.fKeeps = true
			s.c.Count("unversioned_publish_kept_protection", 1)
			s.c.Count(s.half+"_unversioned_publish_kept_protection", 1)
		}
		if o.version >= 1<<53 || h.ver >= 1<<53 {
			s.c.Count("version_beyond_2p53_suppressed", 1)
		}
	case "accept":
		if res.suppressed {
			cls := pfx + "publish-wrongly-suppressed"
			switch {
			case res.reason == centrifuge.SuppressReasonIdempotency && !s.isMap && s.collides(cm, o.idemKey, now):
				cls = "idempotency-cache-collision-across-channels"
			case res.reason == centrifuge.SuppressReasonIdempotency && o.idemKey != "" && freshNow:
				cls = pfx + "publish-after-result-ttl-still-suppressed"
			case res.reason == centrifuge.SuppressReasonIdempotency:
				cls = pfx + "fresh-key-suppressed-as-idempotent"
			case res.reason == centrifuge.SuppressReasonVersion:
				cls = pfx + "newer-version-suppressed"
			}
			s.fail(cls, fmt.Sprintf("publish (idem=%q version=%d/%q, channel holds %v/%v) was suppressed with reason %q, position %+v", o.idemKey, o.version, o.vEpoch, h, has, res.reason, res.pos))
			return
		}
		if res.reason != centrifuge.SuppressReasonNone {
			s.fail(pfx+"accepted-publish-has-suppress-reason", fmt.Sprintf("reason %q on a publish that was not suppressed", res.reason))
			return
		}
		want := centrifuge.StreamPosition{}
		if o.hist {
			off := cm.m.Append(id, 100000)
			if cm.epoch == "" {
				cm.epoch = res.pos.Epoch
			}
			want = centrifuge.StreamPosition{Offset: off, Epoch: cm.epoch}
			if o.version > 0 {
				cm.held[scope] = verState{o.version, o.vEpoch}
				cm.unvSince[scope] = false
				if has && o.version > h.ver && (o.version >= 1<<53 || h.ver >= 1<<53) {
					s.c.Count("version_beyond_2p53_accepted_over_older", 1)
				}
			} else if has {
				cm.unvSince[scope] = true
			}
			if s.isMap {
				cm.state[mapKey] = id
			}
		}
		if res.pos != want || want.Epoch == "" && o.hist {
			s.fail(pfx+"accepted-publish-wrong-position", fmt.Sprintf("accepted publish returned %+v, the reference stream assigns %+v", res.pos, want))
			return
		}
		if o.idemKey != "" {
			ttl := o.resultTTL
			if ttl == 0 {
				ttl = defaultResultTTL
			}
			cm.cache[o.idemKey] = cacheEntry{pos: res.pos, expires: now.Add(ttl)}
		}
		s.c.Count("accepted", 1)
	}
	if expect == "accept" {
		if len(dels) != 1 || dels[0].Channel != cm.name || dels[0].ID != id || dels[0].SP != res.pos {
			s.fail(pfx+"accepted-publish-not-delivered-once", fmt.Sprintf("expected exactly one HandlePublication(%q,%s,%+v), got %+v", cm.name, id, res.pos, dels))
			return
		}
	} else if len(dels) != 0 {
		s.fail(pfx+"suppressed-publish-reached-handler", fmt.Sprintf("a suppressed publish (%s) produced HandlePublication calls %+v", expect, dels))
		return
	}
	what := "accepted"
	if expect != "accept" {
		what = "suppressed: " + expect
	}
	s.readAndCompare(cm, what)
}

// reuseAfterExpiry: publish with a key and a short result TTL, reuse the key right at its deadline (inside
// the window where either answer is allowed: the model follows), let the broker's once-a-second cache
// sweep pass, and use the key once more: that last publish is judged against whatever the reuse
// established (a fresh result with a long TTL must still suppress it).
func (s *scen) reuseAfterExpiry() {
	r := s.c.R
	cm := kit.Pick(r, s.chans)
	key := fmt.Sprintf("r%d", s.nextKey)
	s.nextKey++
	ttl := time.Duration(r.Range(1, 3)) * sec
	s.force = &forced{cm: cm, key: key, ttl: ttl}
	s.publish()
	e, ok := cm.cache[key]
	if !ok || s.c.Violated() {
		return
	}
	d := time.Until(e.expires) + time.Duration(r.Intn(1000))*time.Millisecond
	s.logf("jump %s (into the result-TTL window of %q)", d, key)
	s.sleep(d)
	s.force = &forced{cm: cm, key: key, ttl: time.Duration(kit.Pick(r, []int{5, 10, 0})) * sec, window: true}
	s.publish()
	if s.c.Violated() {
		return
	}
	d = time.Duration(r.Range(1050, 2600)) * time.Millisecond
	s.logf("sleep %s (past the result cache sweep)", d)
	s.sleep(d)
	s.force = &forced{cm: cm, key: key, ttl: time.Duration(kit.Pick(r, []int{5, 10})) * sec}
	s.publish()
	s.c.Count("key_reused_at_deadline_then_again_after_sweep", 1)
}

func (s *scen) jump() {
	r := s.c.R
	now := time.Now()
	var ts []time.Time
	for _, cm := range s.chans {
		for _, e := range cm.cache {
			extra := time.Duration(0)
			if r.Chance(1, 3) {
				extra = time.Duration(r.Intn(1500)) * time.Millisecond
			}
			for _, t := range []time.Time{e.expires.Add(-sec - extra), e.expires.Add(sec + extra)} {
				if t.After(now) {
					ts = append(ts, t)
				}
			}
		}
	}
	sort.Slice(ts, func(i, j int) bool { return ts[i].Before(ts[j]) })
	if len(ts) == 0 || r.Chance(1, 4) {
		d := time.Duration(r.Range(1, 3000)) * time.Millisecond
		s.logf("sleep %s", d)
		s.sleep(d)
		return
	}
	// prefer the nearer deadlines (the 300 s default TTL would otherwise dominate)
	t := ts[r.Intn((len(ts)+1)/2)]
	if r.Chance(1, 6) {
		t = kit.Pick(r, ts)
	}
	s.logf("jump %s (to a result-TTL deadline -/+1s)", t.Sub(now))
	if t.Sub(now) > 100*sec {
		s.c.Count("default_result_ttl_jump", 1)
	}
	s.sleep(t.Sub(now))
}

func runScenario(c *kit.Case, t target, isMap bool, prefix string, all *[]*chModel) {
	r := c.R
	s := &scen{c: c, t: t, isMap: isMap, half: "stream", start: time.Now(), all: all}
	if isMap {
		s.half = "map"
	}
	s.allowReset = c.Index < resetPatternCases
	s.collision = !isMap && c.Index >= collisionFrom && c.Index < collisionTo
	s.epochMode = kit.Pick(r, []int{0, 0, 1, 1, 2})
	time.Sleep(time.Duration(r.Intn(1000)) * time.Millisecond)
	names := []string{prefix + "x0", prefix + "x1"}
	switch {
	case isMap:
		names = []string{"mp" + prefix + "x0", "mr" + prefix + "x1"} // persistent / recoverable mode
	case s.collision:
		names = []string{prefix + "a", prefix + "a_b", prefix + "a_b_c"}
	}
	if !s.collision {
		names = names[:r.Range(1, 2)]
	}
	for _, n := range names {
		cm := &chModel{name: n, held: map[string]verState{}, unvSince: map[string]bool{}, cache: map[string]cacheEntry{}, dead: map[string]bool{}, state: map[string]string{}}
		s.chans = append(s.chans, cm)
		if all != nil && !isMap {
			*all = append(*all, cm)
		}
	}
	n := r.Range(12, 40)
	for i := 0; i < n && !c.Violated(); i++ {
		switch {
		case r.Chance(1, 5):
			s.jump()
		case r.Chance(1, 12):
			s.reuseAfterExpiry()
		default:
			s.publish()
		}
	}
	c.Eval(s.ops)
	if c.Violated() {
		return
	}
	c.Nontrivial(fmt.Sprintf("%s idem=%v ver=%v fresh=%v before=%v big=%v keeps=%v either=%v mode=%d", s.half, s.fIdem, s.fVer, s.fFresh, s.fBefore, s.fBig, s.fKeeps, s.fEither, s.epochMode))
	if s.fIdem && s.fVer && s.fFresh {
		c.Sample(map[string]any{"broker": s.half, "trace": head(s.trace, 30)})
	}
}

func head(xs []string, n int) []string {
	if len(xs) > n {
		return xs[:n]
	}
	return xs
}

func mapChannelOptions(ch string) centrifuge.MapChannelOptions {
	if len(ch) >= 2 && ch[:2] == "mr" {
		return centrifuge.MapChannelOptions{Mode: centrifuge.MapModeRecoverable, KeyTTL: 10 * time.Hour, StreamSize: 1000, StreamTTL: time.Hour}
	}
	return centrifuge.MapChannelOptions{Mode: centrifuge.MapModePersistent, StreamSize: 1000, StreamTTL: time.Hour}
}

func TestC19(t *testing.T) {
	kit.Main(t, kit.Spec{
		ID:     "C19",
		Level:  "exploration",
		Bubble: true,
		// a case (8 scenarios) normally takes ~0.2 s; the real-time watchdog only has to survive an oversubscribed machine
		CaseTimeout: 10 * time.Minute,
		Rule: "every case is one testing/synctest bubble with a fresh Node (not run), a standalone MemoryBroker and a standalone MemoryMapBroker (persistent and recoverable map channels), each with a recording BrokerEventHandler, and 8 scenarios on distinct channels (half stream broker, half map broker). " +
			"A scenario is 12-40 steps on 1-2 channels (map: 3 keys): Publish with a random mix of idempotency key (none / new / reused, result TTL 1-10 s or the 300 s default), version (none / held-1 / held / held+1 / small / 2^53, 2^53+1, 2^63-1, 2^63, 2^63+1, 2^64-2, 2^64-1) and version epoch (only empty / only named / mixed per scenario), with or without history (stream broker), " +
			"and virtual-clock jumps to 1-2.5 s before / after a result-TTL deadline or random 1-3000 ms sleeps. After every publish: Suppressed flag, SuppressReason, returned position (a repeated key must return the ORIGINAL position), number of HandlePublication calls (0 for suppressed, exactly 1 otherwise), and the complete History / ReadStream+ReadState read back are compared with the reference model. " +
			"Nothing is asserted inside the open +-1 s window around a result-TTL deadline (the harness sleeps past it), except in reuse-at-deadline sequences (1 step in 12): key with a 1-3 s TTL, reused 0-1 s after its deadline (either answer allowed, the model follows the broker), 1.05-2.6 s pause across the broker's cache sweep, then used again and judged against what the reuse established. Cases < 320 also generate 'stale version after an unversioned stored publish' on the stream broker; cases 320..419 use channel names and idempotency keys with '_' such that channel+'_'+key coincide across channels. " +
			"Non-trivial = every completed scenario; signature = broker half x which of {idempotent suppression, version suppression, fresh publish after TTL, repeat within 2 s before TTL, version >= 2^53, unversioned publish kept protection, empty-vs-named epoch} occurred x epoch mode.",
		Assumptions: []string{
			"only the in-memory brokers are checked: no Redis server exists in this environment, so the Redis halves of the statement (broker_redis.go, the Lua scripts, RedisMapBroker) are NOT covered by this check",
			"reference model written from the statement: result cache keyed by (channel, idempotency key) holding the original position until publish time + result TTL (0 = the documented 300 s default; second resolution: asserted 'repeat' up to deadline-1s and 'fresh' from deadline+1s); only publishes that went through record their key; an idempotent hit takes precedence over the version check",
			"version protection: a channel (stream broker) / a map key (map broker, MapPublishOptions.Version is documented per key) holds the version and version epoch of the last ACCEPTED versioned publish; a versioned publish with history is suppressed iff held version >= its version and the epochs are equal strings; unversioned publishes leave the held version alone; when exactly one of the two epochs is empty either outcome is accepted and followed (counters either_*)",
			"out of scope because the statement/API leave them open: versioned publishes without history on the stream broker (PublishOptions: 'Version only used when history is configured') are not generated; an idempotency key whose first attempt was suppressed by version is not reused; the position returned by a version-suppressed publish is only counted; history TTL / meta TTL expiry and RemoveHistory do not occur (TTL 1 h)",
			"SuppressReason values idempotency / version are the documented constants of the public API",
			"testing/synctest virtual time drives the result-TTL expiry; both brokers' sweep goroutines end on Close",
		},
		Cases: map[string]int{"quick": 1600, "thorough": 24000},
		RequireCounters: []string{"key_reused_at_deadline_then_again_after_sweep", "window_probe_published_as_fresh", "suppressed_idempotent", "suppressed_version", "stream_suppressed_idempotent", "map_suppressed_idempotent", "stream_suppressed_version", "map_suppressed_version",
			"fresh_after_result_ttl", "ttl_expiry_crossed", "repeat_within_2s_before_result_ttl", "default_result_ttl_jump", "unversioned_publish_kept_protection", "version_beyond_2p53_suppressed", "version_beyond_2p53_accepted_over_older"},
		Run: func(c *kit.Case) {
			r := c.R
			time.Sleep(time.Duration(r.Intn(1000)) * time.Millisecond)
			node, err := centrifuge.New(centrifuge.Config{Map: centrifuge.MapConfig{GetMapChannelOptions: mapChannelOptions}})
			if err != nil {
				c.Inconclusive("centrifuge.New failed: " + err.Error())
				return
			}
			b, err := centrifuge.NewMemoryBroker(node, centrifuge.MemoryBrokerConfig{})
			if err != nil {
				c.Inconclusive("NewMemoryBroker failed: " + err.Error())
				return
			}
			mb, err := centrifuge.NewMemoryMapBroker(node, centrifuge.MemoryMapBrokerConfig{})
			if err != nil {
				c.Inconclusive("NewMemoryMapBroker failed: " + err.Error())
				return
			}
			st := &streamTarget{b: b, rec: &sm.Recorder{}}
			mt := &mapTarget{b: mb, rec: &sm.Recorder{}}
			if err := b.RegisterBrokerEventHandler(st.rec); err != nil {
				c.Inconclusive("RegisterBrokerEventHandler failed: " + err.Error())
				return
			}
			if err := mb.RegisterEventHandler(mt.rec); err != nil {
				_ = b.Close(context.Background())
				c.Inconclusive("RegisterEventHandler failed: " + err.Error())
				return
			}
			defer func() {
				_ = b.Close(context.Background())
				_ = mb.Close(context.Background())
				synctest.Wait()
			}()
			var all []*chModel
			for round := 0; round < scenariosPerCase && !c.Violated(); round++ {
				prefix := fmt.Sprintf("s%d", round)
				if r.Bool() {
					runScenario(c, mt, true, prefix, nil)
				} else {
					runScenario(c, st, false, prefix, &all)
				}
			}
		},
	})
}
