// C03: Cache recovery delivers the newest visible publication.
package c03

import (
	"context"
	"fmt"
	"sync"
	"testing"
	"time"

	"github.com/centrifugal/centrifuge"
	"github.com/centrifugal/centrifuge/verifx/kit"
	"github.com/centrifugal/centrifuge/verifx/recov"
	"github.com/centrifugal/protocol"
)

const channel = "c03:ch"

type request struct {
	Mode         string // client-recover | auto | client-no-recover
	Offset       uint64
	Epoch        string
	ClientFilter string
	ServerFilter string
	Proto        string
	Kind         string // client | connect
}

type observed struct {
	Req            request
	ErrCode        uint32
	Recovered      bool
	WasRecovering  bool
	IDs            []string
	Offsets        []uint64
	TopBefore      centrifuge.StreamPosition
	TopAfter       centrifuge.StreamPosition
	NewestPresent  bool
	HandlerCalls   int
	HandlerPublish bool
	CloseCode      uint32
}

func runCase(c *kit.Case) {
	r := c.R
	w := kit.NewWorld(c)
	cfg := centrifuge.Config{
		RecoveryMaxPublicationLimit: kit.Pick(r, []int{0, 0, 0, 2, 5}),
		ClientStaleCloseDelay:       time.Hour,
	}
	if r.Chance(1, 3) {
		cfg.HistoryMetaTTL = 20 * time.Second
	}
	handlerMode := kit.Pick(r, []string{"none", "none", "noop", "populate"})
	var mu sync.Mutex
	var curOpts centrifuge.SubscribeOptions
	var h *recov.Hist
	handlerCalls := 0
	handlerPublished := false
	populateN := kit.Pick(r, []int{1, 2, 3})
	// every fourth case: one or two publications land inside each subscribe, right after its cache read
	// (they reach the subscriber through the subscribe-time buffer, together with the recovered one)
	racersPerSubscribe := 0
	if c.Index%4 == 1 {
		racersPerSubscribe = r.Range(1, 2)
	}
	node, _ := w.NewNode(cfg, func(n *centrifuge.Node) {
		n.OnConnecting(func(_ context.Context, e centrifuge.ConnectEvent) (centrifuge.ConnectReply, error) {
			rep := kit.Creds("u")
			mu.Lock()
			defer mu.Unlock()
			if curOpts.Source == 7 { // scenario marker: connect-time server-side subscription
				rep.Subscriptions = map[string]centrifuge.SubscribeOptions{channel: curOpts}
			}
			return rep, nil
		})
		n.OnConnect(func(cl *centrifuge.Client) {
			cl.OnSubscribe(func(e centrifuge.SubscribeEvent, cb centrifuge.SubscribeCallback) {
				mu.Lock()
				o := curOpts
				mu.Unlock()
				cb(centrifuge.SubscribeReply{Options: o}, nil)
			})
		})
		if handlerMode != "none" {
			n.OnCacheEmpty(func(e centrifuge.CacheEmptyEvent) (centrifuge.CacheEmptyReply, error) {
				mu.Lock()
				handlerCalls++
				mu.Unlock()
				if handlerMode == "populate" {
					// a populating handler may write more than one publication: the subscriber
					// must still be handed at most the newest one
					var err error
					for k := 0; k < populateN && err == nil; k++ {
						_, err = h.Publish(kit.Pick(r, []string{"a", "a", "b"}), 10, 60*time.Second, 0)
					}
					if populateN > 1 {
						c.Count("cache_populated_with_several_publications", 1)
					}
					mu.Lock()
					handlerPublished = err == nil
					mu.Unlock()
					return centrifuge.CacheEmptyReply{Populated: true}, nil
				}
				return centrifuge.CacheEmptyReply{}, nil
			})
		}
	})
	h = &recov.Hist{W: w, Node: node, Channel: channel}
	if racersPerSubscribe > 0 {
		kit.SetHook(node, func(point string, cl *centrifuge.Client, ch string) {
			if point == "sub.afterRecover" && ch == channel { // no lock is held at this point
				for k := 0; k < racersPerSubscribe; k++ {
					_, _ = h.Publish(kit.Pick(r, []string{"a", "a", "b", "c"}), 10, 60*time.Second, 0)
				}
				c.Count("publications_landing_inside_a_cache_subscribe", racersPerSubscribe)
			}
		})
	}

	nOps := r.Range(0, 25)
	epochsSeen := []string{}
	for i := 0; i < nOps; i++ {
		switch x := r.Intn(100); {
		case x < 70:
			size := kit.Pick(r, []int{1, 2, 3, 10})
			ttl := kit.Pick(r, []time.Duration{60 * time.Second, 60 * time.Second, 5 * time.Second, 2 * time.Second})
			rec, err := h.Publish(kit.Pick(r, []string{"a", "b", "b", "c"}), size, ttl, 0)
			if err == nil && (len(epochsSeen) == 0 || epochsSeen[len(epochsSeen)-1] != rec.Epoch) {
				epochsSeen = append(epochsSeen, rec.Epoch)
			}
		case x < 88:
			h.Sleep(time.Duration(r.Range(300, 4000)) * time.Millisecond)
		case x < 94:
			h.Remove()
		default:
			if cfg.HistoryMetaTTL > 0 {
				h.Sleep(25 * time.Second)
			} else {
				h.Sleep(65 * time.Second)
			}
		}
	}

	sig := "h=" + handlerMode
	nReq := r.Range(4, 10)
	var samples []observed
	for k := 0; k < nReq && !c.Violated(); k++ {
		before, err := node.History(channel, centrifuge.WithLimit(0))
		if err != nil {
			c.Inconclusive("Node.History failed: " + err.Error())
			break
		}
		top := before.StreamPosition
		rq := request{}
		rq.Mode = kit.Pick(r, []string{"client-recover", "client-recover", "auto", "client-no-recover"})
		switch r.Intn(6) {
		case 0:
			rq.Offset = 0
		case 1:
			rq.Offset = top.Offset + 3
		case 2, 3:
			rq.Offset = top.Offset
		default:
			if top.Offset > 0 {
				rq.Offset = uint64(r.Intn(int(top.Offset)))
			}
		}
		switch r.Intn(5) {
		case 0:
			rq.Epoch = ""
		case 1:
			rq.Epoch = "nope"
			if len(epochsSeen) > 1 {
				rq.Epoch = epochsSeen[r.Intn(len(epochsSeen))]
			}
		default:
			rq.Epoch = top.Epoch
		}
		cf := kit.Pick(r, recov.Filters)
		sf := kit.Pick(r, recov.Filters)
		if r.Bool() {
			cf = recov.Filters[0]
		}
		if r.Chance(2, 3) {
			sf = recov.Filters[0]
		}
		rq.ClientFilter, rq.ServerFilter = cf.Name, sf.Name
		proto := kit.Pick(r, []centrifuge.ProtocolType{centrifuge.ProtocolTypeJSON, centrifuge.ProtocolTypeProtobuf})
		rq.Proto = string(proto)
		rq.Kind = "client"
		if cf.Node == nil && rq.Mode != "client-no-recover" && r.Chance(1, 4) {
			rq.Kind = "connect"
		}
		opts := centrifuge.SubscribeOptions{EnableRecovery: true, RecoveryMode: centrifuge.RecoveryModeCache, AllowTagsFilter: true, ServerTagsFilter: recov.CloneFilter(sf.Node)}
		if rq.Mode == "auto" {
			opts.AutoCacheRecover = true
		}
		if rq.Kind == "connect" {
			opts.Source = 7
		}
		mu.Lock()
		curOpts = opts
		handlerCalls = 0
		handlerPublished = false
		mu.Unlock()

		conn := w.NewConn(node, kit.TransportOpts{Protocol: proto})
		var res *protocol.SubscribeResult
		var errCode uint32
		recoverFlag := rq.Mode == "client-recover"
		if rq.Kind == "connect" {
			creq := &protocol.ConnectRequest{}
			if recoverFlag {
				creq.Subs = map[string]*protocol.SubscribeRequest{channel: {Recover: true, Offset: rq.Offset, Epoch: rq.Epoch}}
			}
			id := conn.Connect(creq)
			if f, ok := conn.WaitReply(id); ok && f.Reply.Connect != nil {
				res = f.Reply.Connect.Subs[channel]
			} else if ok && f.Reply.Error != nil {
				errCode = f.Reply.Error.Code
			}
		} else {
			conn.Connect(nil)
			req := &protocol.SubscribeRequest{Channel: channel, Tf: recov.CloneFilter(cf.Node)}
			if recoverFlag {
				req.Recover, req.Offset, req.Epoch = true, rq.Offset, rq.Epoch
			}
			id := conn.Subscribe(req)
			if f, ok := conn.WaitReply(id); ok {
				if f.Reply.Error != nil {
					errCode = f.Reply.Error.Code
				} else {
					res = f.Reply.Subscribe
				}
			}
		}
		c.Eval(1)
		after, err := node.History(channel, centrifuge.WithLimit(1), centrifuge.WithReverse(true))
		if err != nil {
			c.Inconclusive("Node.History failed: " + err.Error())
			_ = conn.CloseFn()
			break
		}
		ob := observed{Req: rq, ErrCode: errCode, TopBefore: top, TopAfter: after.StreamPosition}
		ob.NewestPresent = len(after.Publications) == 1 && after.Publications[0].Offset == after.Offset && after.Offset > 0
		mu.Lock()
		ob.HandlerCalls, ob.HandlerPublish = handlerCalls, handlerPublished
		mu.Unlock()
		if res != nil {
			ob.Recovered, ob.WasRecovering = res.Recovered, res.WasRecovering
			for _, p := range res.Publications {
				ob.IDs = append(ob.IDs, recov.PayloadID(p.Data))
				ob.Offsets = append(ob.Offsets, p.Offset)
			}
		}
		if closed, disc, _ := conn.T.Closed(); closed {
			ob.CloseCode = disc.Code
		}
		check(c, h, ob, res != nil, cf, sf, racersPerSubscribe > 0)
		if len(samples) < 3 {
			samples = append(samples, ob)
		}
		sig += fmt.Sprintf("|%s:%v:%d:p%v:h%d", rq.Mode, ob.Recovered, len(ob.IDs), ob.NewestPresent, ob.HandlerCalls)
		_ = conn.CloseFn()
	}
	c.Nontrivial(sig)
	if c.Index < 32 {
		c.Sample(map[string]any{"ops": h.Ops, "handler": handlerMode, "requests": samples})
	}
	w.Shutdown()
}

func check(c *kit.Case, h *recov.Hist, ob observed, haveRes bool, cf, sf recov.TagFilter, raced bool) {
	detail := func() any { return map[string]any{"ops": h.Ops, "observed": ob, "publications_landed_inside_the_subscribe": raced} }
	rq := ob.Req
	if raced && ob.ErrCode == 0 && !haveRes && ob.CloseCode == 3010 {
		// a publication that lands inside the subscribe can leave a hole next to the (possibly older,
		// because filtered) recovered one: the library refuses with insufficient state, which is an
		// explicit refusal, not a delivery
		c.Count("cache_subscribe_refused_insufficient_state_with_racing_publication", 1)
		return
	}
	if ob.ErrCode != 0 || !haveRes {
		c.Violation("c03-unexpected-subscribe-error", fmt.Sprintf("cache-mode subscribe failed (error %d, result present %v)", ob.ErrCode, haveRes), detail())
		return
	}
	attempted := rq.Mode == "client-recover" || rq.Mode == "auto"
	if !attempted {
		if len(ob.IDs) > 0 || ob.Recovered {
			c.Violation("c03-publications-without-recovery-attempt", "no recovery was requested or forced, yet recovered/publications were reported", detail())
		}
		c.Count("no_recovery_attempt", 1)
		return
	}
	if len(ob.IDs) > 1 {
		c.Violation("c03-more-than-one-publication", fmt.Sprintf("cache recovery returned %d publications", len(ob.IDs)), detail())
		return
	}
	// newest visible publication of the current epoch, from the publish log
	byPos := h.ByPos()[ob.TopAfter.Epoch]
	var newestVisible *recov.Rec
	for o := ob.TopAfter.Offset; o >= 1; o-- {
		rec, ok := byPos[o]
		if !ok {
			break
		}
		if cf.Admit(rec.Tag) && sf.Admit(rec.Tag) {
			rr := rec
			newestVisible = &rr
			break
		}
	}
	if raced && len(ob.IDs) == 1 {
		// the newest visible publication as of any instant of the subscribe is acceptable
		ok := false
		for top := ob.TopBefore.Offset; top <= ob.TopAfter.Offset && !ok; top++ {
			for o := top; o >= 1; o-- {
				rec, have := byPos[o]
				if !have {
					break
				}
				if cf.Admit(rec.Tag) && sf.Admit(rec.Tag) {
					ok = rec.ID == ob.IDs[0]
					break
				}
			}
		}
		if !ok && ob.TopBefore.Epoch == ob.TopAfter.Epoch {
			c.Violation("c03-delivered-not-the-newest-visible", fmt.Sprintf("cache recovery delivered %s (offset %d), which was not the newest visible publication at any instant of the subscribe (top %d -> %d, filters client=%s server=%s)", ob.IDs[0], ob.Offsets[0], ob.TopBefore.Offset, ob.TopAfter.Offset, cf.Name, sf.Name), detail())
			return
		}
		c.Count("delivered_newest_visible_with_racing_publications", 1)
		return
	}
	if raced {
		return // recovered flag: it describes the instant of the cache read, which the racers moved
	}
	if len(ob.IDs) == 1 {
		if newestVisible == nil || newestVisible.ID != ob.IDs[0] {
			want := "<none visible>"
			if newestVisible != nil {
				want = newestVisible.ID
			}
			c.Violation("c03-delivered-not-the-newest-visible", fmt.Sprintf("cache recovery delivered %s (offset %d), newest visible publication is %s (filters client=%s server=%s)", ob.IDs[0], ob.Offsets[0], want, cf.Name, sf.Name), detail())
			return
		}
		c.Count("delivered_newest_visible", 1)
		if newestVisible.Offset != ob.TopAfter.Offset {
			c.Count("delivered_older_because_newest_filtered", 1)
		}
	}
	clientHolds := rq.Mode == "client-recover" && rq.Offset > 0 && rq.Offset == ob.TopAfter.Offset && rq.Epoch == ob.TopAfter.Epoch
	want := ob.NewestPresent || clientHolds
	if ob.Recovered != want {
		cls := "c03-recovered-true-without-newest-publication"
		if want {
			cls = "c03-recovered-false-although-newest-publication-in-history"
		}
		c.Violation(cls, fmt.Sprintf("recovered=%v; newest publication present in history=%v, client holds current position=%v (filters client=%s server=%s, handler calls %d)", ob.Recovered, ob.NewestPresent, clientHolds, cf.Name, sf.Name, ob.HandlerCalls), detail())
		return
	}
	if ob.Recovered {
		c.Count("recovered_true", 1)
		if clientHolds {
			c.Count("client_holds_position", 1)
		}
	} else {
		c.Count("recovered_false", 1)
	}
	if ob.HandlerCalls > 0 {
		c.Count("cache_empty_handler_called", 1)
		if ob.HandlerPublish {
			c.Count("cache_populated_by_handler", 1)
		}
	}
	if len(ob.IDs) == 0 && newestVisible != nil && ob.NewestPresent && !clientHolds && newestVisible.Offset == ob.TopAfter.Offset {
		// newest publication is present and visible but nothing delivered: allowed by
		// "at most", counted to keep it visible in evidence.
		c.Count("newest_visible_present_but_nothing_delivered", 1)
	}
}

func TestC03(t *testing.T) {
	kit.Main(t, kit.Spec{
		ID:     "C03",
		Bubble: true,
		Rule: "each case = one bubble: random channel history on a virtual clock (publishes with size/TTL/tags, sleeps across TTLs, RemoveHistory, meta expiry), then 4-10 cache-mode subscribes: client-requested recover (offset 0 / random / top / top+3; epoch current / empty / stale), server-forced AutoCacheRecover, or no recovery; client and server tags filters; JSON/Protobuf; client-side or connect-time server-side; with no / no-op / populating OnCacheEmpty handler (writing 1-3 publications); every fourth case lets 1-2 publications land inside each subscribe right after its cache read. " +
			"Oracle: <=1 publication; a delivered one is the newest publication of the publish log that both filters admit; recovered == (newest publication still in history, read back with Node.History(limit 1, reverse) right after) OR (client position == current position). Signature = handler mode x per-request (mode, recovered, #pubs, newest present, handler calls).",
		Assumptions: []string{
			"whether the newest publication is still held by history is read with Node.History right after the subscribe (sequential scenario, nothing else runs)",
			"delta encoding is never negotiated in this check",
		},
		Cases:           map[string]int{"quick": 1500, "thorough": 30000},
		RequireCounters: []string{"delivered_newest_visible", "delivered_older_because_newest_filtered", "recovered_true", "recovered_false", "client_holds_position", "cache_populated_by_handler", "cache_populated_with_several_publications", "publications_landing_inside_a_cache_subscribe", "delivered_newest_visible_with_racing_publications"},
		Run:             runCase,
	})
}
