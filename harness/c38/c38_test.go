// C38: Channel medium preserves delivery guarantees.
package c38

import (
	"runtime"
	"context"
	"encoding/json"
	"fmt"
	"sync"
	"sync/atomic"
	"testing"
	"time"

	"github.com/centrifugal/centrifuge"
	"github.com/centrifugal/centrifuge/verifx/kit"
	"github.com/centrifugal/centrifuge/verifx/posdeliv"
	"github.com/centrifugal/protocol"
)

func mediumFor(r *kit.Rand, allowDelay bool) centrifuge.ChannelMediumOptions {
	var o centrifuge.ChannelMediumOptions
	for !(o.KeepLatestPublication || o.SharedPositionSync) {
		o.KeepLatestPublication = r.Bool()
		o.SharedPositionSync = r.Bool()
	}
	queue := r.Bool()
	delay := time.Duration(0)
	if queue && allowDelay && r.Bool() {
		delay = time.Duration(r.Range(1, 20)) * time.Millisecond
	}
	qmax := 0
	if queue && r.Chance(1, 4) {
		qmax = 1 << 20
	}
	centrifuge.VerifSetMediumInternals(&o, queue, qmax, int64(delay))
	return o
}

// orderCase: non-positioned subscribers behind a medium with queue and broadcast
// delay still receive the channel's publications in publish order, each at most once.
func orderCase(c *kit.Case) {
	r := c.R
	w := kit.NewWorld(c)
	const ch = "c38:np"
	mo := mediumFor(r, true)
	withHistory := r.Bool()
	node, _ := w.NewNode(centrifuge.Config{
		ClientStaleCloseDelay:   time.Hour,
		GetChannelMediumOptions: func(string) centrifuge.ChannelMediumOptions { return mo },
	}, func(n *centrifuge.Node) {
		n.OnConnecting(func(context.Context, centrifuge.ConnectEvent) (centrifuge.ConnectReply, error) {
			return kit.Creds("u"), nil
		})
		n.OnConnect(func(cl *centrifuge.Client) {
			cl.OnSubscribe(func(e centrifuge.SubscribeEvent, cb centrifuge.SubscribeCallback) {
				cb(centrifuge.SubscribeReply{}, nil)
			})
		})
	})
	nSub := r.Range(1, 3)
	conns := make([]*kit.Conn, nSub)
	for i := range conns {
		conns[i] = w.NewConn(node, kit.TransportOpts{Protocol: kit.Pick(r, []centrifuge.ProtocolType{centrifuge.ProtocolTypeJSON, centrifuge.ProtocolTypeProtobuf})})
		conns[i].Connect(nil)
		conns[i].Subscribe(&protocol.SubscribeRequest{Channel: ch})
	}
	w.Settle()
	var mu sync.Mutex
	var order []int // publish completion order under the broker's per-channel lock == call order for one publisher
	nPub := r.Range(1, 2)
	var wg sync.WaitGroup
	seq := 0
	for p := 0; p < nPub; p++ {
		k := r.Range(5, 30)
		gaps := make([]time.Duration, k)
		for i := range gaps {
			gaps[i] = time.Duration(r.Range(0, 8)) * time.Millisecond
		}
		wg.Add(1)
		go func() {
			defer wg.Done()
			for _, g := range gaps {
				time.Sleep(g)
				mu.Lock()
				seq++
				id := seq
				data, _ := json.Marshal(map[string]int{"n": id})
				// publish under the harness lock: with several publishers the call order is the production order
				var err error
				if withHistory {
					_, err = node.Publish(ch, data, centrifuge.WithHistory(100, time.Minute))
				} else {
					_, err = node.Publish(ch, data)
				}
				if err == nil {
					order = append(order, id)
				}
				mu.Unlock()
			}
		}()
	}
	wg.Wait()
	time.Sleep(500 * time.Millisecond)
	w.Settle()
	for i, conn := range conns {
		last := 0
		got := 0
		for _, f := range conn.T.Frames() {
			if f.Push == nil || f.Push.Pub == nil || f.Push.Channel != ch {
				continue
			}
			var m map[string]int
			_ = json.Unmarshal(f.Push.Pub.Data, &m)
			n := m["n"]
			if n <= last {
				c.Violation("c38-medium-delivers-out-of-order-or-twice", fmt.Sprintf("subscriber %d received publication %d after %d (medium %+v)", i, n, last, mo), map[string]any{"medium": fmt.Sprintf("%+v", mo), "history": withHistory})
				break
			}
			last = n
			got++
		}
		if got == len(order) {
			c.Count("nonpositioned_all_delivered", 1)
		}
		c.Count("nonpositioned_publications_delivered", got)
	}
	c.Nontrivial(fmt.Sprintf("order %+v h%v n%d", mo, withHistory, len(order)))
	for _, conn := range conns {
		_ = conn.CloseFn()
	}
	w.Shutdown()
}

// tailLossCase: 1-4 positioned subscribers join a channel with SharedPositionSync at staggered instants,
// receive a few publications, the channel stays quiet long enough for the periodic position checks to
// settle into their rhythm, then the LAST publication is lost in PUB/SUB (it is in the stream, no
// subscriber gets it) and nothing is published afterwards. No later publication can reveal the gap: only
// the periodic position check can. Every positioned subscription must be ended (insufficient state)
// within the horizon, whatever the phase of the subscribers' ticks.
func tailLossCase(c *kit.Case) {
	r := c.R
	w := kit.NewWorld(c)
	const ch = "c38:tail"
	var mo centrifuge.ChannelMediumOptions
	mo.SharedPositionSync = true
	mo.KeepLatestPublication = r.Bool()
	centrifuge.VerifSetMediumInternals(&mo, r.Chance(1, 3), 0, 0)
	var dropNext atomic.Bool
	var dropped atomic.Int64
	checkDelay := time.Duration(kit.Pick(r, []int{2, 2, 3, 5})) * time.Second
	var fb *kit.FaultBroker
	node, _ := w.NewNode(centrifuge.Config{
		ClientStaleCloseDelay:           time.Hour,
		ClientPresenceUpdateInterval:    time.Second,
		ClientChannelPositionCheckDelay: checkDelay,
		GetChannelMediumOptions:         func(string) centrifuge.ChannelMediumOptions { return mo },
	}, func(n *centrifuge.Node) {
		fb = kit.NewFaultBroker(w, n)
		fb.Plan = func(string, *centrifuge.Publication, centrifuge.StreamPosition) kit.FaultAction {
			if dropNext.CompareAndSwap(true, false) {
				dropped.Add(1)
				return kit.Drop
			}
			return kit.Pass
		}
		n.SetBroker(fb)
		n.OnConnecting(func(context.Context, centrifuge.ConnectEvent) (centrifuge.ConnectReply, error) {
			return kit.Creds("u"), nil
		})
		n.OnConnect(func(cl *centrifuge.Client) {
			cl.OnSubscribe(func(e centrifuge.SubscribeEvent, cb centrifuge.SubscribeCallback) {
				cb(centrifuge.SubscribeReply{Options: centrifuge.SubscribeOptions{EnablePositioning: true, EnableRecovery: r.Bool()}}, nil)
			})
		})
	})
	nSub := r.Range(1, 4)
	conns := make([]*kit.Conn, nSub)
	join := func(i int) bool {
		conns[i] = w.NewConn(node, kit.TransportOpts{Protocol: kit.Pick(r, []centrifuge.ProtocolType{centrifuge.ProtocolTypeJSON, centrifuge.ProtocolTypeProtobuf}),
			PingPong: centrifuge.PingPongConfig{PingInterval: -1, PongTimeout: -1}}) // the model client answers no pings: no ping/pong here
		conns[i].Connect(nil)
		id := conns[i].Subscribe(&protocol.SubscribeRequest{Channel: ch})
		if f, ok := conns[i].WaitReply(id); !ok || f.Reply.Error != nil {
			c.Inconclusive("tail loss case: subscribe failed")
			return false
		}
		return true
	}
	if !join(0) {
		w.Shutdown()
		return
	}
	pub := func(n int) {
		data, _ := json.Marshal(map[string]int{"n": n})
		if _, err := node.Publish(ch, data, centrifuge.WithHistory(100, time.Minute)); err != nil {
			c.Inconclusive("tail loss case: publish: " + err.Error())
		}
	}
	nPub := r.Range(1, 5)
	for n := 1; n <= nPub; n++ {
		pub(n)
		time.Sleep(time.Duration(r.Range(0, 300)) * time.Millisecond)
	}
	// The other subscribers join after the last delivered publication, more than a second apart: a
	// delivered publication re-stamps every subscriber's last-check time at once (which would put their
	// periodic checks into the same second for good), a later join has its own rhythm.
	for i := 1; i < nSub; i++ {
		time.Sleep(time.Duration(r.Range(1100, 2600)) * time.Millisecond)
		if !join(i) {
			w.Shutdown()
			return
		}
	}
	// quiet: every subscriber has had its turn at the periodic check at least twice (a client asks once
	// per delay + 1 s), so the checks are in their steady rhythm before the loss
	time.Sleep(2*(checkDelay+time.Second) + time.Duration(r.Range(500, 3500))*time.Millisecond)
	dropNext.Store(true)
	lostAt := w.Now()
	pub(nPub + 1)
	horizon := 3*(checkDelay+time.Second) + 3*time.Second
	time.Sleep(horizon)
	w.Settle()
	if dropped.Load() != 1 {
		c.Inconclusive("tail loss case: the last publication was not dropped exactly once")
	}
	ended, gotIt := 0, 0
	var desc []string
	for i, conn := range conns {
		closed, disc, _ := conn.T.Closed()
		end := ""
		sawLast := false
		for _, f := range conn.T.Frames() {
			if f.Push != nil && f.Push.Channel == ch && f.Push.Unsubscribe != nil {
				end = fmt.Sprintf("unsubscribe push %d", f.Push.Unsubscribe.Code)
			}
			if f.Push != nil && f.Push.Channel == ch && f.Push.Pub != nil {
				var m map[string]int
				_ = json.Unmarshal(f.Push.Pub.Data, &m)
				if m["n"] == nPub+1 {
					sawLast = true
				}
			}
		}
		told := end == "unsubscribe push 2500"
		if closed {
			end = fmt.Sprintf("closed with %d", disc.Code)
			told = disc.Code == 3010
		}
		switch {
		case sawLast:
			gotIt++
		case told: // insufficient state: unsubscribe push 2500 or disconnect 3010; any other ending does not tell the client about the loss
			ended++
		case end != "":
			c.Inconclusive(fmt.Sprintf("tail loss case: subscriber %d ended for another reason: %s", i, end))
		}
		desc = append(desc, fmt.Sprintf("subscriber %d: received the lost publication=%v, end=%q", i, sawLast, end))
	}
	c.Eval(nSub)
	c.Count("tail_loss_cases", 1)
	c.Count("tail_loss_subscriptions_ended", ended)
	if nSub >= 2 {
		c.Count("tail_loss_cases_with_staggered_subscribers", 1)
	}
	if ended+gotIt < nSub {
		c.Violation("c38-position-loss-never-detected-under-shared-position-sync", fmt.Sprintf("SharedPositionSync, %d positioned subscriber(s), position check delay %s: the last publication (offset %d) was lost in PUB/SUB at %v and the channel stayed quiet; %s later %d subscription(s) are still alive behind the stream top and were told nothing", nSub, checkDelay, nPub+1, lostAt, horizon, nSub-ended-gotIt),
			map[string]any{"medium": fmt.Sprintf("%+v", mo), "subscribers": desc, "check_delay": checkDelay.String()})
	}
	c.Nontrivial(fmt.Sprintf("tail %+v n%d d%s ended%d", mo, nSub, checkDelay, ended))
	for _, conn := range conns {
		_ = conn.CloseFn()
	}
	w.Shutdown()
}

// resubCase (real time, no bubble): the last subscriber of a channel with a queueing medium leaves, a
// new subscriber joins inside the 1 s window before the deferred broker-unsubscribe job runs, and
// publications keep flowing across the instant that job fires. The job belongs to a channel that has
// subscribers again: it must leave the live medium and what is queued in it alone. The new subscriber
// (not positioned: nothing would tell it about a loss) must receive every publication published after
// its subscribe reply, in order, once. Runs in real time because the medium that the resubscribe
// replaces keeps its goroutine (side finding in DESIGN.md), which a virtual-time bubble cannot outlive.
func resubCase(c *kit.Case) {
	r := c.R
	w := kit.NewWorld(c)
	const ch = "c38:resub"
	var mo centrifuge.ChannelMediumOptions
	mo.KeepLatestPublication = r.Bool()
	// No broadcast delay here: with one, the medium's writer takes timers from the library's
	// process-wide timer pool, and this real-time case shares its process with virtual-time bubbles
	// (a pooled timer that was created inside a bubble must not be touched from outside one; the
	// runner flushes the pool after every bubble, this avoids depending on that).
	_ = kit.Pick(r, []int{0, 5, 10, 20})
	delay := time.Duration(0)
	runtime.GC()
	runtime.GC()
	centrifuge.VerifSetMediumInternals(&mo, true, 0, int64(delay))
	node, _ := w.NewNode(centrifuge.Config{
		ClientStaleCloseDelay:   time.Hour,
		GetChannelMediumOptions: func(string) centrifuge.ChannelMediumOptions { return mo },
	}, func(n *centrifuge.Node) {
		n.OnConnecting(func(context.Context, centrifuge.ConnectEvent) (centrifuge.ConnectReply, error) {
			return kit.Creds("u"), nil
		})
		n.OnConnect(func(cl *centrifuge.Client) {
			cl.OnSubscribe(func(e centrifuge.SubscribeEvent, cb centrifuge.SubscribeCallback) {
				cb(centrifuge.SubscribeReply{}, nil)
			})
		})
	})
	noPing := centrifuge.PingPongConfig{PingInterval: -1, PongTimeout: -1}
	waitReply := func(conn *kit.Conn, id uint32) bool {
		for i := 0; i < 3000; i++ {
			if f, ok := conn.ReplyFor(id); ok {
				return f.Reply.Error == nil
			}
			time.Sleep(time.Millisecond)
		}
		return false
	}
	a := w.NewConn(node, kit.TransportOpts{PingPong: noPing})
	a.Connect(nil)
	if !waitReply(a, a.Subscribe(&protocol.SubscribeRequest{Channel: ch})) {
		c.Inconclusive("resub case: first subscribe not acknowledged")
		w.Shutdown()
		return
	}
	var seq atomic.Int64
	pub := func() int {
		n := int(seq.Add(1))
		data, _ := json.Marshal(map[string]int{"n": n})
		_, _ = node.Publish(ch, data)
		return n
	}
	pub()
	if !waitReply(a, a.Unsubscribe(ch)) {
		c.Inconclusive("resub case: unsubscribe not acknowledged")
		w.Shutdown()
		return
	}
	left := time.Now() // the deferred job fires about 1 s from here
	time.Sleep(time.Duration(r.Range(100, 800)) * time.Millisecond)
	b := w.NewConn(node, kit.TransportOpts{PingPong: noPing, Protocol: kit.Pick(r, []centrifuge.ProtocolType{centrifuge.ProtocolTypeJSON, centrifuge.ProtocolTypeProtobuf})})
	b.Connect(nil)
	if !waitReply(b, b.Subscribe(&protocol.SubscribeRequest{Channel: ch})) {
		c.Inconclusive("resub case: second subscribe not acknowledged")
		w.Shutdown()
		return
	}
	first := int(seq.Load()) + 1
	gap := time.Duration(r.Range(2, 15)) * time.Millisecond
	for time.Since(left) < 1600*time.Millisecond {
		pub()
		time.Sleep(gap)
	}
	last := int(seq.Load())
	time.Sleep(400*time.Millisecond + 4*delay)
	// structural invariant, independent of timing: the channel has a subscriber and its options ask
	// for a medium, so the node must hold one (a stale job that tore it down would leave none until
	// the channel empties and fills again)
	if node.Hub().NumSubscribers(ch) > 0 && !centrifuge.VerifHasMedium(node, ch) {
		c.Violation("c38-live-channel-lost-its-medium", fmt.Sprintf("channel with a subscriber that joined inside the 1 s window after the last subscriber had left: %s after the leave the node holds no channel medium for it although its options are %+v", time.Since(left).Round(10*time.Millisecond), mo), map[string]any{"medium": fmt.Sprintf("%+v", mo)})
	}
	if delay > 0 {
		// with a broadcast delay the medium conflates (only the latest publication at each tick), and
		// what counts as one tick depends on real-time scheduling: delivery is not judged here
		c.Eval(1)
		c.Count("resubscribe_inside_dissolve_window_cases", 1)
		c.Count("publications_across_the_stale_dissolve_job", last-first+1)
		c.Nontrivial(fmt.Sprintf("resub %+v", mo))
		_ = a.CloseFn()
		_ = b.CloseFn()
		w.Shutdown()
		return
	}
	var got []int
	for _, f := range b.T.Frames() {
		if f.Push != nil && f.Push.Pub != nil && f.Push.Channel == ch {
			var m map[string]int
			_ = json.Unmarshal(f.Push.Pub.Data, &m)
			got = append(got, m["n"])
		}
	}
	c.Eval(last - first + 1)
	c.Count("resubscribe_inside_dissolve_window_cases", 1)
	c.Count("publications_across_the_stale_dissolve_job", last-first+1)
	want := first
	for _, n := range got {
		if n < first {
			continue // published before the subscribe reply: may or may not arrive
		}
		if n != want {
			c.Violation("c38-publication-lost-behind-live-medium", fmt.Sprintf("a subscriber that joined %s after the channel's last subscriber had left (medium %+v) received publication %d right after %d: %d publication(s) published while it was subscribed never arrived (published %d..%d, job due ~1 s after the leave)", time.Duration(0), mo, n, want-1, n-want, first, last),
				map[string]any{"medium": fmt.Sprintf("%+v", mo), "received": got, "first_after_subscribe": first, "last": last})
			want = -1
			break
		}
		want++
	}
	if want != -1 && want != last+1 {
		c.Violation("c38-publication-lost-behind-live-medium", fmt.Sprintf("a subscriber that joined after the channel's last subscriber had left (medium %+v) received publications up to %d of %d..%d published while it was subscribed", mo, want-1, first, last),
			map[string]any{"medium": fmt.Sprintf("%+v", mo), "received": got, "first_after_subscribe": first, "last": last})
	}
	c.Nontrivial(fmt.Sprintf("resub %+v n%d", mo, bucket38(last-first+1)))
	_ = a.CloseFn()
	_ = b.CloseFn()
	w.Shutdown()
}

func bucket38(n int) int {
	switch {
	case n < 100:
		return 0
	case n < 200:
		return 1
	}
	return 2
}

func runCase(c *kit.Case) {
	if c.Index%100 == 7 {
		resubCase(c)
		return
	}
	if c.Index%5 == 4 {
		kit.RunBubble(c, func() { orderCase(c) })
		return
	}
	if c.Index%5 == 2 {
		kit.RunBubble(c, func() { tailLossCase(c) })
		return
	}
	kit.RunBubble(c, func() {
		posdeliv.RunCase(c, posdeliv.Options{Prefix: "c38", Anchor: true, Medium: func(r *kit.Rand) centrifuge.ChannelMediumOptions { return mediumFor(r, false) }})
	})
}

func TestC38(t *testing.T) {
	kit.Main(t, kit.Spec{
		ID:     "C38",
		Level:  "fault_enumeration",
		Rule: "1 of 100 cases (real time): the last subscriber of a channel with a queueing medium leaves, another joins 100-800 ms later, publications every 2-15 ms until 1.6 s after the leave (across the deferred job at ~1 s): afterwards the node must still hold a medium for the channel (structural, timing-free), and without a broadcast delay the new, non-positioned subscriber must have received every publication published after its subscribe reply, in order, once (with a delay the medium conflates by design and delivery is not judged). 1 of 5 cases: tail loss under SharedPositionSync: one positioned subscriber, a few delivered publications, then 0-3 more positioned subscribers joining 1.1-2.6 s apart (so that their periodic checks fall into different seconds; periodic tick 1 s, position check delay 2-5 s), a quiet period of two check rounds (2 x (delay + 1 s) + 0.5-3.5 s) so that the periodic checks are in their steady rhythm, then the last publication is lost in PUB/SUB and nothing follows; every subscription must be told (unsubscribe 2500 / disconnect 3010) within 3 x (delay + 1 s) + 3 s. 3 of 5 cases: the C01 scenario and oracle (positioned subscribers, racing publishes inside the subscribe windows, PUB/SUB faults, recovery, bounded progress after faults stop) with the channel medium enabled in a seeded combination of KeepLatestPublication / SharedPositionSync / queue / queue size; 1 of 5 cases: non-positioned subscribers behind a medium with queue and broadcast delay must receive publications in production order, each at most once. " +
			"Non-trivial = at least one subscription incarnation observed; signature = fault mode x medium options x per-incarnation outcome.",
		Assumptions: []string{
			"broadcast delay is only combined with non-positioned subscribers, as documented",
			"an anchor subscriber keeps the channel populated during a case: with the (unexported) queue option, losing the last subscriber and gaining a new one within the 1 s deferred-unsubscribe window replaces the medium without stopping the old one's goroutine, which a virtual-time bubble cannot outlive; that leak is noted in DESIGN.md, it is not part of this property",
			"unexported medium options (queue, queue size, broadcast delay) are set through the tag-guarded accessor VerifSetMediumInternals",
		},
		Cases:           map[string]int{"quick": 1500, "thorough": 30000},
		RequireCounters: []string{"loss_bursts_after_history_read", "publish_spanning_subscription_start", "recovered_incarnations", "insufficient_state_endings", "racer_publishes", "faults_injected", "alive_at_top", "nonpositioned_publications_delivered", "tail_loss_cases_with_staggered_subscribers", "tail_loss_subscriptions_ended", "resubscribe_inside_dissolve_window_cases", "publications_across_the_stale_dissolve_job"},
		Run:             runCase,
	})
}
