// C38: Channel medium preserves delivery guarantees.
package c38

import (
	"context"
	"encoding/json"
	"fmt"
	"sync"
	"testing"
	"time"

	"github.com/centrifugal/centrifuge"
	"github.com/centrifugal/centrifuge/verifx/kit"
	"github.com/centrifugal/centrifuge/verifx/posdeliv"
	"github.com/centrifugal/protocol"
)

func mediumFor(r *kit.Rand, allowDelay bool) centrifuge.ChannelMediumOptions {
	var o centrifuge.ChannelMediumOptions
	for !(o.KeepLatestPublication || o.SharedPositionSync) {
		o.KeepLatestPublication = r.Bool()
		o.SharedPositionSync = r.Bool()
	}
	queue := r.Bool()
	delay := time.Duration(0)
	if queue && allowDelay && r.Bool() {
		delay = time.Duration(r.Range(1, 20)) * time.Millisecond
	}
	qmax := 0
	if queue && r.Chance(1, 4) {
		qmax = 1 << 20
	}
	centrifuge.VerifSetMediumInternals(&o, queue, qmax, int64(delay))
	return o
}

// orderCase: non-positioned subscribers behind a medium with queue and broadcast
// delay still receive the channel's publications in publish order, each at most once.
func orderCase(c *kit.Case) {
	r := c.R
	w := kit.NewWorld(c)
	const ch = "c38:np"
	mo := mediumFor(r, true)
	withHistory := r.Bool()
	node, _ := w.NewNode(centrifuge.Config{
		ClientStaleCloseDelay:   time.Hour,
		GetChannelMediumOptions: func(string) centrifuge.ChannelMediumOptions { return mo },
	}, func(n *centrifuge.Node) {
		n.OnConnecting(func(context.Context, centrifuge.ConnectEvent) (centrifuge.ConnectReply, error) {
			return kit.Creds("u"), nil
		})
		n.OnConnect(func(cl *centrifuge.Client) {
			cl.OnSubscribe(func(e centrifuge.SubscribeEvent, cb centrifuge.SubscribeCallback) {
				cb(centrifuge.SubscribeReply{}, nil)
			})
		})
	})
	nSub := r.Range(1, 3)
	conns := make([]*kit.Conn, nSub)
	for i := range conns {
		conns[i] = w.NewConn(node, kit.TransportOpts{Protocol: kit.Pick(r, []centrifuge.ProtocolType{centrifuge.ProtocolTypeJSON, centrifuge.ProtocolTypeProtobuf})})
		conns[i].Connect(nil)
		conns[i].Subscribe(&protocol.SubscribeRequest{Channel: ch})
	}
	w.Settle()
	var mu sync.Mutex
	var order []int // publish completion order under the broker's per-channel lock == call order for one publisher
	nPub := r.Range(1, 2)
	var wg sync.WaitGroup
	seq := 0
	for p := 0; p < nPub; p++ {
		k := r.Range(5, 30)
		gaps := make([]time.Duration, k)
		for i := range gaps {
			gaps[i] = time.Duration(r.Range(0, 8)) * time.Millisecond
		}
		wg.Add(1)
		go func() {
			defer wg.Done()
			for _, g := range gaps {
				time.Sleep(g)
				mu.Lock()
				seq++
				id := seq
				data, _ := json.Marshal(map[string]int{"n": id})
				// publish under the harness lock: with several publishers the call order is the production order
				var err error
				if withHistory {
					_, err = node.Publish(ch, data, centrifuge.WithHistory(100, time.Minute))
				} else {
					_, err = node.Publish(ch, data)
				}
				if err == nil {
					order = append(order, id)
				}
				mu.Unlock()
			}
		}()
	}
	wg.Wait()
	time.Sleep(500 * time.Millisecond)
	w.Settle()
	for i, conn := range conns {
		last := 0
		got := 0
		for _, f := range conn.T.Frames() {
			if f.Push == nil || f.Push.Pub == nil || f.Push.Channel != ch {
				continue
			}
			var m map[string]int
			_ = json.Unmarshal(f.Push.Pub.Data, &m)
			n := m["n"]
			if n <= last {
				c.Violation("c38-medium-delivers-out-of-order-or-twice", fmt.Sprintf("subscriber %d received publication %d after %d (medium %+v)", i, n, last, mo), map[string]any{"medium": fmt.Sprintf("%+v", mo), "history": withHistory})
				break
			}
			last = n
			got++
		}
		if got == len(order) {
			c.Count("nonpositioned_all_delivered", 1)
		}
		c.Count("nonpositioned_publications_delivered", got)
	}
	c.Nontrivial(fmt.Sprintf("order %+v h%v n%d", mo, withHistory, len(order)))
	for _, conn := range conns {
		_ = conn.CloseFn()
	}
	w.Shutdown()
}

func runCase(c *kit.Case) {
	if c.Index%5 == 4 {
		orderCase(c)
		return
	}
	posdeliv.RunCase(c, posdeliv.Options{Prefix: "c38", Anchor: true, Medium: func(r *kit.Rand) centrifuge.ChannelMediumOptions { return mediumFor(r, false) }})
}

func TestC38(t *testing.T) {
	kit.Main(t, kit.Spec{
		ID:     "C38",
		Level:  "fault_enumeration",
		Bubble: true,
		Rule: "4 of 5 cases: the C01 scenario and oracle (positioned subscribers, racing publishes inside the subscribe windows, PUB/SUB faults, recovery, bounded progress after faults stop) with the channel medium enabled in a seeded combination of KeepLatestPublication / SharedPositionSync / queue / queue size; 1 of 5 cases: non-positioned subscribers behind a medium with queue and broadcast delay must receive publications in production order, each at most once. " +
			"Non-trivial = at least one subscription incarnation observed; signature = fault mode x medium options x per-incarnation outcome.",
		Assumptions: []string{
			"broadcast delay is only combined with non-positioned subscribers, as documented",
			"an anchor subscriber keeps the channel populated during a case: with the (unexported) queue option, losing the last subscriber and gaining a new one within the 1 s deferred-unsubscribe window replaces the medium without stopping the old one's goroutine, which a virtual-time bubble cannot outlive; that leak is noted in DESIGN.md, it is not part of this property",
			"unexported medium options (queue, queue size, broadcast delay) are set through the tag-guarded accessor VerifSetMediumInternals",
		},
		Cases:           map[string]int{"quick": 1500, "thorough": 30000},
		RequireCounters: []string{"publish_spanning_subscription_start", "recovered_incarnations", "insufficient_state_endings", "racer_publishes", "faults_injected", "alive_at_top", "nonpositioned_publications_delivered"},
		Run:             runCase,
	})
}
