// Package streammodel holds what the C17 and C19 checks share: the reference
// bounded-stream model (written from the C17 property statement, not from the
// broker code) and a recording BrokerEventHandler.
package streammodel

import (
	"fmt"
	"sync"

	"github.com/centrifugal/centrifuge"
)

// Entry is one retained publication: its offset and the unique id the harness
// put into the payload.
type Entry struct {
	Offset uint64 `json:"o"`
	ID     string `json:"id"`
}

// Stream is the reference model of one channel's history: a bounded append-only
// stream. Offsets start at 1 and grow by one per stored publication; the
// retained part is a suffix of everything ever appended; clearing (remove /
// TTL expiry) drops the retained entries but keeps Top and the epoch; only
// discarding the metadata starts a new epoch generation with Top back at 0.
type Stream struct {
	Top     uint64
	Gen     int     // epoch generation, +1 each time the metadata is discarded
	Entries []Entry // retained suffix, ascending offsets
}

// Append stores a publication with the given bound and returns its offset.
func (s *Stream) Append(id string, size int) uint64 {
	s.Top++
	es := make([]Entry, 0, len(s.Entries)+1)
	es = append(es, s.Entries...)
	es = append(es, Entry{Offset: s.Top, ID: id})
	if size >= 0 && len(es) > size {
		es = es[len(es)-size:]
	}
	s.Entries = es
	return s.Top
}

// Clear drops the retained entries (RemoveHistory, history TTL expiry).
func (s *Stream) Clear() { s.Entries = nil }

// DiscardMeta forgets the whole stream (meta TTL expiry): next generation.
func (s *Stream) DiscardMeta() {
	s.Top = 0
	s.Entries = nil
	s.Gen++
}

// Read returns the retained entries filtered by since, direction and limit:
// forward = entries with offset > since, ascending; reverse = entries with
// offset < since, descending; no since = everything retained (in the asked
// direction); limit -1 = all, 0 = none, n>0 = the first n in that direction.
func (s *Stream) Read(since *uint64, limit int, reverse bool) []Entry {
	return Filter(s.Entries, since, limit, reverse)
}

// Filter is Read on an explicit retained list.
func Filter(retained []Entry, since *uint64, limit int, reverse bool) []Entry {
	var out []Entry
	if !reverse {
		for _, e := range retained {
			if since == nil || e.Offset > *since {
				out = append(out, e)
			}
		}
	} else {
		for i := len(retained) - 1; i >= 0; i-- {
			e := retained[i]
			if since == nil || e.Offset < *since {
				out = append(out, e)
			}
		}
	}
	if limit == 0 {
		return nil
	}
	if limit > 0 && len(out) > limit {
		out = out[:limit]
	}
	return out
}

// EntriesOf converts broker publications to entries (payload = id).
func EntriesOf(pubs []*centrifuge.Publication) []Entry {
	var out []Entry
	for _, p := range pubs {
		if p == nil {
			out = append(out, Entry{ID: "<nil publication>"})
			continue
		}
		out = append(out, Entry{Offset: p.Offset, ID: string(p.Data)})
	}
	return out
}

// Equal compares two entry lists (nil == empty).
func Equal(a, b []Entry) bool {
	if len(a) != len(b) {
		return false
	}
	for i := range a {
		if a[i] != b[i] {
			return false
		}
	}
	return true
}

// Fmt renders entries compactly: [3:p7 4:p9].
func Fmt(es []Entry) string {
	s := "["
	for i, e := range es {
		if i > 0 {
			s += " "
		}
		s += fmt.Sprintf("%d:%s", e.Offset, e.ID)
	}
	return s + "]"
}

// Delivery is one HandlePublication call seen by the Recorder.
type Delivery struct {
	Channel string
	ID      string // payload
	Key     string
	Offset  uint64 // pub.Offset
	SP      centrifuge.StreamPosition
}

// Recorder is a BrokerEventHandler that records every call.
type Recorder struct {
	mu     sync.Mutex
	pubs   []Delivery
	joins  int
	leaves int
}

var _ centrifuge.BrokerEventHandler = (*Recorder)(nil)

func (r *Recorder) HandlePublication(ch string, pub *centrifuge.Publication, sp centrifuge.StreamPosition, _ bool, _ *centrifuge.Publication) error {
	d := Delivery{Channel: ch, SP: sp}
	if pub != nil {
		d.ID, d.Offset, d.Key = string(pub.Data), pub.Offset, pub.Key
	}
	r.mu.Lock()
	r.pubs = append(r.pubs, d)
	r.mu.Unlock()
	return nil
}

func (r *Recorder) HandleJoin(string, *centrifuge.ClientInfo) error {
	r.mu.Lock()
	r.joins++
	r.mu.Unlock()
	return nil
}

func (r *Recorder) HandleLeave(string, *centrifuge.ClientInfo) error {
	r.mu.Lock()
	r.leaves++
	r.mu.Unlock()
	return nil
}

// Take returns the deliveries recorded since the previous Take.
func (r *Recorder) Take() []Delivery {
	r.mu.Lock()
	out := r.pubs
	r.pubs = nil
	r.mu.Unlock()
	return out
}
