package c32

import (
	"bytes"
	"encoding/binary"
	"encoding/json"
	"fmt"
	"strings"

	"github.com/centrifugal/centrifuge/verifx/kit"
)

// JSON payload generator: documents built token by token; between any two tokens (and before
// the first / after the last one) a PRNG-chosen run of legal JSON whitespace may be inserted.

var wsBytes = map[string]string{"sp": " ", "tab": "\t", "lf": "\n", "cr": "\r", "crlf": "\r\n"}
var wsKinds = []string{"sp", "tab", "lf", "cr", "crlf"}

type jgen struct {
	r     *kit.Rand
	allow []string
	dens  int // percent of gaps that get whitespace
	used  map[string]bool
	b     []byte
	feat  map[string]bool
}

func (g *jgen) gap() {
	if len(g.allow) == 0 || g.r.Intn(100) >= g.dens {
		return
	}
	n := 1
	if g.r.Chance(1, 4) {
		n = g.r.Range(2, 3)
	}
	for i := 0; i < n; i++ {
		k := kit.Pick(g.r, g.allow)
		g.used[k] = true
		g.b = append(g.b, wsBytes[k]...)
	}
}

func (g *jgen) tok(s string) { g.b = append(g.b, s...) }

var strPieces = []struct{ s, feat string }{
	{"a", ""}, {"Zq", ""}, {" ", ""}, {"0", ""}, {"\u00e9", "utf8"}, {"\u6f22\u5b57", "utf8"}, {"\U0001F600", "utf8_4byte"},
	{"\u2028", "u2028_literal"}, {"\u2029", "u2029_literal"}, {`\u2028`, "u2028_escaped"}, {`\u2029`, "u2028_escaped"},
	{`\n`, "escaped_newline"}, {`\r`, "escaped_newline"}, {`\r\n\r\n`, "escaped_newline"}, {`\t`, "escape"}, {`\"`, "escape"},
	{`\\`, "escape"}, {`\/`, "escape"}, {`\b\f`, "escape"}, {`\u0000`, "escaped_nul"}, {`\ud83d\ude00`, "surrogate_escape"},
	{"data: ", "sse_lookalike"}, {`\n\ndata: x`, "sse_lookalike"}, {":", "sse_lookalike"}, {"event: e", "sse_lookalike"},
	{"\ufeff", "bom_char"}, {"\u007f", ""}, {"{}[],:", ""},
}

func (g *jgen) str() {
	g.b = append(g.b, '"')
	for i, n := 0, g.r.Intn(6); i < n; i++ {
		p := kit.Pick(g.r, strPieces)
		if p.feat != "" {
			g.feat[p.feat] = true
		}
		g.b = append(g.b, p.s...)
	}
	g.b = append(g.b, '"')
}

var numbers = []string{"0", "-0", "1", "-17", "123456789012", "0.5", "-3.25", "1e10", "2E-3", "6.02e+23", "0.0"}

func (g *jgen) value(depth int) {
	x := g.r.Intn(100)
	if depth <= 0 && x < 40 {
		x = 40 + g.r.Intn(60)
	}
	switch {
	case x < 20:
		g.tok("{")
		g.gap()
		for i, n := 0, g.r.Intn(4); i < n; i++ {
			if i > 0 {
				g.tok(",")
				g.gap()
			}
			g.str()
			g.gap()
			g.tok(":")
			g.gap()
			g.value(depth - 1)
			g.gap()
		}
		g.tok("}")
	case x < 40:
		g.tok("[")
		g.gap()
		for i, n := 0, g.r.Intn(4); i < n; i++ {
			if i > 0 {
				g.tok(",")
				g.gap()
			}
			g.value(depth - 1)
			g.gap()
		}
		g.tok("]")
	case x < 65:
		g.str()
	case x < 85:
		g.tok(kit.Pick(g.r, numbers))
	default:
		g.tok(kit.Pick(g.r, []string{"true", "false", "null"}))
	}
}

// payload is one generated application payload.
type payload struct {
	ID      string
	Raw     []byte
	Compact string // canonical form for JSON payloads ("" for binary)
	WS      []string
	Feat    []string
	Shape   string // small | deep | large | binary | binary_large
}

var wsProfiles = [][]string{
	nil, {"sp"}, {"tab"}, {"lf"}, {"cr"}, {"crlf"}, {"sp", "tab"}, {"lf", "crlf"}, {"sp", "tab", "lf"}, {"sp", "tab", "lf", "cr", "crlf"},
}

// genJSON builds {"id":"<id>","v":<random value>} with whitespace placed between tokens.
// noCR removes CR and CRLF from the whitespace alphabet.
func genJSON(r *kit.Rand, id string, noCR bool) *payload {
	prof := kit.Pick(r, wsProfiles)
	if noCR {
		var p []string
		for _, k := range prof {
			if k != "cr" && k != "crlf" {
				p = append(p, k)
			}
		}
		prof = p
	}
	g := &jgen{r: r, allow: prof, dens: kit.Pick(r, []int{15, 50, 100}), used: map[string]bool{}, feat: map[string]bool{}}
	shape := "small"
	switch x := r.Intn(100); {
	case x < 5:
		shape = "deep"
	case x < 7:
		shape = "large"
	}
	g.gap()
	g.tok("{")
	g.gap()
	g.tok(`"id"`)
	g.gap()
	g.tok(":")
	g.gap()
	g.tok(`"` + id + `"`)
	g.gap()
	g.tok(",")
	g.gap()
	g.tok(`"v"`)
	g.gap()
	g.tok(":")
	g.gap()
	switch shape {
	case "deep":
		d := r.Range(40, 300)
		for i := 0; i < d; i++ {
			if i%2 == 0 {
				g.tok("[")
			} else {
				g.tok(`{"k":`)
			}
			g.gap()
		}
		g.value(1)
		for i := d - 1; i >= 0; i-- {
			g.gap()
			if i%2 == 0 {
				g.tok("]")
			} else {
				g.tok("}")
			}
		}
	case "large":
		n := r.Range(6_000, 70_000)
		g.tok("[")
		g.gap()
		g.tok(`"` + strings.Repeat(kit.Pick(r, []string{"x", "\u00e9", "\u2028", `\n`, "data: "}), n/4) + `"`)
		g.gap()
		g.tok(",")
		g.gap()
		g.value(3)
		g.gap()
		g.tok("]")
	default:
		g.value(r.Range(0, 5))
	}
	g.gap()
	g.tok("}")
	g.gap()
	if !json.Valid(g.b) {
		panic(fmt.Sprintf("c32 harness bug: generated payload is not valid JSON: %q", g.b))
	}
	p := &payload{ID: id, Raw: g.b, Shape: shape, Compact: compact(g.b)}
	for _, k := range wsKinds {
		if g.used[k] {
			p.WS = append(p.WS, k)
		}
	}
	for f := range g.feat {
		p.Feat = append(p.Feat, f)
	}
	return p
}

// genBinary builds an arbitrary binary payload that starts with an 8-byte sequence number.
func genBinary(r *kit.Rand, seq uint64) *payload {
	n := r.Range(0, 200)
	shape := "binary"
	if r.Chance(1, 40) {
		n = r.Range(6_000, 70_000)
		shape = "binary_large"
	}
	b := make([]byte, 8, 8+n)
	binary.BigEndian.PutUint64(b, seq)
	switch r.Intn(4) {
	case 0: // bytes that matter to the other framings
		alphabet := []byte{'\n', '\r', 0, 0xff, 0x80, ':', ' ', 'd', '{', '"'}
		for i := 0; i < n; i++ {
			b = append(b, alphabet[r.Intn(len(alphabet))])
		}
	default:
		b = append(b, r.Bytes(n)...)
	}
	return &payload{ID: fmt.Sprintf("bin-%d", seq), Raw: b, Shape: shape}
}

func binID(b []byte) string {
	if len(b) < 8 {
		return ""
	}
	return fmt.Sprintf("bin-%d", binary.BigEndian.Uint64(b))
}

func jsonID(b []byte) string {
	var m struct {
		ID string `json:"id"`
	}
	if json.Unmarshal(b, &m) != nil {
		return ""
	}
	return m.ID
}

// compact is the canonical form used to compare JSON documents: insignificant whitespace
// removed, nothing else touched. "" when b is not valid JSON.
func compact(b []byte) string {
	var out bytes.Buffer
	if err := json.Compact(&out, b); err != nil {
		return ""
	}
	return out.String()
}

func clip(b []byte, n int) string {
	if len(b) <= n {
		return fmt.Sprintf("%q", b)
	}
	return fmt.Sprintf("%q…(+%d bytes)", b[:n], len(b)-n)
}
