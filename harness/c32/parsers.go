package c32

import (
	"bytes"
	"encoding/binary"
)

// ---------------------------------------------------------------------------------------------
// (a) EventSource stream parser, written from the WHATWG HTML standard, section 9.2.6
// "Interpreting an event stream" (not from the server code):
//
//   stream  = [ bom ] *event
//   lines end with CRLF, LF or a lone CR
//   empty line            -> dispatch the event
//   line starting with :  -> comment, ignored
//   "field:value"         -> one leading SPACE of value is removed
//   line without colon    -> field name = whole line, value = ""
//   field "data"          -> append value and a LF to the data buffer
//   field "event"/"id"/"retry" as in the standard; unknown fields are ignored
//   dispatch: empty data buffer -> nothing is dispatched; else one trailing LF is removed
//   end of stream: a pending (not yet dispatched) event is discarded

type sseEvent struct {
	Type string
	Data []byte
	ID   string
	// End is the byte offset in the stream just after the blank line that dispatched the event.
	End int
}

type sseStats struct {
	Comments      int
	IgnoredFields int  // lines whose field name is not one of data/event/id/retry
	PendingAtEOF  bool // data buffer not empty at the end of the stream (event discarded)
	PartialLine   bool // bytes after the last line terminator
	BOM           bool
}

func parseSSE(stream []byte) ([]sseEvent, sseStats) {
	var st sseStats
	var events []sseEvent
	pos := 0
	if bytes.HasPrefix(stream, []byte{0xEF, 0xBB, 0xBF}) {
		pos = 3
		st.BOM = true
	}
	var data []byte
	evType := ""
	lastID := ""
	for pos < len(stream) {
		i := pos
		for i < len(stream) && stream[i] != '\n' && stream[i] != '\r' {
			i++
		}
		if i == len(stream) {
			st.PartialLine = true
			break
		}
		line := stream[pos:i]
		next := i + 1
		if stream[i] == '\r' && next < len(stream) && stream[next] == '\n' {
			next++
		}
		pos = next
		if len(line) == 0 {
			// dispatch
			if len(data) == 0 {
				evType = ""
				continue
			}
			if data[len(data)-1] == '\n' {
				data = data[:len(data)-1]
			}
			events = append(events, sseEvent{Type: evType, Data: append([]byte(nil), data...), ID: lastID, End: pos})
			data = data[:0]
			evType = ""
			continue
		}
		if line[0] == ':' {
			st.Comments++
			continue
		}
		field, value := line, []byte(nil)
		if j := bytes.IndexByte(line, ':'); j >= 0 {
			field, value = line[:j], line[j+1:]
			if len(value) > 0 && value[0] == ' ' {
				value = value[1:]
			}
		}
		switch string(field) {
		case "event":
			evType = string(value)
		case "data":
			data = append(data, value...)
			data = append(data, '\n')
		case "id":
			if bytes.IndexByte(value, 0) < 0 {
				lastID = string(value)
			}
		case "retry":
			// reconnection time: no effect on the events
		default:
			st.IgnoredFields++
		}
	}
	st.PendingAtEOF = len(data) > 0
	return events, st
}

// ---------------------------------------------------------------------------------------------
// (b) stream readers for the HTTP-streaming transport.

type record struct {
	Data []byte
	End  int
}

// parseNDJSON: newline-delimited JSON (ndjson / JSON Lines): records are separated by LF; a CR
// before the LF belongs to the separator; empty lines are skipped; bytes after the last LF are
// an incomplete record.
func parseNDJSON(stream []byte) (recs []record, partial bool) {
	pos := 0
	for pos < len(stream) {
		i := bytes.IndexByte(stream[pos:], '\n')
		if i < 0 {
			return recs, true
		}
		line := stream[pos : pos+i]
		pos += i + 1
		if n := len(line); n > 0 && line[n-1] == '\r' {
			line = line[:n-1]
		}
		if len(line) == 0 {
			continue
		}
		recs = append(recs, record{Data: line, End: pos})
	}
	return recs, false
}

// parseVarintStream: each record is a base-128 varint length followed by that many bytes.
func parseVarintStream(stream []byte) (recs []record, problem string) {
	pos := 0
	for pos < len(stream) {
		l, n := binary.Uvarint(stream[pos:])
		if n <= 0 {
			return recs, "bad or truncated length prefix"
		}
		if l > uint64(len(stream)-pos-n) {
			return recs, "record longer than the rest of the stream"
		}
		from := pos + n
		to := from + int(l)
		recs = append(recs, record{Data: stream[from:to], End: to})
		pos = to
	}
	return recs, ""
}
