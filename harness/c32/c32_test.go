// C32: SSE and HTTP-stream framing deliver each message intact.
//
// Real centrifuge.NewSSEHandler / NewHTTPStreamHandler behind a real net/http server (httptest,
// HTTP/1.1 and HTTP/2), real HTTP clients. What the client receives is parsed by parsers written
// from the standards (parsers.go: WHATWG EventSource; newline-delimited JSON; varint-length
// records) and compared, one to one and in order, with what the server queued for that
// connection, observed independently through Node.OnTransportWrite, and with the publish log.
package c32

import (
	"bytes"
	"context"
	"fmt"
	"io"
	"net/http"
	"net/http/httptest"
	"net/url"
	"sort"
	"strings"
	"sync"
	"sync/atomic"
	"testing"
	"time"

	"github.com/centrifugal/centrifuge"
	"github.com/centrifugal/centrifuge/verifx/kit"
	"github.com/centrifugal/protocol"
)

const (
	classSSECR      = "c32-sse-bare-cr-in-json-payload-breaks-event"
	classSSEDiffer  = "c32-sse-events-differ-from-queued-messages"
	classHSDiffer   = "c32-http-stream-records-differ-from-queued-messages"
	classPayload    = "c32-publication-payload-altered"
	waitBound       = 45 * time.Second
	requestDeadline = 150 * time.Second
)

type logged struct {
	Data      []byte
	FrameType string
}

// recWriter records, on the server side and through the public http.ResponseWriter interface
// only, how many bytes were written before each Flush: one Flush = one transport write call.
type recWriter struct {
	http.ResponseWriter
	mu      sync.Mutex
	total   int
	flushAt []int
}

func (w *recWriter) Write(p []byte) (int, error) {
	n, err := w.ResponseWriter.Write(p)
	w.mu.Lock()
	w.total += n
	w.mu.Unlock()
	return n, err
}

func (w *recWriter) Flush() {
	w.mu.Lock()
	w.flushAt = append(w.flushAt, w.total)
	w.mu.Unlock()
	_ = http.NewResponseController(w.ResponseWriter).Flush()
}

func (w *recWriter) Unwrap() http.ResponseWriter { return w.ResponseWriter }

type connSpec struct {
	idx        int
	name       string
	kind       string // sse_get | sse_post | hs_json | hs_proto
	user       string
	bin        bool
	ch, extra  string
	recoverReq bool
	writeDelay time.Duration
	maxInFrame int
	info       []byte
	data       []byte
	subData    []byte
	endBy      string

	client atomic.Pointer[centrifuge.Client]
	rw     atomic.Pointer[recWriter]

	body   []byte
	cut    bool // the response broke off with a transport error: prefix comparison only
	status int
	proto  string
	err    error
	done   chan struct{}
}

func (cs *connSpec) sse() bool { return strings.HasPrefix(cs.kind, "sse") }

type step struct {
	Op   string
	Conn int
	Ch   string
	Pays []*payload
	D    time.Duration
}

type scen struct {
	c      *kit.Case
	w      *kit.World
	node   *centrifuge.Node
	specs  []*connSpec
	prefix string // unique per case: names, users and channels start with it
	byName map[string]*connSpec

	chJSON, chBin, chExtraJ, chExtraB string
	useHistory                        bool
	otherInfo                         []byte

	logMu sync.Mutex
	log   map[string][]logged

	pays map[string]*payload // by id: everything published or sent
	seq  uint64
}

func (s *scen) newPayload(bin bool, noCR bool) *payload {
	s.seq++
	var p *payload
	if bin {
		p = genBinary(s.c.R, s.seq)
	} else {
		p = genJSON(s.c.R, fmt.Sprintf("k%d-%d", s.c.Index, s.seq), noCR)
	}
	s.pays[p.ID] = p
	return p
}

// A defect that fires in a large share of the cases (a known finding) must not exhaust the
// runner's per-process violation budget (a child stops after 50 violations) and so truncate the
// run: every class is reported at most reportCap times per child process, later occurrences are
// only counted.
const reportCap = 3

var (
	reportMu    sync.Mutex
	reportCount = map[string]int{}
)

func report(c *kit.Case, class, msg string, detail any) {
	reportMu.Lock()
	reportCount[class]++
	n := reportCount[class]
	reportMu.Unlock()
	c.Count("violations_observed_"+class, 1)
	if n > reportCap {
		return
	}
	c.Violation(class, msg, detail)
}

func waitFor(cond func() bool, d time.Duration) bool {
	deadline := time.Now().Add(d)
	for {
		if cond() {
			return true
		}
		if time.Now().After(deadline) {
			return cond()
		}
		time.Sleep(200 * time.Microsecond)
	}
}

// env is the per-process server side: one node, one HTTP/1.1 and one HTTP/2 (TLS) server, shared
// by the cases of this child process (creating a node per case costs more CPU under the race
// detector than the case itself). Cases are isolated by a unique prefix on client names, user
// ids and channel names.
type env struct {
	node *centrifuge.Node
	srv1 *httptest.Server
	srv2 *httptest.Server
	mu   sync.Mutex
	sc   map[string]*scen
}

var (
	theEnv  *env
	envOnce sync.Once
)

func prefixOf(name string) string {
	if i := strings.IndexByte(name, '.'); i > 0 {
		return name[:i]
	}
	return ""
}

func (e *env) lookup(name string) *scen {
	e.mu.Lock()
	defer e.mu.Unlock()
	return e.sc[prefixOf(name)]
}

func getEnv() *env {
	envOnce.Do(func() {
		e := &env{sc: map[string]*scen{}}
		gw := kit.NewWorld(nil)
		e.node, _ = gw.NewNode(centrifuge.Config{ClientQueueMaxSize: 64 << 20}, func(n *centrifuge.Node) {
			n.OnTransportWrite(func(cl *centrifuge.Client, ev centrifuge.TransportWriteEvent) bool {
				if s := e.lookup(cl.UserID()); s != nil {
					d := append([]byte(nil), ev.Data...)
					s.logMu.Lock()
					s.log[cl.ID()] = append(s.log[cl.ID()], logged{Data: d, FrameType: ev.FrameType.String()})
					s.logMu.Unlock()
				}
				return true
			})
			n.OnConnecting(func(_ context.Context, ev centrifuge.ConnectEvent) (centrifuge.ConnectReply, error) {
				s := e.lookup(ev.Name)
				if s == nil {
					return centrifuge.ConnectReply{}, centrifuge.DisconnectBadRequest
				}
				jl := centrifuge.SubscribeOptions{EmitJoinLeave: true, PushJoinLeave: true}
				if rt, ok := ev.Transport.(*kit.RecTransport); ok {
					ch := s.chJSON
					if rt.Protocol() == centrifuge.ProtocolTypeProtobuf {
						ch = s.chBin
					}
					return centrifuge.ConnectReply{
						Credentials:   &centrifuge.Credentials{UserID: s.prefix + ".other", Info: s.otherInfo},
						Subscriptions: map[string]centrifuge.SubscribeOptions{ch: jl},
					}, nil
				}
				cs := s.byName[ev.Name]
				if cs == nil {
					return centrifuge.ConnectReply{}, centrifuge.DisconnectBadRequest
				}
				opts := jl
				opts.Data = cs.subData
				opts.EmitPresence = true
				if s.useHistory {
					opts.EnableRecovery = true
				}
				return centrifuge.ConnectReply{
					Credentials:        &centrifuge.Credentials{UserID: cs.user, Info: cs.info},
					Data:               cs.data,
					Subscriptions:      map[string]centrifuge.SubscribeOptions{cs.ch: opts},
					WriteDelay:         cs.writeDelay,
					MaxMessagesInFrame: cs.maxInFrame,
				}, nil
			})
			n.OnConnect(func(cl *centrifuge.Client) {
				if s := e.lookup(cl.UserID()); s != nil {
					for _, cs := range s.specs {
						if cs.user == cl.UserID() {
							cs.client.Store(cl)
						}
					}
				}
			})
		})
		wrap := func(h http.Handler) http.Handler {
			return http.HandlerFunc(func(rw http.ResponseWriter, req *http.Request) {
				rec := &recWriter{ResponseWriter: rw}
				name := req.Header.Get("X-C32-Conn")
				if s := e.lookup(name); s != nil {
					if cs := s.byName[name]; cs != nil {
						cs.rw.Store(rec)
					}
				}
				h.ServeHTTP(rec, req)
			})
		}
		mux := http.NewServeMux()
		mux.Handle("/sse", wrap(centrifuge.NewSSEHandler(e.node, centrifuge.SSEConfig{})))
		mux.Handle("/hs", wrap(centrifuge.NewHTTPStreamHandler(e.node, centrifuge.HTTPStreamConfig{})))
		e.srv1 = httptest.NewServer(mux)
		e.srv2 = httptest.NewUnstartedServer(mux)
		e.srv2.EnableHTTP2 = true
		e.srv2.StartTLS()
		theEnv = e
	})
	return theEnv
}

func runCase(c *kit.Case) {
	r := c.R
	w := kit.NewWorld(c)
	e := getEnv()
	node := e.node
	s := &scen{c: c, w: w, node: node, log: map[string][]logged{}, pays: map[string]*payload{}, byName: map[string]*connSpec{}}
	s.prefix = fmt.Sprintf("k%d", c.Index)
	s.chJSON, s.chBin = "c32:"+s.prefix+":json", "c32:"+s.prefix+":bin"
	s.chExtraJ, s.chExtraB = "c32:"+s.prefix+":xj", "c32:"+s.prefix+":xb"
	chJSON, chBin := s.chJSON, s.chBin
	noCR := r.Bool()
	useHTTP2 := r.Chance(1, 5)
	useHistory := r.Chance(2, 3)
	s.useHistory = useHistory

	nConn := r.Range(1, 3)
	for i := 0; i < nConn; i++ {
		cs := &connSpec{idx: i, name: fmt.Sprintf("%s.c%d", s.prefix, i), user: fmt.Sprintf("%s.u%d", s.prefix, i), done: make(chan struct{})}
		cs.kind = kit.Pick(r, []string{"sse_get", "sse_post", "hs_json", "hs_proto"})
		cs.bin = cs.kind == "hs_proto"
		cs.ch, cs.extra = s.chJSON, s.chExtraJ
		if cs.bin {
			cs.ch, cs.extra = s.chBin, s.chExtraB
		}
		cs.recoverReq = useHistory && r.Chance(1, 2)
		cs.writeDelay = kit.Pick(r, []time.Duration{0, 0, time.Millisecond, 4 * time.Millisecond})
		cs.maxInFrame = kit.Pick(r, []int{0, 0, 3, -1})
		cs.info = s.newPayload(cs.bin, noCR).Raw
		cs.data = s.newPayload(cs.bin, noCR).Raw
		cs.subData = s.newPayload(cs.bin, noCR).Raw
		cs.endBy = kit.Pick(r, []string{"node_disconnect", "node_disconnect_custom", "client_disconnect"})
		s.specs = append(s.specs, cs)
		s.byName[cs.name] = cs
	}
	anyJSON, anyBin := false, false
	for _, cs := range s.specs {
		if cs.bin {
			anyBin = true
		} else {
			anyJSON = true
		}
	}
	s.otherInfo = s.newPayload(false, noCR).Raw

	// ---- the script (all PRNG draws happen here, before anything runs)
	var pre []*payload // published before anybody connects (history, recovered in the connect reply)
	if useHistory {
		for i, n := 0, r.Range(1, 5); i < n; i++ {
			if anyJSON {
				p := s.newPayload(false, noCR)
				pre = append(pre, p)
			}
			if anyBin {
				p := s.newPayload(true, noCR)
				pre = append(pre, p)
			}
		}
	}
	var script []step
	famCh := func() (string, bool) {
		if anyBin && (!anyJSON || r.Bool()) {
			return chBin, true
		}
		return chJSON, false
	}
	for i, n := 0, r.Range(4, 14); i < n; i++ {
		switch x := r.Intn(100); {
		case x < 45:
			ch, bin := famCh()
			st := step{Op: "burst", Ch: ch}
			for j, k := 0, kit.Pick(r, []int{1, 1, 2, 3, 5, 8, 20}); j < k; j++ {
				st.Pays = append(st.Pays, s.newPayload(bin, noCR))
			}
			script = append(script, st)
		case x < 55:
			ci := r.Intn(nConn)
			script = append(script, step{Op: "send", Conn: ci, Pays: []*payload{s.newPayload(s.specs[ci].bin, noCR)}})
		case x < 65:
			ch, _ := famCh()
			script = append(script, step{Op: "other_join", Ch: ch}, step{Op: "pause", D: time.Duration(r.Range(0, 2)) * time.Millisecond}, step{Op: "other_leave", Ch: ch})
		case x < 75:
			ci := r.Intn(nConn)
			script = append(script, step{Op: "nsub", Conn: ci, Pays: []*payload{s.newPayload(s.specs[ci].bin, noCR)}})
			script = append(script, step{Op: "pub_extra", Conn: ci, Pays: []*payload{s.newPayload(s.specs[ci].bin, noCR)}})
			if r.Bool() {
				script = append(script, step{Op: "nunsub", Conn: ci})
			}
		case x < 82:
			script = append(script, step{Op: "refresh", Conn: r.Intn(nConn)})
		default:
			script = append(script, step{Op: "pause", D: time.Duration(r.Range(0, 3)) * time.Millisecond})
		}
	}

	e.mu.Lock()
	e.sc[s.prefix] = s
	e.mu.Unlock()
	srv := e.srv1
	if useHTTP2 {
		srv = e.srv2
	}
	// own transport per case, no connection reuse between requests: a stream that the server
	// aborted must not poison a later request
	tr := srv.Client().Transport.(*http.Transport).Clone()
	tr.DisableKeepAlives = true
	httpClient := &http.Client{Transport: tr}
	ctx, cancel := context.WithTimeout(context.Background(), requestDeadline)
	cleanup := func() {
		cancel()
		tr.CloseIdleConnections()
		e.mu.Lock()
		delete(e.sc, s.prefix)
		e.mu.Unlock()
	}

	publish := func(ch string, p *payload) {
		var opts []centrifuge.PublishOption
		if useHistory && (ch == chJSON || ch == chBin) {
			opts = append(opts, centrifuge.WithHistory(500, time.Minute))
		}
		_, _ = node.Publish(ch, p.Raw, opts...)
	}
	for _, p := range pre {
		if p.Compact == "" {
			publish(chBin, p)
		} else {
			publish(chJSON, p)
		}
	}

	c.Logf("t prepublished %v", w.Now())
	// ---- connect
	for _, cs := range s.specs {
		creq := &protocol.ConnectRequest{Name: cs.name}
		if cs.recoverReq {
			if h, err := node.History(cs.ch, centrifuge.WithLimit(0)); err == nil {
				creq.Subs = map[string]*protocol.SubscribeRequest{cs.ch: {Recover: true, Offset: 0, Epoch: h.Epoch}}
			}
		}
		cmd := &protocol.Command{Id: uint32(7 + cs.idx), Connect: creq}
		var req *http.Request
		var err error
		switch cs.kind {
		case "sse_get":
			b, _ := protocol.NewJSONCommandEncoder().Encode(cmd)
			q := url.Values{}
			q.Set("cf_connect", string(b))
			req, err = http.NewRequestWithContext(ctx, http.MethodGet, srv.URL+"/sse?"+q.Encode(), nil)
		case "sse_post":
			b, _ := protocol.NewJSONCommandEncoder().Encode(cmd)
			req, err = http.NewRequestWithContext(ctx, http.MethodPost, srv.URL+"/sse", bytes.NewReader(b))
		case "hs_json":
			b, _ := protocol.NewJSONCommandEncoder().Encode(cmd)
			req, err = http.NewRequestWithContext(ctx, http.MethodPost, srv.URL+"/hs", bytes.NewReader(b))
		case "hs_proto":
			b, _ := protocol.NewProtobufCommandEncoder().Encode(cmd)
			req, err = http.NewRequestWithContext(ctx, http.MethodPost, srv.URL+"/hs", bytes.NewReader(b))
			if err == nil {
				req.Header.Set("Content-Type", "application/octet-stream")
			}
		}
		if err != nil {
			c.Inconclusive("cannot build request: " + err.Error())
			cleanup()
			return
		}
		req.Header.Set("X-C32-Conn", cs.name)
		go func(cs *connSpec, req *http.Request) {
			defer close(cs.done)
			resp, err := httpClient.Do(req)
			if err != nil {
				cs.err = err
				return
			}
			cs.status = resp.StatusCode
			cs.proto = resp.Proto
			cs.body, cs.err = io.ReadAll(resp.Body)
			_ = resp.Body.Close()
		}(cs, req)
	}
	c.Logf("t requests launched %v", w.Now())
	ready := waitFor(func() bool {
		for _, cs := range s.specs {
			if cs.client.Load() == nil {
				select {
				case <-cs.done:
					// the request already ended (failed before any response, or the server
					// refused it): nothing to wait for on this connection
					continue
				default:
				}
				return false
			}
		}
		return true
	}, waitBound)
	if !ready {
		c.Inconclusive("connections were not established within the bound")
		cleanup()
		return
	}

	c.Logf("t connected %v", w.Now())
	// ---- run the script
	others := map[string]*kit.Conn{}
	for _, st := range script {
		switch st.Op {
		case "burst":
			for _, p := range st.Pays {
				publish(st.Ch, p)
			}
		case "send":
			if cl := s.specs[st.Conn].client.Load(); cl != nil {
				_ = cl.Send(st.Pays[0].Raw)
			}
		case "other_join":
			if others[st.Ch] == nil {
				pt := centrifuge.ProtocolTypeJSON
				if st.Ch == chBin {
					pt = centrifuge.ProtocolTypeProtobuf
				}
				oc := w.NewConn(node, kit.TransportOpts{Protocol: pt})
				oc.Connect(&protocol.ConnectRequest{Name: s.prefix + ".other"})
				others[st.Ch] = oc
			}
		case "other_leave":
			if oc := others[st.Ch]; oc != nil {
				_ = oc.CloseFn()
				delete(others, st.Ch)
			}
		case "nsub":
			cs := s.specs[st.Conn]
			_ = node.Subscribe(cs.user, cs.extra, centrifuge.WithSubscribeData(st.Pays[0].Raw))
		case "pub_extra":
			publish(s.specs[st.Conn].extra, st.Pays[0])
		case "nunsub":
			cs := s.specs[st.Conn]
			_ = node.Unsubscribe(cs.user, cs.extra)
		case "refresh":
			_ = node.Refresh(s.specs[st.Conn].user, centrifuge.WithRefreshExpireAt(time.Now().Unix()+3600))
		case "pause":
			time.Sleep(st.D)
		}
		c.Logf("t step %s %v", st.Op, w.Now())
	}
	for _, oc := range others {
		_ = oc.CloseFn()
	}
	// ---- end every connection from the server side: the stream then ends after the last message
	for _, cs := range s.specs {
		switch cs.endBy {
		case "node_disconnect":
			_ = node.Disconnect(cs.user)
		case "node_disconnect_custom":
			_ = node.Disconnect(cs.user, centrifuge.WithCustomDisconnect(centrifuge.Disconnect{Code: 4100, Reason: "c32 \"bye\"\r\n data: x"}))
		default:
			if cl := cs.client.Load(); cl != nil {
				cl.Disconnect(centrifuge.DisconnectForceReconnect)
			}
		}
	}
	c.Logf("t script done %v", w.Now())
	allDone := true
	for _, cs := range s.specs {
		select {
		case <-cs.done:
		case <-time.After(waitBound):
			allDone = false
		}
	}
	if !allDone {
		c.Inconclusive("a response stream did not end within the bound after the server-side disconnect")
		cleanup()
		return
	}
	c.Logf("t streams ended %v", w.Now())
	cleanup()
	c.Logf("t cleaned up %v", w.Now())

	// ---- evaluate
	var sigs []string
	for _, cs := range s.specs {
		if cs.status == 0 {
			// the request failed before any response (machine overload, connection refused...):
			// this connection exercised nothing
			c.Count("conn_request_failed_before_response", 1)
			continue
		}
		if cs.status != http.StatusOK {
			c.Inconclusive(fmt.Sprintf("conn %s: unexpected HTTP status %d", cs.kind, cs.status))
			continue
		}
		if cs.err != nil {
			// the response broke off (typically the handler's 1 s write deadline on an overloaded
			// machine): what was received must still be a prefix of what was queued
			cs.cut = true
			c.Count("conn_stream_cut_by_transport_error_prefix_compared", 1)
		}
		sigs = append(sigs, s.evaluate(cs))
	}
	for _, p := range s.pays {
		for _, k := range p.WS {
			c.Count("payload_ws_"+k, 1)
		}
		c.Count("payload_shape_"+p.Shape, 1)
		for _, f := range p.Feat {
			c.Count("payload_feat_"+f, 1)
		}
	}
	if len(sigs) > 0 {
		sort.Strings(sigs)
		c.Nontrivial(strings.Join(sigs, "|"))
	}
}

func kindOf(r *protocol.Reply) string {
	if p := r.Push; p != nil {
		switch {
		case p.Pub != nil:
			return "pub"
		case p.Join != nil:
			return "join"
		case p.Leave != nil:
			return "leave"
		case p.Unsubscribe != nil:
			return "unsubscribe"
		case p.Message != nil:
			return "message"
		case p.Subscribe != nil:
			return "subscribe"
		case p.Connect != nil:
			return "connect_push"
		case p.Disconnect != nil:
			return "disconnect"
		case p.Refresh != nil:
			return "refresh"
		}
		return "push_other"
	}
	switch {
	case r.Error != nil:
		return "error"
	case r.Connect != nil:
		return "connect"
	case r.Id == 0:
		return "ping"
	}
	return "reply_other"
}

func bucketBatch(n int) string {
	switch {
	case n <= 1:
		return "batch_1"
	case n <= 4:
		return "batch_2_4"
	case n <= 15:
		return "batch_5_15"
	}
	return "batch_16_plus"
}

// evaluate compares what one connection received with what the server queued for it.
func (s *scen) evaluate(cs *connSpec) string {
	c := s.c
	cl := cs.client.Load()
	if cl == nil && len(cs.body) == 0 {
		// HTTP 200 and then nothing: the handler gave up before it processed the connect command
		// (the SSE handler's first write has a 1 s deadline, which an overloaded machine misses);
		// this connection exercised nothing.
		c.Count("conn_ended_before_connect_was_processed", 1)
		return cs.kind + ":never-connected"
	}
	if cl == nil {
		c.Inconclusive(fmt.Sprintf("conn %s: HTTP 200 but the connection never reached OnConnect (%d stream bytes)", cs.kind, len(cs.body)))
		return cs.kind + ":never-connected"
	}
	s.logMu.Lock()
	log := append([]logged(nil), s.log[cl.ID()]...)
	s.logMu.Unlock()

	differ := classHSDiffer
	if cs.sse() {
		differ = classSSEDiffer
	}
	base := map[string]any{"transport": cs.kind, "http": cs.proto, "stream_bytes": len(cs.body), "queued_messages": len(log)}
	detail := func(extra map[string]any) map[string]any {
		m := map[string]any{}
		for k, v := range base {
			m[k] = v
		}
		for k, v := range extra {
			m[k] = v
		}
		return m
	}

	var recs []record
	switch cs.kind {
	case "sse_get", "sse_post":
		evs, st := parseSSE(cs.body)
		for _, e := range evs {
			recs = append(recs, record{Data: e.Data, End: e.End})
			if e.Type != "" || e.ID != "" {
				report(c, differ, "SSE event carries an event type or id the server never queued", detail(map[string]any{"type": e.Type, "id": e.ID}))
			}
		}
		base["sse_ignored_field_lines"] = st.IgnoredFields
		if (st.PendingAtEOF || st.PartialLine) && !cs.cut {
			report(c, differ, "SSE stream ends inside an event (no terminating blank line): a conforming parser discards it", detail(map[string]any{"tail": clip(cs.body[max(0, len(cs.body)-120):], 120)}))
		}
	case "hs_json":
		var partial bool
		recs, partial = parseNDJSON(cs.body)
		if partial && !cs.cut {
			report(c, differ, "HTTP stream ends inside a record (no terminating newline)", detail(map[string]any{"tail": clip(cs.body[max(0, len(cs.body)-120):], 120)}))
		}
	case "hs_proto":
		var problem string
		recs, problem = parseVarintStream(cs.body)
		if problem != "" && !cs.cut {
			report(c, differ, "HTTP stream (Protobuf) is not a sequence of varint-length records: "+problem, detail(nil))
		}
	}

	// batches: records completed between two consecutive flushes of the response
	if rw := cs.rw.Load(); rw != nil {
		rw.mu.Lock()
		flushes := append([]int(nil), rw.flushAt...)
		rw.mu.Unlock()
		ri, prev := 0, 0
		for _, f := range flushes {
			n := 0
			for ri < len(recs) && recs[ri].End <= f {
				if recs[ri].End > prev {
					n++
				}
				ri++
			}
			prev = f
			if n > 0 {
				c.Count(bucketBatch(n), 1)
			}
		}
	}

	kinds := map[string]bool{}
	crReported := false
	n := min(len(recs), len(log))
	for i := 0; i < n; i++ {
		got, want := recs[i].Data, log[i].Data
		var equal bool
		if cs.bin {
			equal = bytes.Equal(got, want)
		} else {
			cw := compact(want)
			equal = cw != "" && compact(got) == cw
		}
		c.Count("records_compared", 1)
		if !equal {
			if cs.sse() && bytes.IndexByte(want, '\r') >= 0 {
				c.Count("sse_events_broken_by_cr", 1)
				if !crReported {
					crReported = true
					report(c, classSSECR, fmt.Sprintf("%s: event %d received by a conforming EventSource parser is not the queued message: the queued JSON contains a bare CR (0x0D) between tokens, which ends the SSE line", cs.kind, i),
						detail(map[string]any{"index": i, "queued": clip(want, 400), "event_data": clip(got, 400), "frame_type": log[i].FrameType}))
				}
				continue
			}
			report(c, differ, fmt.Sprintf("%s: record %d differs from the message queued at that position", cs.kind, i),
				detail(map[string]any{"index": i, "queued": clip(want, 400), "received": clip(got, 400), "frame_type": log[i].FrameType}))
			break
		}
		// decode with the protocol package: exactly one Reply
		var rep *protocol.Reply
		var err error
		if cs.bin {
			var pr protocol.Reply
			err = pr.UnmarshalVT(got)
			rep = &pr
		} else {
			dec := protocol.NewJSONReplyDecoder(got)
			rep, err = dec.Decode()
			if err == nil {
				if _, err2 := dec.Decode(); err2 != io.EOF {
					err = fmt.Errorf("more than one reply in one record (second decode: %v)", err2)
				}
			}
		}
		if err != nil {
			report(c, differ, fmt.Sprintf("%s: record %d does not decode to one protocol Reply: %v", cs.kind, i, err), detail(map[string]any{"index": i, "received": clip(got, 400)}))
			break
		}
		k := kindOf(rep)
		kinds[k] = true
		c.Count("kind_"+k, 1)
		s.checkPayloads(cs, rep, i, detail)
	}
	if len(recs) != len(log) && !(cs.cut && len(recs) < len(log)) {
		// with a CR-broken event the count still matches (the rest of the line is an ignored field)
		report(c, differ, fmt.Sprintf("%s: client parsed %d records, server queued %d messages", cs.kind, len(recs), len(log)),
			detail(map[string]any{"records": len(recs), "first_unmatched_queued": firstAfter(log, n), "first_unmatched_received": firstRecAfter(recs, n)}))
	}
	if cs.sse() {
		for _, l := range log {
			if bytes.IndexByte(l.Data, '\r') >= 0 {
				c.Count("sse_queued_messages_with_cr", 1)
			}
		}
	}
	c.Count("conn_"+cs.kind, 1)
	if strings.HasPrefix(cs.proto, "HTTP/2") {
		c.Count("conn_http2", 1)
	}
	if s.c.Index < 64 {
		c.Sample(map[string]any{"transport": cs.kind, "http": cs.proto, "queued_messages": len(log), "records": len(recs), "stream_bytes": len(cs.body),
			"first_records": sampleRecs(recs, 3), "message_kinds": keys(kinds)})
	}
	return cs.kind + ":" + strings.Join(keys(kinds), ",") + fmt.Sprintf(":n%d", bucket(len(recs)))
}

// checkPayloads compares every application payload inside a decoded message with the publish log.
func (s *scen) checkPayloads(cs *connSpec, rep *protocol.Reply, idx int, detail func(map[string]any) map[string]any) {
	check := func(where string, data []byte) {
		var id string
		if cs.bin {
			id = binID(data)
		} else {
			id = jsonID(data)
		}
		p := s.pays[id]
		if p == nil {
			return
		}
		ok := false
		if cs.bin {
			ok = bytes.Equal(data, p.Raw)
		} else {
			ok = compact(data) == p.Compact
		}
		s.c.Count("payloads_checked_against_publish_log", 1)
		if !ok {
			report(s.c, classPayload, fmt.Sprintf("%s: payload %s in %s (record %d) is not the payload that was published", cs.kind, id, where, idx),
				detail(map[string]any{"published": clip(p.Raw, 300), "received": clip(data, 300)}))
		}
	}
	if p := rep.Push; p != nil {
		if p.Pub != nil {
			check("publication push", p.Pub.Data)
		}
		if p.Message != nil {
			check("message push", p.Message.Data)
		}
		if p.Subscribe != nil {
			check("subscribe push data", p.Subscribe.Data)
		}
		if p.Join != nil && p.Join.Info != nil {
			check("join conn_info", p.Join.Info.ConnInfo)
		}
		if p.Leave != nil && p.Leave.Info != nil {
			check("leave conn_info", p.Leave.Info.ConnInfo)
		}
	}
	if cr := rep.Connect; cr != nil {
		check("connect data", cr.Data)
		for _, sr := range cr.Subs {
			check("connect sub data", sr.Data)
			for _, pub := range sr.Publications {
				s.c.Count("recovered_publications_in_connect_reply", 1)
				check("recovered publication in connect reply", pub.Data)
			}
		}
	}
}

func firstAfter(log []logged, n int) string {
	if n < len(log) {
		return clip(log[n].Data, 200)
	}
	return ""
}

func firstRecAfter(recs []record, n int) string {
	if n < len(recs) {
		return clip(recs[n].Data, 200)
	}
	return ""
}

func sampleRecs(recs []record, n int) []string {
	var out []string
	for i := 0; i < len(recs) && i < n; i++ {
		out = append(out, clip(recs[i].Data, 160))
	}
	return out
}

func keys(m map[string]bool) []string {
	out := make([]string, 0, len(m))
	for k := range m {
		out = append(out, k)
	}
	sort.Strings(out)
	return out
}

func bucket(n int) int {
	switch {
	case n < 4:
		return 0
	case n < 16:
		return 1
	case n < 64:
		return 2
	}
	return 3
}

func TestC32(t *testing.T) {
	kit.Main(t, kit.Spec{
		ID:    "C32",
		Level: "exploration",
		Rule: "each case (real time) runs against a node behind real net/http servers (httptest; HTTP/1.1, 1 in 5 cases HTTP/2 over TLS; node and servers are shared by the cases of one child process, cases are isolated by unique client/user/channel names) serving centrifuge.NewSSEHandler and NewHTTPStreamHandler; 1-3 connections, each SSE via GET cf_connect / SSE via POST / HTTP-stream JSON / HTTP-stream Protobuf, " +
			"with connect-time server-side subscriptions (join/leave, recovery from history in 2 of 3 cases), PRNG-chosen WriteDelay and MaxMessagesInFrame; a PRNG-built script of publication bursts (1-20 back to back), Client.Send, Node.Subscribe/Unsubscribe/Refresh, other clients joining and leaving, ended by a server-side disconnect. " +
			"JSON payloads are generated token by token with whitespace runs (SP, TAB, LF, CR, CRLF by per-payload profile; CR/CRLF excluded in half of the cases) before/after/between tokens, unicode (literal and escaped U+2028/2029, 4-byte, surrogate escapes, BOM char, escaped NUL/newlines, SSE look-alike text), nesting up to 300, strings up to 100 KB; Protobuf payloads are arbitrary bytes. " +
			"The response body is parsed by a WHATWG EventSource parser / an ndjson reader / a varint-length reader written from the standards; oracle: records == messages seen by Node.OnTransportWrite for that client, one to one and in order (JSON compared after json.Compact, Protobuf byte-identical), each record decodes to exactly one protocol.Reply, and every application payload inside equals the published one. " +
			"Non-trivial = a connection whose stream was compared; signature = per connection (transport, message kinds seen, #records bucket).",
		Assumptions: []string{
			"a standards-conforming SSE client is the WHATWG 'interpreting an event stream' algorithm (lines end with CRLF, LF or a lone CR); an HTTP-stream JSON client splits records at LF; a Protobuf one reads varint-length records",
			"Node.OnTransportWrite reports every message handed to the transport, in hand-over order (ReplyWithoutQueue is not used: it writes from two goroutines)",
			"JSON payloads are valid UTF-8 (RFC 8259); invalid UTF-8 inside strings is not generated",
			"each violation class is reported at most 3 times per child process (the rest is counted in violations_observed_<class>) so that a frequent known finding does not truncate the run",
			"every connection is ended by a server-side disconnect, so the stream is complete when it ends; a stream that does not end within 45 s is inconclusive",
			"a response that breaks off with a transport error (the handlers' 1 s write deadline on an overloaded machine) is compared as a prefix of the queued messages; a request that fails before any response exercises nothing and is only counted",
			"batch sizes are measured server-side as records completed between two Flush calls of the http.ResponseWriter",
		},
		Cases: map[string]int{"quick": 1200, "thorough": 16000},
		RequireCounters: []string{
			"conn_sse_get", "conn_sse_post", "conn_hs_json", "conn_hs_proto", "conn_http2",
			"payload_ws_sp", "payload_ws_tab", "payload_ws_lf", "payload_ws_cr", "payload_ws_crlf",
			"payload_shape_deep", "payload_shape_large", "payload_shape_binary", "payload_shape_binary_large",
			"payload_feat_u2028_literal", "payload_feat_u2028_escaped", "payload_feat_sse_lookalike",
			"kind_connect", "kind_pub", "kind_join", "kind_leave", "kind_message", "kind_subscribe", "kind_unsubscribe", "kind_refresh", "kind_disconnect",
			"batch_1", "batch_2_4", "batch_5_15", "recovered_publications_in_connect_reply", "payloads_checked_against_publish_log", "records_compared",
		},
		CaseTimeout: 300 * time.Second,
		Run:         runCase,
	})
}
