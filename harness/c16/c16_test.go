// C16: Tags filters are enforced on every delivery path.
package c16

import (
	"context"
	"encoding/json"
	"fmt"
	"sync"
	"testing"
	"time"

	"github.com/centrifugal/centrifuge"
	"github.com/centrifugal/centrifuge/verifx/kit"
	"github.com/centrifugal/centrifuge/verifx/mapcm"
	"github.com/centrifugal/centrifuge/verifx/recov"
	"github.com/centrifugal/protocol"
)

var paths = []string{"stream-live", "stream-recovery", "cache-recovery", "map-pages-and-live", "map-recovery-join", "map-streamless", "map-filter-change", "stream-filter-refresh"}

type world struct {
	c     *kit.Case
	w     *kit.World
	node  *centrifuge.Node
	mu    sync.Mutex
	tagOf map[string]string // publication id -> tag
	n     int
	opts  map[*centrifuge.Client]centrifuge.SubscribeOptions
	newSF map[*centrifuge.Client]*protocol.FilterNode
}

func (x *world) id(tag string) ([]byte, string) {
	x.mu.Lock()
	x.n++
	id := fmt.Sprintf("m%d", x.n)
	x.tagOf[id] = tag
	x.mu.Unlock()
	b, _ := json.Marshal(map[string]string{"id": id})
	return b, id
}

func idOf(data []byte) string {
	var m map[string]string
	if json.Unmarshal(data, &m) == nil {
		return m["id"]
	}
	return ""
}

// held collects every publication a connection was handed for ch: in subscribe
// results (publications, state) and in live pushes.
func held(conn *kit.Conn, ch string) (ids []string, via []string) {
	for _, f := range conn.T.Frames() {
		if f.Reply != nil && f.Reply.Subscribe != nil {
			for _, p := range f.Reply.Subscribe.Publications {
				ids, via = append(ids, idOf(p.Data)), append(via, "subscribe-result-publications")
			}
			for _, p := range f.Reply.Subscribe.State {
				ids, via = append(ids, idOf(p.Data)), append(via, "subscribe-result-state")
			}
		}
		if f.Push != nil && f.Push.Pub != nil && f.Push.Channel == ch && !f.Push.Pub.Removed {
			ids, via = append(ids, idOf(f.Push.Pub.Data)), append(via, "live-push")
		}
	}
	return
}

func runCase(c *kit.Case) {
	r := c.R
	path := paths[c.Index%len(paths)]
	cf := kit.Pick(r, recov.Filters)
	sf := kit.Pick(r, recov.Filters)
	if cf.Node == nil && sf.Node == nil {
		cf = recov.Filters[1+r.Intn(len(recov.Filters)-1)]
	}
	x := &world{c: c, w: kit.NewWorld(c), tagOf: map[string]string{}, opts: map[*centrifuge.Client]centrifuge.SubscribeOptions{}, newSF: map[*centrifuge.Client]*protocol.FilterNode{}}
	mapMode := centrifuge.MapModePersistent
	if path == "map-streamless" {
		mapMode = centrifuge.MapModeEphemeral
	}
	chOpts := centrifuge.MapChannelOptions{Mode: mapMode, MinPageSize: 1, DefaultPageSize: 2, MaxPageSize: 1000}
	if mapMode.HasExpiry() {
		chOpts.KeyTTL = time.Minute
	}
	if mapMode.HasStream() {
		chOpts.StreamSize = 500
		chOpts.StreamTTL = time.Minute
	}
	x.node, _ = x.w.NewNode(centrifuge.Config{
		ClientStaleCloseDelay: time.Hour,
		Map:                   centrifuge.MapConfig{GetMapChannelOptions: func(string) centrifuge.MapChannelOptions { return chOpts }},
	}, func(n *centrifuge.Node) {
		n.OnConnecting(func(context.Context, centrifuge.ConnectEvent) (centrifuge.ConnectReply, error) {
			return kit.Creds("u"), nil
		})
		n.OnConnect(func(cl *centrifuge.Client) {
			cl.OnSubscribe(func(e centrifuge.SubscribeEvent, cb centrifuge.SubscribeCallback) {
				x.mu.Lock()
				o := x.opts[cl]
				x.mu.Unlock()
				o.Type = e.Type
				rep := centrifuge.SubscribeReply{Options: o}
				if o.ExpireAt > 0 {
					rep.ClientSideRefresh = true
				}
				cb(rep, nil)
			})
			cl.OnSubRefresh(func(e centrifuge.SubRefreshEvent, cb centrifuge.SubRefreshCallback) {
				x.mu.Lock()
				nf := x.newSF[cl]
				x.mu.Unlock()
				cb(centrifuge.SubRefreshReply{ExpireAt: time.Now().Unix() + 3600, ServerTagsFilter: nf}, nil)
			})
		})
	})
	node := x.node
	ctx := context.Background()
	tags := []string{"a", "a", "b", "c"}
	mk := func(o centrifuge.SubscribeOptions) *kit.Conn {
		conn := x.w.NewConn(node, kit.TransportOpts{Protocol: kit.Pick(r, []centrifuge.ProtocolType{centrifuge.ProtocolTypeJSON, centrifuge.ProtocolTypeProtobuf})})
		o.AllowTagsFilter = true
		o.ServerTagsFilter = recov.CloneFilter(sf.Node)
		x.mu.Lock()
		x.opts[conn.Client] = o
		x.mu.Unlock()
		conn.Connect(nil)
		return conn
	}
	const sch = "c16:s"
	const mch = "c16:m"
	pubStream := func(k int) {
		for i := 0; i < k; i++ {
			tag := kit.Pick(r, tags)
			data, _ := x.id(tag)
			_, _ = node.Publish(sch, data, centrifuge.WithHistory(100, time.Minute), centrifuge.WithTags(map[string]string{"t": tag}))
		}
	}
	keyTag := func(k int) string { return []string{"a", "b", "c"}[k%3] }
	pubMap := func(k int) {
		for i := 0; i < k; i++ {
			key := r.Intn(9)
			data, _ := x.id(keyTag(key))
			_, _ = node.MapPublish(ctx, mch, fmt.Sprintf("k%d", key), centrifuge.MapPublishOptions{Data: data, Tags: map[string]string{"t": keyTag(key)}})
		}
	}
	var conn *kit.Conn
	ch := sch
	invalidated := false
	switch path {
	case "stream-live":
		conn = mk(centrifuge.SubscribeOptions{EnablePositioning: r.Bool()})
		conn.Subscribe(&protocol.SubscribeRequest{Channel: sch, Tf: recov.CloneFilter(cf.Node)})
		x.w.Settle()
		pubStream(r.Range(5, 25))
	case "stream-recovery":
		pubStream(r.Range(3, 20))
		conn = mk(centrifuge.SubscribeOptions{EnableRecovery: true})
		conn.Subscribe(&protocol.SubscribeRequest{Channel: sch, Tf: recov.CloneFilter(cf.Node), Recover: true, Offset: uint64(r.Intn(3)), Epoch: ""})
		x.w.Settle()
		pubStream(r.Range(0, 6))
	case "cache-recovery":
		pubStream(r.Range(1, 10))
		o := centrifuge.SubscribeOptions{EnableRecovery: true, RecoveryMode: centrifuge.RecoveryModeCache}
		req := &protocol.SubscribeRequest{Channel: sch, Tf: recov.CloneFilter(cf.Node)}
		if r.Bool() {
			o.AutoCacheRecover = true
		} else {
			req.Recover = true
		}
		conn = mk(o)
		conn.Subscribe(req)
		x.w.Settle()
		pubStream(r.Range(0, 5))
	case "stream-filter-refresh":
		// A live stream subscription whose server tags filter is replaced on sub refresh, twice; the
		// third filter is the first one again in half of the cases (A -> B -> A). Every publication is
		// judged against the server filter that was in force when it was published (publishing starts
		// only after the refresh reply has arrived).
		conn = mk(centrifuge.SubscribeOptions{ExpireAt: time.Now().Unix() + 3600})
		conn.Subscribe(&protocol.SubscribeRequest{Channel: sch, Tf: recov.CloneFilter(cf.Node)})
		x.w.Settle()
		pickNew := func(not recov.TagFilter) recov.TagFilter {
			for {
				f := recov.Filters[1+r.Intn(len(recov.Filters)-1)]
				if f.Name != not.Name {
					return f
				}
			}
		}
		phases := []recov.TagFilter{sf}
		if sf.Node == nil {
			phases[0] = sf // no server filter at first: the refreshes install one
		}
		phases = append(phases, pickNew(phases[0]))
		if r.Bool() && phases[0].Node != nil {
			phases = append(phases, phases[0])
			c.Count("server_filter_refreshed_back_to_the_first_one", 1)
		} else {
			phases = append(phases, pickNew(phases[1]))
		}
		phaseOf := map[string]int{}
		for pi, f := range phases {
			if pi > 0 {
				x.mu.Lock()
				x.newSF[conn.Client] = recov.CloneFilter(f.Node)
				x.mu.Unlock()
				id := conn.NextID()
				conn.Do(&protocol.Command{Id: id, SubRefresh: &protocol.SubRefreshRequest{Channel: sch, Token: "t"}})
				if fr, ok := conn.WaitReply(id); !ok || fr.Reply.Error != nil {
					c.Inconclusive("stream-filter-refresh: sub refresh was not acknowledged")
					x.w.Shutdown()
					return
				}
				c.Count("server_filter_replaced_on_sub_refresh", 1)
			}
			for k, n := 0, r.Range(4, 12); k < n; k++ {
				tag := kit.Pick(r, tags)
				data, pid := x.id(tag)
				phaseOf[pid] = pi
				_, _ = node.Publish(sch, data, centrifuge.WithHistory(100, time.Minute), centrifuge.WithTags(map[string]string{"t": tag}))
			}
			x.w.Settle()
		}
		ids, via := held(conn, sch)
		for i, pid := range ids {
			x.mu.Lock()
			tag := x.tagOf[pid]
			x.mu.Unlock()
			f := phases[phaseOf[pid]]
			if !cf.Admit(tag) || !f.Admit(tag) {
				names := []string{}
				for _, ph := range phases {
					names = append(names, ph.Name)
				}
				c.Violation("c16-server-filter-bypassed-after-sub-refresh", fmt.Sprintf("server tags filter replaced on sub refresh %v: publication %s (tag %q), published while filter #%d (%s) was in force, was delivered through %s (client filter %s)", names, pid, tag, phaseOf[pid], f.Name, via[i], cf.Name),
					map[string]any{"filters_in_order": names, "client_filter": cf.Name})
				break
			}
		}
		c.Count("publications_checked_"+path, len(ids))
		c.Nontrivial(fmt.Sprintf("%s|%s|%s>%s>%s|%d", path, cf.Name, phases[0].Name, phases[1].Name, phases[2].Name, bucket(len(ids))))
		x.w.Shutdown()
		return
	case "map-pages-and-live", "map-streamless", "map-recovery-join", "map-filter-change":
		ch = mch
		pubMap(r.Range(4, 30))
		o := centrifuge.SubscribeOptions{}
		if path == "map-filter-change" {
			o.ExpireAt = time.Now().Unix() + 3600
		}
		conn = mk(o)
		limit := int32(r.Range(1, 4))
		if path == "map-filter-change" {
			// single-step subscribe: with several steps the ClientSideRefresh flag of
			// the initial subscribe reply is not carried into the live subscription
			// (side finding, see DESIGN.md), and the sub refresh below would be refused
			limit = 500
		}
		cm := mapcm.New(conn, mch, limit)
		cm.Tf = recov.CloneFilter(cf.Node)
		cm.Filtered = true
		// writes racing the protocol steps
		var wg sync.WaitGroup
		wg.Add(1)
		go func() {
			defer wg.Done()
			if path == "map-filter-change" {
				return
			}
			for i := 0; i < 10; i++ {
				time.Sleep(2 * time.Millisecond)
				pubMap(1)
			}
		}()
		cm.StepDelay = func(int) time.Duration { return 3 * time.Millisecond }
		cm.Subscribe()
		wg.Wait()
		pubMap(r.Range(2, 10))
		time.Sleep(10 * time.Millisecond)
		if path == "map-recovery-join" && cm.Ended == "" && cm.Positioned {
			cm.Fold()
			_ = conn.CloseFn()
			pubMap(r.Range(2, 12))
			conn2 := mk(o)
			cm.RecoverOn(conn2, r.Bool())
			pubMap(r.Range(1, 6))
			time.Sleep(10 * time.Millisecond)
			// check both connections
			checkHeld(c, x, conn, ch, path+"(before reconnect)", cf, sf)
			conn = conn2
		}
		if path == "map-filter-change" && cm.Ended == "" {
			// the server changes the subscription's server tags filter on sub refresh
			nf := kit.Pick(r, recov.Filters)
			for nf.Name == sf.Name || nf.Node == nil {
				nf = kit.Pick(r, recov.Filters)
			}
			x.mu.Lock()
			x.newSF[conn.Client] = recov.CloneFilter(nf.Node)
			x.mu.Unlock()
			id := conn.NextID()
			conn.Do(&protocol.Command{Id: id, SubRefresh: &protocol.SubRefreshRequest{Channel: mch, Token: "t"}})
			time.Sleep(10 * time.Millisecond)
			x.w.Settle()
			for _, f := range conn.T.Frames() {
				if f.Push != nil && f.Push.Channel == mch && f.Push.Unsubscribe != nil && f.Push.Unsubscribe.Code == 2502 {
					invalidated = true
				}
			}
			if !invalidated {
				var tail []string
				fr := conn.T.Frames()
				for i := len(fr) - 3; i < len(fr); i++ {
					if i >= 0 {
						tail = append(tail, string(fr[i].Raw))
					}
				}
				closed, disc, _ := conn.T.Closed()
				c.Violation("c16-map-subscription-survives-server-tags-filter-change", fmt.Sprintf("server tags filter of a live map subscription changed from %s to %s but the subscription was not invalidated (no unsubscribe push with code 2502)", sf.Name, nf.Name),
					map[string]any{"last_frames": tail, "closed": closed, "disconnect": disc.Code, "steps": cm.Steps})
			} else {
				c.Count("map_subscription_invalidated_on_filter_change", 1)
			}
		}
	}
	x.w.Settle()
	n := checkHeld(c, x, conn, ch, path, cf, sf)
	c.Count("publications_checked_"+path, n)
	c.Nontrivial(fmt.Sprintf("%s|%s|%s|%d", path, cf.Name, sf.Name, bucket(n)))
	if c.Index < 28 {
		ids, via := held(conn, ch)
		c.Sample(map[string]any{"path": path, "client_filter": cf.Name, "server_filter": sf.Name, "held": ids, "via": via})
	}
	x.w.Shutdown()
}

func bucket(n int) int {
	switch {
	case n == 0:
		return 0
	case n < 5:
		return 1
	}
	return 2
}

func checkHeld(c *kit.Case, x *world, conn *kit.Conn, ch, path string, cf, sf recov.TagFilter) int {
	ids, via := held(conn, ch)
	for i, id := range ids {
		x.mu.Lock()
		tag, ok := x.tagOf[id]
		x.mu.Unlock()
		if !ok {
			continue
		}
		if !cf.Admit(tag) || !sf.Admit(tag) {
			which := "client"
			if !sf.Admit(tag) {
				which = "server"
			}
			c.Violation(fmt.Sprintf("c16-%s-filter-bypassed-on-%s", which, via[i]), fmt.Sprintf("path %s: the subscription (client filter %s, server filter %s) was handed publication %s with tag %q through %s", path, cf.Name, sf.Name, id, tag, via[i]),
				map[string]any{"path": path, "client_filter": cf.Name, "server_filter": sf.Name})
			return len(ids)
		}
	}
	return len(ids)
}

func TestC16(t *testing.T) {
	kit.Main(t, kit.Spec{
		ID:     "C16",
		Bubble: true,
		Rule: "case index enumerates the delivery path: live broadcast, stream recovery, cache recovery (client-requested / AutoCacheRecover), map state pages + stream pages + live transition with concurrent writes, map recovery join (live or stream phase), streamless (ephemeral) map, a server-tags-filter change on sub refresh of a map subscription, and two successive server-tags-filter replacements on sub refresh of a live stream subscription (the last one back to the first filter in half of the cases) with every publication judged against the filter in force when it was published; client and server filters are drawn from {none, eq, neq, in, not(eq), match-nothing} over one tag with values a/b/c. " +
			"Oracle: every publication the subscription is handed (subscribe-result publications, state entries, live pushes) has tags admitted by BOTH filters according to reference predicates defined in the harness; a changed server tags filter of a map subscription yields an unsubscribe push 2502. Signature = path x filters x #publications bucket.",
		Assumptions:     []string{"delta encoding is not negotiated (the statement excludes delta subscriptions)", "filter semantics of the six filters are fixed by hand-written predicates, independent of the engine"},
		Cases:           map[string]int{"quick": 1400, "thorough": 28000},
		RequireCounters: []string{"publications_checked_stream-live", "publications_checked_stream-recovery", "publications_checked_cache-recovery", "publications_checked_map-pages-and-live", "publications_checked_map-recovery-join", "publications_checked_map-streamless", "map_subscription_invalidated_on_filter_change", "publications_checked_stream-filter-refresh", "server_filter_refreshed_back_to_the_first_one", "server_filter_replaced_on_sub_refresh"},
		Run:             runCase,
	})
}
