// C35: Sharded PUB/SUB partition tags are balanced and Redis-compatible.
package c35

import (
	"fmt"
	"math"
	"sort"
	"strings"
	"testing"
	"time"

	"github.com/centrifugal/centrifuge/internal/redispartition"
	"github.com/centrifugal/centrifuge/verifx/kit"
)

const totalSlots = 16384

// ---------------------------------------------------------------------------------------------
// independent oracle: table-driven CRC16-CCITT/XMODEM (poly 0x1021, init 0, no reflection),
// Redis Cluster key hash slot with the hash-tag rule of the cluster specification.

var crcTable = func() (t [256]uint16) {
	for i := 0; i < 256; i++ {
		c := uint16(i) << 8
		for b := 0; b < 8; b++ {
			if c&0x8000 != 0 {
				c = c<<1 ^ 0x1021
			} else {
				c <<= 1
			}
		}
		t[i] = c
	}
	return
}()

func crc16(s string) uint16 {
	var c uint16
	for i := 0; i < len(s); i++ {
		c = c<<8 ^ crcTable[byte(c>>8)^s[i]]
	}
	return c
}

// keySlot follows keyHashSlot() of the Redis Cluster specification.
func keySlot(key string) int {
	s := strings.IndexByte(key, '{')
	if s < 0 {
		return int(crc16(key) & 0x3FFF)
	}
	e := strings.IndexByte(key[s+1:], '}')
	if e < 0 || e == 0 { // no closing brace, or nothing between the braces: hash the whole key
		return int(crc16(key) & 0x3FFF)
	}
	return int(crc16(key[s+1:s+1+e]) & 0x3FFF)
}

// ownerTable is the node-ownership model the package documents ("contiguous slot assignment:
// sn = 16384/numNodes slots per node, the first 16384 % numNodes nodes get one extra slot"),
// implemented by walking the nodes and handing out their ranges, without the closed formula.
func ownerTable(numNodes int, out []int32) {
	base, extra := totalSlots/numNodes, totalSlots%numNodes
	slot := 0
	for node := 0; node < numNodes; node++ {
		size := base
		if node < extra {
			size++
		}
		for i := 0; i < size; i++ {
			out[slot] = int32(node)
			slot++
		}
	}
	if slot != totalSlots {
		panic("ownerTable: ranges do not cover the slot space")
	}
}

// redisCliOwnerTable is what `redis-cli --cluster create` really does (clusterManagerCommandCreate:
// float slots_per_node, last = lround(cursor + slots_per_node - 1)). INFORMATIONAL ONLY: the property
// does not fix the layout and the package documents the model above; counted, never a violation.
func redisCliOwnerTable(numNodes int, out []int32) {
	slotsPerNode := float32(totalSlots) / float32(numNodes)
	first := 0
	cursor := float32(0)
	for node := 0; node < numNodes; node++ {
		last := int(math.Round(float64(cursor + slotsPerNode - 1)))
		if last > totalSlots || node == numNodes-1 {
			last = totalSlots - 1
		}
		if last < first {
			last = first
		}
		for s := first; s <= last && s < totalSlots; s++ {
			out[s] = int32(node)
		}
		first = last + 1
		cursor += slotsPerNode
	}
}

// ---------------------------------------------------------------------------------------------

type unit struct {
	n      int // partition count
	kLo    int // cluster sizes kLo..kHi
	kHi    int
	global bool
}

const kChunk = 256

func units() []unit {
	us := []unit{{global: true}}
	for _, n := range redispartition.PrecomputedSizes() {
		for lo := 1; lo <= n; lo += kChunk {
			hi := lo + kChunk - 1
			if hi > n {
				hi = n
			}
			us = append(us, unit{n: n, kLo: lo, kHi: hi})
		}
	}
	return us
}

func TestC35(t *testing.T) {
	us := units()
	kit.Main(t, kit.Spec{
		ID:         "C35",
		Level:      "exploration",
		Exhaustive: true,
		Rule: "complete enumeration (both tiers identical): case 0 validates the oracle (CRC16-XMODEM(\"123456789\")=0x31C3, CLUSTER KEYSLOT vectors) and checks FindTags(n) for every n in -1..16385 against PrecomputedSizes(), and that a table a caller holds is not changed by later lookups of other sizes (descending, ascending, interleaved); " +
			"for every precomputed partition count n (16..4096) and every cluster size k in 1..n (split in chunks of 256 values of k per case): every tag's slot by the independent table-driven CRC16 equals redispartition.TagSlot and equals the slot of the real key shape \"<prefix>.client.{tag}.<channel>\" under the Redis hash-tag rule (tag non-empty, no '{' '}' '.'), " +
			"tags and slots pairwise distinct, len(tags)=n, redispartition.SlotToNode equals the independently built contiguous ownership table on all 16384 slots, and per-node partition counts max-min <= 1. " +
			"Non-trivial = one (n,k) pair evaluated with k>1 (signature n,k). evaluations = (n,k) pairs + tags + FindTags probes. " +
			"Counters info_rediscli_* additionally evaluate the layout `redis-cli --cluster create` really produces (lround of float boundaries), which differs from the documented model by up to one slot per boundary: informational, never a violation.",
		Assumptions: []string{
			"node ownership model = the one the package documents and optimises for (SlotToNode doc comment): contiguous ranges, 16384/k slots per node, first 16384%k nodes one extra; resharded or manually laid out clusters are outside the statement",
			"'computed exactly as Redis computes them' = CRC16-CCITT/XMODEM of the hash-tag content mod 16384 per the Redis Cluster specification; the oracle is validated on the specification vector 123456789 -> 0x31C3 and known CLUSTER KEYSLOT values (foo 12182, bar 5061, hello 866, {user}.info 5474)",
			"'supported partition counts' for precomputed tags = redispartition.PrecomputedSizes(); FindTags must reject every other count",
		},
		Cases:         map[string]int{"quick": len(us), "thorough": len(us)},
		MinNontrivial: 1000,
		// pure CPU-bound cases: the watchdog only has to catch a genuine hang, not CPU starvation on a loaded host
		CaseTimeout:     20 * time.Minute,
		RequireCounters: []string{"held_tables_compared_after_later_lookups", "pairs_balanced", "tags_checked", "slot_to_node_slots_compared", "sizes_checked", "findtags_rejected"},
		Run:             func(c *kit.Case) { run(c, us[c.Index]) },
	})
}

func run(c *kit.Case, u unit) {
	if u.global {
		runGlobal(c)
		return
	}
	tags, err := redispartition.FindTags(u.n)
	if err != nil {
		c.Violation("findtags-rejects-precomputed-size", fmt.Sprintf("FindTags(%d): %v", u.n, err), nil)
		return
	}
	slots := make([]int, len(tags))
	for i, tag := range tags {
		slots[i] = int(crc16(tag) & 0x3FFF)
	}
	if u.kLo == 1 {
		checkTags(c, u.n, tags, slots)
	}
	owner := make([]int32, totalSlots)
	cli := make([]int32, totalSlots)
	counts := make([]int, u.kHi)
	for k := u.kLo; k <= u.kHi; k++ {
		c.Eval(1)
		ownerTable(k, owner)
		// the package's SlotToNode implements the documented model
		for s := 0; s < totalSlots; s++ {
			if got := redispartition.SlotToNode(s, k); got != int(owner[s]) {
				c.Violation("slot-to-node-differs-from-documented-model", fmt.Sprintf("SlotToNode(%d, %d) = %d, contiguous model says node %d", s, k, got, owner[s]), map[string]any{"slot": s, "nodes": k})
				return
			}
		}
		c.Count("slot_to_node_slots_compared", totalSlots)
		mn, mx := balance(slots, owner, counts[:k])
		if mx-mn > 1 {
			c.Violation("partitions-imbalanced", fmt.Sprintf("n=%d partitions on a %d-node cluster: per-node counts range %d..%d", u.n, k, mn, mx),
				map[string]any{"partitions": u.n, "nodes": k, "min": mn, "max": mx})
			return
		}
		c.Count("pairs_balanced", 1)
		if k > 1 {
			c.Nontrivial(fmt.Sprintf("n%d k%d", u.n, k))
		}
		if mx == mn {
			c.Count("pairs_perfectly_even", 1)
		}
		// informational: real redis-cli layout
		redisCliOwnerTable(k, cli)
		diff := 0
		for s := 0; s < totalSlots; s++ {
			if cli[s] != owner[s] {
				diff++
			}
		}
		if diff > 0 {
			c.Count("info_rediscli_layout_differs_pairs", 1)
		}
		if cmn, cmx := balance(slots, cli, counts[:k]); cmx-cmn > 1 {
			c.Count("info_rediscli_layout_imbalanced_pairs", 1)
			if cmx-cmn > 2 {
				c.Count("info_rediscli_layout_imbalance_gt2_pairs", 1)
			}
		}
	}
	if u.kLo == 1 {
		c.Sample(map[string]any{"partitions": u.n, "first_tags": tags[:4], "first_slots": slots[:4], "cluster_sizes": fmt.Sprintf("%d..%d", u.kLo, u.kHi)})
	}
}

func balance(slots []int, owner []int32, counts []int) (mn, mx int) {
	for i := range counts {
		counts[i] = 0
	}
	for _, s := range slots {
		counts[owner[s]]++
	}
	mn, mx = counts[0], counts[0]
	for _, v := range counts[1:] {
		if v < mn {
			mn = v
		}
		if v > mx {
			mx = v
		}
	}
	return
}

func checkTags(c *kit.Case, n int, tags []string, slots []int) {
	c.Count("sizes_checked", 1)
	if len(tags) != n {
		c.Violation("tag-count-differs", fmt.Sprintf("FindTags(%d) returned %d tags", n, len(tags)), nil)
		return
	}
	seenTag := map[string]int{}
	seenSlot := map[int]int{}
	for i, tag := range tags {
		c.Eval(1)
		c.Count("tags_checked", 1)
		in := map[string]any{"partitions": n, "index": i, "tag": tag}
		if got := redispartition.TagSlot(tag); got != slots[i] {
			c.Violation("tag-slot-differs-from-redis-crc16", fmt.Sprintf("TagSlot(%q) = %d, CRC16-XMODEM mod 16384 = %d", tag, got, slots[i]), in)
			return
		}
		if tag == "" || strings.ContainsAny(tag, "{}.") {
			c.Violation("tag-not-usable-as-hash-tag", fmt.Sprintf("tag %q is empty or contains '{', '}' or '.'", tag), in)
			return
		}
		for _, key := range []string{"centrifuge.client.{" + tag + "}.chan.{x}.y", "p:stream:{" + tag + "}.}{", "{" + tag + "}"} {
			if got := keySlot(key); got != slots[i] {
				c.Violation("tag-key-slot-differs", fmt.Sprintf("key %q hashes to slot %d, tag %q to %d", key, got, tag, slots[i]), in)
				return
			}
		}
		if j, dup := seenTag[tag]; dup {
			c.Violation("duplicate-tag", fmt.Sprintf("n=%d: tag %q at indexes %d and %d", n, tag, j, i), in)
			return
		}
		if j, dup := seenSlot[slots[i]]; dup {
			c.Violation("tags-share-slot", fmt.Sprintf("n=%d: tags %q and %q both map to slot %d", n, tags[j], tag, slots[i]), in)
			return
		}
		seenTag[tag], seenSlot[slots[i]] = i, i
	}
}

func runGlobal(c *kit.Case) {
	// oracle self-test: failing here is a harness problem, not a verdict
	vectors := map[string]int{"foo": 12182, "bar": 5061, "hello": 866, "{user}.info": 5474, "{user}.name": 5474, "123456789": 0x31C3 & 0x3FFF, "": 0,
		"foo{}{bar}": keySlotWhole("foo{}{bar}"), "foo{{bar}}zap": int(crc16("{bar") & 0x3FFF), "foo{bar}{zap}": int(crc16("bar") & 0x3FFF)}
	if crc16("123456789") != 0x31C3 {
		c.Inconclusive(fmt.Sprintf("oracle CRC16 self-test failed: %#x", crc16("123456789")))
		return
	}
	for k, want := range vectors {
		if got := keySlot(k); got != want {
			c.Inconclusive(fmt.Sprintf("oracle key slot self-test failed: %q -> %d want %d", k, got, want))
			return
		}
	}
	c.Count("oracle_vectors_ok", len(vectors)+1)
	// the package's slot function on the same vectors and on every 1- and 2-byte tag
	for k, want := range map[string]int{"foo": 12182, "bar": 5061, "hello": 866, "123456789": 12739, "": 0, "123": 5970} {
		c.Eval(1)
		if got := redispartition.TagSlot(k); got != want {
			c.Violation("tag-slot-differs-from-redis-crc16", fmt.Sprintf("TagSlot(%q) = %d, Redis CLUSTER KEYSLOT = %d", k, got, want), nil)
			return
		}
	}
	for a := 0; a < 256; a++ {
		for b := -1; b < 256; b++ {
			s := string([]byte{byte(a)})
			if b >= 0 {
				s += string([]byte{byte(b)})
			}
			c.Eval(1)
			if got, want := redispartition.TagSlot(s), int(crc16(s)&0x3FFF); got != want {
				c.Violation("tag-slot-differs-from-redis-crc16", fmt.Sprintf("TagSlot(%q) = %d, CRC16-XMODEM mod 16384 = %d", s, got, want), nil)
				return
			}
		}
	}
	c.Count("tagslot_short_strings_compared", 256*257)

	sizes := redispartition.PrecomputedSizes()
	if !sort.IntsAreSorted(sizes) || len(sizes) == 0 {
		c.Violation("precomputed-sizes-unsorted-or-empty", fmt.Sprint(sizes), nil)
		return
	}
	isSize := map[int]bool{}
	for _, n := range sizes {
		isSize[n] = true
	}
	for n := -1; n <= totalSlots+1; n++ {
		c.Eval(1)
		tags, err := redispartition.FindTags(n)
		switch {
		case isSize[n] && (err != nil || len(tags) != n):
			c.Violation("findtags-rejects-precomputed-size", fmt.Sprintf("FindTags(%d): %d tags, err=%v", n, len(tags), err), nil)
			return
		case !isSize[n] && err == nil:
			c.Violation("findtags-accepts-unsupported-size", fmt.Sprintf("FindTags(%d) returned %d tags but %d is not in PrecomputedSizes()", n, len(tags), n), nil)
			return
		case isSize[n]:
			c.Count("findtags_accepted", 1)
		default:
			c.Count("findtags_rejected", 1)
		}
	}
	// A table a caller holds (the broker constructors keep the slice) must not change when other
	// tables are looked up afterwards: look all sizes up in descending, ascending and interleaved
	// order, holding every returned slice, and compare each held slice with the copy taken when it
	// was returned.
	type heldTable struct {
		n    int
		tags []string
		copy []string
	}
	var held []heldTable
	order := append([]int(nil), sizes...)
	for i := len(sizes) - 1; i >= 0; i-- {
		order = append(order, sizes[i])
	}
	for i := range sizes {
		order = append(order, sizes[len(sizes)-1-i], sizes[i])
	}
	for _, n := range order {
		tags, err := redispartition.FindTags(n)
		if err != nil {
			continue
		}
		held = append(held, heldTable{n: n, tags: tags, copy: append([]string(nil), tags...)})
		for _, h := range held {
			c.Eval(1)
			if len(h.tags) != len(h.copy) {
				c.Violation("held-tag-table-changed-by-later-lookup", fmt.Sprintf("the table returned by FindTags(%d) had %d tags and has %d after FindTags(%d)", h.n, len(h.copy), len(h.tags), n), nil)
				return
			}
			for i := range h.copy {
				if h.tags[i] != h.copy[i] {
					c.Violation("held-tag-table-changed-by-later-lookup", fmt.Sprintf("the table returned by FindTags(%d) changed after a later FindTags(%d): tag #%d was %q and is %q now", h.n, n, i, h.copy[i], h.tags[i]), nil)
					return
				}
			}
		}
	}
	c.Count("held_tables_compared_after_later_lookups", len(held))
	c.Nontrivial("global")
	c.Sample(map[string]any{"precomputed_sizes": sizes, "crc16_123456789": fmt.Sprintf("%#x", crc16("123456789"))})
}

func keySlotWhole(k string) int { return int(crc16(k) & 0x3FFF) }
