// Package churn is the shared workload of the checks that quantify over
// interleavings of subscribe / unsubscribe / server-side operations / disconnects
// on one node (C04, C05, C06, C07, C08): it builds a node inside a virtual-time
// bubble, generates per-connection operation plans from the case PRNG, runs them
// on concurrent goroutines with seeded virtual delays at the library's yield
// points, records every application callback, and settles. The oracles live in
// the individual checks.
package churn

import (
	"context"
	"fmt"
	"hash/fnv"
	"sync"
	"sync/atomic"
	"time"

	"github.com/centrifugal/centrifuge"
	"github.com/centrifugal/centrifuge/verifx/kit"
	"github.com/centrifugal/protocol"
	"github.com/prometheus/client_golang/prometheus"
)

// Options shapes the workload.
type Options struct {
	Conns            [2]int // min,max connections
	Channels         [2]int
	Presence         bool
	JoinLeave        bool
	Positioned       bool // some channels use positioning + history
	Closes           bool // plans may end with a disconnect
	PresenceInterval time.Duration
	TickConcurrency  int
	// AsyncLong allows asynchronous subscribe callbacks that outlive the 5s
	// unsubscribe wait-gate.
	AsyncLong bool
	OpsPerConn [2]int
	// ExtraConfig lets a check adjust the node config.
	ExtraConfig func(cfg *centrifuge.Config)
	// ExtraSetup runs before node.Run().
	ExtraSetup func(e *Env, n *centrifuge.Node)
	// Users is the number of distinct user ids connections are spread over (default 2).
	Users int
	// Observer adds a connection (Env.Observer) that subscribes to every channel with
	// PushJoinLeave before the plans start and stays until Finish.
	Observer bool
	// CalmConn0 disables every virtual delay inside connection 0's operations (needed
	// when a check races against it by busy-waiting: a spinning goroutine keeps the
	// virtual clock from advancing, so the raced operation must not sleep).
	CalmConn0 bool
	// BoundaryRace, when set, races an operation of connection 0 against a call the
	// library makes to its broker / presence manager (see boundary.go). Position
	// checks are made frequent so that their history reads are among those calls.
	BoundaryRace *BoundaryRace
	// Inject, when set, closes connection Inject.Conn by Inject.Cause the first time
	// that connection reaches yield point Inject.Point.
	Inject *Injection
}

// Injection closes a connection at a yield point: the close is launched on another
// goroutine and the goroutine at the yield point busy-waits (never sleeps) until the
// close has flipped the connection's status, then carries on with its operation.
type Injection struct {
	Point string
	Conn  int
	Cause string // disc-client disc-node disc-transport write-error
	// Do, when set, replaces the close: it runs on its own goroutine; Until tells
	// the goroutine parked at the yield point when to carry on.
	Do    func(e *Env, cc *CConn, ch string)
	Until func(e *Env, cc *CConn, ch string) bool
	fired atomic.Bool
	Fired atomic.Bool // set once the close was observed to have started
}

// Op is one planned operation of a connection.
type Op struct {
	Kind    string // sub unsub ssub sunsub nsub nunsub disc-client disc-node disc-transport
	Channel string
	Gap     time.Duration // virtual delay before the op
	Async   time.Duration // for sub: delay of the asynchronous subscribe callback (0 = synchronous)
	Lane    int           // 0 = reader goroutine (client commands), 1 = server goroutine
}

// CB is one recorded application callback.
type CB struct {
	Seq     int64
	Conn    int
	Kind    string // connecting connect subscribe unsubscribe disconnect alive
	Channel string
	Code    uint32
	Server  bool
}

// CConn is one connection under churn.
type CConn struct {
	Idx    int
	User   string
	Conn   *kit.Conn
	Plan   []Op
	Proto  centrifuge.ProtocolType
	salt   uint64
	calm   bool // no virtual delays inside in-flight operations (it will be closed)
	SubIDs map[uint32]string
	mu     sync.Mutex
	// UnsubIDs: command id -> channel for unsubscribe commands
	UnsubIDs map[uint32]string
}

// Env is a running churn scenario.
type Env struct {
	C        *kit.Case
	W        *kit.World
	Node     *centrifuge.Node
	Reg      *prometheus.Registry
	Opt      Options
	Channels []string
	Conns    []*CConn
	Observer *kit.Conn
	byClient sync.Map // *centrifuge.Client -> *CConn
	byTrans  sync.Map // *kit.RecTransport -> *CConn

	cbMu sync.Mutex
	CBs  []CB
	// asyncOf: channel -> async delay to use for the next subscribe callback of a conn
	asyncMu sync.Mutex
	asyncOf map[string]time.Duration
	opCount atomic.Int64
}

func hashDelay(salt uint64, point string, max int) time.Duration {
	h := fnv.New64a()
	_, _ = h.Write([]byte(point))
	v := (h.Sum64() ^ salt) * 0x9e3779b97f4a7c15
	return time.Duration(v%uint64(max+1)) * time.Millisecond
}

// IsPositioned reports whether channel ch uses history + positioning in this scenario.
func (e *Env) IsPositioned(ch string) bool {
	return e.Opt.Positioned && len(ch) > 0 && ch[len(ch)-1] == 'p'
}

// SubOptions are the subscribe options every subscription to ch uses.
func (e *Env) SubOptions(ch string) centrifuge.SubscribeOptions {
	o := centrifuge.SubscribeOptions{}
	if e.IsPositioned(ch) {
		o.EnablePositioning = true
		o.EnableRecovery = true
	}
	if e.Opt.Presence {
		o.EmitPresence = true
	}
	if e.Opt.JoinLeave {
		o.EmitJoinLeave = true
	}
	return o
}

func (e *Env) serverSubOpts(ch string, clientID string) []centrifuge.SubscribeOption {
	o := e.SubOptions(ch)
	var out []centrifuge.SubscribeOption
	if o.EnablePositioning {
		out = append(out, centrifuge.WithPositioning(true), centrifuge.WithRecovery(true))
	}
	if o.EmitPresence {
		out = append(out, centrifuge.WithEmitPresence(true))
	}
	if o.EmitJoinLeave {
		out = append(out, centrifuge.WithEmitJoinLeave(true))
	}
	if clientID != "" {
		out = append(out, centrifuge.WithSubscribeClient(clientID))
	}
	return out
}

func (e *Env) record(cb CB) {
	cb.Seq = e.W.Seq()
	e.cbMu.Lock()
	e.CBs = append(e.CBs, cb)
	e.cbMu.Unlock()
}

// Callbacks returns a snapshot of the callback log.
func (e *Env) Callbacks() []CB {
	e.cbMu.Lock()
	defer e.cbMu.Unlock()
	return append([]CB(nil), e.CBs...)
}

func (e *Env) connOf(cl *centrifuge.Client) *CConn {
	if v, ok := e.byClient.Load(cl); ok {
		return v.(*CConn)
	}
	return nil
}

// New builds the scenario (node, connections, plans). Call Run afterwards.
func New(c *kit.Case, opt Options) *Env {
	r := c.R
	e := &Env{C: c, W: kit.NewWorld(c), Opt: opt, asyncOf: map[string]time.Duration{}}
	if opt.Users == 0 {
		opt.Users = 2
		e.Opt.Users = 2
	}
	nCh := r.Range(opt.Channels[0], opt.Channels[1])
	for i := 0; i < nCh; i++ {
		name := fmt.Sprintf("ch%d", i)
		if opt.Positioned && r.Bool() {
			name += "p"
		}
		e.Channels = append(e.Channels, name)
	}
	cfg := centrifuge.Config{
		ClientStaleCloseDelay: time.Hour,
	}
	if opt.PresenceInterval > 0 {
		cfg.ClientPresenceUpdateInterval = opt.PresenceInterval
	}
	if opt.TickConcurrency > 0 {
		centrifuge.VerifSetTickConcurrency(&cfg, opt.TickConcurrency, opt.TickConcurrency)
	}
	if opt.BoundaryRace != nil {
		cfg.ClientPresenceUpdateInterval = time.Second
		cfg.ClientChannelPositionCheckDelay = time.Second
	}
	if opt.ExtraConfig != nil {
		opt.ExtraConfig(&cfg)
	}
	e.Node, e.Reg = e.W.NewNode(cfg, func(n *centrifuge.Node) {
		n.OnConnecting(func(_ context.Context, ev centrifuge.ConnectEvent) (centrifuge.ConnectReply, error) {
			user := "u0"
			idx := -1
			if rt, ok := ev.Transport.(*kit.RecTransport); ok {
				if v, ok := e.byTrans.Load(rt); ok {
					cc := v.(*CConn)
					user, idx = cc.User, cc.Idx
				}
			}
			e.record(CB{Conn: idx, Kind: "connecting"})
			return centrifuge.ConnectReply{Credentials: &centrifuge.Credentials{UserID: user, Info: []byte(fmt.Sprintf(`{"c":%d}`, idx))}}, nil
		})
		n.OnConnect(func(cl *centrifuge.Client) {
			cc := e.connOf(cl)
			idx := -1
			if cc != nil {
				idx = cc.Idx
			}
			e.record(CB{Conn: idx, Kind: "connect"})
			cl.OnSubscribe(func(ev centrifuge.SubscribeEvent, cb centrifuge.SubscribeCallback) {
				e.record(CB{Conn: idx, Kind: "subscribe", Channel: ev.Channel})
				rep := centrifuge.SubscribeReply{Options: e.SubOptions(ev.Channel)}
				if cc == nil {
					// the observer: receives join/leave, emits none, no presence
					rep.Options = centrifuge.SubscribeOptions{PushJoinLeave: true}
					if e.IsPositioned(ev.Channel) {
						rep.Options.EnablePositioning = true
					}
				}
				var d time.Duration
				if cc != nil {
					e.asyncMu.Lock()
					key := fmt.Sprintf("%d/%s", idx, ev.Channel)
					d = e.asyncOf[key]
					delete(e.asyncOf, key)
					e.asyncMu.Unlock()
				}
				if d > 0 {
					go func() {
						time.Sleep(d)
						cb(rep, nil)
					}()
					return
				}
				cb(rep, nil)
			})
			cl.OnUnsubscribe(func(ev centrifuge.UnsubscribeEvent) {
				e.record(CB{Conn: idx, Kind: "unsubscribe", Channel: ev.Channel, Code: ev.Code, Server: ev.ServerSide})
			})
			cl.OnDisconnect(func(ev centrifuge.DisconnectEvent) {
				e.record(CB{Conn: idx, Kind: "disconnect", Code: ev.Code})
			})
			cl.OnAlive(func() {
				e.record(CB{Conn: idx, Kind: "alive"})
			})
		})
		if opt.BoundaryRace != nil {
			e.installBoundary(n)
		}
		if opt.ExtraSetup != nil {
			opt.ExtraSetup(e, n)
		}
	})
	kit.SetHook(e.Node, e.hook)

	nConn := r.Range(opt.Conns[0], opt.Conns[1])
	for i := 0; i < nConn; i++ {
		cc := &CConn{Idx: i, User: fmt.Sprintf("u%d", i%e.Opt.Users), SubIDs: map[uint32]string{}, UnsubIDs: map[uint32]string{}, salt: r.Uint64()}
		cc.Proto = kit.Pick(r, []centrifuge.ProtocolType{centrifuge.ProtocolTypeJSON, centrifuge.ProtocolTypeProtobuf})
		cc.Conn = e.W.NewConn(e.Node, kit.TransportOpts{Protocol: cc.Proto})
		e.byClient.Store(cc.Conn.Client, cc)
		e.byTrans.Store(cc.Conn.T, cc)
		nOps := r.Range(opt.OpsPerConn[0], opt.OpsPerConn[1])
		kinds := []string{"sub", "sub", "sub", "unsub", "unsub", "ssub", "sunsub", "nsub", "nunsub"}
		for k := 0; k < nOps; k++ {
			op := Op{Kind: kit.Pick(r, kinds), Channel: kit.Pick(r, e.Channels), Gap: time.Duration(r.Range(0, 20)) * time.Millisecond}
			if op.Kind == "sub" && r.Chance(1, 3) {
				op.Async = time.Duration(r.Range(1, 15)) * time.Millisecond
				if opt.AsyncLong && r.Chance(1, 6) {
					op.Async = time.Duration(5500+r.Range(0, 1000)) * time.Millisecond
				}
			}
			switch op.Kind {
			case "ssub", "sunsub", "nsub", "nunsub":
				op.Lane = 1
			}
			cc.Plan = append(cc.Plan, op)
		}
		if opt.Closes && r.Chance(1, 3) {
			cc.Plan = append(cc.Plan, Op{Kind: kit.Pick(r, []string{"disc-client", "disc-node", "disc-transport"}), Gap: time.Duration(r.Range(0, 25)) * time.Millisecond, Lane: r.Intn(2)})
			cc.calm = true
			for i := range cc.Plan {
				cc.Plan[i].Async = 0
			}
		}
		if (opt.Inject != nil && opt.Inject.Conn == i) || ((opt.CalmConn0 || opt.BoundaryRace != nil) && i == 0) {
			cc.calm = true
			for k := range cc.Plan {
				cc.Plan[k].Async = 0
			}
		}
		e.Conns = append(e.Conns, cc)
	}
	return e
}

func (e *Env) hook(point string, cl *centrifuge.Client, ch string) {
	if cl == nil {
		return
	}
	cc := e.connOf(cl)
	if cc == nil {
		return
	}
	if inj := e.Opt.Inject; inj != nil && inj.Point == point && inj.Conn == cc.Idx && inj.fired.CompareAndSwap(false, true) {
		until := func() bool { return centrifuge.VerifClient(cl).Status == 3 }
		if inj.Do != nil {
			go inj.Do(e, cc, ch)
			if inj.Until != nil {
				until = func() bool { return inj.Until(e, cc, ch) }
			}
		} else {
			go e.do(cc, Op{Kind: inj.Cause})
		}
		if kit.SpinUntil(until, 200000) {
			inj.Fired.Store(true)
		}
		return
	}
	if cc.calm {
		return
	}
	positioned := e.IsPositioned(ch)
	switch point {
	case "sub.afterAddSub", "sub.afterRecover", "connect.afterAddClient":
		time.Sleep(hashDelay(cc.salt, point+ch, 6))
	case "sub.beforeReply", "sub.afterReply", "sub.afterCommit", "ssub.beforeCommit", "ssub.afterCommit":
		if positioned {
			kit.Yield(50)
			return
		}
		time.Sleep(hashDelay(cc.salt, point+ch, 6))
	case "unsub.afterDelete", "unsub.beforeHubRemove":
		if centrifuge.VerifClient(cl).Status == 3 {
			return
		}
		time.Sleep(hashDelay(cc.salt, point+ch, 6))
	}
}

// Run executes every plan (two lanes per connection) and then settles: waits past
// the unsubscribe wait-gate timeout and until the bubble is quiescent.
func (e *Env) Run() {
	if e.Opt.Observer {
		e.Observer = e.W.NewConn(e.Node, kit.TransportOpts{})
		e.Observer.Connect(nil)
		for _, ch := range e.Channels {
			e.Observer.Subscribe(&protocol.SubscribeRequest{Channel: ch})
		}
		e.W.Settle()
	}
	var wg sync.WaitGroup
	for _, cc := range e.Conns {
		cc := cc
		cc.Conn.Connect(nil)
		for lane := 0; lane < 2; lane++ {
			lane := lane
			wg.Add(1)
			go func() {
				defer wg.Done()
				for _, op := range cc.Plan {
					if op.Lane != lane {
						continue
					}
					time.Sleep(op.Gap)
					e.do(cc, op)
				}
			}()
		}
	}
	wg.Wait()
	e.SettleLong()
}

// SettleLong advances virtual time past every gate used by the library on these
// paths (5s unsubscribe wait-gate, 1s deferred broker unsubscribe) and settles.
func (e *Env) SettleLong() {
	time.Sleep(8 * time.Second)
	e.W.Settle()
}

func (e *Env) do(cc *CConn, op Op) {
	e.opCount.Add(1)
	switch op.Kind {
	case "sub":
		if op.Async > 0 {
			e.asyncMu.Lock()
			e.asyncOf[fmt.Sprintf("%d/%s", cc.Idx, op.Channel)] = op.Async
			e.asyncMu.Unlock()
		}
		id := cc.Conn.NextID()
		cc.mu.Lock()
		cc.SubIDs[id] = op.Channel
		cc.mu.Unlock()
		cc.Conn.Do(&protocol.Command{Id: id, Subscribe: &protocol.SubscribeRequest{Channel: op.Channel}})
	case "unsub":
		id := cc.Conn.NextID()
		cc.mu.Lock()
		cc.UnsubIDs[id] = op.Channel
		cc.mu.Unlock()
		cc.Conn.Do(&protocol.Command{Id: id, Unsubscribe: &protocol.UnsubscribeRequest{Channel: op.Channel}})
	case "ssub":
		_ = cc.Conn.Client.Subscribe(op.Channel, e.serverSubOpts(op.Channel, "")...)
	case "sunsub":
		cc.Conn.Client.Unsubscribe(op.Channel)
	case "nsub":
		_ = e.Node.Subscribe(cc.User, op.Channel, e.serverSubOpts(op.Channel, cc.Conn.Client.ID())...)
	case "nunsub":
		_ = e.Node.Unsubscribe(cc.User, op.Channel, centrifuge.WithUnsubscribeClient(cc.Conn.Client.ID()))
	case "disc-client":
		cc.Conn.Client.Disconnect(centrifuge.DisconnectForceNoReconnect)
	case "disc-node":
		_ = e.Node.Disconnect(cc.User, centrifuge.WithDisconnectClient(cc.Conn.Client.ID()))
	case "disc-transport":
		_ = cc.Conn.CloseFn()
	case "write-error":
		cc.Conn.T.FailFromNow()
		_ = cc.Conn.Client.Send([]byte(`{"x":1}`))
	}
}

// Ops is the number of operations executed.
func (e *Env) Ops() int { return int(e.opCount.Load()) }

// Closed reports whether the connection's transport was closed.
func (cc *CConn) Closed() bool {
	closed, _, _ := cc.Conn.T.Closed()
	return closed
}

// Finish closes every connection and shuts the node down.
func (e *Env) Finish() {
	for _, cc := range e.Conns {
		_ = cc.Conn.CloseFn()
	}
	if e.Observer != nil {
		_ = e.Observer.CloseFn()
	}
	e.W.Shutdown()
}
