package churn

import (
	"context"
	"sync/atomic"

	"github.com/centrifugal/centrifuge"
	"github.com/centrifugal/centrifuge/verifx/kit"
)

// BoundaryRace runs an operation of connection 0 to completion at the moment the
// library calls out to its broker or presence manager (the places where a real
// deployment spends a network round trip): the n-th call at Site that concerns a
// channel connection 0 currently has in its bookkeeping launches Op on another
// goroutine and the calling goroutine busy-waits (bounded) until Op is done, then
// carries on. This is how "an unsubscribe lands while a position check's history
// request is in flight" is produced without waiting for luck.
type BoundaryRace struct {
	Site string // broker.History broker.Subscribe broker.Unsubscribe broker.PublishJoin broker.PublishLeave presence.Add presence.Remove
	Op   string // unsub | sub | close
	Nth  int    // 1-based
	n    atomic.Int32
	// Fired is set when the race was launched, Done when the operation finished
	// within the busy-wait.
	Fired atomic.Bool
	Done  atomic.Bool
}

// Sites and Ops enumerate the grid.
var Sites = []string{"broker.History", "broker.Subscribe", "broker.Unsubscribe", "broker.PublishJoin", "broker.PublishLeave", "presence.Add", "presence.Remove"}
var RaceOps = []string{"unsub", "sub", "close"}

func (e *Env) boundary(site, ch string) {
	br := e.Opt.BoundaryRace
	if br == nil || br.Site != site || len(e.Conns) == 0 || br.Fired.Load() {
		return
	}
	cc := e.Conns[0]
	cl := cc.Conn.Client
	v := centrifuge.VerifClient(cl)
	if v.Status != 2 { // only while connected
		return
	}
	if _, has := v.Channels[ch]; !has && br.Op != "sub" {
		return
	}
	if int(br.n.Add(1)) != br.Nth {
		return
	}
	br.Fired.Store(true)
	var done atomic.Bool
	go func() {
		switch br.Op {
		case "unsub":
			cl.Unsubscribe(ch)
		case "sub":
			_ = cl.Subscribe(ch, e.serverSubOpts(ch, "")...)
		case "close":
			_ = cc.Conn.CloseFn()
		}
		done.Store(true)
	}()
	if kit.SpinUntil(done.Load, 20000) {
		br.Done.Store(true)
	}
}

// raceBroker wraps the real memory broker.
type raceBroker struct {
	*centrifuge.MemoryBroker
	e *Env
}

func (b *raceBroker) History(ch string, opts centrifuge.HistoryOptions) ([]*centrifuge.Publication, centrifuge.StreamPosition, error) {
	b.e.boundary("broker.History", ch)
	return b.MemoryBroker.History(ch, opts)
}
func (b *raceBroker) Subscribe(chs ...string) error {
	for _, ch := range chs {
		b.e.boundary("broker.Subscribe", ch)
	}
	return b.MemoryBroker.Subscribe(chs...)
}
func (b *raceBroker) Unsubscribe(chs ...string) error {
	for _, ch := range chs {
		b.e.boundary("broker.Unsubscribe", ch)
	}
	return b.MemoryBroker.Unsubscribe(chs...)
}
func (b *raceBroker) PublishJoin(ch string, info *centrifuge.ClientInfo) error {
	b.e.boundary("broker.PublishJoin", ch)
	return b.MemoryBroker.PublishJoin(ch, info)
}
func (b *raceBroker) PublishLeave(ch string, info *centrifuge.ClientInfo) error {
	b.e.boundary("broker.PublishLeave", ch)
	return b.MemoryBroker.PublishLeave(ch, info)
}
func (b *raceBroker) Close(ctx context.Context) error { return b.MemoryBroker.Close(ctx) }

// racePresence wraps the real memory presence manager.
type racePresence struct {
	centrifuge.PresenceManager
	e *Env
}

func (p *racePresence) AddPresence(ch string, clientID string, info *centrifuge.ClientInfo) error {
	if len(p.e.Conns) > 0 && p.e.Conns[0].Conn.Client.ID() == clientID {
		p.e.boundary("presence.Add", ch)
	}
	return p.PresenceManager.AddPresence(ch, clientID, info)
}
func (p *racePresence) RemovePresence(ch string, clientID string, userID string) error {
	if len(p.e.Conns) > 0 && p.e.Conns[0].Conn.Client.ID() == clientID {
		p.e.boundary("presence.Remove", ch)
	}
	return p.PresenceManager.RemovePresence(ch, clientID, userID)
}

func (e *Env) installBoundary(n *centrifuge.Node) {
	mb, err := centrifuge.NewMemoryBroker(n, centrifuge.MemoryBrokerConfig{})
	if err != nil {
		panic(err)
	}
	n.SetBroker(&raceBroker{MemoryBroker: mb, e: e})
	pm, err := centrifuge.NewMemoryPresenceManager(n, centrifuge.MemoryPresenceManagerConfig{})
	if err != nil {
		panic(err)
	}
	n.SetPresenceManager(&racePresence{PresenceManager: pm, e: e})
}
