package wsmodel

import (
	"bufio"
	"bytes"
	"errors"
	"io"
	"net"
	"net/http"
	"os"
	"sync"
	"sync/atomic"
	"time"
)

type memAddr string

func (a memAddr) Network() string { return "mem" }
func (a memAddr) String() string  { return string(a) }

// ScriptConn is a net.Conn whose peer is a fixed byte script: Read hands out
// In in chunks (sizes from Chunk, if set) and then reports io.EOF; Write appends to Out.
// It needs no goroutines, so a whole case runs deterministically on one goroutine.
type ScriptConn struct {
	In     []byte
	Out    bytes.Buffer
	Chunk  func() int // max bytes handed out by the next Read (<=0: no bound)
	Closed bool
	pos    int
}

func (c *ScriptConn) Read(p []byte) (int, error) {
	if c.Closed {
		return 0, io.ErrClosedPipe
	}
	if c.pos >= len(c.In) {
		return 0, io.EOF
	}
	n := len(c.In) - c.pos
	if n > len(p) {
		n = len(p)
	}
	if c.Chunk != nil {
		if k := c.Chunk(); k > 0 && k < n {
			n = k
		}
	}
	copy(p, c.In[c.pos:c.pos+n])
	c.pos += n
	return n, nil
}
func (c *ScriptConn) Write(p []byte) (int, error) {
	if c.Closed {
		return 0, io.ErrClosedPipe
	}
	return c.Out.Write(p)
}
func (c *ScriptConn) Close() error                     { c.Closed = true; return nil }
func (c *ScriptConn) LocalAddr() net.Addr              { return memAddr("script-local") }
func (c *ScriptConn) RemoteAddr() net.Addr             { return memAddr("script-remote") }
func (c *ScriptConn) SetDeadline(time.Time) error      { return nil }
func (c *ScriptConn) SetReadDeadline(time.Time) error  { return nil }
func (c *ScriptConn) SetWriteDeadline(time.Time) error { return nil }

// Consumed returns how many script bytes the reader has taken so far.
func (c *ScriptConn) Consumed() int { return c.pos }

// HijackRW is an http.ResponseWriter + http.Hijacker over an arbitrary net.Conn,
// so that the real Upgrader can be driven without an http.Server.
type HijackRW struct {
	Conn     net.Conn
	BRW      *bufio.ReadWriter
	Hdr      http.Header
	Status   int
	Body     bytes.Buffer
	Hijacked bool
}

func NewHijackRW(conn net.Conn, br *bufio.Reader, readSize, writeSize int) *HijackRW {
	if br == nil {
		br = bufio.NewReaderSize(conn, readSize)
	}
	return &HijackRW{Conn: conn, Hdr: http.Header{}, BRW: bufio.NewReadWriter(br, bufio.NewWriterSize(conn, writeSize))}
}
func (w *HijackRW) Header() http.Header { return w.Hdr }
func (w *HijackRW) WriteHeader(code int) {
	if w.Status == 0 {
		w.Status = code
	}
}
func (w *HijackRW) Write(p []byte) (int, error) {
	if w.Status == 0 {
		w.Status = 200
	}
	return w.Body.Write(p)
}
func (w *HijackRW) Hijack() (net.Conn, *bufio.ReadWriter, error) {
	if w.Hijacked {
		return nil, nil, errors.New("already hijacked")
	}
	w.Hijacked = true
	return w.Conn, w.BRW, nil
}

// ---------------------------------------------------------------------------------------------
// buffered in-memory duplex pipe with a wire tap

type half struct {
	mu     sync.Mutex
	cond   *sync.Cond
	buf    []byte
	tap    []byte
	wclose bool // writer side closed: reader gets EOF after draining
	rclose bool // reader side closed
}

func newHalf() *half {
	h := &half{}
	h.cond = sync.NewCond(&h.mu)
	return h
}

// PipeConn is one end of Pipe. Writes never block (unbounded buffer); reads block
// until data, EOF, Close or the read deadline.
type PipeConn struct {
	in, out  *half
	name     string
	dmu      sync.Mutex
	deadline time.Time
	timer    *time.Timer
	// MaxRead bounds the size of a single Read (0 = unbounded); set before use.
	MaxRead func() int
	// NonBlocking makes Read fail with ErrWouldBlock instead of waiting when no data
	// is buffered (for strictly sequential scenarios, where waiting can never help).
	NonBlocking atomic.Bool
}

// ErrWouldBlock is returned by a NonBlocking PipeConn when no data is buffered.
var ErrWouldBlock = errors.New("wsmodel: no data buffered (peer wrote nothing more)")

// Pipe returns two connected ends (a is conventionally the client).
func Pipe() (a, b *PipeConn) {
	ab, ba := newHalf(), newHalf()
	a = &PipeConn{in: ba, out: ab, name: "a"}
	b = &PipeConn{in: ab, out: ba, name: "b"}
	return
}

func (c *PipeConn) Read(p []byte) (int, error) {
	h := c.in
	h.mu.Lock()
	defer h.mu.Unlock()
	for {
		if h.rclose {
			return 0, io.ErrClosedPipe
		}
		if len(h.buf) > 0 {
			n := len(h.buf)
			if n > len(p) {
				n = len(p)
			}
			if c.MaxRead != nil {
				if k := c.MaxRead(); k > 0 && k < n {
					n = k
				}
			}
			copy(p, h.buf[:n])
			h.buf = h.buf[n:]
			return n, nil
		}
		if h.wclose {
			return 0, io.EOF
		}
		if c.NonBlocking.Load() {
			return 0, ErrWouldBlock
		}
		c.dmu.Lock()
		dl := c.deadline
		c.dmu.Unlock()
		if !dl.IsZero() && !time.Now().Before(dl) {
			return 0, os.ErrDeadlineExceeded
		}
		h.cond.Wait()
	}
}

func (c *PipeConn) Write(p []byte) (int, error) {
	h := c.out
	h.mu.Lock()
	defer h.mu.Unlock()
	if h.wclose {
		return 0, io.ErrClosedPipe
	}
	h.tap = append(h.tap, p...)
	if h.rclose {
		// peer is gone: bytes are dropped like on a closed socket (still tapped)
		return len(p), nil
	}
	h.buf = append(h.buf, p...)
	h.cond.Broadcast()
	return len(p), nil
}

func (c *PipeConn) Close() error {
	c.out.mu.Lock()
	c.out.wclose = true
	c.out.cond.Broadcast()
	c.out.mu.Unlock()
	c.in.mu.Lock()
	c.in.rclose = true
	c.in.cond.Broadcast()
	c.in.mu.Unlock()
	c.dmu.Lock()
	if c.timer != nil {
		c.timer.Stop()
	}
	c.dmu.Unlock()
	return nil
}

// CloseWrite half-closes: the peer reads EOF after draining.
func (c *PipeConn) CloseWrite() {
	c.out.mu.Lock()
	c.out.wclose = true
	c.out.cond.Broadcast()
	c.out.mu.Unlock()
}

func (c *PipeConn) LocalAddr() net.Addr  { return memAddr("pipe-" + c.name) }
func (c *PipeConn) RemoteAddr() net.Addr { return memAddr("pipe-peer-of-" + c.name) }
func (c *PipeConn) SetDeadline(t time.Time) error {
	return c.SetReadDeadline(t)
}
func (c *PipeConn) SetWriteDeadline(time.Time) error { return nil }
func (c *PipeConn) SetReadDeadline(t time.Time) error {
	c.dmu.Lock()
	c.deadline = t
	if c.timer != nil {
		c.timer.Stop()
		c.timer = nil
	}
	if !t.IsZero() {
		d := time.Until(t)
		if d < 0 {
			d = 0
		}
		h := c.in
		c.timer = time.AfterFunc(d, func() {
			h.mu.Lock()
			h.cond.Broadcast()
			h.mu.Unlock()
		})
	}
	c.dmu.Unlock()
	// wake a blocked reader so that it re-evaluates the deadline
	c.in.mu.Lock()
	c.in.cond.Broadcast()
	c.in.mu.Unlock()
	return nil
}

// Sent returns a copy of every byte this end has written so far (the wire tap).
func (c *PipeConn) Sent() []byte {
	c.out.mu.Lock()
	defer c.out.mu.Unlock()
	return append([]byte(nil), c.out.tap...)
}

// Listener is an in-memory net.Listener; Dial returns the client end of a fresh Pipe.
type Listener struct {
	ch     chan net.Conn
	once   sync.Once
	closed chan struct{}
}

func NewListener() *Listener {
	return &Listener{ch: make(chan net.Conn, 64), closed: make(chan struct{})}
}
func (l *Listener) Accept() (net.Conn, error) {
	select {
	case c := <-l.ch:
		return c, nil
	case <-l.closed:
		return nil, net.ErrClosed
	}
}
func (l *Listener) Close() error   { l.once.Do(func() { close(l.closed) }); return nil }
func (l *Listener) Addr() net.Addr { return memAddr("mem-listener") }
func (l *Listener) Dial() (*PipeConn, error) {
	a, b := Pipe()
	select {
	case l.ch <- b:
		return a, nil
	case <-l.closed:
		return nil, net.ErrClosed
	}
}
