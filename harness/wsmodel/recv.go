package wsmodel

import (
	"bytes"
	"compress/flate"
	"encoding/binary"
	"io"
	"sync"
	"unicode/utf8"
)

// RecvConfig describes the receiving endpoint the model stands for.
type RecvConfig struct {
	Server        bool  // receiver is the server: every frame MUST be masked (RFC 6455 5.1); a client receiver requires unmasked frames
	Deflate       bool  // permessage-deflate was negotiated (RFC 7692)
	ReadLimit     int64 // limit on the wire payload bytes of one data message (0 = none)
	InflatedLimit int64 // limit on the inflated size of one compressed message (0 = none)

	// Knobs for behaviour the RFCs leave to the receiver; a check accepts the
	// observed behaviour when it matches the model under any setting of these.
	RejectNonMinimalLength   bool // 5.2 "minimal number of bytes MUST be used" is addressed to the sender
	RejectUnspecifiedCodes   bool // close codes of class CloseCodeUnspecified
	RejectInvalidUTF8InTexts bool // 8.1; many libraries leave text validation to the application

	// IgnoreRule names one rule (a FailKind) the modelled receiver does NOT enforce.
	// Checks use it to classify an observed deviation ("behaves exactly like a
	// receiver lacking rule X").
	IgnoreRule string
}

// Msg is one data message.
type Msg struct {
	Type       byte // OpText or OpBinary
	Data       []byte
	Compressed bool
	Fragments  int
	// EndsBeforeLastFragment: compressed, fragmented, and the DEFLATE stream is
	// complete (BFINAL block) before the payload of the last fragment.
	EndsBeforeLastFragment bool
}

// EndKind says how the model's processing of a byte stream ended.
type EndKind int

const (
	EndEOF       EndKind = iota // stream exhausted at a frame boundary
	EndTruncated                // stream ends inside a frame
	EndClose                    // a valid close frame was received
	EndFail                     // the receiver MUST fail the connection (or must at least stop with an error)
)

// Control is a received ping or pong.
type Control struct {
	Opcode  byte
	Payload []byte
	// AfterMsgs is the number of data messages completed before this frame.
	AfterMsgs int
}

// Outcome is what a conforming receiver extracts from a byte stream.
type Outcome struct {
	Msgs     []Msg
	Controls []Control
	End      EndKind
	Frames   int // frames fully processed before the end

	// EndClose
	CloseCode   int // 1005 when the close frame had no body
	CloseReason string

	// EndFail
	FailKind  string // stable name of the violated rule
	FailPos   int    // offset just behind the offending frame (len(stream) when that frame is incomplete)
	FailCodes []int  // status codes acceptable in the close frame the receiver sends; nil = the RFCs do not determine a close frame (only "stop with an error")
	// Ambiguous: the failure (or close) happened while a compressed, fragmented
	// message was partially received whose prefix already ends / is corrupt / is over
	// the limit, or the offending frame is also truncated: implementations may
	// legitimately notice either condition first. Only "no further message and an
	// error" can be demanded.
	Ambiguous bool

	// A fragmented message that was still incomplete at the end (for readers that
	// hand out message data before the final fragment arrived).
	PendingType       byte
	PendingCompressed bool
	PendingData       []byte // wire payload received so far (not inflated)
	HasPending        bool

	// statistics for coverage counters
	NonMinimal   int
	InvalidUTF8  int
	Unspecified  int
	CompressedIn int
}

// flate readers and writers are very expensive to allocate under the race
// detector (~250 ms per flate.NewWriter), so the model keeps them on plain free
// lists (sync.Pool deliberately drops entries under -race). Plumbing, not protocol logic.
type freeList struct {
	mu sync.Mutex
	xs []any
}

func (f *freeList) Get() any {
	f.mu.Lock()
	defer f.mu.Unlock()
	if n := len(f.xs); n > 0 {
		x := f.xs[n-1]
		f.xs = f.xs[:n-1]
		return x
	}
	return nil
}

func (f *freeList) Put(x any) {
	f.mu.Lock()
	f.xs = append(f.xs, x)
	f.mu.Unlock()
}

var inflaters freeList
var deflaters [12]freeList

func getInflater(r io.Reader) io.ReadCloser {
	if v := inflaters.Get(); v != nil {
		_ = v.(flate.Resetter).Reset(r, nil)
		return v.(io.ReadCloser)
	}
	return flate.NewReader(r)
}

const deflateTail = "\x00\x00\xff\xff"

// Inflate decompresses one permessage-deflate message payload per RFC 7692
// section 7.2.2: append 0x00 0x00 0xff 0xff and inflate. A DEFLATE block with BFINAL
// set ends the message data (section 7.2.3.5 allows senders to produce such blocks).
// limit > 0 stops after limit+1 bytes and reports over=true.
func Inflate(payload []byte, limit int64) (data []byte, over bool, err error) {
	// The extra final empty stored block lets the inflater terminate instead of
	// asking for more input after the sync marker.
	fr := getInflater(io.MultiReader(bytes.NewReader(payload), bytes.NewReader([]byte(deflateTail+"\x01\x00\x00\xff\xff"))))
	defer inflaters.Put(fr)
	var buf bytes.Buffer
	if limit > 0 {
		_, err = io.CopyN(&buf, fr, limit+1)
		if err == io.EOF {
			err = nil
		}
		if int64(buf.Len()) > limit {
			return buf.Bytes(), true, nil
		}
		return buf.Bytes(), false, err
	}
	_, err = io.Copy(&buf, fr)
	return buf.Bytes(), false, err
}

// prefixState classifies a partial compressed message (no tail appended).
// clean means: the inflater consumed everything, wants more input, and stayed within limit.
func prefixClean(partial []byte, limit int64) bool {
	fr := getInflater(bytes.NewReader(partial))
	defer inflaters.Put(fr)
	var n int64
	buf := make([]byte, 4096)
	for {
		k, err := fr.Read(buf)
		n += int64(k)
		if limit > 0 && n > limit {
			return false
		}
		if err == io.ErrUnexpectedEOF {
			return true
		}
		if err != nil { // io.EOF (BFINAL reached) or corrupt
			return false
		}
	}
}

// deflateEnded reports whether b contains a complete DEFLATE stream (final block seen).
func deflateEnded(b []byte) bool {
	fr := getInflater(bytes.NewReader(b))
	defer inflaters.Put(fr)
	_, err := io.Copy(io.Discard, fr)
	return err == nil
}

// Deflate compresses data into a permessage-deflate message payload.
// mode 0: one sync flush at the end (tail stripped); mode 1: additional sync
// flushes inside (embedded 00 00 ff ff markers stay); mode 2: stream finished with
// a BFINAL block followed by a 0x00 octet (RFC 7692 section 7.2.3.5).
func Deflate(data []byte, level int, mode int, cuts []int) []byte {
	var buf bytes.Buffer
	var fw *flate.Writer
	if v := deflaters[level+2].Get(); v != nil {
		fw = v.(*flate.Writer)
		fw.Reset(&buf)
	} else {
		var err error
		fw, err = flate.NewWriter(&buf, level)
		if err != nil {
			panic(err)
		}
	}
	defer deflaters[level+2].Put(fw)
	switch mode {
	case 1:
		prev := 0
		for _, c := range cuts {
			if c <= prev || c >= len(data) {
				continue
			}
			_, _ = fw.Write(data[prev:c])
			_ = fw.Flush()
			prev = c
		}
		_, _ = fw.Write(data[prev:])
		_ = fw.Flush()
	case 2:
		_, _ = fw.Write(data)
		_ = fw.Close()
		return append(buf.Bytes(), 0x00)
	default:
		_, _ = fw.Write(data)
		_ = fw.Flush()
	}
	out := buf.Bytes()
	if len(out) >= 4 && string(out[len(out)-4:]) == deflateTail {
		out = out[:len(out)-4]
	}
	return out
}

// Decode runs the reference receiver over stream.
func Decode(stream []byte, cfg RecvConfig) Outcome {
	return decode(stream, cfg)
}

func decode(stream []byte, cfg RecvConfig) (out Outcome) {
	pos := 0
	inMsg := false
	var cur Msg
	var curBuf []byte
	var wire int64

	lastStart := 0 // offset in curBuf of the most recent fragment
	ctrlInMsg := 0 // control frames interleaved in the current message
	defer func() {
		if inMsg {
			out.HasPending, out.PendingType, out.PendingCompressed = true, cur.Type, cur.Compressed
			out.PendingData = append([]byte(nil), curBuf...)
		}
	}()
	// truncated ends the stream inside a frame. part is the unmasked part of a data
	// frame's payload that did arrive.
	truncated := func(part []byte) {
		out.End = EndTruncated
		if inMsg && cur.Compressed && !prefixClean(append(append([]byte(nil), curBuf...), part...), cfg.InflatedLimit) {
			out.Ambiguous = true // a lazily inflating reader may fail on the data before it notices the truncation
		}
	}
	frameEnd := 0 // offset behind the frame being judged (len(stream) if incomplete)
	fail := func(kind string, codes ...int) {
		out.End = EndFail
		out.FailKind = kind
		out.FailCodes = codes
		out.FailPos = frameEnd
		if inMsg && cur.Compressed && !prefixClean(curBuf, cfg.InflatedLimit) {
			out.Ambiguous = true
		}
	}

	for {
		rest := stream[pos:]
		if len(rest) == 0 {
			truncated(nil)
			out.End = EndEOF
			return out
		}
		h, ok := ParseHeader2(rest)
		if !ok {
			truncated(nil)
			return out
		}
		// --- rules decidable from the first two octets -------------------------------
		kind := ""
		set := func(k string) {
			if kind == "" && k != cfg.IgnoreRule {
				kind = k
			}
		}
		ctrl := IsControl(h.Opcode)
		if h.RSV2 {
			set("rsv2-set") // 5.2: MUST be 0 unless an extension defines it
		}
		if h.RSV3 {
			set("rsv3-set")
		}
		switch h.Opcode {
		case OpCont:
			if !inMsg {
				set("continuation-without-message") // 5.4
			}
		case OpText, OpBinary:
			if inMsg {
				set("data-frame-inside-fragmented-message") // 5.4
			}
		case OpClose, OpPing, OpPong:
			if h.Len7 > 125 {
				set("control-frame-too-long") // 5.5
			}
			if !h.Fin {
				set("control-frame-fragmented") // 5.5
			}
		default:
			set("reserved-opcode") // 5.2
		}
		if h.Masked != cfg.Server {
			if cfg.Server {
				set("unmasked-client-frame") // 5.1
			} else {
				set("masked-server-frame") // 5.1
			}
		}
		if h.RSV1 {
			switch {
			case !cfg.Deflate:
				set("rsv1-set-without-extension") // 5.2
			case ctrl:
				set("rsv1-on-control-frame") // RFC 7692 section 6
			case h.Opcode == OpCont:
				set("rsv1-on-continuation-frame") // RFC 7692 section 6
			}
		}
		f, n, _, declLen, err := ParseFrame(rest)
		frameEnd = len(stream)
		if err == nil {
			frameEnd = pos + n
		}
		if kind != "" {
			fail(kind, 1002)
			if err != nil {
				out.Ambiguous = true // also truncated / over-long: either may be noticed first
			}
			return out
		}
		if err == ErrLenMSB {
			// 5.2: "the most significant bit MUST be 0". No frame can follow; which status
			// the receiver uses is not specified.
			fail("length-msb-set")
			return out
		}
		extNeed := 0
		switch h.Len7 {
		case 126:
			extNeed = 2
		case 127:
			extNeed = 8
		}
		if len(rest) >= 2+extNeed && f.LenBits != MinimalLenBits(declLen) {
			out.NonMinimal++
			if cfg.RejectNonMinimalLength {
				fail("non-minimal-length", 1002)
				if err != nil {
					out.Ambiguous = true
				}
				return out
			}
		}
		// header (length + mask key) complete?
		hdrComplete := err == nil
		if err == ErrShort {
			need := 2 + extNeed
			if h.Masked {
				need += 4
			}
			hdrComplete = len(rest) >= need
		}
		if !hdrComplete {
			truncated(nil)
			return out
		}
		if !ctrl {
			wire += int64(declLen)
			if cfg.ReadLimit > 0 && (wire > cfg.ReadLimit || wire < 0) && cfg.IgnoreRule != "read-limit-exceeded" {
				fail("read-limit-exceeded", 1009)
				if err != nil {
					// The frame is also cut short. A reader that counts bytes as they arrive notices
					// the truncation first, unless the bytes that did arrive already exceed the limit.
					hl := 2 + extNeed
					if h.Masked {
						hl += 4
					}
					arrived := (wire - int64(declLen)) + int64(len(rest)-hl)
					if arrived <= cfg.ReadLimit {
						out.Ambiguous = true
					}
				}
				return out
			}
		}
		if err != nil { // payload cut
			hl := 2 + extNeed
			if h.Masked {
				hl += 4
			}
			part := append([]byte(nil), rest[hl:]...)
			if h.Masked {
				for i := range part {
					part[i] ^= f.Key[i&3]
				}
			}
			switch {
			case ctrl:
				truncated(nil)
			case h.Opcode == OpCont:
				truncated(part)
				curBuf = append(curBuf, part...)
			default: // first frame of a message
				out.End = EndTruncated
				if h.RSV1 && !prefixClean(part, cfg.InflatedLimit) {
					out.Ambiguous = true
				}
				inMsg = true
				cur = Msg{Type: h.Opcode, Compressed: h.RSV1}
				curBuf = part
			}
			return out
		}
		pos += n
		out.Frames++

		switch f.Opcode {
		case OpPing, OpPong:
			if inMsg {
				ctrlInMsg++
			}
			out.Controls = append(out.Controls, Control{Opcode: f.Opcode, Payload: f.Payload, AfterMsgs: len(out.Msgs)})
			continue
		case OpClose:
			p := f.Payload
			switch {
			case len(p) == 0:
				out.CloseCode = 1005
			case len(p) == 1 && cfg.IgnoreRule == "close-payload-one-byte":
				out.CloseCode = 1005
			case len(p) == 1:
				// 5.5.1: "If there is a body, the first two bytes of the body MUST be a 2-byte unsigned integer"
				fail("close-payload-one-byte", 1002)
				return out
			default:
				code := int(binary.BigEndian.Uint16(p))
				switch ClassifyCloseCode(code) {
				case CloseCodeForbidden:
					if cfg.IgnoreRule != "close-code-forbidden" {
						fail("close-code-forbidden", 1002)
						return out
					}
				case CloseCodeUnspecified:
					out.Unspecified++
					if cfg.RejectUnspecifiedCodes {
						fail("close-code-unspecified", 1002)
						return out
					}
				}
				if !utf8.Valid(p[2:]) && cfg.IgnoreRule != "close-reason-invalid-utf8" {
					// 5.5.1 (reason is UTF-8) + 8.1 (MUST fail the connection); 1007 is the
					// status the RFC suggests, 1002 is what most implementations send.
					fail("close-reason-invalid-utf8", 1002, 1007)
					return out
				}
				out.CloseCode = code
				out.CloseReason = string(p[2:])
			}
			out.End = EndClose
			if inMsg && cur.Compressed && !prefixClean(curBuf, cfg.InflatedLimit) {
				out.Ambiguous = true
			}
			return out
		case OpText, OpBinary:
			inMsg = true
			cur = Msg{Type: f.Opcode, Compressed: f.RSV1}
			curBuf = curBuf[:0]
			ctrlInMsg = 0
		}
		cur.Fragments++
		lastStart = len(curBuf)
		curBuf = append(curBuf, f.Payload...)
		if !f.Fin {
			continue
		}
		// message complete
		inMsg = false
		wire = 0
		data := append([]byte(nil), curBuf...)
		if cur.Compressed {
			out.CompressedIn++
			lim := cfg.InflatedLimit
			if cfg.IgnoreRule == "inflated-limit-exceeded" {
				lim = 0
			}
			d, over, ierr := Inflate(curBuf, lim)
			if over || ierr != nil {
				if over {
					fail("inflated-limit-exceeded", 1009)
				} else {
					fail("deflate-stream-corrupt") // RFC 7692 does not name a status code
				}
				if ctrlInMsg > 0 {
					// a reader inflating on the fly fails before it has seen the control
					// frames interleaved with the later fragments
					out.Ambiguous = true
				}
				return out
			}
			data = d
			if cur.Fragments > 1 {
				cur.EndsBeforeLastFragment = deflateEnded(curBuf[:lastStart])
			}
		}
		if cur.Type == OpText && !utf8.Valid(data) {
			out.InvalidUTF8++
			if cfg.RejectInvalidUTF8InTexts {
				fail("text-invalid-utf8", 1007, 1002)
				return out
			}
		}
		cur.Data = data
		out.Msgs = append(out.Msgs, cur)
	}
}
