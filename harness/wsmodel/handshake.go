package wsmodel

import (
	"bufio"
	"bytes"
	"crypto/sha1"
	"encoding/base64"
	"errors"
	"io"
	"net/http"
	"strings"
)

// AcceptKey computes Sec-WebSocket-Accept per RFC 6455 section 4.2.2 item 5.4.
func AcceptKey(key string) string {
	h := sha1.Sum([]byte(key + "258EAFA5-E914-47DA-95CA-C5AB0DC85B11"))
	return base64.StdEncoding.EncodeToString(h[:])
}

// SplitResponse splits b into the HTTP response head (parsed) and the bytes after
// the blank line.
func SplitResponse(b []byte) (*http.Response, []byte, error) {
	i := bytes.Index(b, []byte("\r\n\r\n"))
	if i < 0 {
		return nil, nil, errors.New("no complete HTTP response head")
	}
	resp, err := http.ReadResponse(bufio.NewReader(bytes.NewReader(b[:i+4])), nil)
	if err != nil {
		return nil, nil, err
	}
	return resp, b[i+4:], nil
}

// HeaderTokens splits all values of a comma-separated list header into
// lower-cased, trimmed elements (empty elements dropped).
func HeaderTokens(h http.Header, name string) []string {
	var out []string
	for _, v := range h.Values(name) {
		for _, t := range strings.Split(v, ",") {
			t = strings.TrimSpace(t)
			if t != "" {
				out = append(out, strings.ToLower(t))
			}
		}
	}
	return out
}

// ServerFrames parses a server-to-client (or, with masked=true, client-to-server)
// byte stream into frames, returning the frames parsed and the unparsed remainder.
func ParseAll(b []byte) (frames []Frame, rest []byte, err error) {
	for len(b) > 0 {
		f, n, _, _, perr := ParseFrame(b)
		if perr != nil {
			return frames, b, perr
		}
		frames = append(frames, f)
		b = b[n:]
	}
	return frames, nil, nil
}

// ReadFrame reads exactly one frame from a stream (blocking according to the
// underlying connection's deadline). maxPayload bounds the accepted length.
func ReadFrame(br *bufio.Reader, maxPayload uint64) (Frame, error) {
	var f Frame
	var hdr [14]byte
	if _, err := io.ReadFull(br, hdr[:2]); err != nil {
		return f, err
	}
	n := 2
	switch hdr[1] & 0x7f {
	case 126:
		if _, err := io.ReadFull(br, hdr[2:4]); err != nil {
			return f, err
		}
		n = 4
	case 127:
		if _, err := io.ReadFull(br, hdr[2:10]); err != nil {
			return f, err
		}
		n = 10
	}
	if hdr[1]&0x80 != 0 {
		if _, err := io.ReadFull(br, hdr[n:n+4]); err != nil {
			return f, err
		}
		n += 4
	}
	// parse the header with an empty payload view to learn the declared length
	_, _, _, decl, err := ParseFrame(hdr[:n])
	if err != nil && err != ErrShort {
		return f, err
	}
	if decl > maxPayload {
		return f, errors.New("wsmodel: frame longer than the reader accepts")
	}
	buf := make([]byte, n+int(decl))
	copy(buf, hdr[:n])
	if _, err := io.ReadFull(br, buf[n:]); err != nil {
		return f, err
	}
	f, _, _, _, err = ParseFrame(buf)
	return f, err
}
