package wsmodel

import (
	"bufio"
	"bytes"
	"crypto/sha1"
	"encoding/base64"
	"errors"
	"net/http"
	"strings"
)

// AcceptKey computes Sec-WebSocket-Accept per RFC 6455 section 4.2.2 item 5.4.
func AcceptKey(key string) string {
	h := sha1.Sum([]byte(key + "258EAFA5-E914-47DA-95CA-C5AB0DC85B11"))
	return base64.StdEncoding.EncodeToString(h[:])
}

// SplitResponse splits b into the HTTP response head (parsed) and the bytes after
// the blank line.
func SplitResponse(b []byte) (*http.Response, []byte, error) {
	i := bytes.Index(b, []byte("\r\n\r\n"))
	if i < 0 {
		return nil, nil, errors.New("no complete HTTP response head")
	}
	resp, err := http.ReadResponse(bufio.NewReader(bytes.NewReader(b[:i+4])), nil)
	if err != nil {
		return nil, nil, err
	}
	return resp, b[i+4:], nil
}

// HeaderTokens splits all values of a comma-separated list header into
// lower-cased, trimmed elements (empty elements dropped).
func HeaderTokens(h http.Header, name string) []string {
	var out []string
	for _, v := range h.Values(name) {
		for _, t := range strings.Split(v, ",") {
			t = strings.TrimSpace(t)
			if t != "" {
				out = append(out, strings.ToLower(t))
			}
		}
	}
	return out
}

// ServerFrames parses a server-to-client (or, with masked=true, client-to-server)
// byte stream into frames, returning the frames parsed and the unparsed remainder.
func ParseAll(b []byte) (frames []Frame, rest []byte, err error) {
	for len(b) > 0 {
		f, n, _, _, perr := ParseFrame(b)
		if perr != nil {
			return frames, b, perr
		}
		frames = append(frames, f)
		b = b[n:]
	}
	return frames, nil, nil
}
