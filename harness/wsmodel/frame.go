// Package wsmodel is an independent reference model of the WebSocket wire
// protocol (RFC 6455 framing, closing and opening handshake; RFC 7692
// permessage-deflate), written from the RFC texts and shared by the checks
// C29, C30 and C31. It deliberately shares no code with
// github.com/centrifugal/centrifuge/internal/websocket.
package wsmodel

import (
	"encoding/binary"
	"errors"
)

// Opcodes (RFC 6455 section 5.2 / 11.8).
const (
	OpCont   = 0x0
	OpText   = 0x1
	OpBinary = 0x2
	OpClose  = 0x8
	OpPing   = 0x9
	OpPong   = 0xA
)

// Frame is one frame as it appears on the wire (Payload is unmasked).
type Frame struct {
	Fin     bool
	RSV1    bool
	RSV2    bool
	RSV3    bool
	Opcode  byte
	Masked  bool
	Key     [4]byte
	LenBits int // 7, 16 or 64: the length encoding used on the wire
	Payload []byte
}

// IsControl reports whether the opcode is in the control range (0x8-0xF).
func IsControl(op byte) bool { return op&0x8 != 0 }

// AppendFrame encodes f. LenBits 0 means minimal encoding; 16 or 64 force that
// (possibly non-minimal) encoding. declLen == -1 means len(f.Payload); any other
// value is written into the header as is (as an unsigned 64-bit pattern) while still
// appending f.Payload (used to build truncated / oversized frames).
func AppendFrame(dst []byte, f Frame, declLen int64) []byte {
	b0 := f.Opcode & 0x0f
	if f.Fin {
		b0 |= 0x80
	}
	if f.RSV1 {
		b0 |= 0x40
	}
	if f.RSV2 {
		b0 |= 0x20
	}
	if f.RSV3 {
		b0 |= 0x10
	}
	n := uint64(len(f.Payload))
	if declLen != -1 {
		n = uint64(declLen)
	}
	bits := f.LenBits
	if bits == 0 || (bits == 7 && n > 125) || (bits == 16 && n > 0xffff) {
		switch {
		case n <= 125:
			bits = 7
		case n <= 0xffff:
			bits = 16
		default:
			bits = 64
		}
	}
	b1 := byte(0)
	if f.Masked {
		b1 = 0x80
	}
	switch bits {
	case 7:
		dst = append(dst, b0, b1|byte(n))
	case 16:
		dst = append(dst, b0, b1|126, byte(n>>8), byte(n))
	default:
		dst = append(dst, b0, b1|127)
		dst = binary.BigEndian.AppendUint64(dst, n)
	}
	if f.Masked {
		dst = append(dst, f.Key[:]...)
		start := len(dst)
		dst = append(dst, f.Payload...)
		for i := start; i < len(dst); i++ {
			dst[i] ^= f.Key[(i-start)&3]
		}
	} else {
		dst = append(dst, f.Payload...)
	}
	return dst
}

// ErrShort is returned by ParseFrame when b ends inside a frame.
var ErrShort = errors.New("wsmodel: truncated frame")

// ErrLenMSB is returned when a 64-bit length has its most significant bit set.
var ErrLenMSB = errors.New("wsmodel: 64-bit length with most significant bit set")

// Header is the fixed part of a frame, available as soon as enough bytes are there.
type Header struct {
	Fin, RSV1, RSV2, RSV3 bool
	Opcode                byte
	Masked                bool
	Len7                  byte
}

// ParseHeader2 decodes the first two bytes of a frame.
func ParseHeader2(b []byte) (Header, bool) {
	if len(b) < 2 {
		return Header{}, false
	}
	return Header{
		Fin: b[0]&0x80 != 0, RSV1: b[0]&0x40 != 0, RSV2: b[0]&0x20 != 0, RSV3: b[0]&0x10 != 0,
		Opcode: b[0] & 0x0f, Masked: b[1]&0x80 != 0, Len7: b[1] & 0x7f,
	}, true
}

// ParseFrame decodes one frame from b without judging it. It returns the number
// of bytes consumed. headerLen is the offset of the payload (valid when the whole
// header was present, even if err == ErrShort because the payload is cut).
func ParseFrame(b []byte) (f Frame, n int, headerLen int, declLen uint64, err error) {
	h, ok := ParseHeader2(b)
	if !ok {
		return f, 0, 0, 0, ErrShort
	}
	f.Fin, f.RSV1, f.RSV2, f.RSV3, f.Opcode, f.Masked = h.Fin, h.RSV1, h.RSV2, h.RSV3, h.Opcode, h.Masked
	pos := 2
	switch h.Len7 {
	case 126:
		if len(b) < pos+2 {
			return f, 0, 0, 0, ErrShort
		}
		declLen = uint64(binary.BigEndian.Uint16(b[pos:]))
		pos += 2
		f.LenBits = 16
	case 127:
		if len(b) < pos+8 {
			return f, 0, 0, 0, ErrShort
		}
		declLen = binary.BigEndian.Uint64(b[pos:])
		pos += 8
		f.LenBits = 64
		if declLen>>63 != 0 {
			return f, 0, 0, declLen, ErrLenMSB
		}
	default:
		declLen = uint64(h.Len7)
		f.LenBits = 7
	}
	if f.Masked {
		if len(b) < pos+4 {
			return f, 0, 0, declLen, ErrShort
		}
		copy(f.Key[:], b[pos:])
		pos += 4
	}
	headerLen = pos
	if uint64(len(b)-pos) < declLen {
		return f, 0, headerLen, declLen, ErrShort
	}
	f.Payload = append([]byte(nil), b[pos:pos+int(declLen)]...)
	if f.Masked {
		for i := range f.Payload {
			f.Payload[i] ^= f.Key[i&3]
		}
	}
	return f, pos + int(declLen), headerLen, declLen, nil
}

// MinimalLenBits returns the length encoding a sender must use for n bytes.
func MinimalLenBits(n uint64) int {
	switch {
	case n <= 125:
		return 7
	case n <= 0xffff:
		return 16
	}
	return 64
}

// ClosePayload builds a close frame body.
func ClosePayload(code int, reason string) []byte {
	b := make([]byte, 2+len(reason))
	binary.BigEndian.PutUint16(b, uint16(code))
	copy(b[2:], reason)
	return b
}

// CloseCodeClass classifies a status code found in a *received* close frame.
type CloseCodeClass int

const (
	// CloseCodeOK: defined by RFC 6455 section 7.4.1 for use in close frames, or in the
	// ranges 3000-3999 (registered) / 4000-4999 (private use) of section 7.4.2.
	CloseCodeOK CloseCodeClass = iota
	// CloseCodeForbidden: 0-999 ("not used", 7.4.2) and 1005, 1006, 1015 ("MUST NOT be
	// set as a status code in a Close control frame by an endpoint", 7.4.1).
	CloseCodeForbidden
	// CloseCodeUnspecified: reserved / unassigned / later-registered codes (1004,
	// 1012-1014, 1016-2999, >= 5000): the RFC gives the receiver no MUST either way.
	CloseCodeUnspecified
)

func ClassifyCloseCode(code int) CloseCodeClass {
	switch {
	case code < 1000:
		return CloseCodeForbidden
	case code == 1005 || code == 1006 || code == 1015:
		return CloseCodeForbidden
	case code >= 1000 && code <= 1003:
		return CloseCodeOK
	case code >= 1007 && code <= 1011:
		return CloseCodeOK
	case code >= 3000 && code <= 4999:
		return CloseCodeOK
	}
	return CloseCodeUnspecified
}
