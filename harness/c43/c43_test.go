// C43: History and presence client commands honour their limits.
//
// Statement: "A client history request never returns more publications than the
// configured history publication limit, returns exactly the node-level history
// result for the effective filter otherwise, and a reverse request since offset
// zero is rejected as a bad request; presence and presence-stats replies equal the
// node-level results."
//
// Each case builds one node (Config.HistoryMaxPublicationLimit in {0,1,3}) in a
// virtual-time bubble, a few channels with random histories (size, TTL, trims,
// expiry on the virtual clock, RemoveHistory), a few subscribers that emit presence,
// and one reader connection that sends history / presence / presence_stats commands.
// Every reply is compared with Node.History / Node.Presence / Node.PresenceStats
// called at the same virtual instant with the effective filter computed from the
// request and the configured limit by the rule in the statement.
package c43

import (
	"bytes"
	"context"
	"errors"
	"fmt"
	"sort"
	"sync"
	"testing"
	"testing/synctest"
	"time"

	"github.com/centrifugal/centrifuge"
	"github.com/centrifugal/centrifuge/verifx/kit"
	"github.com/centrifugal/protocol"
)

const (
	codeBadRequest = 107
	codeInternal   = 100
)

type chanState struct {
	name string
	size int
	ttl  time.Duration
	n    int // publications so far
}

type world struct {
	c    *kit.Case
	w    *kit.World
	node *centrifuge.Node
	H    int

	mu         sync.Mutex
	delay      time.Duration // delay of the next handler invocation (0 = synchronous)
	handlerRan map[string]int
	wg         sync.WaitGroup
}

func (x *world) answer(kind string, f func()) {
	x.mu.Lock()
	x.handlerRan[kind]++
	d := x.delay
	x.mu.Unlock()
	if d == 0 {
		f()
		return
	}
	x.wg.Add(1)
	go func() {
		defer x.wg.Done()
		time.Sleep(d)
		f()
	}()
}

func wantCode(err error) uint32 {
	var ce *centrifuge.Error
	if errors.As(err, &ce) {
		return ce.Code
	}
	return codeInternal
}

func pubsString(offs []uint64) string { return fmt.Sprint(offs) }

type histCase struct {
	Channel   string `json:"channel"`
	Limit     int32  `json:"limit"`
	Reverse   bool   `json:"reverse"`
	Since     string `json:"since"`
	MaxLimit  int    `json:"history_max_publication_limit"`
	Effective int    `json:"effective_limit"`
	ReplyN    int    `json:"reply_publications"`
	ReplyErr  uint32 `json:"reply_error"`
	Async     bool   `json:"async_handler"`
}

func (x *world) historyCommand(conn *kit.Conn, r *kit.Rand, chans []*chanState) {
	c := x.c
	var cs *chanState
	ch := "c43:unknown"
	if !r.Chance(1, 12) {
		cs = kit.Pick(r, chans)
		ch = cs.name
	}
	top, topErr := x.node.History(ch, centrifuge.WithLimit(0))
	req := &protocol.HistoryRequest{Channel: ch}
	req.Limit = int32(kit.Pick(r, []int{-5, -1, -1, 0, 0, 1, 1, 2, 3, 3, 4, 7, 1000}))
	req.Reverse = r.Chance(2, 5)
	sinceDesc := "nil"
	if r.Chance(3, 5) {
		sp := &protocol.StreamPosition{}
		switch r.Intn(8) {
		case 0:
			sp.Epoch = "bogus-epoch"
			sinceDesc = "stale-epoch"
		case 1:
			sp.Epoch = ""
			sinceDesc = "empty-epoch"
		default:
			if topErr == nil {
				sp.Epoch = top.Epoch
			}
			sinceDesc = "current-epoch"
		}
		var maxOff uint64 = 3
		if topErr == nil {
			maxOff = top.Offset + 2
		}
		switch r.Intn(5) {
		case 0:
			sp.Offset = 0
		case 1:
			if topErr == nil {
				sp.Offset = top.Offset
			}
		default:
			sp.Offset = uint64(r.Intn(int(maxOff) + 1))
		}
		sinceDesc += fmt.Sprintf("@%d", sp.Offset)
		req.Since = sp
	}
	// effective filter, from the statement: the configured limit caps the request
	eff := centrifuge.HistoryFilter{Limit: int(req.Limit), Reverse: req.Reverse}
	if req.Since != nil {
		eff.Since = &centrifuge.StreamPosition{Offset: req.Since.Offset, Epoch: req.Since.Epoch}
	}
	if x.H > 0 && (eff.Limit < 0 || eff.Limit > x.H) {
		eff.Limit = x.H
		c.Count("history_limit_clamped", 1)
	}
	async := r.Chance(1, 3)
	d := time.Duration(0)
	if async {
		d = time.Duration(r.Range(1, 40)) * time.Millisecond
	}
	x.mu.Lock()
	x.delay = d
	x.mu.Unlock()

	id := conn.NextID()
	conn.Do(&protocol.Command{Id: id, History: req})
	if d > 0 {
		time.Sleep(d)
	}
	synctest.Wait()
	// node-level result at the same virtual instant
	want, wantErr := x.node.History(ch, centrifuge.WithHistoryFilter(eff))
	f, ok := conn.ReplyFor(id)
	hc := histCase{Channel: ch, Limit: req.Limit, Reverse: req.Reverse, Since: sinceDesc, MaxLimit: x.H, Effective: eff.Limit, Async: async}
	detail := func() any {
		var wantOffs []uint64
		for _, p := range want.Publications {
			wantOffs = append(wantOffs, p.Offset)
		}
		m := map[string]any{"request": hc, "node_level_offsets": wantOffs, "node_level_error": fmt.Sprint(wantErr), "node_level_position": fmt.Sprintf("%d/%s", want.Offset, want.Epoch)}
		if ok {
			m["reply"] = string(f.Raw)
		}
		if cs != nil {
			m["channel_history_size"], m["channel_history_ttl"], m["channel_published"] = cs.size, cs.ttl.String(), cs.n
		}
		return m
	}
	c.Eval(1)
	c.Count("history_commands", 1)
	if !ok {
		if closed, disc, _ := conn.T.Closed(); closed {
			c.Violation("c43-history-command-closed-connection", fmt.Sprintf("history command closed the connection with %d", disc.Code), detail())
		} else {
			c.Violation("c43-history-command-unanswered", "history command got no reply", detail())
		}
		return
	}
	if f.DecodeErr != "" {
		c.Violation("c43-history-reply-undecodable", f.DecodeErr, detail())
		return
	}
	rep := f.Reply
	if rep.Error != nil {
		hc.ReplyErr = rep.Error.Code
	}
	if rep.History != nil {
		hc.ReplyN = len(rep.History.Publications)
	}
	sig := fmt.Sprintf("hist|H%d|lim%s|rev%v|%s|err%d|n%d", x.H, limClass(req.Limit, x.H), req.Reverse, sinceClass(sinceDesc), hc.ReplyErr, bucket(hc.ReplyN))
	c.Nontrivial(sig)
	if c.Index < 40 {
		c.Sample(hc)
	}
	// never more than the configured limit
	if x.H > 0 && hc.ReplyN > x.H {
		c.Violation("c43-history-reply-exceeds-configured-publication-limit",
			fmt.Sprintf("history reply carries %d publications with HistoryMaxPublicationLimit=%d (request limit %d)", hc.ReplyN, x.H, req.Limit), detail())
		return
	}
	if x.H > 0 && hc.ReplyN == x.H {
		c.Count("history_reply_at_configured_limit", 1)
	}
	// reverse since offset zero
	if req.Reverse && req.Since != nil && req.Since.Offset == 0 {
		c.Count("history_reverse_since_zero", 1)
		if rep.Error == nil || rep.Error.Code != codeBadRequest {
			c.Violation("c43-reverse-history-since-offset-zero-not-rejected-as-bad-request",
				fmt.Sprintf("reverse history since offset 0 answered with error %d and %d publications instead of error 107", hc.ReplyErr, hc.ReplyN), detail())
		}
		return
	}
	// exactly the node-level result
	if wantErr != nil {
		c.Count("history_node_level_error", 1)
		if rep.Error == nil || rep.Error.Code != wantCode(wantErr) {
			c.Violation("c43-history-reply-differs-from-node-level-error",
				fmt.Sprintf("Node.History fails with %v (code %d), the reply has error %d and %d publications", wantErr, wantCode(wantErr), hc.ReplyErr, hc.ReplyN), detail())
		}
		return
	}
	if rep.Error != nil {
		c.Violation("c43-history-reply-error-although-node-level-succeeds",
			fmt.Sprintf("Node.History succeeds with %d publications, the reply has error %d %q", len(want.Publications), rep.Error.Code, rep.Error.Message), detail())
		return
	}
	if rep.History == nil {
		c.Violation("c43-history-reply-without-result", "history reply has neither result nor error", detail())
		return
	}
	same := len(rep.History.Publications) == len(want.Publications)
	var gotOffs, wantOffs []uint64
	for _, p := range rep.History.Publications {
		gotOffs = append(gotOffs, p.Offset)
	}
	for _, p := range want.Publications {
		wantOffs = append(wantOffs, p.Offset)
	}
	if same {
		for i, p := range rep.History.Publications {
			wp := want.Publications[i]
			if p.Offset != wp.Offset || !bytes.Equal(p.Data, wp.Data) || fmt.Sprint(p.Tags) != fmt.Sprint(wp.Tags) {
				same = false
			}
		}
	}
	if !same {
		c.Violation("c43-history-reply-publications-differ-from-node-level-result",
			fmt.Sprintf("reply offsets %s, Node.History with the effective filter (limit %d) gives %s", pubsString(gotOffs), eff.Limit, pubsString(wantOffs)), detail())
		return
	}
	if rep.History.Offset != want.Offset || rep.History.Epoch != want.Epoch {
		c.Violation("c43-history-reply-position-differs-from-node-level-result",
			fmt.Sprintf("reply position %d/%s, Node.History %d/%s", rep.History.Offset, rep.History.Epoch, want.Offset, want.Epoch), detail())
		return
	}
	c.Count("history_replies_equal_node_level", 1)
	if len(want.Publications) > 0 {
		c.Count("history_replies_with_publications", 1)
	}
	if req.Limit < 0 {
		c.Count("history_negative_limit", 1)
	}
	if req.Reverse && len(want.Publications) > 1 {
		c.Count("history_reverse_multi", 1)
	}
	if cs != nil && cs.n > 0 && topErr == nil && top.Offset > 0 && len(want.Publications) == 0 && eff.Limit != 0 && eff.Since == nil {
		c.Count("history_expired_or_removed_observed", 1)
	}
}

func limClass(l int32, h int) string {
	switch {
	case l < 0:
		return "neg"
	case l == 0:
		return "0"
	case h > 0 && int(l) > h:
		return "above"
	case h > 0 && int(l) == h:
		return "eq"
	}
	return "pos"
}

func sinceClass(s string) string {
	for i := 0; i < len(s); i++ {
		if s[i] == '@' {
			if s[i+1:] == "0" {
				return s[:i] + "@0"
			}
			return s[:i]
		}
	}
	return s
}

func bucket(n int) int {
	switch {
	case n == 0:
		return 0
	case n == 1:
		return 1
	case n <= 3:
		return 2
	}
	return 3
}

func infoString(ci *centrifuge.ClientInfo) string {
	if ci == nil {
		return "<nil>"
	}
	return fmt.Sprintf("%s|%s|%s|%s", ci.ClientID, ci.UserID, ci.ConnInfo, ci.ChanInfo)
}

func protoInfoString(ci *protocol.ClientInfo) string {
	if ci == nil {
		return "<nil>"
	}
	return fmt.Sprintf("%s|%s|%s|%s", ci.Client, ci.User, ci.ConnInfo, ci.ChanInfo)
}

func (x *world) presenceCommand(conn *kit.Conn, r *kit.Rand, chans []string, stats bool) {
	c := x.c
	ch := kit.Pick(r, chans)
	async := r.Chance(1, 3)
	d := time.Duration(0)
	if async {
		d = time.Duration(r.Range(1, 40)) * time.Millisecond
	}
	x.mu.Lock()
	x.delay = d
	x.mu.Unlock()
	id := conn.NextID()
	if stats {
		conn.Do(&protocol.Command{Id: id, PresenceStats: &protocol.PresenceStatsRequest{Channel: ch}})
	} else {
		conn.Do(&protocol.Command{Id: id, Presence: &protocol.PresenceRequest{Channel: ch}})
	}
	if d > 0 {
		time.Sleep(d)
	}
	synctest.Wait()
	c.Eval(1)
	f, ok := conn.ReplyFor(id)
	if !ok || f.DecodeErr != "" || f.Reply.Error != nil {
		msg := "no reply"
		if ok {
			msg = string(f.Raw)
		}
		c.Violation("c43-presence-command-not-answered-with-result", fmt.Sprintf("presence command on %q: %s", ch, msg), nil)
		return
	}
	if stats {
		want, err := x.node.PresenceStats(ch)
		if err != nil {
			c.Inconclusive(fmt.Sprintf("Node.PresenceStats: %v", err))
			return
		}
		got := f.Reply.PresenceStats
		c.Count("presence_stats_commands", 1)
		if got == nil || int(got.NumClients) != want.NumClients || int(got.NumUsers) != want.NumUsers {
			c.Violation("c43-presence-stats-reply-differs-from-node-level-result",
				fmt.Sprintf("presence_stats reply %v, Node.PresenceStats clients=%d users=%d", got, want.NumClients, want.NumUsers), map[string]any{"channel": ch, "reply": string(f.Raw)})
			return
		}
		if want.NumClients > want.NumUsers {
			c.Count("presence_stats_users_fewer_than_clients", 1)
		}
		if want.NumClients > 0 {
			c.Count("presence_stats_nonempty", 1)
		}
		c.Nontrivial(fmt.Sprintf("pstats|c%d|u%d|async%v", want.NumClients, want.NumUsers, async))
		return
	}
	want, err := x.node.Presence(ch)
	if err != nil {
		c.Inconclusive(fmt.Sprintf("Node.Presence: %v", err))
		return
	}
	c.Count("presence_commands", 1)
	got := f.Reply.Presence
	var gs, ws []string
	if got != nil {
		for k, v := range got.Presence {
			gs = append(gs, k+"="+protoInfoString(v))
		}
	}
	for k, v := range want.Presence {
		ws = append(ws, k+"="+infoString(v))
	}
	sort.Strings(gs)
	sort.Strings(ws)
	if got == nil || fmt.Sprint(gs) != fmt.Sprint(ws) {
		c.Violation("c43-presence-reply-differs-from-node-level-result",
			fmt.Sprintf("presence reply has %d entries, Node.Presence %d", len(gs), len(ws)), map[string]any{"channel": ch, "reply": gs, "node_level": ws})
		return
	}
	if len(ws) > 0 {
		c.Count("presence_nonempty", 1)
	}
	c.Nontrivial(fmt.Sprintf("presence|n%d|async%v", len(ws), async))
}

func runCase(c *kit.Case) {
	r := c.R
	w := kit.NewWorld(c)
	x := &world{c: c, w: w, H: kit.Pick(r, []int{0, 1, 3, 3}), handlerRan: map[string]int{}}
	cfg := centrifuge.Config{
		HistoryMaxPublicationLimit:   x.H,
		ClientStaleCloseDelay:        time.Hour,
		ClientPresenceUpdateInterval: time.Duration(r.Range(1, 4)) * time.Second,
	}
	var users sync.Map // transport -> user
	node, _ := w.NewNode(cfg, func(n *centrifuge.Node) {
		n.OnConnecting(func(_ context.Context, e centrifuge.ConnectEvent) (centrifuge.ConnectReply, error) {
			u, _ := users.Load(e.Transport)
			user, _ := u.(string)
			return centrifuge.ConnectReply{Credentials: &centrifuge.Credentials{UserID: user, Info: []byte(`{"u":"` + user + `"}`)}}, nil
		})
		n.OnConnect(func(cl *centrifuge.Client) {
			cl.OnSubscribe(func(e centrifuge.SubscribeEvent, cb centrifuge.SubscribeCallback) {
				cb(centrifuge.SubscribeReply{Options: centrifuge.SubscribeOptions{EmitPresence: true, EmitJoinLeave: true, ChannelInfo: []byte(`{"ch":"` + e.Channel + `"}`)}}, nil)
			})
			cl.OnHistory(func(e centrifuge.HistoryEvent, cb centrifuge.HistoryCallback) {
				x.answer("history", func() { cb(centrifuge.HistoryReply{}, nil) })
			})
			cl.OnPresence(func(e centrifuge.PresenceEvent, cb centrifuge.PresenceCallback) {
				x.answer("presence", func() { cb(centrifuge.PresenceReply{}, nil) })
			})
			cl.OnPresenceStats(func(e centrifuge.PresenceStatsEvent, cb centrifuge.PresenceStatsCallback) {
				x.answer("presence_stats", func() { cb(centrifuge.PresenceStatsReply{}, nil) })
			})
		})
	})
	x.node = node
	// stay off the whole-second instants at which the memory broker expires streams
	time.Sleep(500 * time.Microsecond)

	newConn := func(user string) *kit.Conn {
		conn := w.NewConn(node, kit.TransportOpts{Protocol: kit.Pick(r, []centrifuge.ProtocolType{centrifuge.ProtocolTypeJSON, centrifuge.ProtocolTypeProtobuf}),
			PingPong: centrifuge.PingPongConfig{PingInterval: -1, PongTimeout: -1}})
		users.Store(conn.T, user)
		conn.Connect(nil)
		return conn
	}

	// history channels
	var chans []*chanState
	for i, n := 0, r.Range(1, 3); i < n; i++ {
		cs := &chanState{name: fmt.Sprintf("c43:h%d", i), size: r.Range(1, 8), ttl: kit.Pick(r, []time.Duration{time.Second, 2 * time.Second, 3 * time.Second, time.Minute, time.Minute})}
		chans = append(chans, cs)
	}
	publish := func(cs *chanState) {
		cs.n++
		opts := []centrifuge.PublishOption{centrifuge.WithHistory(cs.size, cs.ttl)}
		if r.Chance(1, 3) {
			opts = append(opts, centrifuge.WithTags(map[string]string{"k": fmt.Sprint(cs.n % 3)}))
		}
		if _, err := node.Publish(cs.name, []byte(fmt.Sprintf(`{"i":%d}`, cs.n)), opts...); err != nil {
			c.Inconclusive(fmt.Sprintf("publish: %v", err))
		}
		c.Count("publishes", 1)
	}
	for _, cs := range chans {
		for i, n := 0, r.Range(0, 12); i < n; i++ {
			publish(cs)
		}
	}
	// presence population
	presChans := []string{"c43:p0", "c43:p1", "c43:empty"}
	var conns []*kit.Conn
	reader := newConn("reader")
	conns = append(conns, reader)
	var members []*kit.Conn
	for i, n := 0, r.Range(0, 4); i < n; i++ {
		m := newConn(fmt.Sprintf("user%d", r.Intn(3)))
		conns = append(conns, m)
		members = append(members, m)
		for _, ch := range presChans[:2] {
			if r.Chance(2, 3) {
				m.Subscribe(&protocol.SubscribeRequest{Channel: ch})
			}
		}
	}
	if r.Bool() {
		reader.Subscribe(&protocol.SubscribeRequest{Channel: presChans[0]})
	}
	synctest.Wait()

	steps := r.Range(8, 26)
	for st := 0; st < steps && !c.Violated(); st++ {
		if closed, _, _ := reader.T.Closed(); closed {
			break
		}
		switch v := r.Intn(20); {
		case v < 9:
			x.historyCommand(reader, r, chans)
		case v < 11:
			x.presenceCommand(reader, r, presChans, false)
		case v < 13:
			x.presenceCommand(reader, r, presChans, true)
		case v < 16:
			cs := kit.Pick(r, chans)
			for i, n := 0, r.Range(1, 4); i < n; i++ {
				publish(cs)
			}
		case v < 18:
			// let the virtual clock run: history TTLs expire, presence is refreshed
			time.Sleep(time.Duration(r.Range(200, 2500)) * time.Millisecond)
			synctest.Wait()
			c.Count("clock_advances", 1)
		case v < 19:
			cs := kit.Pick(r, chans)
			_ = node.RemoveHistory(cs.name)
			c.Count("history_removed", 1)
		default:
			if len(members) > 0 {
				i := r.Intn(len(members))
				m := members[i]
				if r.Bool() {
					m.Unsubscribe(presChans[r.Intn(2)])
				} else {
					_ = m.CloseFn()
					members = append(members[:i], members[i+1:]...)
				}
				synctest.Wait()
				c.Count("presence_membership_changes", 1)
			}
		}
	}
	c.Count("config_limit_"+fmt.Sprint(x.H), 1)
	x.wg.Wait()
	for _, conn := range conns {
		_ = conn.CloseFn()
	}
	synctest.Wait()
	w.Shutdown()
}

func TestC43(t *testing.T) {
	kit.Main(t, kit.Spec{
		ID:     "C43",
		Level:  "exploration",
		Bubble: true,
		Rule: "each case = one node (Config.HistoryMaxPublicationLimit in {0,1,3}) in a virtual-time bubble; 1-3 channels get random histories (Node.Publish WithHistory size 1..8, TTL 1s/2s/3s/60s, 0..12 initial publications, some tagged); 0-4 connections (3 user ids, connection and channel info) " +
			"subscribe with EmitPresence to two channels; one reader connection (JSON or Protobuf) runs 8-26 steps out of {history command: since nil / current epoch / stale epoch / empty epoch x offset 0 / top / random up to top+2, limit in {-5,-1,0,1,2,3,4,7,1000}, reverse 40%, unknown channel 8%; " +
			"presence command; presence_stats command; 1-4 more publications (trims); clock advance 0.2-2.5 s (TTL expiry, presence refresh); RemoveHistory; a member unsubscribes or disconnects}. OnHistory/OnPresence/OnPresenceStats allow the request with an empty reply, synchronously or after 1-40 virtual ms. " +
			"Oracle per command (one evaluation each), at the virtual instant of the reply: publications, offset and epoch equal Node.History(channel, WithHistoryFilter(effective)) where effective.limit = configured limit if that is > 0 and the requested limit is negative or larger, else the requested limit; " +
			"never more publications than a configured limit > 0; reverse with since.offset == 0 gives error 107; a node-level error (e.g. stale epoch: unrecoverable position) gives the same error code; presence map (client, user, conn info, chan info) == Node.Presence; presence_stats == Node.PresenceStats. " +
			"Non-trivial = every command; signature = configured limit x limit class x reverse x since class x error x size bucket (history), entry counts (presence).",
		Assumptions: []string{
			"HistoryMaxPublicationLimit == 0 means no configured limit (Config doc: 'By default, no limit used'): the request's own limit is the effective one",
			"'the same virtual instant': all harness clock advances are whole milliseconds after an initial 0.5 ms offset, so they never coincide with the memory broker's whole-second expiry ticks; nothing publishes while a command is in flight",
			"publications are compared by offset, data and tags",
		},
		Cases: map[string]int{"quick": 1600, "thorough": 20000},
		RequireCounters: []string{"history_commands", "history_replies_equal_node_level", "history_replies_with_publications", "history_limit_clamped", "history_reply_at_configured_limit",
			"history_reverse_since_zero", "history_node_level_error", "history_negative_limit", "history_reverse_multi", "history_expired_or_removed_observed",
			"presence_commands", "presence_nonempty", "presence_stats_commands", "presence_stats_nonempty", "presence_stats_users_fewer_than_clients",
			"clock_advances", "history_removed", "presence_membership_changes", "config_limit_0", "config_limit_1", "config_limit_3"},
		Run: runCase,
	})
}
