// C43: History and presence client commands honour their limits.
//
// Statement: "A client history request never returns more publications than the
// configured history publication limit, returns exactly the node-level history
// result for the effective filter otherwise, and a reverse request since offset
// zero is rejected as a bad request; presence and presence-stats replies equal the
// node-level results."
//
// Each case builds one node (Config.HistoryMaxPublicationLimit in {0,1,3}) in a
// virtual-time bubble, a few channels with random histories (size, TTL, trims,
// expiry on the virtual clock, RemoveHistory), a few subscribers that emit presence,
// and one reader connection that sends history / presence / presence_stats commands.
// Every reply is compared with Node.History / Node.Presence / Node.PresenceStats
// called at the same virtual instant with the effective filter computed from the
// request and the configured limit by the rule in the statement.
//
// Every fourth case is a "storm" case: Config.UseSingleFlight is on (4 of 5), the broker
// and the presence manager are wrappers that answer History / Presence / PresenceStats
// after a few virtual milliseconds (as remote ones would), and groups of 2-5 commands
// are issued at the same instant on one channel with differing reverse / limit / since
// (or on differing presence channels). Reads of a group overlap inside the broker, which
// is what single flight coalesces; every reply must still be the node-level result for
// ITS OWN effective filter. The reference of each member is a Node call made alone after
// the group has finished (nothing in flight, so it cannot join another request's read),
// with the full stream compared before and after the group.
package c43

import (
	"bytes"
	"context"
	"errors"
	"fmt"
	"sort"
	"sync"
	"testing"
	"testing/synctest"
	"time"

	"github.com/centrifugal/centrifuge"
	"github.com/centrifugal/centrifuge/verifx/kit"
	"github.com/centrifugal/protocol"
)

const (
	codeBadRequest = 107
	codeInternal   = 100
)

type chanState struct {
	name string
	size int
	ttl  time.Duration
	n    int // publications so far
}

type world struct {
	c    *kit.Case
	w    *kit.World
	node *centrifuge.Node
	H    int

	mu         sync.Mutex
	delay      time.Duration // delay of the next handler invocation (0 = synchronous)
	spawn      bool          // answer from a goroutine of its own even with delay 0 (storm groups)
	handlerRan map[string]int
	wg         sync.WaitGroup

	// storm cases only
	storm        bool
	singleFlight bool
	slow         *slowBroker
	slowP        *slowPresence
}

// slowBroker delays every history read by a (virtual) round trip, as a remote broker
// would: concurrent history requests then overlap inside Broker.History, which is what
// Config.UseSingleFlight coalesces.
type slowBroker struct {
	*centrifuge.MemoryBroker // embedded as the concrete type so that Close stays reachable for Node.Shutdown
	mu                       sync.Mutex
	delay                    time.Duration
	calls                    int
}

func (b *slowBroker) History(ch string, opts centrifuge.HistoryOptions) ([]*centrifuge.Publication, centrifuge.StreamPosition, error) {
	b.mu.Lock()
	b.calls++
	d := b.delay
	b.mu.Unlock()
	if d > 0 {
		time.Sleep(d) // no lock held
	}
	return b.MemoryBroker.History(ch, opts)
}

func (b *slowBroker) set(d time.Duration) int {
	b.mu.Lock()
	defer b.mu.Unlock()
	b.delay = d
	return b.calls
}

// slowPresence does the same for presence reads.
type slowPresence struct {
	*centrifuge.MemoryPresenceManager
	mu    sync.Mutex
	delay time.Duration
	calls int
}

func (p *slowPresence) enter() {
	p.mu.Lock()
	p.calls++
	d := p.delay
	p.mu.Unlock()
	if d > 0 {
		time.Sleep(d)
	}
}

func (p *slowPresence) Presence(ch string) (map[string]*centrifuge.ClientInfo, error) {
	p.enter()
	return p.MemoryPresenceManager.Presence(ch)
}

func (p *slowPresence) PresenceStats(ch string) (centrifuge.PresenceStats, error) {
	p.enter()
	return p.MemoryPresenceManager.PresenceStats(ch)
}

func (p *slowPresence) set(d time.Duration) int {
	p.mu.Lock()
	defer p.mu.Unlock()
	p.delay = d
	return p.calls
}

func (x *world) answerMode(d time.Duration, spawn bool) {
	x.mu.Lock()
	x.delay, x.spawn = d, spawn
	x.mu.Unlock()
}

func (x *world) answer(kind string, f func()) {
	x.mu.Lock()
	x.handlerRan[kind]++
	d, spawn := x.delay, x.spawn
	x.mu.Unlock()
	if d == 0 && !spawn {
		f()
		return
	}
	x.wg.Add(1)
	go func() {
		defer x.wg.Done()
		if d > 0 {
			time.Sleep(d)
		}
		f()
	}()
}

func wantCode(err error) uint32 {
	var ce *centrifuge.Error
	if errors.As(err, &ce) {
		return ce.Code
	}
	return codeInternal
}

func pubsString(offs []uint64) string { return fmt.Sprint(offs) }

type histCase struct {
	Channel   string `json:"channel"`
	Limit     int32  `json:"limit"`
	Reverse   bool   `json:"reverse"`
	Since     string `json:"since"`
	MaxLimit  int    `json:"history_max_publication_limit"`
	Effective int    `json:"effective_limit"`
	ReplyN    int    `json:"reply_publications"`
	ReplyErr  uint32 `json:"reply_error"`
	Async     bool   `json:"async_handler"`
	Group     string `json:"concurrent_group,omitempty"`
}

// histAsk is one history command: the request, its effective filter, and (once known) the
// node-level result it must equal.
type histAsk struct {
	conn      *kit.Conn
	id        uint32
	ch        string
	cs        *chanState
	req       *protocol.HistoryRequest
	sinceDesc string
	eff       centrifuge.HistoryFilter
	async     bool
	top       centrifuge.HistoryResult
	topErr    error
	want      centrifuge.HistoryResult
	wantErr   error
	// concurrent group (storm cases): all members including this one, and a description
	group     []*histAsk
	groupDesc string
}

var limitChoices = []int{-5, -1, -1, 0, 0, 1, 1, 2, 3, 3, 4, 7, 1000}

// genSince draws a since position relative to the current stream top.
func genSince(r *kit.Rand, top centrifuge.HistoryResult, topErr error) (*protocol.StreamPosition, string) {
	sp := &protocol.StreamPosition{}
	sinceDesc := ""
	switch r.Intn(8) {
	case 0:
		sp.Epoch = "bogus-epoch"
		sinceDesc = "stale-epoch"
	case 1:
		sp.Epoch = ""
		sinceDesc = "empty-epoch"
	default:
		if topErr == nil {
			sp.Epoch = top.Epoch
		}
		sinceDesc = "current-epoch"
	}
	var maxOff uint64 = 3
	if topErr == nil {
		maxOff = top.Offset + 2
	}
	switch r.Intn(5) {
	case 0:
		sp.Offset = 0
	case 1:
		if topErr == nil {
			sp.Offset = top.Offset
		}
	default:
		sp.Offset = uint64(r.Intn(int(maxOff) + 1))
	}
	sinceDesc += fmt.Sprintf("@%d", sp.Offset)
	return sp, sinceDesc
}

func genHistoryRequest(r *kit.Rand, ch string, top centrifuge.HistoryResult, topErr error) (*protocol.HistoryRequest, string) {
	req := &protocol.HistoryRequest{Channel: ch}
	req.Limit = int32(kit.Pick(r, limitChoices))
	req.Reverse = r.Chance(2, 5)
	sinceDesc := "nil"
	if r.Chance(3, 5) {
		req.Since, sinceDesc = genSince(r, top, topErr)
	}
	return req, sinceDesc
}

// effective filter, from the statement: the configured limit caps the request
func (x *world) effective(req *protocol.HistoryRequest) centrifuge.HistoryFilter {
	eff := centrifuge.HistoryFilter{Limit: int(req.Limit), Reverse: req.Reverse}
	if req.Since != nil {
		eff.Since = &centrifuge.StreamPosition{Offset: req.Since.Offset, Epoch: req.Since.Epoch}
	}
	if x.H > 0 && (eff.Limit < 0 || eff.Limit > x.H) {
		eff.Limit = x.H
		x.c.Count("history_limit_clamped", 1)
	}
	return eff
}

func effKey(f centrifuge.HistoryFilter) string {
	s := "nil"
	if f.Since != nil {
		s = fmt.Sprintf("%d/%s", f.Since.Offset, f.Since.Epoch)
	}
	return fmt.Sprintf("limit=%d reverse=%v since=%s", f.Limit, f.Reverse, s)
}

func sinceKey(f centrifuge.HistoryFilter) string {
	if f.Since == nil {
		return "nil"
	}
	return fmt.Sprintf("%d/%s", f.Since.Offset, f.Since.Epoch)
}

func (x *world) historyCommand(conn *kit.Conn, r *kit.Rand, chans []*chanState) {
	var cs *chanState
	ch := "c43:unknown"
	if !r.Chance(1, 12) {
		cs = kit.Pick(r, chans)
		ch = cs.name
	}
	a := &histAsk{conn: conn, ch: ch, cs: cs}
	a.top, a.topErr = x.node.History(ch, centrifuge.WithLimit(0))
	a.req, a.sinceDesc = genHistoryRequest(r, ch, a.top, a.topErr)
	a.eff = x.effective(a.req)
	a.async = r.Chance(1, 3)
	d := time.Duration(0)
	if a.async {
		d = time.Duration(r.Range(1, 40)) * time.Millisecond
	}
	x.answerMode(d, false)

	a.id = conn.NextID()
	conn.Do(&protocol.Command{Id: a.id, History: a.req})
	if d > 0 {
		time.Sleep(d)
	}
	synctest.Wait()
	// node-level result at the same virtual instant
	a.want, a.wantErr = x.node.History(ch, centrifuge.WithHistoryFilter(a.eff))
	x.judgeHistory(a)
}

// replyIs tells whether a decoded history reply is exactly the given node-level outcome.
func replyIs(rep *protocol.Reply, want centrifuge.HistoryResult, wantErr error) bool {
	if wantErr != nil {
		return rep.Error != nil && rep.Error.Code == wantCode(wantErr)
	}
	if rep.Error != nil || rep.History == nil || len(rep.History.Publications) != len(want.Publications) {
		return false
	}
	for i, p := range rep.History.Publications {
		wp := want.Publications[i]
		if p.Offset != wp.Offset || !bytes.Equal(p.Data, wp.Data) || fmt.Sprint(p.Tags) != fmt.Sprint(wp.Tags) {
			return false
		}
	}
	return rep.History.Offset == want.Offset && rep.History.Epoch == want.Epoch
}

func offsetsOf(pubs []*centrifuge.Publication) []uint64 {
	var offs []uint64
	for _, p := range pubs {
		offs = append(offs, p.Offset)
	}
	return offs
}

// judgeHistory compares the reply of one history command with a.want / a.wantErr, the
// node-level outcome for the command's own effective filter.
func (x *world) judgeHistory(a *histAsk) {
	c := x.c
	conn, id, req, cs, ch, eff, sinceDesc := a.conn, a.id, a.req, a.cs, a.ch, a.eff, a.sinceDesc
	want, wantErr, top, topErr := a.want, a.wantErr, a.top, a.topErr
	f, ok := conn.ReplyFor(id)
	hc := histCase{Channel: ch, Limit: req.Limit, Reverse: req.Reverse, Since: sinceDesc, MaxLimit: x.H, Effective: eff.Limit, Async: a.async, Group: a.groupDesc}
	detail := func() any {
		m := map[string]any{"request": hc, "node_level_offsets": offsetsOf(want.Publications), "node_level_error": fmt.Sprint(wantErr), "node_level_position": fmt.Sprintf("%d/%s", want.Offset, want.Epoch)}
		if ok {
			m["reply"] = string(f.Raw)
		}
		if cs != nil {
			m["channel_history_size"], m["channel_history_ttl"], m["channel_published"] = cs.size, cs.ttl.String(), cs.n
		}
		if a.group != nil {
			var others []map[string]any
			for _, o := range a.group {
				others = append(others, map[string]any{"id": o.id, "effective_filter": effKey(o.eff), "node_level_offsets": offsetsOf(o.want.Publications), "node_level_error": fmt.Sprint(o.wantErr), "this_request": o == a})
			}
			m["concurrent_group"], m["use_single_flight"] = others, x.singleFlight
		}
		return m
	}
	c.Eval(1)
	c.Count("history_commands", 1)
	if !ok {
		if closed, disc, _ := conn.T.Closed(); closed {
			c.Violation("c43-history-command-closed-connection", fmt.Sprintf("history command closed the connection with %d", disc.Code), detail())
		} else {
			c.Violation("c43-history-command-unanswered", "history command got no reply", detail())
		}
		return
	}
	if f.DecodeErr != "" {
		c.Violation("c43-history-reply-undecodable", f.DecodeErr, detail())
		return
	}
	rep := f.Reply
	if rep.Error != nil {
		hc.ReplyErr = rep.Error.Code
	}
	if rep.History != nil {
		hc.ReplyN = len(rep.History.Publications)
	}
	sig := fmt.Sprintf("hist|H%d|lim%s|rev%v|%s|err%d|n%d", x.H, limClass(req.Limit, x.H), req.Reverse, sinceClass(sinceDesc), hc.ReplyErr, bucket(hc.ReplyN))
	if a.group != nil {
		sig += "|concurrent"
	}
	c.Nontrivial(sig)
	if c.Index < 40 {
		c.Sample(hc)
	}
	// never more than the configured limit
	if x.H > 0 && hc.ReplyN > x.H {
		c.Violation("c43-history-reply-exceeds-configured-publication-limit",
			fmt.Sprintf("history reply carries %d publications with HistoryMaxPublicationLimit=%d (request limit %d)", hc.ReplyN, x.H, req.Limit), detail())
		return
	}
	if x.H > 0 && hc.ReplyN == x.H {
		c.Count("history_reply_at_configured_limit", 1)
	}
	// a member of a concurrent group answered with the outcome of another member's filter
	// (the generic classes below report every other difference)
	if a.group != nil && !replyIs(rep, want, wantErr) {
		for _, o := range a.group {
			if o != a && effKey(o.eff) != effKey(eff) && replyIs(rep, o.want, o.wantErr) {
				var gotOffs []uint64
				if rep.History != nil {
					for _, p := range rep.History.Publications {
						gotOffs = append(gotOffs, p.Offset)
					}
				}
				c.Violation("c43-concurrent-history-request-answered-with-result-of-another-filter",
					fmt.Sprintf("history request {%s} issued together with {%s} on %q got error %d / offsets %s, which is the node-level result of the other filter; its own is error %v / offsets %s",
						effKey(eff), effKey(o.eff), ch, hc.ReplyErr, pubsString(gotOffs), wantErr, pubsString(offsetsOf(want.Publications))), detail())
				return
			}
		}
	}
	// reverse since offset zero
	if req.Reverse && req.Since != nil && req.Since.Offset == 0 {
		c.Count("history_reverse_since_zero", 1)
		if rep.Error == nil || rep.Error.Code != codeBadRequest {
			c.Violation("c43-reverse-history-since-offset-zero-not-rejected-as-bad-request",
				fmt.Sprintf("reverse history since offset 0 answered with error %d and %d publications instead of error 107", hc.ReplyErr, hc.ReplyN), detail())
		}
		return
	}
	// exactly the node-level result
	if wantErr != nil {
		c.Count("history_node_level_error", 1)
		if rep.Error == nil || rep.Error.Code != wantCode(wantErr) {
			c.Violation("c43-history-reply-differs-from-node-level-error",
				fmt.Sprintf("Node.History fails with %v (code %d), the reply has error %d and %d publications", wantErr, wantCode(wantErr), hc.ReplyErr, hc.ReplyN), detail())
		}
		return
	}
	if rep.Error != nil {
		c.Violation("c43-history-reply-error-although-node-level-succeeds",
			fmt.Sprintf("Node.History succeeds with %d publications, the reply has error %d %q", len(want.Publications), rep.Error.Code, rep.Error.Message), detail())
		return
	}
	if rep.History == nil {
		c.Violation("c43-history-reply-without-result", "history reply has neither result nor error", detail())
		return
	}
	same := len(rep.History.Publications) == len(want.Publications)
	var gotOffs, wantOffs []uint64
	for _, p := range rep.History.Publications {
		gotOffs = append(gotOffs, p.Offset)
	}
	for _, p := range want.Publications {
		wantOffs = append(wantOffs, p.Offset)
	}
	if same {
		for i, p := range rep.History.Publications {
			wp := want.Publications[i]
			if p.Offset != wp.Offset || !bytes.Equal(p.Data, wp.Data) || fmt.Sprint(p.Tags) != fmt.Sprint(wp.Tags) {
				same = false
			}
		}
	}
	if !same {
		c.Violation("c43-history-reply-publications-differ-from-node-level-result",
			fmt.Sprintf("reply offsets %s, Node.History with the effective filter (limit %d) gives %s", pubsString(gotOffs), eff.Limit, pubsString(wantOffs)), detail())
		return
	}
	if rep.History.Offset != want.Offset || rep.History.Epoch != want.Epoch {
		c.Violation("c43-history-reply-position-differs-from-node-level-result",
			fmt.Sprintf("reply position %d/%s, Node.History %d/%s", rep.History.Offset, rep.History.Epoch, want.Offset, want.Epoch), detail())
		return
	}
	c.Count("history_replies_equal_node_level", 1)
	if len(want.Publications) > 0 {
		c.Count("history_replies_with_publications", 1)
	}
	if req.Limit < 0 {
		c.Count("history_negative_limit", 1)
	}
	if req.Reverse && len(want.Publications) > 1 {
		c.Count("history_reverse_multi", 1)
	}
	if cs != nil && cs.n > 0 && topErr == nil && top.Offset > 0 && len(want.Publications) == 0 && eff.Limit != 0 && eff.Since == nil {
		c.Count("history_expired_or_removed_observed", 1)
	}
	if a.group != nil {
		c.Count("storm_history_replies_equal_node_level", 1)
	}
}

// offBoundary keeps a group of overlapping reads (at most ~40 virtual ms) away from the
// whole-second instants at which the memory broker expires streams.
func offBoundary() {
	if time.Now().Nanosecond() > int(900*time.Millisecond) {
		time.Sleep(150 * time.Millisecond)
		synctest.Wait()
	}
}

func snapshotKey(res centrifuge.HistoryResult, err error) string {
	s := fmt.Sprintf("%v|%d/%s|", err, res.Offset, res.Epoch)
	for _, p := range res.Publications {
		s += fmt.Sprintf("%d:%s,", p.Offset, p.Data)
	}
	return s
}

func cloneHistReq(q *protocol.HistoryRequest) *protocol.HistoryRequest {
	n := &protocol.HistoryRequest{Channel: q.Channel, Limit: q.Limit, Reverse: q.Reverse}
	if q.Since != nil {
		n.Since = &protocol.StreamPosition{Offset: q.Since.Offset, Epoch: q.Since.Epoch}
	}
	return n
}

// stormHistoryGroup issues 2-5 history commands for one channel at the same instant while
// every broker read takes a round trip, and judges each reply against the node-level
// result of its own effective filter.
func (x *world) stormHistoryGroup(readers []*kit.Conn, r *kit.Rand, chans []*chanState) {
	c := x.c
	offBoundary()
	var cs *chanState
	ch := "c43:unknown"
	if !r.Chance(1, 15) {
		cs = kit.Pick(r, chans)
		ch = cs.name
	}
	x.slow.set(0)
	top, topErr := x.node.History(ch, centrifuge.WithLimit(0))
	before, beforeErr := x.node.History(ch, centrifuge.WithLimit(centrifuge.NoLimit))

	n := r.Range(2, 5)
	pattern := kit.Pick(r, []string{"reverse-only", "reverse-only", "reverse-only", "same-since-mixed-reverse", "same-since-mixed-reverse", "mixed-limits", "mixed-limits", "mixed-since", "random", "random", "identical"})
	base, baseDesc := genHistoryRequest(r, ch, top, topErr)
	flip := r.Bool()
	limPerm := r.Perm(len(limitChoices))
	members := make([]*histAsk, n)
	for i := range members {
		q, desc := cloneHistReq(base), baseDesc
		switch pattern {
		case "reverse-only": // same limit, no since, differing only in reverse
			q.Since, desc = nil, "nil"
			if i == 0 && r.Chance(5, 6) && base.Limit == 0 {
				base.Limit = int32(kit.Pick(r, []int{-1, 1, 2, 2, 3, 4, 7, 1000}))
			}
			q.Limit = base.Limit
			q.Reverse = (i%2 == 1) != flip
		case "same-since-mixed-reverse":
			if i == 0 {
				base.Since, baseDesc = genSince(r, top, topErr)
				if base.Since.Offset == 0 && r.Chance(4, 5) {
					base.Since.Offset = 1
					baseDesc = baseDesc[:len(baseDesc)-1] + "1" // "...@0" -> "...@1"
				}
				if base.Limit == 0 && r.Chance(5, 6) {
					base.Limit = int32(kit.Pick(r, []int{-1, 1, 2, 3, 7}))
				}
			}
			q, desc = cloneHistReq(base), baseDesc
			q.Reverse = (i%2 == 1) != flip
		case "mixed-limits":
			q.Limit = int32(limitChoices[limPerm[i]])
		case "mixed-since":
			if i > 0 || r.Bool() {
				if r.Chance(1, 5) {
					q.Since, desc = nil, "nil"
				} else {
					q.Since, desc = genSince(r, top, topErr)
				}
			}
		case "random":
			if i > 0 {
				q, desc = genHistoryRequest(r, ch, top, topErr)
			}
		}
		members[i] = &histAsk{ch: ch, cs: cs, req: q, sinceDesc: desc, top: top, topErr: topErr, groupDesc: pattern}
	}
	for _, m := range members {
		m.eff = x.effective(m.req)
		m.group = members
	}

	// who asks: one connection for all (handlers answer from goroutines of their own), several
	// connections likewise, or one goroutine per connection with a synchronous handler
	direct := n <= len(readers) && r.Chance(1, 3)
	used := map[*kit.Conn]bool{}
	if direct {
		for i, p := range r.Perm(len(readers))[:n] {
			members[i].conn = readers[p]
		}
	} else {
		one := r.Chance(1, 3)
		for _, m := range members {
			m.conn = readers[0]
			if !one {
				m.conn = kit.Pick(r, readers)
			}
			m.async = true
		}
	}
	for _, m := range members {
		m.id = m.conn.NextID()
		used[m.conn] = true
	}
	order := r.Perm(n) // the leader of a coalesced read is whoever gets there first: vary it
	callsBefore := x.slow.set(time.Duration(r.Range(2, 30)) * time.Millisecond)
	if direct {
		x.answerMode(0, false)
		var wg sync.WaitGroup
		for _, i := range order {
			m := members[i]
			wg.Add(1)
			go func() {
				defer wg.Done()
				m.conn.Do(&protocol.Command{Id: m.id, History: m.req}) // returns after the reply is written
			}()
		}
		wg.Wait()
	} else {
		x.answerMode(time.Duration(kit.Pick(r, []int{0, 0, 1, 3, 5}))*time.Millisecond, true)
		for _, i := range order {
			m := members[i]
			m.conn.Do(&protocol.Command{Id: m.id, History: m.req})
		}
		for _, m := range members {
			m.conn.PollReply(m.id, 2*time.Second)
		}
		x.wg.Wait()
		x.answerMode(0, false)
	}
	synctest.Wait()
	reads := x.slow.set(0) - callsBefore

	// the stream must not have changed while the group was in flight (nothing publishes,
	// expiry ticks are avoided): then a node-level call now describes the instant of the reads
	after, afterErr := x.node.History(ch, centrifuge.WithLimit(centrifuge.NoLimit))
	if snapshotKey(before, beforeErr) != snapshotKey(after, afterErr) {
		c.Count("storm_groups_skipped_stream_changed", 1)
		return
	}
	// references: each alone, nothing else in flight, so none of them can join another read
	for _, m := range members {
		m.want, m.wantErr = x.node.History(ch, centrifuge.WithHistoryFilter(m.eff))
	}
	c.Count("storm_history_groups", 1)
	c.Count("storm_history_commands", n)
	if reads < n {
		c.Count("storm_history_reads_coalesced", n-reads)
	}
	if direct {
		c.Count("storm_groups_goroutine_per_connection", 1)
	} else if len(used) == 1 {
		c.Count("storm_groups_one_connection", 1)
	} else {
		c.Count("storm_groups_several_connections", 1)
	}
	// what the group really mixes (by effective filters)
	var revOnly, revOnlyDistinct, sameSinceRev, limDiff, sinceDiff bool
	distinct := map[string]bool{}
	for i, a := range members {
		distinct[effKey(a.eff)] = true
		for _, b := range members[i+1:] {
			sameSince := sinceKey(a.eff) == sinceKey(b.eff)
			switch {
			case sameSince && a.eff.Limit == b.eff.Limit && a.eff.Reverse != b.eff.Reverse && a.eff.Since == nil:
				revOnly = true
				if snapshotKey(a.want, a.wantErr) != snapshotKey(b.want, b.wantErr) {
					revOnlyDistinct = true
				}
			case sameSince && a.eff.Limit == b.eff.Limit && a.eff.Reverse != b.eff.Reverse:
				sameSinceRev = true
			case sameSince && a.eff.Reverse == b.eff.Reverse && a.eff.Limit != b.eff.Limit:
				limDiff = true
			case !sameSince && a.eff.Reverse == b.eff.Reverse && a.eff.Limit == b.eff.Limit:
				sinceDiff = true
			}
		}
	}
	for name, on := range map[string]bool{"storm_groups_differing_only_in_reverse_without_since": revOnly, "storm_groups_same_since_differing_reverse": sameSinceRev,
		"storm_groups_differing_limit": limDiff, "storm_groups_differing_since": sinceDiff, "storm_groups_identical_requests": len(distinct) == 1} {
		if on {
			c.Count(name, 1)
		}
	}
	if revOnlyDistinct && x.singleFlight {
		// forward and reverse give different node-level results and single flight is on:
		// a read shared between the two would be visible
		c.Count("storm_single_flight_reverse_only_groups_with_distinguishable_results", 1)
	}
	if len(distinct) > 1 {
		c.Count("storm_groups_mixed_filters", 1)
		if x.singleFlight {
			c.Count("storm_single_flight_groups_mixed_filters", 1)
		}
	}
	if c.Index < 40 {
		var fs []string
		for _, m := range members {
			fs = append(fs, effKey(m.eff))
		}
		c.Sample(map[string]any{"concurrent_history_group": pattern, "channel": ch, "filters": fs, "broker_reads": reads, "use_single_flight": x.singleFlight, "goroutine_per_connection": direct})
	}
	for _, m := range members {
		x.judgeHistory(m)
		if c.Violated() {
			return
		}
	}
}

func limClass(l int32, h int) string {
	switch {
	case l < 0:
		return "neg"
	case l == 0:
		return "0"
	case h > 0 && int(l) > h:
		return "above"
	case h > 0 && int(l) == h:
		return "eq"
	}
	return "pos"
}

func sinceClass(s string) string {
	for i := 0; i < len(s); i++ {
		if s[i] == '@' {
			if s[i+1:] == "0" {
				return s[:i] + "@0"
			}
			return s[:i]
		}
	}
	return s
}

func bucket(n int) int {
	switch {
	case n == 0:
		return 0
	case n == 1:
		return 1
	case n <= 3:
		return 2
	}
	return 3
}

func infoString(ci *centrifuge.ClientInfo) string {
	if ci == nil {
		return "<nil>"
	}
	return fmt.Sprintf("%s|%s|%s|%s", ci.ClientID, ci.UserID, ci.ConnInfo, ci.ChanInfo)
}

func protoInfoString(ci *protocol.ClientInfo) string {
	if ci == nil {
		return "<nil>"
	}
	return fmt.Sprintf("%s|%s|%s|%s", ci.Client, ci.User, ci.ConnInfo, ci.ChanInfo)
}

// presAsk is one presence / presence_stats command and (once known) the node-level
// result for its channel.
type presAsk struct {
	conn  *kit.Conn
	id    uint32
	ch    string
	stats bool
	async bool
	wantP centrifuge.PresenceResult
	wantS centrifuge.PresenceStatsResult
	group []*presAsk
}

func (a *presAsk) send() {
	if a.stats {
		a.conn.Do(&protocol.Command{Id: a.id, PresenceStats: &protocol.PresenceStatsRequest{Channel: a.ch}})
	} else {
		a.conn.Do(&protocol.Command{Id: a.id, Presence: &protocol.PresenceRequest{Channel: a.ch}})
	}
}

// reference computes the node-level result for the command's channel; false = inconclusive.
func (x *world) reference(a *presAsk) bool {
	var err error
	if a.stats {
		a.wantS, err = x.node.PresenceStats(a.ch)
	} else {
		a.wantP, err = x.node.Presence(a.ch)
	}
	if err != nil {
		x.c.Inconclusive(fmt.Sprintf("node-level presence call: %v", err))
		return false
	}
	return true
}

func presenceStrings(m map[string]*centrifuge.ClientInfo) []string {
	var ws []string
	for k, v := range m {
		ws = append(ws, k+"="+infoString(v))
	}
	sort.Strings(ws)
	return ws
}

func (x *world) presenceCommand(conn *kit.Conn, r *kit.Rand, chans []string, stats bool) {
	a := &presAsk{conn: conn, ch: kit.Pick(r, chans), stats: stats}
	a.async = r.Chance(1, 3)
	d := time.Duration(0)
	if a.async {
		d = time.Duration(r.Range(1, 40)) * time.Millisecond
	}
	x.answerMode(d, false)
	a.id = conn.NextID()
	a.send()
	if d > 0 {
		time.Sleep(d)
	}
	synctest.Wait()
	x.judgePresence(a, false)
}

// judgePresence compares one presence / presence_stats reply with the node-level result
// for its channel (computed here unless the caller already did).
func (x *world) judgePresence(a *presAsk, haveReference bool) {
	c := x.c
	ch, stats, async := a.ch, a.stats, a.async
	c.Eval(1)
	f, ok := a.conn.ReplyFor(a.id)
	if !ok || f.DecodeErr != "" || f.Reply.Error != nil {
		msg := "no reply"
		if ok {
			msg = string(f.Raw)
		}
		c.Violation("c43-presence-command-not-answered-with-result", fmt.Sprintf("presence command on %q: %s", ch, msg), nil)
		return
	}
	if !haveReference && !x.reference(a) {
		return
	}
	groupDetail := func(m map[string]any) map[string]any {
		if a.group != nil {
			var others []string
			for _, o := range a.group {
				others = append(others, fmt.Sprintf("id=%d channel=%s stats=%v", o.id, o.ch, o.stats))
			}
			m["concurrent_group"], m["use_single_flight"] = others, x.singleFlight
		}
		return m
	}
	conc := ""
	if a.group != nil {
		conc = "|concurrent"
	}
	if stats {
		want := a.wantS
		got := f.Reply.PresenceStats
		c.Count("presence_stats_commands", 1)
		if got == nil || int(got.NumClients) != want.NumClients || int(got.NumUsers) != want.NumUsers {
			if got != nil {
				for _, o := range a.group {
					if o != a && o.stats && o.ch != ch && int(got.NumClients) == o.wantS.NumClients && int(got.NumUsers) == o.wantS.NumUsers {
						c.Violation("c43-concurrent-presence-stats-request-answered-with-result-of-another-channel",
							fmt.Sprintf("presence_stats on %q issued together with one on %q got clients=%d users=%d, the node-level result of the other channel; its own is clients=%d users=%d", ch, o.ch, got.NumClients, got.NumUsers, want.NumClients, want.NumUsers),
							groupDetail(map[string]any{"channel": ch, "reply": string(f.Raw)}))
						return
					}
				}
			}
			c.Violation("c43-presence-stats-reply-differs-from-node-level-result",
				fmt.Sprintf("presence_stats reply %v, Node.PresenceStats clients=%d users=%d", got, want.NumClients, want.NumUsers), groupDetail(map[string]any{"channel": ch, "reply": string(f.Raw)}))
			return
		}
		if want.NumClients > want.NumUsers {
			c.Count("presence_stats_users_fewer_than_clients", 1)
		}
		if want.NumClients > 0 {
			c.Count("presence_stats_nonempty", 1)
		}
		if a.group != nil {
			c.Count("storm_presence_replies_equal_node_level", 1)
		}
		c.Nontrivial(fmt.Sprintf("pstats|c%d|u%d|async%v%s", want.NumClients, want.NumUsers, async, conc))
		return
	}
	want := a.wantP
	c.Count("presence_commands", 1)
	got := f.Reply.Presence
	var gs []string
	if got != nil {
		for k, v := range got.Presence {
			gs = append(gs, k+"="+protoInfoString(v))
		}
	}
	ws := presenceStrings(want.Presence)
	sort.Strings(gs)
	if got == nil || fmt.Sprint(gs) != fmt.Sprint(ws) {
		if got != nil {
			for _, o := range a.group {
				if o != a && !o.stats && o.ch != ch && fmt.Sprint(gs) == fmt.Sprint(presenceStrings(o.wantP.Presence)) {
					c.Violation("c43-concurrent-presence-request-answered-with-result-of-another-channel",
						fmt.Sprintf("presence on %q issued together with one on %q got the %d entries of the other channel; its own has %d", ch, o.ch, len(gs), len(ws)),
						groupDetail(map[string]any{"channel": ch, "reply": gs, "node_level": ws}))
					return
				}
			}
		}
		c.Violation("c43-presence-reply-differs-from-node-level-result",
			fmt.Sprintf("presence reply has %d entries, Node.Presence %d", len(gs), len(ws)), groupDetail(map[string]any{"channel": ch, "reply": gs, "node_level": ws}))
		return
	}
	if len(ws) > 0 {
		c.Count("presence_nonempty", 1)
	}
	if a.group != nil {
		c.Count("storm_presence_replies_equal_node_level", 1)
	}
	c.Nontrivial(fmt.Sprintf("presence|n%d|async%v%s", len(ws), async, conc))
}

// stormPresenceGroup issues 2-5 presence / presence_stats commands at the same instant
// (same or differing channels and kinds) while every presence read takes a round trip.
func (x *world) stormPresenceGroup(readers []*kit.Conn, r *kit.Rand, chans []string) {
	c := x.c
	n := r.Range(2, 5)
	pattern := kit.Pick(r, []string{"same", "mixed-channels", "mixed-channels", "mixed-kinds", "random"})
	baseCh, baseStats := kit.Pick(r, chans), r.Bool()
	members := make([]*presAsk, n)
	for i := range members {
		m := &presAsk{ch: baseCh, stats: baseStats}
		switch pattern {
		case "mixed-channels":
			m.ch = chans[(i+r.Intn(2))%len(chans)]
		case "mixed-kinds":
			m.stats = (i%2 == 1) != baseStats
		case "random":
			m.ch, m.stats = kit.Pick(r, chans), r.Bool()
		}
		members[i] = m
	}
	direct := n <= len(readers) && r.Chance(1, 3)
	used := map[*kit.Conn]bool{}
	if direct {
		for i, p := range r.Perm(len(readers))[:n] {
			members[i].conn = readers[p]
		}
	} else {
		one := r.Chance(1, 3)
		for _, m := range members {
			m.conn = readers[0]
			if !one {
				m.conn = kit.Pick(r, readers)
			}
			m.async = true
		}
	}
	for _, m := range members {
		m.id = m.conn.NextID()
		m.group = members
		used[m.conn] = true
	}
	order := r.Perm(n)
	callsBefore := x.slowP.set(time.Duration(r.Range(2, 30)) * time.Millisecond)
	if direct {
		x.answerMode(0, false)
		var wg sync.WaitGroup
		for _, i := range order {
			m := members[i]
			wg.Add(1)
			go func() {
				defer wg.Done()
				m.send()
			}()
		}
		wg.Wait()
	} else {
		x.answerMode(time.Duration(kit.Pick(r, []int{0, 0, 1, 3, 5}))*time.Millisecond, true)
		for _, i := range order {
			members[i].send()
		}
		for _, m := range members {
			m.conn.PollReply(m.id, 2*time.Second)
		}
		x.wg.Wait()
		x.answerMode(0, false)
	}
	synctest.Wait()
	reads := x.slowP.set(0) - callsBefore
	// references: each alone, nothing in flight (presence membership does not change during a group)
	for _, m := range members {
		if !x.reference(m) {
			return
		}
	}
	c.Count("storm_presence_groups", 1)
	c.Count("storm_presence_commands", n)
	if reads < n {
		c.Count("storm_presence_reads_coalesced", n-reads)
	}
	chs, kinds, distinguishable := map[string]bool{}, map[bool]bool{}, false
	for i, a := range members {
		chs[a.ch], kinds[a.stats] = true, true
		for _, b := range members[i+1:] {
			if a.stats == b.stats && a.ch != b.ch {
				if a.stats && a.wantS != b.wantS || !a.stats && fmt.Sprint(presenceStrings(a.wantP.Presence)) != fmt.Sprint(presenceStrings(b.wantP.Presence)) {
					distinguishable = true
				}
			}
		}
	}
	if len(chs) > 1 {
		c.Count("storm_presence_groups_differing_channels", 1)
		if distinguishable && x.singleFlight {
			c.Count("storm_single_flight_presence_groups_with_distinguishable_channels", 1)
		}
	}
	if len(kinds) > 1 {
		c.Count("storm_presence_groups_mixed_kinds", 1)
	}
	if direct {
		c.Count("storm_groups_goroutine_per_connection", 1)
	} else if len(used) == 1 {
		c.Count("storm_groups_one_connection", 1)
	} else {
		c.Count("storm_groups_several_connections", 1)
	}
	for _, m := range members {
		x.judgePresence(m, true)
		if c.Violated() {
			return
		}
	}
}

func runCase(c *kit.Case) {
	r := c.R
	w := kit.NewWorld(c)
	x := &world{c: c, w: w, H: kit.Pick(r, []int{0, 1, 3, 3}), handlerRan: map[string]int{}}
	cfg := centrifuge.Config{
		HistoryMaxPublicationLimit:   x.H,
		ClientStaleCloseDelay:        time.Hour,
		ClientPresenceUpdateInterval: time.Duration(r.Range(1, 4)) * time.Second,
	}
	// storm cases: slow broker / presence manager, single flight (mostly) on, groups of
	// commands issued at the same instant
	x.storm = c.Index%4 == 3
	if x.storm {
		x.singleFlight = r.Chance(4, 5)
		cfg.UseSingleFlight = x.singleFlight
	}
	var users sync.Map // transport -> user
	node, _ := w.NewNode(cfg, func(n *centrifuge.Node) {
		if x.storm {
			inner, err := centrifuge.NewMemoryBroker(n, centrifuge.MemoryBrokerConfig{})
			if err != nil {
				panic(err)
			}
			x.slow = &slowBroker{MemoryBroker: inner}
			n.SetBroker(x.slow)
			innerP, err := centrifuge.NewMemoryPresenceManager(n, centrifuge.MemoryPresenceManagerConfig{})
			if err != nil {
				panic(err)
			}
			x.slowP = &slowPresence{MemoryPresenceManager: innerP}
			n.SetPresenceManager(x.slowP)
		}
		n.OnConnecting(func(_ context.Context, e centrifuge.ConnectEvent) (centrifuge.ConnectReply, error) {
			u, _ := users.Load(e.Transport)
			user, _ := u.(string)
			return centrifuge.ConnectReply{Credentials: &centrifuge.Credentials{UserID: user, Info: []byte(`{"u":"` + user + `"}`)}}, nil
		})
		n.OnConnect(func(cl *centrifuge.Client) {
			cl.OnSubscribe(func(e centrifuge.SubscribeEvent, cb centrifuge.SubscribeCallback) {
				cb(centrifuge.SubscribeReply{Options: centrifuge.SubscribeOptions{EmitPresence: true, EmitJoinLeave: true, ChannelInfo: []byte(`{"ch":"` + e.Channel + `"}`)}}, nil)
			})
			cl.OnHistory(func(e centrifuge.HistoryEvent, cb centrifuge.HistoryCallback) {
				x.answer("history", func() { cb(centrifuge.HistoryReply{}, nil) })
			})
			cl.OnPresence(func(e centrifuge.PresenceEvent, cb centrifuge.PresenceCallback) {
				x.answer("presence", func() { cb(centrifuge.PresenceReply{}, nil) })
			})
			cl.OnPresenceStats(func(e centrifuge.PresenceStatsEvent, cb centrifuge.PresenceStatsCallback) {
				x.answer("presence_stats", func() { cb(centrifuge.PresenceStatsReply{}, nil) })
			})
		})
	})
	x.node = node
	// stay off the whole-second instants at which the memory broker expires streams
	time.Sleep(500 * time.Microsecond)

	newConn := func(user string) *kit.Conn {
		conn := w.NewConn(node, kit.TransportOpts{Protocol: kit.Pick(r, []centrifuge.ProtocolType{centrifuge.ProtocolTypeJSON, centrifuge.ProtocolTypeProtobuf}),
			PingPong: centrifuge.PingPongConfig{PingInterval: -1, PongTimeout: -1}})
		users.Store(conn.T, user)
		conn.Connect(nil)
		return conn
	}

	// history channels
	var chans []*chanState
	for i, n := 0, r.Range(1, 3); i < n; i++ {
		cs := &chanState{name: fmt.Sprintf("c43:h%d", i), size: r.Range(1, 8), ttl: kit.Pick(r, []time.Duration{time.Second, 2 * time.Second, 3 * time.Second, time.Minute, time.Minute})}
		chans = append(chans, cs)
	}
	publish := func(cs *chanState) {
		cs.n++
		opts := []centrifuge.PublishOption{centrifuge.WithHistory(cs.size, cs.ttl)}
		if r.Chance(1, 3) {
			opts = append(opts, centrifuge.WithTags(map[string]string{"k": fmt.Sprint(cs.n % 3)}))
		}
		if _, err := node.Publish(cs.name, []byte(fmt.Sprintf(`{"i":%d}`, cs.n)), opts...); err != nil {
			c.Inconclusive(fmt.Sprintf("publish: %v", err))
		}
		c.Count("publishes", 1)
	}
	for _, cs := range chans {
		for i, n := 0, r.Range(0, 12); i < n; i++ {
			publish(cs)
		}
	}
	// presence population
	presChans := []string{"c43:p0", "c43:p1", "c43:empty"}
	var conns []*kit.Conn
	reader := newConn("reader")
	conns = append(conns, reader)
	var members []*kit.Conn
	for i, n := 0, r.Range(0, 4); i < n; i++ {
		m := newConn(fmt.Sprintf("user%d", r.Intn(3)))
		conns = append(conns, m)
		members = append(members, m)
		for _, ch := range presChans[:2] {
			if r.Chance(2, 3) {
				m.Subscribe(&protocol.SubscribeRequest{Channel: ch})
			}
		}
	}
	if r.Bool() {
		reader.Subscribe(&protocol.SubscribeRequest{Channel: presChans[0]})
	}
	// storm cases: up to four more connections that only send commands
	readers := []*kit.Conn{reader}
	if x.storm {
		for i, n := 0, r.Range(1, 4); i < n; i++ {
			rc := newConn(fmt.Sprintf("reader%d", i))
			conns = append(conns, rc)
			readers = append(readers, rc)
		}
	}
	synctest.Wait()

	steps := r.Range(8, 26)
	for st := 0; st < steps && !c.Violated(); st++ {
		if closed, _, _ := reader.T.Closed(); closed {
			break
		}
		if x.storm && r.Chance(2, 5) {
			if r.Chance(3, 4) {
				x.stormHistoryGroup(readers, r, chans)
			} else {
				x.stormPresenceGroup(readers, r, presChans)
			}
			continue
		}
		switch v := r.Intn(20); {
		case v < 9:
			x.historyCommand(reader, r, chans)
		case v < 11:
			x.presenceCommand(reader, r, presChans, false)
		case v < 13:
			x.presenceCommand(reader, r, presChans, true)
		case v < 16:
			cs := kit.Pick(r, chans)
			for i, n := 0, r.Range(1, 4); i < n; i++ {
				publish(cs)
			}
		case v < 18:
			// let the virtual clock run: history TTLs expire, presence is refreshed
			time.Sleep(time.Duration(r.Range(200, 2500)) * time.Millisecond)
			synctest.Wait()
			c.Count("clock_advances", 1)
		case v < 19:
			cs := kit.Pick(r, chans)
			_ = node.RemoveHistory(cs.name)
			c.Count("history_removed", 1)
		default:
			if len(members) > 0 {
				i := r.Intn(len(members))
				m := members[i]
				if r.Bool() {
					m.Unsubscribe(presChans[r.Intn(2)])
				} else {
					_ = m.CloseFn()
					members = append(members[:i], members[i+1:]...)
				}
				synctest.Wait()
				c.Count("presence_membership_changes", 1)
			}
		}
	}
	c.Count("config_limit_"+fmt.Sprint(x.H), 1)
	if x.storm {
		c.Count("storm_cases", 1)
		if x.singleFlight {
			c.Count("storm_cases_single_flight_on", 1)
		} else {
			c.Count("storm_cases_single_flight_off", 1)
		}
	}
	x.wg.Wait()
	for _, conn := range conns {
		_ = conn.CloseFn()
	}
	synctest.Wait()
	w.Shutdown()
}

func TestC43(t *testing.T) {
	kit.Main(t, kit.Spec{
		ID:     "C43",
		Level:  "exploration",
		Bubble: true,
		Rule: "each case = one node (Config.HistoryMaxPublicationLimit in {0,1,3}) in a virtual-time bubble; 1-3 channels get random histories (Node.Publish WithHistory size 1..8, TTL 1s/2s/3s/60s, 0..12 initial publications, some tagged); 0-4 connections (3 user ids, connection and channel info) " +
			"subscribe with EmitPresence to two channels; one reader connection (JSON or Protobuf) runs 8-26 steps out of {history command: since nil / current epoch / stale epoch / empty epoch x offset 0 / top / random up to top+2, limit in {-5,-1,0,1,2,3,4,7,1000}, reverse 40%, unknown channel 8%; " +
			"presence command; presence_stats command; 1-4 more publications (trims); clock advance 0.2-2.5 s (TTL expiry, presence refresh); RemoveHistory; a member unsubscribes or disconnects}. OnHistory/OnPresence/OnPresenceStats allow the request with an empty reply, synchronously or after 1-40 virtual ms. " +
			"Oracle per command (one evaluation each), at the virtual instant of the reply: publications, offset and epoch equal Node.History(channel, WithHistoryFilter(effective)) where effective.limit = configured limit if that is > 0 and the requested limit is negative or larger, else the requested limit; " +
			"never more publications than a configured limit > 0; reverse with since.offset == 0 gives error 107; a node-level error (e.g. stale epoch: unrecoverable position) gives the same error code; presence map (client, user, conn info, chan info) == Node.Presence; presence_stats == Node.PresenceStats. " +
			"Non-trivial = every command; signature = configured limit x limit class x reverse x since class x error x size bucket (history), entry counts (presence). " +
			"Storm cases (every 4th case): Config.UseSingleFlight on in 4 of 5, broker and presence manager wrapped (embedding MemoryBroker / MemoryPresenceManager) so that History / Presence / PresenceStats take 2-30 virtual ms during a group, 1-4 extra command connections; " +
			"40% of the steps are groups of 2-5 commands issued at the same instant: history on one channel with {same limit, no since, differing only in reverse | same since, differing reverse | differing limits | differing since | independent random requests | identical requests}, " +
			"or presence / presence_stats on the same or differing channels and kinds; from one connection or several (handlers answer from goroutines of their own after 0-5 ms), or one goroutine per connection with a synchronous handler; issue order permuted. " +
			"Every reply of a group is judged by the same oracle against the node-level result for ITS OWN effective filter / channel, obtained by a Node call made alone after the group (nothing in flight, so it cannot share another request's read), valid because the full stream (Node.History NoLimit) is identical before and after the group; " +
			"a reply that equals the node-level result of another member's differing filter / channel is reported under its own class. Broker reads per group are counted (fewer reads than requests = coalesced).",
		Assumptions: []string{
			"HistoryMaxPublicationLimit == 0 means no configured limit (Config doc: 'By default, no limit used'): the request's own limit is the effective one",
			"'the same virtual instant': all harness clock advances are whole milliseconds after an initial 0.5 ms offset, so they never coincide with the memory broker's whole-second expiry ticks; nothing publishes while a command is in flight",
			"publications are compared by offset, data and tags",
			"a Node.History / Node.Presence call made while no other call for the channel is in flight is the node-level result also with Config.UseSingleFlight (single flight only joins calls that overlap in time)",
			"groups start at most 900 ms into a virtual second and last under 40 ms, so no expiry tick falls into them; a group whose full stream differs before/after is skipped and counted (storm_groups_skipped_stream_changed)",
		},
		Cases: map[string]int{"quick": 1600, "thorough": 20000},
		RequireCounters: []string{"history_commands", "history_replies_equal_node_level", "history_replies_with_publications", "history_limit_clamped", "history_reply_at_configured_limit",
			"history_reverse_since_zero", "history_node_level_error", "history_negative_limit", "history_reverse_multi", "history_expired_or_removed_observed",
			"presence_commands", "presence_nonempty", "presence_stats_commands", "presence_stats_nonempty", "presence_stats_users_fewer_than_clients",
			"clock_advances", "history_removed", "presence_membership_changes", "config_limit_0", "config_limit_1", "config_limit_3",
			"storm_cases", "storm_cases_single_flight_on", "storm_cases_single_flight_off", "storm_history_groups", "storm_history_commands", "storm_history_reads_coalesced", "storm_history_replies_equal_node_level",
			"storm_groups_mixed_filters", "storm_single_flight_groups_mixed_filters", "storm_groups_differing_only_in_reverse_without_since", "storm_single_flight_reverse_only_groups_with_distinguishable_results",
			"storm_groups_same_since_differing_reverse", "storm_groups_differing_limit", "storm_groups_differing_since", "storm_groups_identical_requests",
			"storm_groups_one_connection", "storm_groups_several_connections", "storm_groups_goroutine_per_connection",
			"storm_presence_groups", "storm_presence_commands", "storm_presence_reads_coalesced", "storm_presence_replies_equal_node_level", "storm_presence_groups_differing_channels",
			"storm_single_flight_presence_groups_with_distinguishable_channels", "storm_presence_groups_mixed_kinds"},
		Run: runCase,
	})
}
