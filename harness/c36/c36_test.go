// C36: Liveness timers close exactly the connections they should.
package c36

import (
	"context"
	"fmt"
	"os"
	"sort"
	"strconv"
	"strings"
	"sync"
	"sync/atomic"
	"testing"
	"time"

	"github.com/centrifugal/centrifuge"
	"github.com/centrifugal/centrifuge/verifx/kit"
	"github.com/centrifugal/protocol"
)

// margin is the distance from a model deadline inside which the oracle accepts
// either outcome (Unix-second arithmetic, sub-second phase of the connect instant).
const margin = 2 * time.Second

const (
	codeNoPong     = 3012
	codeStale      = 3502
	codeExpired    = 3005
	codeSubExpired = 3006
	codeUnsubExp   = 2501
)

// ---------------------------------------------------------------------------------------------
// transport wrapper recording the virtual instant of Close

type xTransport struct {
	*kit.RecTransport
	w  *kit.World
	st *cstate

	mu       sync.Mutex
	closed   bool
	closedAt time.Duration
	disc     centrifuge.Disconnect
}

func (t *xTransport) Close(d centrifuge.Disconnect) error {
	t.mu.Lock()
	if !t.closed {
		t.closed = true
		t.closedAt = t.w.Now()
		t.disc = d
	}
	t.mu.Unlock()
	return t.RecTransport.Close(d)
}

func (t *xTransport) closeInfo() (bool, time.Duration, uint32) {
	t.mu.Lock()
	defer t.mu.Unlock()
	return t.closed, t.closedAt, t.disc.Code
}

// ---------------------------------------------------------------------------------------------
// harness TimerScheduler (time.AfterFunc inside the bubble)

type sched struct {
	shared    bool
	ch        chan func()
	done      chan struct{}
	scheduled atomic.Int64
	cancelled atomic.Int64
	fired     atomic.Int64
}

type canceler struct {
	s *sched
	t *time.Timer
}

func (c canceler) Cancel() {
	if c.t.Stop() {
		c.s.cancelled.Add(1)
	}
}

func newSched(shared bool) *sched {
	s := &sched{shared: shared, ch: make(chan func()), done: make(chan struct{})}
	if shared {
		go func() {
			for {
				select {
				case f := <-s.ch:
					f()
				case <-s.done:
					return
				}
			}
		}()
	}
	return s
}

func (s *sched) ScheduleTimer(d time.Duration, cb func()) centrifuge.TimerCanceler {
	s.scheduled.Add(1)
	if d <= 0 {
		d = 1 // see onFrame: never arm a bubbled timer that is already due
	}
	t := time.AfterFunc(d, func() {
		s.fired.Add(1)
		if !s.shared {
			cb()
			return
		}
		select {
		case s.ch <- cb:
		case <-s.done:
		}
	})
	return canceler{s: s, t: t}
}

func (s *sched) stop() { close(s.done) }

// ---------------------------------------------------------------------------------------------
// plan and observations of one connection

type refreshEv struct {
	At      time.Duration `json:"at"`
	Kind    string        `json:"kind"`
	NewExp  int64         `json:"new_exp"` // unix seconds, 0 = no expiration
	Expired bool          `json:"expired,omitempty"`
	Acked   bool          `json:"acked"`
	Server  bool          `json:"server_driven,omitempty"` // invoked by the library (handler), not placed by the harness
	InCheck bool          `json:"inside_position_check,omitempty"` // run by the broker wrapper while the periodic position check waited for History
	GraceLo time.Duration `json:"grace_lo"`
	GraceHi time.Duration `json:"grace_hi"`

	cmdID   uint32
	retErr  string
	doFalse bool
}

type subPlan struct {
	Channel    string `json:"channel"`
	ServerSide bool   `json:"server_side"`
	AtConnect  bool   `json:"at_connect,omitempty"`  // server-side subscription from ConnectReply.Subscriptions
	CSR        bool   `json:"client_side_refresh"`   // SubscribeReply.ClientSideRefresh
	Handler    bool   `json:"sub_refresh_handler"`   // OnSubRefresh set
	Positioned bool   `json:"positioned,omitempty"`  // EnablePositioning: periodic position checks go to the broker
	PosExtra   int64  `json:"refresh_inside_position_check_extends_by,omitempty"`
	Exp        int64  `json:"expire_at"`             // unix
	SubAt      time.Duration `json:"sub_at"`
	Ext        []int  `json:"handler_extensions,omitempty"` // server-driven handler: extension (s) per invocation, then Expired
}

type cstate struct {
	Idx        int           `json:"idx"`
	Kind       string        `json:"kind"`
	Proto      string        `json:"proto"`
	CreateAt   time.Duration `json:"create_at"`
	ConnectAt  time.Duration `json:"connect_at"` // <0: never
	ConnectErr bool          `json:"connect_err,omitempty"`
	P          time.Duration `json:"ping_interval"`
	T          time.Duration `json:"pong_timeout"`
	PPReply    bool          `json:"pingpong_from_connect_reply"`
	PongDelays []time.Duration `json:"pong_delays,omitempty"`
	StopAt     int           `json:"stop_ponging_at_ping"` // <0: answer all
	LatePong   time.Duration `json:"late_pong_after_timeout,omitempty"`
	Chatty     bool          `json:"other_commands_after_unanswered_pings,omitempty"` // keeps sending RPC commands (never a pong) once it stopped answering
	ExpMode    string        `json:"exp_mode,omitempty"` // client | client-nohandler | server-handler | server-nohandler
	Exp0       int64         `json:"expire_at,omitempty"`
	SrvExt     []int         `json:"handler_extensions,omitempty"`
	Prelude    bool          `json:"prelude_refresh_to_no_expiry,omitempty"`
	Sub        *subPlan      `json:"sub,omitempty"`
	Horizon    time.Duration `json:"horizon"`

	x    *cworld
	tr   *xTransport
	conn *kit.Conn
	user string

	mu        sync.Mutex
	pingsAt   []time.Duration
	pongsSent int
	pongFalse int
	timers    []*time.Timer
	stopped   bool
	connEvs   []*refreshEv
	subEvs    []*refreshEv
	connectID uint32
	connectRet bool
	subID     uint32
	srvCalls  int
	subCalls  int
	posEv     *refreshEv // pending sub_refresh to run inside the next position check
	subEstablished atomic.Bool
}

type tevent struct {
	at  time.Duration
	seq int
	fn  func()
}

type cworld struct {
	c    *kit.Case
	w    *kit.World
	node *centrifuge.Node
	base time.Time
	S, DC, DS, I time.Duration
	schedKind    string
	sch          *sched
	conns  []*cstate
	events []tevent
	posCheck  bool // positioned-subscription scenarios: broker wrapper + short position check delay
	chMu      sync.Mutex
	byChannel map[string]*cstate
}

func (x *cworld) unixAt(d time.Duration) int64 { return x.base.Add(d).Unix() }

// absOf is the offset (from world start) of the instant unix.000.
func (x *cworld) absOf(unix int64) time.Duration { return time.Unix(unix, 0).Sub(x.base) }

func (x *cworld) at(d time.Duration, fn func()) {
	x.events = append(x.events, tevent{at: d, seq: len(x.events), fn: fn})
}

func ms(n int) time.Duration { return time.Duration(n) * time.Millisecond }
func sec(n int) time.Duration { return time.Duration(n) * time.Second }

// ---------------------------------------------------------------------------------------------
// node handlers

func (x *cworld) stateOf(ti centrifuge.TransportInfo) *cstate {
	if t, ok := ti.(*xTransport); ok {
		return t.st
	}
	return nil
}

func parseExpToken(tok string) (int64, bool, bool) {
	if tok == "expired" {
		return 0, true, true
	}
	if strings.HasPrefix(tok, "exp:") {
		v, err := strconv.ParseInt(tok[4:], 10, 64)
		return v, false, err == nil
	}
	return 0, false, false
}

// posBroker is the real memory broker; a History call that is the periodic position check
// of a scenario channel first lets the scenario's pending client sub_refresh run to
// completion (the broker round trip "takes long enough" for a command to be handled).
type posBroker struct {
	*centrifuge.MemoryBroker
	x *cworld
}

func (b *posBroker) History(ch string, opts centrifuge.HistoryOptions) ([]*centrifuge.Publication, centrifuge.StreamPosition, error) {
	b.x.chMu.Lock()
	st := b.x.byChannel[ch]
	b.x.chMu.Unlock()
	if st != nil {
		st.insidePositionCheck()
	}
	return b.MemoryBroker.History(ch, opts)
}

// insidePositionCheck runs inside the broker's History call. The subscribe command itself
// asks History for the stream top: only calls made once the subscription is established
// (no subscribe in flight) are position checks. Never sleeps: the tick holds presenceMu.
func (st *cstate) insidePositionCheck() {
	if !st.subEstablished.Load() {
		return
	}
	x := st.x
	x.c.Count("position_check_history_calls", 1)
	st.mu.Lock()
	ev := st.posEv
	if ev == nil || st.stopped {
		st.mu.Unlock()
		return
	}
	st.posEv = nil
	now := x.w.Now()
	if now > x.absOf(st.Sub.Exp)+x.DS-margin {
		st.mu.Unlock()
		x.c.Count("position_check_too_late_for_in_time_refresh", 1)
		return
	}
	ev.At = now
	ev.NewExp = st.Sub.Exp + st.Sub.PosExtra
	if u := x.unixAt(now) + st.Sub.PosExtra; u > ev.NewExp {
		ev.NewExp = u
	}
	st.subEvs = append(st.subEvs, ev)
	st.mu.Unlock()
	var done atomic.Bool
	go func() {
		st.subRefresh(ev)
		done.Store(true)
	}()
	if kit.SpinUntil(done.Load, 5_000_000) {
		x.c.Count("sub_refresh_run_inside_position_check", 1)
	} else {
		x.c.Count("sub_refresh_inside_position_check_not_completed_in_time", 1)
	}
}

func (x *cworld) setup(n *centrifuge.Node) {
	if x.posCheck {
		mb, err := centrifuge.NewMemoryBroker(n, centrifuge.MemoryBrokerConfig{})
		if err != nil {
			panic(err)
		}
		n.SetBroker(&posBroker{MemoryBroker: mb, x: x})
	}
	n.OnConnecting(func(_ context.Context, e centrifuge.ConnectEvent) (centrifuge.ConnectReply, error) {
		st := x.stateOf(e.Transport)
		if st == nil {
			return centrifuge.ConnectReply{}, centrifuge.DisconnectServerError
		}
		if st.ConnectErr {
			return centrifuge.ConnectReply{}, centrifuge.ErrorPermissionDenied
		}
		rep := centrifuge.ConnectReply{
			Credentials:       &centrifuge.Credentials{UserID: st.user, ExpireAt: st.Exp0},
			ClientSideRefresh: st.ExpMode == "client" || st.ExpMode == "client-nohandler",
		}
		if st.PPReply {
			rep.PingPongConfig = &centrifuge.PingPongConfig{PingInterval: cfgDur(st.P, 25*time.Second), PongTimeout: cfgDur(st.T, 10*time.Second)}
		}
		if st.Sub != nil && st.Sub.ServerSide && st.Sub.AtConnect {
			rep.Subscriptions = map[string]centrifuge.SubscribeOptions{st.Sub.Channel: {ExpireAt: st.Sub.Exp}}
		}
		return rep, nil
	})
	n.OnConnect(func(cl *centrifuge.Client) {
		st := x.stateOf(cl.Transport())
		if st == nil {
			return
		}
		if st.ExpMode == "client" || st.ExpMode == "server-handler" {
			cl.OnRefresh(func(e centrifuge.RefreshEvent, cb centrifuge.RefreshCallback) {
				if e.ClientSideRefresh {
					v, expired, ok := parseExpToken(e.Token)
					if !ok {
						cb(centrifuge.RefreshReply{}, centrifuge.ErrorBadRequest)
						return
					}
					cb(centrifuge.RefreshReply{ExpireAt: v, Expired: expired}, nil)
					return
				}
				now := x.w.Now()
				st.mu.Lock()
				k := st.srvCalls
				st.srvCalls++
				ev := &refreshEv{At: now, Kind: "refresh-handler", Acked: true, Server: true}
				if k < len(st.SrvExt) {
					ev.NewExp = x.unixAt(now) + int64(st.SrvExt[k])
				} else {
					ev.Expired = true
				}
				st.connEvs = append(st.connEvs, ev)
				st.mu.Unlock()
				cb(centrifuge.RefreshReply{ExpireAt: ev.NewExp, Expired: ev.Expired}, nil)
			})
		}
		if st.Sub != nil && !st.Sub.ServerSide {
			cl.OnSubscribe(func(e centrifuge.SubscribeEvent, cb centrifuge.SubscribeCallback) {
				cb(centrifuge.SubscribeReply{Options: centrifuge.SubscribeOptions{ExpireAt: st.Sub.Exp, EnablePositioning: st.Sub.Positioned}, ClientSideRefresh: st.Sub.CSR}, nil)
			})
		}
		if st.Sub != nil && st.Sub.Handler {
			cl.OnSubRefresh(func(e centrifuge.SubRefreshEvent, cb centrifuge.SubRefreshCallback) {
				if e.ClientSideRefresh {
					v, expired, ok := parseExpToken(e.Token)
					if !ok {
						cb(centrifuge.SubRefreshReply{}, centrifuge.ErrorBadRequest)
						return
					}
					cb(centrifuge.SubRefreshReply{ExpireAt: v, Expired: expired}, nil)
					return
				}
				now := x.w.Now()
				st.mu.Lock()
				k := st.subCalls
				st.subCalls++
				ev := &refreshEv{At: now, Kind: "sub-refresh-handler", Acked: true, Server: true, GraceLo: x.DS, GraceHi: x.DS}
				if k < len(st.Sub.Ext) {
					ev.NewExp = x.unixAt(now) + int64(st.Sub.Ext[k])
				} else {
					ev.Expired = true
				}
				st.subEvs = append(st.subEvs, ev)
				st.mu.Unlock()
				cb(centrifuge.SubRefreshReply{ExpireAt: ev.NewExp, Expired: ev.Expired}, nil)
			})
		}
	})
}

// cfgDur maps an effective duration back to the config value (0 selects the library default).
func cfgDur(d, def time.Duration) time.Duration {
	if d == def {
		return 0
	}
	return d
}

// ---------------------------------------------------------------------------------------------
// actions

func (st *cstate) create() {
	x := st.x
	pp := centrifuge.PingPongConfig{PingInterval: cfgDur(st.P, 25*time.Second), PongTimeout: cfgDur(st.T, 10*time.Second)}
	if st.PPReply {
		// decoy: must be overridden by ConnectReply.PingPongConfig
		pp = centrifuge.PingPongConfig{PingInterval: 700 * time.Millisecond, PongTimeout: 300 * time.Millisecond}
	}
	pt := centrifuge.ProtocolTypeJSON
	if st.Proto == "protobuf" {
		pt = centrifuge.ProtocolTypeProtobuf
	}
	rec := x.w.NewTransport(kit.TransportOpts{Protocol: pt, PingPong: pp, Name: fmt.Sprintf("c%d", st.Idx)})
	st.tr = &xTransport{RecTransport: rec, w: x.w, st: st}
	rec.OnFrame(st.onFrame)
	cl, closeFn, err := centrifuge.NewClient(context.Background(), x.node, st.tr)
	if err != nil {
		panic(err)
	}
	st.conn = &kit.Conn{W: x.w, T: rec, Client: cl, CloseFn: closeFn}
}

func isPing(f kit.Frame) bool {
	r := f.Reply
	return r != nil && f.DecodeErr == "" && r.Id == 0 && r.Push == nil && r.Error == nil && r.Connect == nil &&
		r.Subscribe == nil && r.Refresh == nil && r.SubRefresh == nil && r.Unsubscribe == nil
}

func (st *cstate) onFrame(f kit.Frame) {
	if !isPing(f) {
		return
	}
	st.mu.Lock()
	idx := len(st.pingsAt)
	st.pingsAt = append(st.pingsAt, f.At)
	var d time.Duration = -1
	switch {
	case st.StopAt < 0 || idx < st.StopAt:
		d = st.PongDelays[idx%len(st.PongDelays)]
	case idx == st.StopAt && st.LatePong > 0:
		d = st.T + st.LatePong
	}
	if st.Chatty && st.StopAt >= 0 && idx >= st.StopAt && !st.stopped {
		// traffic that is not a pong must not count as one
		st.timers = append(st.timers, time.AfterFunc(st.T/2, st.chatter))
	}
	if d == 0 && !st.stopped {
		// not time.AfterFunc(0, ..): a bubbled timer that is due immediately runs on the
		// caller's system stack and has crashed the go1.26 runtime under -race
		go st.pong()
	} else if d > 0 && !st.stopped {
		st.timers = append(st.timers, time.AfterFunc(d, st.pong))
	}
	st.mu.Unlock()
}

func (st *cstate) pong() {
	st.mu.Lock()
	if st.stopped {
		st.mu.Unlock()
		return
	}
	st.pongsSent++
	st.mu.Unlock()
	if !st.conn.Do(&protocol.Command{}) {
		st.mu.Lock()
		st.pongFalse++
		st.mu.Unlock()
	}
}

func (st *cstate) chatter() {
	st.mu.Lock()
	stopped := st.stopped
	st.mu.Unlock()
	if stopped {
		return
	}
	st.x.c.Count("nopong_other_commands_sent_instead_of_pong", 1)
	st.conn.Do(&protocol.Command{Id: st.conn.NextID(), Rpc: &protocol.RPCRequest{Method: "c36"}})
}

func (st *cstate) connect() {
	st.connectID = st.conn.NextID()
	st.connectRet = st.conn.Do(&protocol.Command{Id: st.connectID, Connect: &protocol.ConnectRequest{}})
}

func (st *cstate) subscribe() {
	if st.Sub.ServerSide {
		_ = st.conn.Client.Subscribe(st.Sub.Channel, centrifuge.WithExpireAt(st.Sub.Exp))
		return
	}
	st.subID = st.conn.NextID()
	st.conn.Do(&protocol.Command{Id: st.subID, Subscribe: &protocol.SubscribeRequest{Channel: st.Sub.Channel}})
	st.subEstablished.Store(true)
}

func (st *cstate) clientRefresh(ev *refreshEv) {
	ev.cmdID = st.conn.NextID()
	tok := "exp:" + strconv.FormatInt(ev.NewExp, 10)
	if ev.Expired {
		tok = "expired"
	}
	if !st.conn.Do(&protocol.Command{Id: ev.cmdID, Refresh: &protocol.RefreshRequest{Token: tok}}) {
		ev.doFalse = true
	}
}

func (st *cstate) subRefresh(ev *refreshEv) {
	ev.cmdID = st.conn.NextID()
	tok := "exp:" + strconv.FormatInt(ev.NewExp, 10)
	if ev.Expired {
		tok = "expired"
	}
	if !st.conn.Do(&protocol.Command{Id: ev.cmdID, SubRefresh: &protocol.SubRefreshRequest{Channel: st.Sub.Channel, Token: tok}}) {
		ev.doFalse = true
	}
}

func (st *cstate) serverRefresh(ev *refreshEv, viaNode bool) {
	opts := []centrifuge.RefreshOption{centrifuge.WithRefreshExpireAt(ev.NewExp)}
	if ev.Expired {
		opts = []centrifuge.RefreshOption{centrifuge.WithRefreshExpired(true)}
	}
	var err error
	if viaNode {
		err = st.x.node.Refresh(st.user, opts...)
	} else {
		err = st.conn.Client.Refresh(opts...)
	}
	if err != nil {
		ev.retErr = err.Error()
	}
}

// ---------------------------------------------------------------------------------------------
// generation

func pickDur(r *kit.Rand, xs ...time.Duration) time.Duration { return kit.Pick(r, xs) }

var kinds = []string{
	"stale-never", "stale-connect", "stale-connect-error",
	"pong", "pong", "pong",
	"exp-client", "exp-client", "exp-client", "exp-client-nohandler", "exp-server-handler", "exp-server-handler", "exp-server-nohandler",
	"sub-client-csr", "sub-client-csr", "sub-client-csr", "sub-client-ssr", "sub-client-nohandler", "sub-server", "sub-server-handler",
}

// gridAround proposes an instant for a refresh relative to the model window [lo, hi]
// (lo = earliest legal termination + margin, i.e. deadline; hiExtra = tick slack).
func gridAround(r *kit.Rand, prev, deadline, hiExtra, timerAt time.Duration) (time.Duration, string) {
	if timerAt > prev && r.Chance(1, 6) {
		// the very instant the library's expire timer fires (known from the instant it was armed)
		return timerAt, "at-timer"
	}
	switch r.Intn(10) {
	case 0, 1:
		return prev + (deadline-margin-prev)/2, "well-before"
	case 2:
		return deadline - margin - ms(10), "before-margin"
	case 3:
		return deadline - margin, "at-margin"
	case 4:
		return deadline - ms(500), "just-before"
	case 5:
		return deadline - ms(10), "just-before"
	case 6:
		return deadline + ms(10), "just-after"
	case 7:
		return deadline + ms(r.Range(100, 990)) + hiExtra/2, "just-after"
	case 8:
		return deadline + margin + hiExtra + sec(1), "late"
	default:
		return deadline + margin + hiExtra + sec(1) + ms(r.Range(1, 3000)), "late"
	}
}

func (x *cworld) genConn(idx int) *cstate {
	r := x.c.R
	st := &cstate{Idx: idx, x: x, user: fmt.Sprintf("u%d", idx), StopAt: -1, Proto: "json"}
	if r.Chance(1, 4) {
		st.Proto = "protobuf"
	}
	st.Kind = kit.Pick(r, kinds)
	if x.posCheck && r.Chance(1, 4) {
		st.Kind = "sub-client-csr-positioned"
	}
	st.CreateAt = ms(r.Range(0, 3000))
	st.ConnectAt = st.CreateAt + ms(r.Range(1, 400))
	// ping/pong configuration
	st.P = pickDur(r, sec(2), sec(5), sec(10), sec(25))
	switch st.P {
	case sec(2):
		st.T = pickDur(r, ms(500), sec(1))
	case sec(5):
		st.T = pickDur(r, sec(1), sec(3))
	default:
		st.T = pickDur(r, sec(1), sec(3), sec(7))
		if st.P == sec(25) && r.Bool() {
			st.T = sec(10)
		}
	}
	st.PPReply = r.Chance(1, 3)
	st.PongDelays = []time.Duration{kit.Pick(r, []time.Duration{0, ms(1), st.T / 2, st.T - ms(10)}), kit.Pick(r, []time.Duration{0, ms(1), st.T / 2, st.T - ms(10)})}
	t0 := st.ConnectAt
	st.Horizon = t0 + sec(10)

	x.at(st.CreateAt, st.create)

	prelude := false
	switch {
	case strings.HasPrefix(st.Kind, "stale"):
		switch st.Kind {
		case "stale-never":
			st.ConnectAt = -1
		case "stale-connect":
			off := kit.Pick(r, []time.Duration{x.S / 2, x.S - sec(1), x.S - ms(10), x.S + ms(10), ms(1)})
			if off <= 0 {
				off = ms(1)
			}
			st.ConnectAt = st.CreateAt + off
		case "stale-connect-error":
			st.ConnectErr = true
			st.ConnectAt = st.CreateAt + x.S/3
		}
		st.Horizon = st.CreateAt + x.S + sec(3)
		if st.ConnectAt >= 0 {
			x.at(st.ConnectAt, st.connect)
		}
		return st
	case st.Kind == "pong":
		prelude = r.Chance(1, 40)
		st.StopAt = r.Range(-1, 3)
		st.Chatty = st.StopAt >= 0 && idx%2 == 0
		if st.StopAt >= 0 && r.Chance(1, 3) {
			st.LatePong = ms(10)
		}
	case strings.HasPrefix(st.Kind, "sub"):
		prelude = r.Chance(1, 40)
	}
	x.at(st.ConnectAt, st.connect)

	if prelude && !strings.Contains(skip, "prelude") {
		// connection starts with an expiry and is switched to "no expiration" by a
		// server-side refresh well before the deadline
		st.Prelude = true
		st.ExpMode = kit.Pick(r, []string{"client", "server-nohandler"})
		pre := r.Range(6, 10)
		st.Exp0 = x.unixAt(t0) + int64(pre)
		ev := &refreshEv{At: t0 + ms(r.Range(500, 2500)), Kind: "server-refresh", NewExp: 0, GraceLo: x.DC, GraceHi: x.DC}
		viaNode := r.Bool()
		st.connEvs = append(st.connEvs, ev)
		x.at(ev.At, func() { st.serverRefresh(ev, viaNode) })
		// whatever the primary timer is, it must lie after the original expire timer
		after := x.absOf(st.Exp0) + x.DC + sec(2)
		if st.Kind == "pong" {
			if st.P > sec(5) {
				st.P, st.T = sec(5), sec(1)
				st.PongDelays = []time.Duration{0, ms(500)}
			}
			if st.StopAt >= 0 {
				st.StopAt = int((after-t0)/st.P) + 1 + r.Intn(2)
			}
		}
	}

	switch {
	case st.Kind == "pong":
		k := st.StopAt
		if k < 0 {
			k = 3
		}
		st.Horizon = t0 + time.Duration(k+2)*st.P + st.T + sec(3)

	case strings.HasPrefix(st.Kind, "exp"):
		st.ExpMode = strings.TrimPrefix(st.Kind, "exp-")
		expIn := r.Range(3, 40)
		st.Exp0 = x.unixAt(t0) + int64(expIn)
		gLo, gHi := time.Duration(0), time.Duration(0)
		if strings.HasPrefix(st.ExpMode, "client") {
			gLo, gHi = x.DC, x.DC
		}
		curExp := st.Exp0
		prev := t0
		armed := t0 // instant the expire timer was last (re)armed
		switch st.ExpMode {
		case "server-handler":
			if r.Chance(1, 5) {
				st.SrvExt = []int{100000}
			} else {
				for i, n := 0, r.Range(0, 3); i < n; i++ {
					st.SrvExt = append(st.SrvExt, r.Range(3, 20))
				}
			}
		}
		// harness-placed refreshes
		nRef := 0
		switch st.ExpMode {
		case "client":
			nRef = r.Range(0, 3)
		case "client-nohandler":
			nRef = r.Range(0, 1)
		default:
			if r.Chance(1, 3) && len(st.SrvExt) == 0 {
				nRef = r.Range(1, 2)
			}
		}
		last := x.absOf(curExp) + gHi
		for i := 0; i < nRef; i++ {
			dl := x.absOf(curExp) + gLo
			timerAt := armed + time.Duration(curExp-x.unixAt(armed))*time.Second + gHi
			at, _ := gridAround(r, prev, dl, gHi-gLo, timerAt)
			if at <= prev+ms(5) {
				at = prev + ms(r.Range(6, 900))
			}
			ev := &refreshEv{At: at, GraceLo: x.DC, GraceHi: x.DC}
			ttl := r.Range(3, 30)
			ev.NewExp = x.unixAt(at) + int64(ttl)
			server := st.ExpMode != "client" || r.Chance(1, 3)
			if server {
				ev.Kind = "server-refresh"
				if !strings.HasPrefix(st.ExpMode, "client") {
					ev.GraceLo = 0 // the grace delay is documented for the client-side workflow only: accept both
				}
				switch r.Intn(8) {
				case 0:
					ev.NewExp = 0
				case 1:
					if at <= dl-margin {
						ev.Expired, ev.NewExp = true, 0
					}
				}
				viaNode := r.Bool()
				x.at(at, func() { st.serverRefresh(ev, viaNode) })
			} else {
				ev.Kind = "client-refresh"
				if r.Chance(1, 8) && at <= dl-margin && st.ExpMode == "client" {
					ev.Expired, ev.NewExp = true, 0
				}
				x.at(at, func() { st.clientRefresh(ev) })
			}
			st.connEvs = append(st.connEvs, ev)
			prev = at
			if ev.Expired {
				break
			}
			if ev.NewExp == 0 {
				last = at
				break
			}
			if at < dl+margin+sec(1) {
				curExp = ev.NewExp
				gLo, gHi = ev.GraceLo, ev.GraceHi
				armed = at
			}
			if l := x.absOf(ev.NewExp) + x.DC; l > last {
				last = l
			}
			if l := at; l > last {
				last = l
			}
		}
		ext := 0
		for _, e := range st.SrvExt {
			if e < 1000 {
				ext += e + 1
			}
		}
		st.Horizon = last + sec(ext) + margin + sec(3)

	case strings.HasPrefix(st.Kind, "sub"):
		sp := &subPlan{Channel: fmt.Sprintf("c36:%d", idx)}
		st.Sub = sp
		switch st.Kind {
		case "sub-client-csr":
			sp.CSR, sp.Handler = true, true
		case "sub-client-csr-positioned":
			sp.CSR, sp.Handler, sp.Positioned = true, true, true
		case "sub-client-ssr":
			sp.Handler = true
		case "sub-client-nohandler":
		case "sub-server":
			sp.ServerSide = true
			sp.AtConnect = r.Bool()
		case "sub-server-handler":
			sp.ServerSide, sp.Handler = true, true
			sp.AtConnect = r.Bool()
		}
		sp.SubAt = t0 + ms(r.Range(50, 2000))
		if sp.AtConnect {
			sp.SubAt = t0
		}
		subIn := r.Range(3, 40)
		if sp.Positioned {
			// the first presence tick (position check) comes within one interval of the connect
			subIn = int(x.I/time.Second) + 8 + r.Range(0, 20)
			// long enough that ending at the ORIGINAL deadline would be too early for the new one
			sp.PosExtra = int64(x.I/time.Second) + 5 + int64(r.Range(0, 20))
			st.posEv = &refreshEv{Kind: "sub-refresh", InCheck: true, GraceLo: x.DS, GraceHi: x.DS}
			x.chMu.Lock()
			x.byChannel[sp.Channel] = st
			x.chMu.Unlock()
		}
		if st.Prelude {
			subIn += int((x.absOf(st.Exp0)+x.DC-t0)/time.Second) + 3
		}
		sp.Exp = x.unixAt(sp.SubAt) + int64(subIn)
		if !sp.AtConnect {
			x.at(sp.SubAt, st.subscribe)
		}
		hiExtra := sec(1) + x.I
		last := x.absOf(sp.Exp) + x.DS
		if sp.Handler && !sp.CSR {
			if r.Chance(1, 5) {
				sp.Ext = []int{100000}
			} else {
				for i, n := 0, r.Range(0, 2); i < n; i++ {
					sp.Ext = append(sp.Ext, r.Range(3, 20))
				}
			}
			for _, e := range sp.Ext {
				if e < 1000 {
					last += sec(e+1) + x.DS + hiExtra
				}
			}
		}
		if sp.CSR {
			curExp := sp.Exp
			prev := sp.SubAt
			nGrid := r.Range(0, 3)
			if sp.Positioned {
				nGrid = 0 // the one refresh of this scenario runs inside the position check
			}
			for i, n := 0, nGrid; i < n; i++ {
				dl := x.absOf(curExp) + x.DS
				at, _ := gridAround(r, prev, dl, hiExtra, -1)
				if at <= prev+ms(5) {
					at = prev + ms(r.Range(6, 900))
				}
				ev := &refreshEv{At: at, Kind: "sub-refresh", GraceLo: x.DS, GraceHi: x.DS}
				ev.NewExp = x.unixAt(at) + int64(r.Range(3, 30))
				if r.Chance(1, 8) && at <= dl-margin && !strings.Contains(skip, "subexpired") {
					ev.Expired, ev.NewExp = true, 0
				}
				x.at(at, func() { st.subRefresh(ev) })
				st.subEvs = append(st.subEvs, ev)
				prev = at
				if ev.Expired {
					break
				}
				if at < dl+margin+hiExtra {
					curExp = ev.NewExp
				}
				if l := x.absOf(ev.NewExp) + x.DS; l > last {
					last = l
				}
				if at > last {
					last = at
				}
			}
		}
		if sp.Positioned {
			last = x.absOf(sp.Exp+2*sp.PosExtra) + x.DS
		}
		st.Horizon = last + hiExtra + margin + sec(3)
	}
	return st
}

// ---------------------------------------------------------------------------------------------
// oracle

type termObs struct {
	happened bool
	at       time.Duration
	code     uint32
}

type evalRes struct {
	outcome string
}

func (st *cstate) detail(extra map[string]any) any {
	x := st.x
	st.mu.Lock()
	defer st.mu.Unlock()
	closed, at, code := st.tr.closeInfo()
	d := map[string]any{
		"plan": st, "stale_delay": x.S.String(), "expired_close_delay": x.DC.String(), "expired_sub_close_delay": x.DS.String(),
		"presence_interval": x.I.String(), "scheduler": x.schedKind, "base_unix": x.base.Unix(),
		"closed": closed, "closed_at": at.String(), "close_code": code, "pings_at": fmt.Sprint(st.pingsAt),
		"conn_refreshes": st.connEvs, "sub_refreshes": st.subEvs,
	}
	for k, v := range extra {
		d[k] = v
	}
	return d
}

// evalExpiry walks the acknowledged refreshes of one expiry (connection or
// subscription) and compares the observed termination with the model window.
func (st *cstate) evalExpiry(name string, exp0 int64, gLo, gHi, hiExtra time.Duration, evs []*refreshEv, term termObs, horizon time.Duration) string {
	x, c := st.x, st.x.c
	exp := exp0
	lo := func() time.Duration { return x.absOf(exp) + gLo - margin }
	hi := func() time.Duration { return x.absOf(exp) + gHi + margin + hiExtra }
	deadClass := func(cls string) string {
		if st.Prelude {
			return "c36-timers-dead-after-refresh-to-no-expiry"
		}
		return cls
	}
	sorted := append([]*refreshEv(nil), evs...)
	sort.SliceStable(sorted, func(i, j int) bool { return sorted[i].At < sorted[j].At })
	// A refresh that lands inside the ambiguous window of the deadline it replaces can be
	// acknowledged and still lose against the expire timer that fires at that very moment:
	// termination inside the old window stays acceptable.
	altLo, altHi := time.Duration(-1), time.Duration(-1)
	for _, ev := range sorted {
		if term.happened && ev.At > term.at {
			if ev.Acked && !ev.Server {
				c.Violation("c36-"+name+"-refresh-acknowledged-after-termination", fmt.Sprintf("conn %d: a %s at %s was acknowledged although the %s had already ended at %s", st.Idx, ev.Kind, ev.At, name, term.at), st.detail(nil))
				return "violation"
			}
			if !ev.Server {
				if exp != 0 && ev.At >= hi() {
					c.Count(name+"_refresh_late_rejected", 1)
				} else {
					c.Count(name+"_refresh_ambiguous_window", 1)
					c.Count(name+"_refresh_ambiguous_rejected", 1)
				}
			}
			continue
		}
		if exp != 0 {
			if ev.At > hi() && !(term.happened && term.at <= hi()) {
				c.Violation(deadClass("c36-"+name+"-not-terminated-after-deadline"), fmt.Sprintf("conn %d: %s deadline (expire_at %d + grace %s) passed at %s without termination: still alive at %s", st.Idx, name, exp, gHi, x.absOf(exp)+gHi, ev.At), st.detail(nil))
				return "violation"
			}
			if !ev.Server {
				switch {
				case ev.At <= lo():
					c.Count(name+"_refresh_in_time", 1)
					if !ev.Acked {
						c.Violation("c36-"+name+"-refresh-in-time-rejected", fmt.Sprintf("conn %d: %s at %s (deadline %s) was not acknowledged", st.Idx, ev.Kind, ev.At, x.absOf(exp)+gLo), st.detail(nil))
						return "violation"
					}
				case ev.At >= hi():
					c.Count(name+"_refresh_late_but_alive", 1)
				default:
					c.Count(name+"_refresh_ambiguous_window", 1)
					if ev.Acked {
						c.Count(name+"_refresh_ambiguous_accepted", 1)
					}
				}
			}
			if ev.Acked && ev.At > lo() && ev.At < hi() {
				altLo, altHi = lo(), hi()
			}
		} else if !ev.Server && !ev.Acked {
			c.Violation("c36-"+name+"-refresh-in-time-rejected", fmt.Sprintf("conn %d: %s at %s on a non-expiring %s was not acknowledged", st.Idx, ev.Kind, ev.At, name), st.detail(nil))
			return "violation"
		}
		if !ev.Acked {
			continue
		}
		if ev.Expired {
			// the refresher declared expiry: termination now, or at the natural deadline at the latest
			limit := ev.At + sec(1)
			if exp != 0 && hi() > limit {
				limit = hi()
			}
			if exp == 0 {
				limit = ev.At + sec(1) + hiExtra
			}
			c.Count(name+"_expired_by_refresher", 1)
			if term.happened && term.at >= ev.At-ms(1) && term.at <= limit {
				return "expired-by-refresher"
			}
			if term.happened && term.at < ev.At {
				break
			}
			if horizon < limit {
				c.Count(name+"_undecided_at_horizon", 1)
				return "undecided"
			}
			c.Violation("c36-"+name+"-expired-refresh-reply-not-enforced", fmt.Sprintf("conn %d: %s at %s answered Expired but the %s was not ended by %s (ended=%v at %s)", st.Idx, ev.Kind, ev.At, name, limit, term.happened, term.at), st.detail(nil))
			return "violation"
		}
		exp, gLo, gHi = ev.NewExp, ev.GraceLo, ev.GraceHi
		c.Count(name+"_refresh_applied", 1)
	}
	if exp == 0 {
		if term.happened && altHi >= 0 && term.at >= altLo && term.at <= altHi {
			c.Count(name+"_expired_while_refresh_in_ambiguous_window_was_acknowledged", 1)
			return "expired"
		}
		if term.happened {
			c.Violation("c36-"+name+"-terminated-without-expiry", fmt.Sprintf("conn %d: %s ended with the expired code at %s although it has no expiration", st.Idx, name, term.at), st.detail(nil))
			return "violation"
		}
		return "alive-no-expiry"
	}
	if term.happened {
		switch {
		case term.at < lo() && altHi >= 0 && term.at >= altLo && term.at <= altHi:
			c.Count(name+"_expired_while_refresh_in_ambiguous_window_was_acknowledged", 1)
			return "expired"
		case term.at < lo():
			c.Violation("c36-"+name+"-terminated-too-early", fmt.Sprintf("conn %d: %s ended at %s, earlier than expire_at %d (%s) + grace %s - %s", st.Idx, name, term.at, exp, x.absOf(exp), gLo, margin), st.detail(nil))
			return "violation"
		case term.at > hi():
			c.Violation("c36-"+name+"-terminated-too-late", fmt.Sprintf("conn %d: %s ended at %s, later than expire_at %d (%s) + grace %s + %s", st.Idx, name, term.at, exp, x.absOf(exp), gHi, margin+hiExtra), st.detail(nil))
			return "violation"
		}
		return "expired"
	}
	switch {
	case horizon >= hi():
		c.Violation(deadClass("c36-"+name+"-not-terminated-after-deadline"), fmt.Sprintf("conn %d: %s deadline (expire_at %d = %s, + grace %s) passed without termination: still alive at %s", st.Idx, name, exp, x.absOf(exp), gHi, horizon), st.detail(nil))
		return "violation"
	case horizon <= lo():
		return "alive-refreshed"
	}
	c.Count(name+"_undecided_at_horizon", 1)
	return "undecided"
}

// resolveAcks decides from the recorded frames which harness-placed refreshes were acknowledged.
func (st *cstate) resolveAcks(frames []kit.Frame) {
	byID := map[uint32]kit.Frame{}
	for _, f := range frames {
		if f.Reply != nil && f.Reply.Id != 0 {
			byID[f.Reply.Id] = f
		}
	}
	for _, ev := range append(append([]*refreshEv(nil), st.connEvs...), st.subEvs...) {
		if ev.Server {
			continue
		}
		if ev.Expired {
			// an "expired" answer is not acknowledged by a reply: it counts as delivered
			// iff the connection (and subscription) was still there
			closed, at, _ := st.tr.closeInfo()
			ev.Acked = !closed || at >= ev.At
			if ev.Kind == "sub-refresh" {
				for _, f := range frames {
					if f.Push != nil && f.Push.Unsubscribe != nil && f.At < ev.At {
						ev.Acked = false
					}
				}
			}
			continue
		}
		switch ev.Kind {
		case "client-refresh":
			f, ok := byID[ev.cmdID]
			ev.Acked = ok && f.Reply.Error == nil && f.Reply.Refresh != nil
		case "sub-refresh":
			f, ok := byID[ev.cmdID]
			ev.Acked = ok && f.Reply.Error == nil && f.Reply.SubRefresh != nil
		case "server-refresh":
			for _, f := range frames {
				if f.Push != nil && f.Push.Refresh != nil && f.At >= ev.At && f.At <= ev.At+ms(1) {
					ev.Acked = true
				}
			}
		}
	}
}

func (st *cstate) evaluate(end time.Duration) string {
	x, c := st.x, st.x.c
	frames := st.tr.Frames()
	st.mu.Lock()
	st.resolveAcks(frames)
	pings := append([]time.Duration(nil), st.pingsAt...)
	st.mu.Unlock()
	closed, closedAt, code := st.tr.closeInfo()
	horizon := end
	if closed {
		horizon = closedAt
	}
	for _, f := range frames {
		if f.DecodeErr != "" {
			c.Inconclusive("harness could not decode a frame: " + f.DecodeErr)
			return "decode-error"
		}
	}
	st.mu.Lock()
	pongsSent := st.pongsSent
	st.mu.Unlock()
	c.Count("pings_observed", len(pings))
	c.Count("pongs_sent", pongsSent)
	out := []string{st.Kind}

	// --- stale
	authOK := false
	if st.ConnectAt >= 0 {
		for _, f := range frames {
			if f.Reply != nil && f.Reply.Id == st.connectID && f.Reply.Error == nil && f.Reply.Connect != nil {
				authOK = true
			}
		}
	}
	staleAt := st.CreateAt + x.S
	term := func(want ...uint32) termObs {
		for _, w := range want {
			if closed && code == w {
				return termObs{true, closedAt, code}
			}
		}
		return termObs{}
	}
	if closed {
		known := false
		for _, k := range []uint32{codeNoPong, codeStale, codeExpired, codeSubExpired} {
			known = known || code == k
		}
		if !known {
			c.Violation("c36-unexpected-disconnect-code", fmt.Sprintf("conn %d (%s) was closed with code %d at %s", st.Idx, st.Kind, code, closedAt), st.detail(nil))
			return "violation"
		}
	}
	if strings.HasPrefix(st.Kind, "stale") {
		expectStale := st.ConnectAt < 0 || st.ConnectErr || st.ConnectAt > staleAt
		ts := term(codeStale)
		switch {
		case expectStale && !ts.happened:
			if closed {
				c.Violation("c36-stale-wrong-code", fmt.Sprintf("conn %d never authenticated but was closed with %d", st.Idx, code), st.detail(nil))
			} else {
				c.Violation("c36-stale-not-closed", fmt.Sprintf("conn %d never authenticated and is still open at %s (created %s, stale delay %s)", st.Idx, end, st.CreateAt, x.S), st.detail(nil))
			}
			return "violation"
		case expectStale && (ts.at < staleAt-sec(1) || ts.at > staleAt+sec(1)):
			c.Violation("c36-stale-closed-at-wrong-time", fmt.Sprintf("conn %d closed stale at %s, expected %s", st.Idx, ts.at, staleAt), st.detail(nil))
			return "violation"
		case expectStale:
			c.Count("stale_closed", 1)
			out = append(out, "stale-closed")
		case !expectStale && ts.happened:
			c.Violation("c36-stale-closed-authenticated-connection", fmt.Sprintf("conn %d authenticated at %s (before the stale delay ended at %s) but was closed with the stale code at %s", st.Idx, st.ConnectAt, staleAt, ts.at), st.detail(nil))
			return "violation"
		case !authOK:
			c.Violation("c36-connect-before-stale-delay-failed", fmt.Sprintf("conn %d: connect at %s (stale deadline %s) got no connect reply", st.Idx, st.ConnectAt, staleAt), st.detail(nil))
			return "violation"
		default:
			c.Count("stale_survived_after_connect", 1)
			out = append(out, "stale-survived")
		}
		if expectStale {
			return strings.Join(out, ":")
		}
	} else {
		if ts := term(codeStale); ts.happened {
			c.Violation("c36-stale-closed-authenticated-connection", fmt.Sprintf("conn %d (%s) was closed with the stale code at %s", st.Idx, st.Kind, ts.at), st.detail(nil))
			return "violation"
		}
		if !authOK {
			c.Violation("c36-connect-failed", fmt.Sprintf("conn %d: connect got no successful reply", st.Idx), st.detail(nil))
			return "violation"
		}
	}

	// --- no pong
	tp := term(codeNoPong)
	t0 := st.ConnectAt
	tol := ms(2) // ping and pong timers use exact durations: the virtual clock shows them to the nanosecond
	if tp.happened {
		// whatever the plan: a no-pong close needs a ping whose timeout has run out
		last := -1
		for i, p := range pings {
			if p <= tp.at {
				last = i
			}
		}
		if last < 0 || tp.at < pings[last]+st.T-tol {
			since := "no ping had been sent"
			if last >= 0 {
				since = fmt.Sprintf("the last ping (#%d) was sent at %s", last, pings[last])
			}
			c.Violation("c36-nopong-closed-before-pong-timeout", fmt.Sprintf("conn %d was closed with no-pong at %s but %s and the pong timeout is %s", st.Idx, tp.at, since, st.T), st.detail(nil))
			return "violation"
		}
	}
	if st.StopAt < 0 {
		if tp.happened {
			c.Violation("c36-nopong-closed-although-ping-answered", fmt.Sprintf("conn %d answered every ping within the pong timeout (delays %v, timeout %s) but was closed with no-pong at %s", st.Idx, st.PongDelays, st.T, tp.at), st.detail(nil))
			return "violation"
		}
		if len(pings) > 0 {
			c.Count("pong_answered_survived", 1)
		}
	} else {
		var lo, hi time.Duration
		if len(pings) > st.StopAt {
			lo, hi = pings[st.StopAt]+st.T-tol, pings[st.StopAt]+st.T+sec(1)
		} else {
			lo = t0 + st.P/2 + time.Duration(st.StopAt)*st.P + st.T - tol
			hi = t0 + time.Duration(st.StopAt+1)*st.P + st.T + sec(1)
		}
		switch {
		case tp.happened && tp.at < lo:
			c.Violation("c36-nopong-closed-although-ping-answered", fmt.Sprintf("conn %d closed with no-pong at %s although every ping before #%d was answered in time (the first unanswered ping allows it from %s)", st.Idx, tp.at, st.StopAt, lo), st.detail(nil))
			return "violation"
		case tp.happened && tp.at > hi:
			c.Violation("c36-nopong-closed-too-late", fmt.Sprintf("conn %d closed with no-pong at %s; expected by %s", st.Idx, tp.at, hi), st.detail(nil))
			return "violation"
		case tp.happened:
			c.Count("nopong_closed", 1)
			if st.LatePong > 0 {
				c.Count("nopong_closed_late_pong", 1)
			}
			out = append(out, "nopong-closed")
		case horizon >= hi:
			cls := "c36-nopong-not-closed"
			if st.Prelude {
				cls = "c36-timers-dead-after-refresh-to-no-expiry"
			}
			c.Violation(cls, fmt.Sprintf("conn %d stopped answering at ping #%d (ping interval %s, pong timeout %s, %d pings seen) and is still open at %s (closed=%v code=%d)", st.Idx, st.StopAt, st.P, st.T, len(pings), horizon, closed, code), st.detail(nil))
			return "violation"
		}
	}

	// A client-side sub-refresh command answered Expired is not acknowledged: the whole
	// connection is closed with 3005 at that instant (SubRefreshReply.Expired in events.go).
	// That close is the termination of the subscription expiry, not a connection expiry.
	var subExpClose termObs
	if closed && code == codeExpired && st.Sub != nil && !st.Sub.ServerSide {
		for _, ev := range st.subEvs {
			if !ev.Server && ev.Expired && ev.Acked && closedAt >= ev.At-ms(1) && closedAt <= ev.At+sec(1) {
				subExpClose = termObs{true, closedAt, code}
			}
		}
	}
	connTerm := term(codeExpired)
	if subExpClose.happened {
		connTerm = termObs{}
		c.Count("sub_expiry_connection_closed_3005_by_expired_sub_refresh_reply", 1)
	}

	// --- connection expiry
	if st.Exp0 != 0 {
		gLo, gHi := time.Duration(0), time.Duration(0)
		if strings.HasPrefix(st.ExpMode, "client") {
			gLo, gHi = x.DC, x.DC
		}
		res := st.evalExpiry("conn-expiry", st.Exp0, gLo, gHi, 0, st.connEvs, connTerm, horizon)
		if res == "violation" {
			return res
		}
		c.Count("conn_expiry_"+res, 1)
		c.Count("conn_expiry_mode_"+st.ExpMode, 1)
		out = append(out, "conn-"+res)
	} else if te := connTerm; te.happened {
		c.Violation("c36-conn-expiry-terminated-without-expiry", fmt.Sprintf("conn %d without expiration closed with the expired code at %s", st.Idx, te.at), st.detail(nil))
		return "violation"
	}

	// --- subscription expiry
	if sp := st.Sub; sp != nil {
		subscribed := sp.AtConnect
		var tu termObs
		unsubs := 0
		for _, f := range frames {
			if f.Reply != nil && f.Reply.Id == st.subID && st.subID != 0 && f.Reply.Error == nil && f.Reply.Subscribe != nil {
				subscribed = true
			}
			if f.Push != nil && f.Push.Subscribe != nil && f.Push.Channel == sp.Channel {
				subscribed = true
			}
			if f.Push != nil && f.Push.Unsubscribe != nil && f.Push.Channel == sp.Channel {
				unsubs++
				if !tu.happened {
					tu = termObs{true, f.At, f.Push.Unsubscribe.Code}
				}
			}
		}
		if !subscribed {
			if closed && closedAt <= sp.SubAt {
				return strings.Join(append(out, "closed-before-subscribe"), ":")
			}
			c.Violation("c36-subscribe-failed", fmt.Sprintf("conn %d: subscription to %s was not established", st.Idx, sp.Channel), st.detail(nil))
			return "violation"
		}
		hiExtra := sec(1) + x.I
		var ts termObs
		if sp.ServerSide {
			ts = term(codeSubExpired)
			if tu.happened {
				c.Violation("c36-sub-expiry-server-side-subscription-unsubscribed", fmt.Sprintf("conn %d: server-side subscription got an unsubscribe push with code %d at %s", st.Idx, tu.code, tu.at), st.detail(nil))
				return "violation"
			}
		} else {
			if td := term(codeSubExpired); td.happened {
				c.Violation("c36-sub-expiry-client-side-subscription-disconnected", fmt.Sprintf("conn %d: client-side subscription expiry closed the connection with %d at %s", st.Idx, td.code, td.at), st.detail(nil))
				return "violation"
			}
			if tu.happened && tu.code != codeUnsubExp {
				c.Violation("c36-sub-expiry-wrong-unsubscribe-code", fmt.Sprintf("conn %d: unsubscribe push with code %d at %s", st.Idx, tu.code, tu.at), st.detail(nil))
				return "violation"
			}
			if unsubs > 1 {
				c.Violation("c36-sub-expiry-unsubscribed-twice", fmt.Sprintf("conn %d: %d unsubscribe pushes for one subscription", st.Idx, unsubs), st.detail(nil))
				return "violation"
			}
			ts = tu
			if !tu.happened && subExpClose.happened {
				ts = subExpClose
			}
		}
		subHorizon := horizon
		res := st.evalExpiry("sub-expiry", sp.Exp, x.DS, x.DS, hiExtra, st.subEvs, ts, subHorizon)
		if res == "violation" {
			return res
		}
		for _, ev := range st.subEvs {
			if ev.InCheck && ev.Acked {
				c.Count("sub_refresh_applied_inside_position_check", 1)
				c.Count("sub_refresh_applied_inside_position_check_then_"+res, 1)
			}
		}
		side := "client_side"
		if sp.ServerSide {
			side = "server_side"
		}
		c.Count("sub_expiry_"+side+"_"+res, 1)
		out = append(out, "sub-"+res)
	} else if ts := term(codeSubExpired); ts.happened {
		c.Violation("c36-sub-expiry-terminated-without-expiry", fmt.Sprintf("conn %d without subscriptions closed with the sub-expired code at %s", st.Idx, ts.at), st.detail(nil))
		return "violation"
	}
	if !closed {
		c.Count("connections_alive_at_horizon", 1)
	}
	return strings.Join(out, ":")
}

// ---------------------------------------------------------------------------------------------

// skip is a development aid (VERIF_C36_SKIP=prelude,subexpired): leaves out the scenarios
// that hit the two defects this check reports, to look at everything else.
var skip = os.Getenv("VERIF_C36_SKIP")

func runCase(c *kit.Case) {
	r := c.R
	x := &cworld{c: c, w: kit.NewWorld(c), base: time.Now()}
	x.S = pickDur(r, sec(15), sec(2), sec(5), sec(40))
	x.DC = pickDur(r, sec(25), sec(3), sec(4), sec(12))
	x.DS = pickDur(r, sec(25), sec(3), sec(4), sec(12))
	x.I = pickDur(r, sec(25), sec(1), sec(3), sec(8))
	x.schedKind = kit.Pick(r, []string{"default", "default", "harness-direct", "harness-shared"})
	cfg := centrifuge.Config{
		ClientStaleCloseDelay:        cfgDur(x.S, sec(15)),
		ClientExpiredCloseDelay:      cfgDur(x.DC, sec(25)),
		ClientExpiredSubCloseDelay:   cfgDur(x.DS, sec(25)),
		ClientPresenceUpdateInterval: cfgDur(x.I, sec(25)),
		ClientChannelLimit:           1000,
	}
	x.byChannel = map[string]*cstate{}
	if x.posCheck = r.Chance(1, 3); x.posCheck {
		cfg.ClientChannelPositionCheckDelay = pickDur(r, sec(1), sec(2))
		c.Count("cases_with_position_check_broker", 1)
	}
	if x.schedKind != "default" {
		x.sch = newSched(x.schedKind == "harness-shared")
		cfg.ClientTimerScheduler = x.sch
	}
	x.node, _ = x.w.NewNode(cfg, x.setup)
	nConn := r.Range(3, 6)
	var end time.Duration
	for i := 0; i < nConn; i++ {
		st := x.genConn(i)
		x.conns = append(x.conns, st)
		if st.Horizon > end {
			end = st.Horizon
		}
	}
	if end > 400*time.Second {
		end = 400 * time.Second
	}
	sort.SliceStable(x.events, func(i, j int) bool { return x.events[i].at < x.events[j].at })
	for _, e := range x.events {
		if e.at > end {
			break
		}
		if d := e.at - x.w.Now(); d > 0 {
			time.Sleep(d)
		}
		e.fn()
	}
	if d := end - x.w.Now(); d > 0 {
		time.Sleep(d)
	}
	x.w.Settle()
	now := x.w.Now()
	var sigs []string
	for _, st := range x.conns {
		sig := st.evaluate(now)
		sigs = append(sigs, sig)
		c.Count("kind_"+st.Kind, 1)
		if st.Prelude {
			c.Count("prelude_refresh_to_no_expiry", 1)
		}
	}
	c.Count("scheduler_"+x.schedKind, 1)
	if x.sch != nil {
		c.Count("harness_scheduler_timers_scheduled", int(x.sch.scheduled.Load()))
		c.Count("harness_scheduler_timers_fired", int(x.sch.fired.Load()))
		c.Count("harness_scheduler_timers_cancelled", int(x.sch.cancelled.Load()))
	}
	c.Count("virtual_seconds", int(now/time.Second))
	c.Eval(len(x.conns))
	sort.Strings(sigs)
	c.Nontrivial(x.schedKind + "|" + strings.Join(sigs, "|"))
	if c.Index < 48 {
		c.Sample(map[string]any{"stale_delay": x.S.String(), "expired_close_delay": x.DC.String(), "expired_sub_close_delay": x.DS.String(),
			"presence_interval": x.I.String(), "scheduler": x.schedKind, "connections": x.conns, "outcomes": sigs})
	}
	// teardown
	for _, st := range x.conns {
		st.mu.Lock()
		st.stopped = true
		for _, t := range st.timers {
			t.Stop()
		}
		st.mu.Unlock()
		if st.conn != nil {
			_ = st.conn.CloseFn()
		}
	}
	x.w.Shutdown()
	if x.sch != nil {
		x.sch.stop()
	}
	x.w.Settle()
}

func TestC36(t *testing.T) {
	kit.Main(t, kit.Spec{
		ID:     "C36",
		Bubble: true,
		Rule: "one virtual-time bubble per case: a node with random ClientStaleCloseDelay {2,5,15(default),40}s, ClientExpiredCloseDelay / ClientExpiredSubCloseDelay {3,4,12,25(default)}s, ClientPresenceUpdateInterval {1,3,8,25(default)}s, default timers or a harness TimerScheduler (time.AfterFunc in the bubble; callbacks run directly or on one shared worker goroutine), and 3-6 connections (JSON/Protobuf), each with one scenario: stale (never connects / connects before or just after the delay / connect rejected), pong (ping interval 2-25 s and pong timeout 0.5-10 s from the transport or ConnectReply.PingPongConfig; pongs after 0, 1 ms, T/2, T-10 ms; stops at ping #k, optionally a late pong at T+10 ms, and on every other such connection an RPC command at T/2 after each unanswered ping: traffic that is not a pong), connection expiry (client-side refresh with/without OnRefresh, server-side OnRefresh handler extending n times then Expired, no handler; client refresh commands, Client.Refresh and Node.Refresh on a grid around the deadline: midway, -2 s, -500 ms, -10 ms, +10 ms, +<1 s, +3 s, and the exact instant the expire timer fires; ExpireAt 0 and Expired variants), subscription expiry (client-side subscription with client-side sub-refresh on the same grid, server-driven OnSubRefresh, no handler; server-side subscription from ConnectReply.Subscriptions or Client.Subscribe, with/without OnSubRefresh). In a third of the cases the node runs on a wrapper around the real MemoryBroker with ClientChannelPositionCheckDelay 1-2 s, and a quarter of their connections hold a positioned client-side subscription whose one sub_refresh command is run to completion inside the History call of the first periodic position check (launched on another goroutine, busy-waited, no sleeping); it is acknowledged in time, so the subscription must outlive the original deadline and end at the refreshed one. One in 40 of the pong/subscription scenarios start with an expiring connection switched to no-expiration by a server-side refresh. " +
			"Oracle (timing model, per connection): the instant and code of transport.Close and of unsubscribe pushes are recorded on the virtual clock; stale => 3502 at create+delay (+-1 s) unless authenticated before; no pong => 3012 at (unanswered ping)+timeout (-2 ms/+1 s), never before the timeout of the last ping ran out, never when every ping was answered in time; expiry => walking the acknowledged refreshes, termination (3005 / unsubscribe push 2501 / 3006 for server-side subscriptions; a client-side sub-refresh answered Expired must end the subscription at once, by closing the connection with 3005 as documented or by the unsubscribe push, and that close is not judged as a connection expiry) must fall in [expire_at+grace-2 s, expire_at+grace+2 s (+1 s + one presence interval for subscriptions)], a refresh at or before the lower bound must be acknowledged and the connection/subscription must outlive it; refreshes inside the window may go either way (the oracle follows the acknowledgement). Signature = scheduler + sorted per-connection outcomes.",
		Assumptions: []string{
			"deadlines are compared with a 2 s margin (plus 1 s + one presence interval for tick-driven subscription expiry): an off-by-one-second error in the Unix-second arithmetic is not detected by design",
			"after Client.Refresh/Node.Refresh on a server-side-refresh connection the close may come anywhere between expire_at and expire_at+ClientExpiredCloseDelay (the delay is documented for the client-side workflow only, the code applies it)",
			"handler replies with ExpireAt 0 are not generated for OnRefresh/OnSubRefresh (the statement does not define them); ExpireAt 0 is only used with Client.Refresh/Node.Refresh where the code documents it as 'no expiration'",
			"bidirectional transports only (unidirectional ones have no pong)",
		},
		Cases: map[string]int{"quick": 1600, "thorough": 24000},
		RequireCounters: []string{"nopong_other_commands_sent_instead_of_pong", 
			"stale_closed", "stale_survived_after_connect", "nopong_closed", "nopong_closed_late_pong", "pong_answered_survived",
			"conn_expiry_expired", "conn_expiry_alive-refreshed", "conn_expiry_alive-no-expiry", "conn_expiry_expired-by-refresher",
			"conn-expiry_refresh_in_time", "conn-expiry_refresh_ambiguous_accepted", "conn-expiry_refresh_ambiguous_rejected", "conn-expiry_refresh_late_rejected", "conn-expiry_refresh_applied",
			"sub_expiry_client_side_expired", "sub_expiry_server_side_expired", "sub_expiry_client_side_alive-refreshed",
			"sub-expiry_refresh_in_time", "sub-expiry_refresh_ambiguous_accepted", "sub-expiry_refresh_ambiguous_rejected", "sub-expiry_refresh_late_rejected", "sub-expiry_refresh_applied",
			"scheduler_default", "scheduler_harness-direct", "scheduler_harness-shared", "harness_scheduler_timers_fired",
			"conn_expiry_mode_client", "conn_expiry_mode_server-handler", "conn_expiry_mode_server-nohandler", "conn_expiry_mode_client-nohandler",
			"prelude_refresh_to_no_expiry",
			"kind_sub-client-csr-positioned", "position_check_history_calls", "sub_refresh_run_inside_position_check",
			"sub_refresh_applied_inside_position_check", "sub_refresh_applied_inside_position_check_then_expired",
		},
		Run: runCase,
	})
}
