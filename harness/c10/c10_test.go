// C10: Channel pushes are bracketed by the subscription's start and end.
package c10

import (
	"context"
	"encoding/json"
	"fmt"
	"hash/fnv"
	"sync"
	"sync/atomic"
	"testing"
	"time"

	"github.com/centrifugal/centrifuge"
	"github.com/centrifugal/centrifuge/verifx/kit"
	"github.com/centrifugal/protocol"
)

// channel kinds: nh = published without history (offset 0), h = published with
// history but subscribed without positioning, p = positioned subscriptions.
type chanSpec struct {
	Name  string
	Kind  string
	Batch centrifuge.ChannelBatchConfig
}

type event struct {
	Seq  int64
	Kind string // sub-reply | sub-push | connect-subs | unsub-reply | unsub-push | pub | join | leave | disconnect
	ID   string
}

func hashDelay(salt uint64, point string, max int) time.Duration {
	h := fnv.New64a()
	_, _ = h.Write([]byte(point))
	v := (h.Sum64() ^ salt) * 0x9e3779b97f4a7c15
	return time.Duration(v%uint64(max+1)) * time.Millisecond
}

type subject struct {
	idx      int
	conn     *kit.Conn
	proto    centrifuge.ProtocolType
	mu       sync.Mutex
	subIDs   map[uint32]string // command id -> channel
	unsubIDs map[uint32]string
	salt     uint64
	// calm subjects get no virtual delays in their in-flight subscribes: they will
	// be disconnected, and a close that waits for a delayed subscribe while another
	// goroutine waits for the close's mutex freezes the bubble.
	calm bool
	// batch race: at the yield point before the per-channel batch add for raceCh,
	// a server-side unsubscribe of raceCh is launched and the adder busy-waits until
	// that unsubscribe has removed the channel and its batch writer.
	raceCh      string
	raceStarted atomic.Bool
	raceDeleted atomic.Bool
}

func runCase(c *kit.Case) {
	r := c.R
	w := kit.NewWorld(c)
	kinds := []string{"nh", "h", "p"}
	nCh := r.Range(1, 2)
	var chans []chanSpec
	for i := 0; i < nCh; i++ {
		cs := chanSpec{Kind: kit.Pick(r, kinds)}
		cs.Name = fmt.Sprintf("c10:%s%d", cs.Kind, i)
		if r.Chance(1, 3) {
			cs.Batch = centrifuge.ChannelBatchConfig{MaxSize: int64(r.Range(0, 4)), MaxDelay: time.Duration(r.Range(0, 15)) * time.Millisecond}
			if cs.Batch.MaxSize == 0 && cs.Batch.MaxDelay == 0 {
				cs.Batch.MaxDelay = 5 * time.Millisecond
			}
		}
		chans = append(chans, cs)
	}
	chanByName := map[string]chanSpec{}
	for _, cs := range chans {
		chanByName[cs.Name] = cs
	}
	replyWithoutQueue := r.Chance(1, 4)
	writeDelay := time.Duration(0)
	if r.Chance(1, 3) {
		writeDelay = time.Duration(r.Range(1, 8)) * time.Millisecond
	}
	asyncSub := r.Chance(1, 3)
	joinLeave := r.Chance(1, 2)

	subjByClient := sync.Map{} // *centrifuge.Client -> *subject
	var batchRaces atomic.Int64
	cfg := centrifuge.Config{
		ClientStaleCloseDelay: time.Hour,
		GetChannelBatchConfig: func(ch string) centrifuge.ChannelBatchConfig {
			return chanByName[ch].Batch
		},
	}
	subOptions := func(ch string) centrifuge.SubscribeOptions {
		o := centrifuge.SubscribeOptions{}
		if chanByName[ch].Kind == "p" {
			o.EnablePositioning = true
			o.EnableRecovery = true
		}
		if joinLeave {
			o.EmitJoinLeave = true
			o.PushJoinLeave = true
		}
		return o
	}
	node, _ := w.NewNode(cfg, func(n *centrifuge.Node) {
		n.OnConnecting(func(_ context.Context, e centrifuge.ConnectEvent) (centrifuge.ConnectReply, error) {
			rep := kit.Creds("u")
			rep.ReplyWithoutQueue = replyWithoutQueue
			rep.WriteDelay = writeDelay
			return rep, nil
		})
		n.OnConnect(func(cl *centrifuge.Client) {
			cl.OnSubscribe(func(e centrifuge.SubscribeEvent, cb centrifuge.SubscribeCallback) {
				rep := centrifuge.SubscribeReply{Options: subOptions(e.Channel)}
				calm := false
				if v, ok := subjByClient.Load(cl); ok {
					calm = v.(*subject).calm
				}
				if asyncSub && !calm {
					go func() {
						time.Sleep(2 * time.Millisecond)
						cb(rep, nil)
					}()
					return
				}
				cb(rep, nil)
			})
		})
	})
	kit.SetHook(node, func(point string, cl *centrifuge.Client, ch string) {
		if cl == nil {
			return
		}
		v, ok := subjByClient.Load(cl)
		if !ok {
			return
		}
		sj := v.(*subject)
		if sj.raceCh != "" && ch == sj.raceCh {
			switch point {
			case "write.beforeChannelBatchAdd":
				// called from the broadcast path (hub shard read-locked): never sleep here
				if sj.raceStarted.CompareAndSwap(false, true) {
					go sj.conn.Client.Unsubscribe(ch)
					kit.SpinUntil(sj.raceDeleted.Load, 200000)
					batchRaces.Add(1)
				}
				return
			case "unsub.afterDelete":
				sj.raceDeleted.Store(true)
				return
			case "unsub.beforeHubRemove":
				return
			}
		}
		if sj.calm {
			return
		}
		positioned := chanByName[ch].Kind == "p"
		switch point {
		case "sub.afterAddSub", "sub.afterRecover":
			time.Sleep(hashDelay(sj.salt, point+ch, 8))
		case "sub.beforeReply", "sub.afterReply", "sub.afterCommit", "ssub.beforeCommit", "ssub.afterCommit":
			if positioned {
				kit.Yield(100) // inside the recovery buffer lock: never sleep
				return
			}
			time.Sleep(hashDelay(sj.salt, point+ch, 8))
		case "unsub.afterDelete", "unsub.beforeHubRemove":
			if centrifuge.VerifClient(cl).Status == 3 {
				return // reached from close(): the presence mutex is held, do not sleep
			}
			time.Sleep(hashDelay(sj.salt, point+ch, 8))
		}
	})

	var pubN atomic.Int64
	publish := func(cs chanSpec) {
		n := pubN.Add(1)
		data, _ := json.Marshal(map[string]string{"id": fmt.Sprintf("m%d", n)})
		if cs.Kind == "nh" {
			_, _ = node.Publish(cs.Name, data)
		} else {
			_, _ = node.Publish(cs.Name, data, centrifuge.WithHistory(20, time.Minute))
		}
	}

	var wg sync.WaitGroup
	// publishers
	for _, cs := range chans {
		k := r.Range(10, 40)
		gaps := make([]time.Duration, k)
		for i := range gaps {
			gaps[i] = time.Duration(r.Range(0, 6)) * time.Millisecond
		}
		wg.Add(1)
		go func(cs chanSpec) {
			defer wg.Done()
			for _, g := range gaps {
				time.Sleep(g)
				publish(cs)
			}
		}(cs)
	}
	// a churner that joins and leaves (source of join/leave pushes)
	if joinLeave {
		cycles := r.Range(2, 6)
		gaps := make([]time.Duration, cycles*2)
		for i := range gaps {
			gaps[i] = time.Duration(r.Range(1, 15)) * time.Millisecond
		}
		target := kit.Pick(r, chans)
		wg.Add(1)
		go func() {
			defer wg.Done()
			conn := w.NewConn(node, kit.TransportOpts{})
			conn.Connect(nil)
			for i := 0; i < cycles; i++ {
				time.Sleep(gaps[2*i])
				conn.Subscribe(&protocol.SubscribeRequest{Channel: target.Name})
				time.Sleep(gaps[2*i+1])
				conn.Unsubscribe(target.Name)
			}
			time.Sleep(5 * time.Millisecond)
			_ = conn.CloseFn()
		}()
	}

	nSubj := r.Range(1, 3)
	subjects := make([]*subject, nSubj)
	for i := range subjects {
		sj := &subject{idx: i, subIDs: map[uint32]string{}, unsubIDs: map[uint32]string{}, salt: r.Uint64()}
		sj.proto = kit.Pick(r, []centrifuge.ProtocolType{centrifuge.ProtocolTypeJSON, centrifuge.ProtocolTypeProtobuf})
		sj.conn = w.NewConn(node, kit.TransportOpts{Protocol: sj.proto})
		subjByClient.Store(sj.conn.Client, sj)
		subjects[i] = sj
		cycles := r.Range(1, 3)
		type step struct {
			ch              chanSpec
			before, live    time.Duration
			serverSub       bool
			unsubKind       int // 0 client cmd, 1 Client.Unsubscribe, 2 Node.Unsubscribe
			closeInstead    bool
		}
		steps := make([]step, cycles)
		for k := range steps {
			steps[k] = step{ch: kit.Pick(r, chans), before: time.Duration(r.Range(0, 12)) * time.Millisecond, live: time.Duration(r.Range(2, 30)) * time.Millisecond,
				serverSub: r.Chance(1, 4), unsubKind: r.Intn(3), closeInstead: k == cycles-1 && r.Chance(1, 5)}
		}
		for _, st := range steps {
			if st.closeInstead {
				sj.calm = true
			}
		}
		if !sj.calm && r.Chance(1, 3) {
			for _, st := range steps {
				if st.ch.Batch.MaxDelay > 0 && (st.ch.Batch.MaxSize == 0 || st.ch.Batch.MaxSize > 2) {
					sj.raceCh = st.ch.Name
					break
				}
			}
		}
		wg.Add(1)
		go func(sj *subject) {
			defer wg.Done()
			sj.conn.Connect(nil)
			for _, st := range steps {
				time.Sleep(st.before)
				if st.serverSub {
					opts := []centrifuge.SubscribeOption{}
					o := subOptions(st.ch.Name)
					if o.EnablePositioning {
						opts = append(opts, centrifuge.WithPositioning(true), centrifuge.WithRecovery(true))
					}
					if o.EmitJoinLeave {
						opts = append(opts, centrifuge.WithEmitJoinLeave(true), centrifuge.WithPushJoinLeave(true))
					}
					_ = sj.conn.Client.Subscribe(st.ch.Name, opts...)
				} else {
					id := sj.conn.NextID()
					sj.mu.Lock()
					sj.subIDs[id] = st.ch.Name
					sj.mu.Unlock()
					sj.conn.Do(&protocol.Command{Id: id, Subscribe: &protocol.SubscribeRequest{Channel: st.ch.Name}})
				}
				time.Sleep(st.live)
				if st.closeInstead {
					sj.conn.Client.Disconnect(centrifuge.DisconnectForceNoReconnect)
					return
				}
				switch st.unsubKind {
				case 0:
					id := sj.conn.NextID()
					sj.mu.Lock()
					sj.unsubIDs[id] = st.ch.Name
					sj.mu.Unlock()
					sj.conn.Do(&protocol.Command{Id: id, Unsubscribe: &protocol.UnsubscribeRequest{Channel: st.ch.Name}})
				case 1:
					sj.conn.Client.Unsubscribe(st.ch.Name)
				case 2:
					_ = node.Unsubscribe("u", st.ch.Name, centrifuge.WithUnsubscribeClient(sj.conn.Client.ID()))
				}
			}
		}(sj)
	}
	wg.Wait()
	time.Sleep(200 * time.Millisecond)
	w.Settle()

	sig := fmt.Sprintf("rwq=%v wd=%v", replyWithoutQueue, writeDelay > 0)
	for _, sj := range subjects {
		frames := sj.conn.T.Frames()
		if c.Verbose {
			for _, f := range frames {
				c.Logf("subject %d frame seq=%d at=%v call=%d/%d %s", sj.idx, f.Seq, f.At, f.WriteCall, f.Batch, string(f.Raw))
			}
		}
		state := map[string]string{} // channel -> "", "in", "ended"
		endSeq := map[string]int64{}
		endKind := map[string]string{}
		counts := map[string]int{}
		var trace []event
		for fi, f := range frames {
			ev := event{Seq: f.Seq}
			var ch string
			switch {
			case f.Reply != nil && f.Reply.Id != 0:
				sj.mu.Lock()
				sch, isSub := sj.subIDs[f.Reply.Id]
				uch, isUnsub := sj.unsubIDs[f.Reply.Id]
				sj.mu.Unlock()
				if isSub && f.Reply.Error == nil && f.Reply.Subscribe != nil {
					ch, ev.Kind = sch, "sub-reply"
					state[ch] = "in"
				} else if isUnsub && f.Reply.Error == nil {
					ch, ev.Kind = uch, "unsub-reply"
					state[ch] = "ended"
					endSeq[ch] = f.Seq
					endKind[ch] = "reply"
				} else {
					continue
				}
			case f.Push != nil && f.Push.Subscribe != nil:
				ch, ev.Kind = f.Push.Channel, "sub-push"
				state[ch] = "in"
			case f.Push != nil && f.Push.Unsubscribe != nil:
				ch, ev.Kind = f.Push.Channel, "unsub-push"
				state[ch] = "ended"
				endSeq[ch] = f.Seq
				endKind[ch] = "push"
			case f.Push != nil && (f.Push.Pub != nil || f.Push.Join != nil || f.Push.Leave != nil):
				ch = f.Push.Channel
				switch {
				case f.Push.Pub != nil:
					ev.Kind = "pub"
					var m map[string]string
					_ = json.Unmarshal(f.Push.Pub.Data, &m)
					ev.ID = m["id"]
				case f.Push.Join != nil:
					ev.Kind = "join"
				default:
					ev.Kind = "leave"
				}
				cs := chanByName[ch]
				if state[ch] != "in" {
					// Where does the offending push sit? Look ahead for the next start of a
					// subscription to this channel on this connection.
					where := "after-subscription-end"
					for _, g := range frames[fi+1:] {
						if g.Push != nil && g.Push.Channel == ch && g.Push.Subscribe != nil {
							where = "before-server-side-subscribe-push"
							break
						}
						if g.Reply != nil && g.Reply.Id != 0 && g.Reply.Error == nil && g.Reply.Subscribe != nil {
							sj.mu.Lock()
							sch := sj.subIDs[g.Reply.Id]
							sj.mu.Unlock()
							if sch == ch {
								where = "before-subscribe-reply"
								break
							}
						}
					}
					kindCls := "positioned"
					if cs.Kind == "nh" {
						kindCls = "offset0"
					} else if cs.Kind == "h" {
						kindCls = "nonpositioned"
					}
					if state[ch] == "ended" && where != "after-subscription-end" {
						where = "between-end-and-" + where[len("before-"):]
					}
					cls := fmt.Sprintf("c10-%s-%s-%s", ev.Kind, where, kindCls)
					if replyWithoutQueue && state[ch] == "ended" {
						// In this mode command replies bypass the write queue, so they
						// overtake pushes queued before them: channel pushes show up after
						// the unsubscribe reply, and the next subscribe reply can show up
						// before the previous subscription's unsubscribe push. Once a
						// subscription of the channel has ended on this connection the frame
						// order no longer tells the incarnations apart; everything observed
						// then is the one anomaly below. Pushes before the first start stay
						// fully checked.
						cls = "c10-reply-without-queue-replies-overtake-queued-pushes"
					}
					_ = endKind
					if !(replyWithoutQueue && state[ch] == "ended") && state[ch] == "ended" && (cs.Batch.MaxSize > 0 || cs.Batch.MaxDelay > 0) {
						// Per-channel batching: a push that passed the "subscribed" check is
						// added to the channel's batch writer after a concurrent unsubscribe
						// removed that writer (the add re-creates it), and the writer's flush
						// delivers it after the subscription ended. Driven deterministically
						// through the yield point before the batch add (see raceCh).
						cls = "c10-batched-push-delivered-after-subscription-end"
					}
					trace = append(trace, event{Seq: f.Seq, Kind: ev.Kind + "!", ID: ev.ID})
					c.Violation(cls,
						fmt.Sprintf("conn %d received a %s push for %s (%s) %s (frame seq %d, previous end seq %d)", sj.idx, ev.Kind, ch, cs.Kind, where, f.Seq, endSeq[ch]),
						map[string]any{"trace": tail(trace, 25), "channel": cs, "reply_without_queue": replyWithoutQueue, "write_delay": writeDelay.String(), "proto": sj.proto, "batching": cs.Batch.MaxSize > 0 || cs.Batch.MaxDelay > 0})
					counts["bad"]++
					goto nextSubject
				}
				counts[ev.Kind+"-"+cs.Kind]++
			default:
				continue
			}
			trace = append(trace, ev)
		}
		for k, v := range counts {
			c.Count("delivered_"+k, v)
		}
		sig += fmt.Sprintf("|%d:%d", len(state), bucket(len(trace)))
		if c.Index < 32 && len(trace) > 0 {
			c.Sample(map[string]any{"conn": sj.idx, "channels": chans, "trace": tail(trace, 30)})
		}
	nextSubject:
	}
	c.Nontrivial(sig)
	c.Count("batch_add_vs_unsubscribe_races_driven", int(batchRaces.Load()))
	for _, sj := range subjects {
		_ = sj.conn.CloseFn()
	}
	w.Shutdown()
}

func tail(t []event, n int) []event {
	if len(t) > n {
		return t[len(t)-n:]
	}
	return t
}

func bucket(n int) int {
	switch {
	case n < 3:
		return 0
	case n < 10:
		return 1
	case n < 30:
		return 2
	}
	return 3
}

func TestC10(t *testing.T) {
	kit.Main(t, kit.Spec{
		ID:     "C10",
		Bubble: true,
		Rule: "each case = one bubble: 1-2 channels (published without history = offset 0 / with history but non-positioned subscribers / positioned), optional per-channel batching, optional reply-without-queue and transport write delay, JSON/Protobuf; publishers publish every 0-6 virtual ms, a churner produces join/leave; 1-3 subject connections run 1-3 subscribe(client cmd | Client.Subscribe) / unsubscribe(client cmd | Client.Unsubscribe | Node.Unsubscribe | disconnect) cycles while seeded virtual delays at the subscribe/unsubscribe yield points keep the windows open. " +
			"Oracle = frame-order monitor per (connection, channel): a publication/join/leave push is legal only between a subscription start (subscribe reply / subscribe push) and its end (unsubscribe reply / push). Signature = mode x per-connection (#channels, trace length bucket).",
		Assumptions:     []string{"frames are observed in the order the transport received them (the writer's queue order)"},
		Cases:           map[string]int{"quick": 900, "thorough": 18000},
		RequireCounters: []string{"delivered_pub-nh", "delivered_pub-h", "delivered_pub-p", "delivered_join-nh", "batch_add_vs_unsubscribe_races_driven"},
		Run:             runCase,
	})
}
