// C42: Buffer pools never hand out undersized or dirty buffers.
//
// internal/bpool (ByteBuffer, ByteSlicesBuf) and the writer's item buffers (getItemBuf/putItemBuf
// through /repo/verif_itembuf.go): concurrent random get/put, lengths around powers of two and the
// pool maxima, buffers dirtied / resliced / grown before being returned, foreign buffers of
// arbitrary capacity put in. The oracle runs at every get.
package c42

import (
	"fmt"
	"runtime"
	"sync"
	"sync/atomic"
	"testing"
	"time"

	"github.com/centrifugal/centrifuge"
	"github.com/centrifugal/centrifuge/internal/bpool"
	"github.com/centrifugal/centrifuge/internal/queue"
	"github.com/centrifugal/centrifuge/verifx/kit"
)

const (
	maxByteBuf   = 262144 // bpool.maxBufferLength
	maxSlicesBuf = 4096   // bpool.maxByteSlicesBufLength
	shortPutZone = 96     // every third case in [0,shortPutZone): item buffers may be resliced shorter before put
)

const (
	markWithin = "c42-within-len-at-put"
	markBeyond = "c42-beyond-len-at-put"
)

var payload = []byte("c42-dirty")

// dirtyBytes is a block of non-zero bytes used to dirty byte buffers with one copy (a byte-by-byte
// loop costs one race-detector call per byte).
var dirtyBytes = func() []byte {
	b := make([]byte, 400000)
	for i := range b {
		b[i] = 0xD0 | byte(i&7) | 1
	}
	return b
}()

// length around a power of two / a maximum. maxPow: largest exponent served by the pool.
func pickLen(r *kit.Rand, maxPow int, allowNonPositive bool) int {
	max := 1 << maxPow
	switch x := r.Intn(100); {
	case x < 55: // small powers
		k := r.Intn(min(maxPow, 9) + 1)
		return clampLow((1<<k)+r.Range(-1, 1), allowNonPositive)
	case x < 70: // any power
		k := r.Intn(maxPow + 1)
		return clampLow((1<<k)+r.Range(-1, 1), allowNonPositive)
	case x < 78: // the maximum and just beyond
		return max + r.Range(-2, 3)
	case x < 80:
		return max + r.Range(4, max/2)
	case x < 86:
		if allowNonPositive {
			return -r.Intn(3)
		}
		return 0
	default:
		return r.Range(1, min(max, 3000))
	}
}

func clampLow(n int, allowNonPositive bool) int {
	if n < 0 && !allowNonPositive {
		return 0
	}
	return n
}

type caseState struct {
	c        *kit.Case
	mu       sync.Mutex
	reported map[string]bool
	stop     atomic.Bool
	big      atomic.Int64 // remaining requests above bigBytes in this case
	cnt      sync.Map // name -> *atomic.Int64
}

func (s *caseState) count(name string, n int) {
	v, ok := s.cnt.Load(name)
	if !ok {
		v, _ = s.cnt.LoadOrStore(name, new(atomic.Int64))
	}
	v.(*atomic.Int64).Add(int64(n))
}

func (s *caseState) violation(class, msg string, detail map[string]any) {
	s.mu.Lock()
	dup := s.reported[class]
	s.reported[class] = true
	s.mu.Unlock()
	if dup {
		return
	}
	if class != classStaleBeyond {
		s.stop.Store(true)
	}
	s.c.Violation(class, msg, detail)
}

const totalOps = 12000

const classStaleBeyond = "itembuf-stale-items-beyond-len-survive-put"

// big allocations (and freeing them) are very expensive under the race detector (shadow memory is
// remapped), so each goroutine gets a budget of them per case; beyond it lengths are redrawn small.
const bigBytes = 16 << 10
const bigPerCase = 8

func (w *worker) length(maxPow int, allowNonPositive bool, elemSize int) int {
	n := pickLen(w.r, maxPow, allowNonPositive)
	if n*elemSize > bigBytes {
		if w.s.big.Add(-1) < 0 {
			return w.r.Range(1, bigBytes/elemSize)
		}
		w.s.count("big_allocation_requests", 1)
	}
	return n
}

type worker struct {
	s        *caseState
	r        *kit.Rand
	id       int
	shortPut bool
	bbs      []*bpool.ByteBuffer
	bss      []*bpool.ByteSlicesBuf
	ibs      []centrifuge.VerifItemBuf
	lastOps  []string
}

func (w *worker) log(format string, a ...any) {
	if len(w.lastOps) >= 12 {
		w.lastOps = w.lastOps[1:]
	}
	w.lastOps = append(w.lastOps, fmt.Sprintf(format, a...))
}

func (w *worker) detail(extra map[string]any) map[string]any {
	d := map[string]any{"goroutine": w.id, "last_ops_of_this_goroutine": append([]string(nil), w.lastOps...)}
	for k, v := range extra {
		d[k] = v
	}
	return d
}

// ---- byte buffers ----

func (w *worker) getBB() {
	n := w.length(18, false, 1)
	bb := bpool.GetByteBuffer(n)
	w.log("GetByteBuffer(%d) -> len %d cap %d", n, len(bb.B), cap(bb.B))
	w.s.count("bytebuffer_get", 1)
	if n > maxByteBuf {
		w.s.count("bytebuffer_get_above_max", 1)
	}
	if len(bb.B) != 0 {
		w.s.violation("bytebuffer-not-empty", fmt.Sprintf("GetByteBuffer(%d) returned a buffer with len %d", n, len(bb.B)), w.detail(nil))
		return
	}
	if cap(bb.B) < n {
		w.s.violation("bytebuffer-undersized", fmt.Sprintf("GetByteBuffer(%d) returned a buffer with cap %d", n, cap(bb.B)), w.detail(nil))
		return
	}
	if cap(bb.B) > 0 && cap(bb.B)&(cap(bb.B)-1) != 0 {
		w.s.count("bytebuffer_get_returned_recycled_foreign_capacity", 1)
	}
	// use it the way callers do
	k := n
	if k > 64 && w.r.Chance(3, 4) {
		k = 64
	}
	bb.B = append(bb.B, dirtyBytes[:k]...)
	w.bbs = append(w.bbs, bb)
}

func (w *worker) putBB() {
	r := w.r
	var bb *bpool.ByteBuffer
	mode := r.Intn(10)
	if len(w.bbs) == 0 || mode >= 8 {
		// foreign buffer of arbitrary capacity and length
		c := r.Range(0, 300)
		switch r.Intn(8) {
		case 0:
			c = w.length(18, false, 1)
		case 1:
			c = r.Range(1, 9000)
		}
		l := r.Intn(c + 1)
		bb = &bpool.ByteBuffer{B: make([]byte, l, c)}
		copy(bb.B, dirtyBytes)
		w.s.count("bytebuffer_put_foreign", 1)
		w.log("PutByteBuffer(foreign len %d cap %d)", l, c)
	} else {
		i := r.Intn(len(w.bbs))
		bb = w.bbs[i]
		w.bbs[i] = w.bbs[len(w.bbs)-1]
		w.bbs = w.bbs[:len(w.bbs)-1]
		switch {
		case mode < 3: // as is (dirty, non-empty)
		case mode < 5: // grown beyond capacity
			if cap(bb.B) <= bigBytes {
				extra := cap(bb.B) - len(bb.B) + r.Range(1, 100)
				bb.B = append(bb.B, dirtyBytes[:extra]...)
				w.s.count("bytebuffer_put_grown", 1)
			}
		case mode < 6: // filled to capacity
			bb.B = bb.B[:cap(bb.B)]
			if len(bb.B) > 0 {
				bb.B[len(bb.B)-1] = 0xCC
			}
		case mode < 7: // resliced shorter
			bb.B = bb.B[:r.Intn(len(bb.B)+1)]
		default: // niled
			bb.B = nil
		}
		w.log("PutByteBuffer(len %d cap %d mode %d)", len(bb.B), cap(bb.B), mode)
	}
	w.s.count("bytebuffer_put", 1)
	bpool.PutByteBuffer(bb)
}

// ---- byte slice lists ----

func (w *worker) getBS() {
	n := w.length(12, true, 24)
	b := bpool.GetByteSlicesBuf(n)
	w.log("GetByteSlicesBuf(%d) -> len %d cap %d", n, len(b.B), cap(b.B))
	w.s.count("byteslices_get", 1)
	if n <= 0 {
		w.s.count("byteslices_get_non_positive_length", 1)
	}
	if n > maxSlicesBuf {
		w.s.count("byteslices_get_above_max", 1)
	}
	if len(b.B) != 0 {
		w.s.violation("byteslices-not-empty", fmt.Sprintf("GetByteSlicesBuf(%d) returned a list with len %d", n, len(b.B)), w.detail(nil))
		return
	}
	if cap(b.B) < n {
		w.s.violation("byteslices-undersized", fmt.Sprintf("GetByteSlicesBuf(%d) returned a list with cap %d", n, cap(b.B)), w.detail(nil))
		return
	}
	if n <= maxSlicesBuf && cap(b.B)&(cap(b.B)-1) != 0 {
		w.s.count("byteslices_get_returned_recycled_foreign_capacity", 1)
	}
	// not part of the statement (the list is empty): slots beyond len still referencing old data
	if full := b.B[:cap(b.B)]; len(full) > 0 && (full[0] != nil || full[len(full)-1] != nil) {
		w.s.count("byteslices_get_stale_reference_beyond_len_observed_only", 1)
	}
	k := max(n, 0)
	if k > 32 && w.r.Chance(3, 4) {
		k = 32
	}
	for i := 0; i < k; i++ {
		b.B = append(b.B, payload)
	}
	w.bss = append(w.bss, b)
}

func (w *worker) putBS() {
	r := w.r
	var b *bpool.ByteSlicesBuf
	mode := r.Intn(10)
	if len(w.bss) == 0 || mode >= 8 {
		c := r.Range(0, 200)
		if r.Chance(1, 5) {
			c = max(w.length(12, false, 24), 0)
		}
		l := r.Intn(c + 1)
		b = &bpool.ByteSlicesBuf{B: make([][]byte, l, c)}
		for i := range b.B {
			b.B[i] = payload
		}
		w.s.count("byteslices_put_foreign", 1)
		w.log("PutByteSlicesBuf(foreign len %d cap %d)", l, c)
	} else {
		i := r.Intn(len(w.bss))
		b = w.bss[i]
		w.bss[i] = w.bss[len(w.bss)-1]
		w.bss = w.bss[:len(w.bss)-1]
		switch {
		case mode < 3:
		case mode < 5:
			if cap(b.B)*24 <= bigBytes {
				extra := cap(b.B) - len(b.B) + r.Range(1, 50)
				for j := 0; j < extra; j++ {
					b.B = append(b.B, payload)
				}
				w.s.count("byteslices_put_grown", 1)
			}
		case mode < 6:
			b.B = b.B[:cap(b.B)]
			for j := range b.B {
				b.B[j] = payload
			}
		case mode < 7:
			b.B = b.B[:r.Intn(len(b.B)+1)]
		default:
			b.B = nil
		}
		w.log("PutByteSlicesBuf(len %d cap %d mode %d)", len(b.B), cap(b.B), mode)
	}
	w.s.count("byteslices_put", 1)
	bpool.PutByteSlicesBuf(b)
}

// ---- item buffers ----

func (w *worker) getIB() {
	n := w.length(12, true, 64)
	h := centrifuge.VerifGetItemBuf(n)
	items := h.Items()
	w.log("getItemBuf(%d) -> len %d cap %d", n, len(items), cap(items))
	w.s.count("itembuf_get", 1)
	if n <= 0 {
		w.s.count("itembuf_get_non_positive_length", 1)
	}
	if n > centrifuge.VerifMaxItemBufLength {
		w.s.count("itembuf_get_above_max", 1)
	}
	if cap(items) < n {
		w.s.violation("itembuf-undersized", fmt.Sprintf("getItemBuf(%d) returned a buffer with cap %d", n, cap(items)), w.detail(nil))
		return
	}
	if len(items) < n {
		w.s.violation("itembuf-len-below-requested", fmt.Sprintf("getItemBuf(%d) returned a buffer with len %d (the writer indexes B[:length])", n, len(items)), w.detail(nil))
		return
	}
	if len(items) == n {
		w.s.count("itembuf_get_len_equals_requested", 1)
	}
	if n <= centrifuge.VerifMaxItemBufLength && cap(items)&(cap(items)-1) != 0 {
		w.s.count("itembuf_get_returned_recycled_foreign_capacity", 1)
	}
	for i := range items {
		it := &items[i]
		if it.Data != nil || it.Channel != "" || it.Key != "" || it.FrameType != 0 {
			switch it.Channel {
			case markBeyond:
				w.s.violation(classStaleBeyond, fmt.Sprintf("getItemBuf(%d) returned a buffer whose element %d is not the zero value: it was written by a previous holder that returned the buffer with a shorter len (putItemBuf clears only B[:len], getItemBuf re-extends to the requested length)", n, i),
					w.detail(map[string]any{"index": i, "item_channel": it.Channel, "item_key": it.Key}))
			case markWithin:
				w.s.violation("itembuf-not-cleared-by-put", fmt.Sprintf("getItemBuf(%d) returned a buffer whose element %d (inside the len it was returned with) is not the zero value", n, i),
					w.detail(map[string]any{"index": i, "item_channel": it.Channel, "item_key": it.Key}))
			default:
				w.s.violation("itembuf-dirty", fmt.Sprintf("getItemBuf(%d) returned a buffer whose element %d is not the zero value", n, i),
					w.detail(map[string]any{"index": i, "item_channel": it.Channel, "item_key": it.Key}))
			}
			break
		}
	}
	w.s.count("itembuf_elements_checked_zero", len(items))
	// use: the writer fills a prefix
	k := len(items)
	if k > 32 && w.r.Chance(3, 4) {
		k = w.r.Range(1, 32)
	}
	for i := 0; i < k; i++ {
		items[i] = queue.Item{Data: payload, Channel: markWithin, Key: "used"}
	}
	w.ibs = append(w.ibs, h)
}

func dirty(items []queue.Item, mark, key string) {
	for i := range items {
		items[i] = queue.Item{Data: payload, Channel: mark, Key: key, FrameType: 1}
	}
}

func (w *worker) putIB() {
	r := w.r
	var h centrifuge.VerifItemBuf
	mode := r.Intn(10)
	if len(w.ibs) == 0 || mode >= 8 {
		c := r.Range(0, 200)
		if r.Chance(1, 5) {
			c = max(w.length(12, false, 64), 0)
		}
		l := c
		if w.shortPut {
			l = r.Intn(c + 1)
		}
		s := make([]queue.Item, c)
		dirty(s[:l], markWithin, "foreign")
		dirty(s[l:], markBeyond, "foreign")
		h = centrifuge.VerifNewItemBuf(s[:l])
		w.s.count("itembuf_put_foreign", 1)
		if l < c {
			w.s.count("itembuf_put_with_dirty_elements_beyond_len", 1)
		}
		w.log("putItemBuf(foreign len %d cap %d)", l, c)
	} else {
		i := r.Intn(len(w.ibs))
		h = w.ibs[i]
		w.ibs[i] = w.ibs[len(w.ibs)-1]
		w.ibs = w.ibs[:len(w.ibs)-1]
		items := h.Items()
		switch {
		case mode < 3: // as the writer does: B keeps the len it was handed out with
		case mode < 5: // grown
			if cap(items)*64 <= bigBytes {
				extra := cap(items) - len(items) + r.Range(1, 50)
				for j := 0; j < extra; j++ {
					items = append(items, queue.Item{Data: payload, Channel: markWithin, Key: "grown"})
				}
				h.SetItems(items)
				w.s.count("itembuf_put_grown", 1)
			}
		case mode < 6: // extended to capacity and filled
			items = items[:cap(items)]
			dirty(items, markWithin, "full")
			h.SetItems(items)
		case mode < 7:
			if w.shortPut { // resliced shorter with used elements left behind
				full := items[:cap(items)]
				l := r.Intn(len(items) + 1)
				dirty(full[:l], markWithin, "short")
				dirty(full[l:], markBeyond, "short")
				h.SetItems(full[:l])
				if l < len(full) {
					w.s.count("itembuf_put_with_dirty_elements_beyond_len", 1)
				}
			}
		default:
			h.SetItems(nil)
		}
		w.log("putItemBuf(len %d cap %d mode %d)", len(h.Items()), cap(h.Items()), mode)
	}
	w.s.count("itembuf_put", 1)
	centrifuge.VerifPutItemBuf(h)
}

func (w *worker) run(ops int) {
	defer func() {
		if p := recover(); p != nil {
			w.s.violation("pool-operation-panics", fmt.Sprintf("pool operation panicked: %v", p), w.detail(nil))
		}
	}()
	const hold = 12
	for i := 0; i < ops && !w.s.stop.Load(); i++ {
		kind := w.r.Intn(3)
		get := w.r.Bool()
		switch kind {
		case 0:
			if get && len(w.bbs) < hold {
				w.getBB()
			} else {
				w.putBB()
			}
		case 1:
			if get && len(w.bss) < hold {
				w.getBS()
			} else {
				w.putBS()
			}
		default:
			if get && len(w.ibs) < hold {
				w.getIB()
			} else {
				w.putIB()
			}
		}
		if i%64 == 63 {
			runtime.Gosched()
		}
	}
}

func runCase(c *kit.Case) {
	s := &caseState{c: c, reported: map[string]bool{}}
	s.big.Store(bigPerCase)
	shortPut := c.Index < shortPutZone && c.Index%3 == 0
	g := kit.Pick(c.R, []int{1, 2, 4, 8, 8, 16, 32})
	ops := totalOps / g
	var wg sync.WaitGroup
	workers := make([]*worker, g)
	for i := range workers {
		workers[i] = &worker{s: s, id: i, shortPut: shortPut, r: kit.NewRand(c.R.Uint64(), uint64(i))}
	}
	for _, w := range workers {
		wg.Add(1)
		go func(w *worker) {
			defer wg.Done()
			w.run(ops)
		}(w)
	}
	wg.Wait()
	if shortPut {
		// the pools are process-wide: drop what this case left behind so that the stale elements it
		// planted cannot surface in a later case of the same process
		runtime.GC()
		runtime.GC()
		runtime.GC()
	}
	total := 0
	sig := fmt.Sprintf("g%d short%v", g, shortPut)
	s.cnt.Range(func(k, v any) bool {
		n := int(v.(*atomic.Int64).Load())
		c.Count(k.(string), n)
		if ks := k.(string); ks == "bytebuffer_get" || ks == "byteslices_get" || ks == "itembuf_get" {
			total += n
		}
		return true
	})
	for _, k := range []string{"bytebuffer_get_returned_recycled_foreign_capacity", "byteslices_get_returned_recycled_foreign_capacity", "itembuf_get_returned_recycled_foreign_capacity", "bytebuffer_get_above_max", "byteslices_get_above_max", "itembuf_get_above_max", "itembuf_put_with_dirty_elements_beyond_len"} {
		if v, ok := s.cnt.Load(k); ok && v.(*atomic.Int64).Load() > 0 {
			sig += " " + k
		}
	}
	c.Eval(total)
	c.Count("cases_goroutines_"+fmt.Sprint(g), 1)
	c.Nontrivial(sig)
	if c.Index%200 == 5 && len(workers) > 0 {
		c.Sample(map[string]any{"goroutines": g, "ops_per_goroutine": ops, "short_put_zone": shortPut, "last_ops_of_goroutine_0": workers[0].lastOps})
	}
}

func TestC42(t *testing.T) {
	kit.Main(t, kit.Spec{
		ID:    "C42",
		Level: "exploration",
		Rule: "one case = 1..32 goroutines (12000 operations in total) doing random get/put on the three process-wide pool families, each goroutine holding up to 12 buffers per family and the case as a whole allowed 8 requests above 16 KiB (large allocations are slow under the race detector; further draws are redrawn below 16 KiB): bpool.GetByteBuffer (lengths 2^k-1,2^k,2^k+1 for k<=18, 262144+-2, above the maximum, 0), bpool.GetByteSlicesBuf and the writer's getItemBuf (k<=12, 4096+-2, above, 0 and negative lengths). Before a put the buffer is used/dirtied and, at random: left as is, grown past its capacity by append, extended to capacity and filled, resliced shorter, set to nil; 20% of puts are foreign buffers with arbitrary capacity (0..300, around powers of two, up to 9000) and length. " +
			fmt.Sprintf("Item buffers are returned with a len shorter than the dirtied region only in every third case of [0,%d). ", shortPutZone) +
			"Oracle at every get: byte buffer and byte-slice list have len 0 and cap >= requested; item buffer has cap >= requested, len >= requested and every element of B equal to the zero Item. Built with -race. evaluations = gets checked. Non-trivial = every case (signature: goroutine count, which paths occurred: recycled foreign capacity handed out, above-maximum requests, short puts).",
		Assumptions: []string{
			"a negative length is not a 'requested length' for GetByteBuffer (it indexes the pool array with it and panics); it is not generated for byte buffers",
			"for byte-slice lists 'empty' means len 0; references left beyond len are only counted (byteslices_get_stale_reference_beyond_len_observed_only)",
			"for item buffers (getItemBuf returns len == requested) 'empty' means every element of B is the zero value",
			"sync.Pool may drop buffers at any time (and drops a quarter of the puts under -race), so reuse is probabilistic; itembuf/bytebuffer *_recycled counters show that reuse happened",
		},
		Cases:           map[string]int{"quick": 96, "thorough": 1200},
		RequireCounters: []string{"bytebuffer_get", "byteslices_get", "itembuf_get", "bytebuffer_put_foreign", "byteslices_put_foreign", "itembuf_put_foreign", "bytebuffer_put_grown", "byteslices_put_grown", "itembuf_put_grown", "bytebuffer_get_returned_recycled_foreign_capacity", "bytebuffer_get_above_max", "byteslices_get_above_max", "itembuf_get_above_max", "itembuf_get_non_positive_length", "byteslices_get_non_positive_length", "itembuf_put_with_dirty_elements_beyond_len", "itembuf_elements_checked_zero"},
		CaseTimeout:     10 * time.Minute,
		Run:             runCase,
	})
}
