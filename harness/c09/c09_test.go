// C09: Commands are gated by authentication and answered exactly once.
//
// Statement: "Before a connection has successfully connected, every command other
// than connect makes the server close it with a bad-request disconnect without
// invoking any application handler. Every command that carries an id receives
// exactly one reply with that id unless the connection is closed, and a pong
// without a preceding ping closes the connection."
//
// Each case builds one node inside a virtual-time bubble and drives several
// connections, one command sequence each. A sequence is a list of frames fed as
// bytes through centrifuge.HandleReadFrame (JSON: newline-delimited, Protobuf:
// varint-length-prefixed) or as *protocol.Command through kit.Conn.Do. What the
// library decodes is established by running the protocol package's own stream
// decoder over the same bytes (the property is about command handling, not about
// decoding), so the reference model always works on the decoded command list.
package c09

import (
	"bytes"
	"context"
	"encoding/binary"
	"errors"
	"fmt"
	"io"
	"sort"
	"strings"
	"sync"
	"testing"
	"testing/synctest"
	"time"

	"github.com/centrifugal/centrifuge"
	"github.com/centrifugal/centrifuge/verifx/kit"
	"github.com/centrifugal/protocol"
)

const (
	msgLimit  = 64 * 1024
	codeBadRq = 3501
)

// ---------------------------------------------------------------------------------------------
// scenario

type hrec struct {
	Seq  int64  `json:"seq"`
	Kind string `json:"kind"`
	Info string `json:"info,omitempty"`
}

type decision struct {
	async  bool
	delay  time.Duration
	yields int // asynchronous without virtual time: the callback goroutine only yields
	err    error
}

type scn struct {
	c   *kit.Case
	w   *kit.World
	idx int

	profile           string // clean | pongstrict | preauth | connectfail | wild
	proto             centrifuge.ProtocolType
	bytesMode         bool
	connectMode       string // ok | error | disconnect | nocreds
	clientSideRefresh bool
	earlyHandlers     bool
	missing           map[string]bool
	allowDisc         bool
	nodeHooks         bool // OnCommandRead / OnCommandProcessed errors allowed
	pingInterval      time.Duration
	pongTimeout       time.Duration
	writeDelay        time.Duration
	writeTimer        bool
	replyNoQueue      bool
	maxInFrame        int

	mu          sync.Mutex
	hr          *kit.Rand
	hlog        []hrec
	connectSeq  int64
	handlerDisc bool
	nAsync      int
	nHandlerErr int
	wg          sync.WaitGroup

	conn *kit.Conn
}

const maxHandlerDelay = 50 * time.Millisecond

func (s *scn) record(kind, info string) {
	seq := s.w.Seq()
	s.mu.Lock()
	s.hlog = append(s.hlog, hrec{Seq: seq, Kind: kind, Info: info})
	s.mu.Unlock()
}

// decide draws the behaviour of one handler invocation. Handlers that answer
// commands are invoked on the reader goroutine, one at a time, so the draw order
// is deterministic.
//
// An asynchronous OnSubscribe callback never sleeps on the virtual clock: Client.close
// holds connectMu while its unsubscribe loop waits for an in-flight subscribe, and a
// second close (or triggerConnect) blocked on that mutex is not "durably blocked", so
// virtual time could not advance to wake the sleeping callback (a bubble artefact, in
// real time the wait simply ends). Such callbacks run after a PRNG-chosen number of
// scheduler yields instead.
func (s *scn) decide(kind string) decision {
	s.mu.Lock()
	defer s.mu.Unlock()
	var d decision
	r := s.hr
	if r.Chance(1, 2) {
		d.async = true
		if kind == "subscribe" {
			d.yields = r.Range(0, 40)
		} else {
			d.delay = time.Duration(r.Range(0, int(maxHandlerDelay/time.Millisecond))) * time.Millisecond
		}
		s.nAsync++
	}
	switch x := r.Intn(100); {
	case x < 72:
	case x < 80:
		d.err = centrifuge.ErrorPermissionDenied
	case x < 86:
		d.err = centrifuge.ErrorInternal
	case x < 91:
		d.err = &centrifuge.Error{Code: 4242, Message: "custom", Temporary: true}
	case x < 95:
		d.err = errors.New("plain error")
	default:
		if s.allowDisc {
			if r.Bool() {
				d.err = centrifuge.DisconnectForceReconnect
			} else {
				d.err = &centrifuge.Disconnect{Code: 4500, Reason: "custom disconnect"}
			}
			s.handlerDisc = true
		}
	}
	if d.err != nil {
		s.nHandlerErr++
	}
	return d
}

func (s *scn) finish(d decision, f func(err error)) {
	if !d.async {
		f(d.err)
		return
	}
	s.wg.Add(1)
	go func() {
		defer s.wg.Done()
		if d.delay > 0 {
			time.Sleep(d.delay)
		}
		kit.Yield(d.yields)
		f(d.err)
	}()
}

func subOptsFor(ch string) (centrifuge.SubscribeOptions, bool) {
	var o centrifuge.SubscribeOptions
	csr := false
	switch {
	case strings.HasPrefix(ch, "c1"):
		o.EmitPresence, o.EmitJoinLeave, o.PushJoinLeave = true, true, true
	case strings.HasPrefix(ch, "c2"):
		o.EnablePositioning, o.EnableRecovery = true, true
	case strings.HasPrefix(ch, "r"):
		o.ExpireAt = time.Now().Unix() + 600
		csr = true
	case strings.HasPrefix(ch, "m"):
		o.ExpireAt = time.Now().Unix() + 600
		o.ServerTagsFilter = &centrifuge.FilterNode{Key: "role", Cmp: "eq", Val: "a"}
		csr = true
	}
	return o, csr
}

func (s *scn) install(cl *centrifuge.Client) {
	if !s.missing["subscribe"] {
		cl.OnSubscribe(func(e centrifuge.SubscribeEvent, cb centrifuge.SubscribeCallback) {
			s.record("subscribe", e.Channel)
			d := s.decide("subscribe")
			o, csr := subOptsFor(e.Channel)
			if strings.HasPrefix(e.Channel, "m") {
				o.Type = e.Type
			}
			s.finish(d, func(err error) { cb(centrifuge.SubscribeReply{Options: o, ClientSideRefresh: csr}, err) })
		})
	}
	if !s.missing["unsubscribe"] {
		cl.OnUnsubscribe(func(e centrifuge.UnsubscribeEvent) { s.record("on_unsubscribe", e.Channel) })
	}
	if !s.missing["publish"] {
		cl.OnPublish(func(e centrifuge.PublishEvent, cb centrifuge.PublishCallback) {
			s.record("publish", e.Channel)
			d := s.decide("publish")
			rep := centrifuge.PublishReply{}
			if strings.HasPrefix(e.Channel, "c2") {
				rep.Options = centrifuge.PublishOptions{HistorySize: 5, HistoryTTL: time.Minute}
			}
			s.finish(d, func(err error) { cb(rep, err) })
		})
		cl.OnMapPublish(func(e centrifuge.MapPublishEvent, cb centrifuge.MapPublishCallback) {
			s.record("map_publish", e.Channel)
			d := s.decide("map_publish")
			s.finish(d, func(err error) { cb(centrifuge.MapPublishReply{Key: e.Key}, err) })
		})
		cl.OnMapRemove(func(e centrifuge.MapRemoveEvent, cb centrifuge.MapRemoveCallback) {
			s.record("map_remove", e.Channel)
			d := s.decide("map_remove")
			s.finish(d, func(err error) { cb(centrifuge.MapRemoveReply{Key: e.Key}, err) })
		})
	}
	if !s.missing["presence"] {
		cl.OnPresence(func(e centrifuge.PresenceEvent, cb centrifuge.PresenceCallback) {
			s.record("presence", e.Channel)
			d := s.decide("presence")
			s.finish(d, func(err error) { cb(centrifuge.PresenceReply{}, err) })
		})
	}
	if !s.missing["presence_stats"] {
		cl.OnPresenceStats(func(e centrifuge.PresenceStatsEvent, cb centrifuge.PresenceStatsCallback) {
			s.record("presence_stats", e.Channel)
			d := s.decide("presence_stats")
			s.finish(d, func(err error) { cb(centrifuge.PresenceStatsReply{}, err) })
		})
	}
	if !s.missing["history"] {
		cl.OnHistory(func(e centrifuge.HistoryEvent, cb centrifuge.HistoryCallback) {
			s.record("history", e.Channel)
			d := s.decide("history")
			s.finish(d, func(err error) { cb(centrifuge.HistoryReply{}, err) })
		})
	}
	if !s.missing["rpc"] {
		cl.OnRPC(func(e centrifuge.RPCEvent, cb centrifuge.RPCCallback) {
			s.record("rpc", e.Method)
			d := s.decide("rpc")
			s.finish(d, func(err error) { cb(centrifuge.RPCReply{Data: []byte(`{"r":1}`)}, err) })
		})
	}
	if !s.missing["message"] {
		cl.OnMessage(func(e centrifuge.MessageEvent) { s.record("message", "") })
	}
	if !s.missing["refresh"] {
		cl.OnRefresh(func(e centrifuge.RefreshEvent, cb centrifuge.RefreshCallback) {
			s.record("refresh", "")
			d := s.decide("refresh")
			s.finish(d, func(err error) { cb(centrifuge.RefreshReply{ExpireAt: time.Now().Unix() + 3600}, err) })
		})
	}
	if !s.missing["sub_refresh"] {
		cl.OnSubRefresh(func(e centrifuge.SubRefreshEvent, cb centrifuge.SubRefreshCallback) {
			d := s.decide("sub_refresh")
			rep := centrifuge.SubRefreshReply{ExpireAt: time.Now().Unix() + 600}
			info := e.Channel
			if strings.HasPrefix(e.Channel, "m") {
				s.mu.Lock()
				changed := s.hr.Bool()
				s.mu.Unlock()
				rep.ServerTagsFilter = &centrifuge.FilterNode{Key: "role", Cmp: "eq", Val: "a"}
				if changed {
					rep.ServerTagsFilter.Val = "b"
					if d.err == nil {
						info += " server-tags-filter-changed"
					}
				}
			}
			s.record("sub_refresh", info)
			s.finish(d, func(err error) { cb(rep, err) })
		})
	}
	cl.OnDisconnect(func(e centrifuge.DisconnectEvent) { s.record("on_disconnect", fmt.Sprint(e.Code)) })
}

// ---------------------------------------------------------------------------------------------
// reference model on decoded commands

func kindOf(cmd *protocol.Command) string {
	if cmd.Id == 0 && cmd.Send == nil {
		return "pong"
	}
	switch {
	case cmd.Connect != nil:
		return "connect"
	case cmd.Subscribe != nil:
		return "subscribe"
	case cmd.Unsubscribe != nil:
		return "unsubscribe"
	case cmd.Publish != nil:
		return "publish"
	case cmd.Presence != nil:
		return "presence"
	case cmd.PresenceStats != nil:
		return "presence_stats"
	case cmd.History != nil:
		return "history"
	case cmd.Rpc != nil:
		return "rpc"
	case cmd.Send != nil:
		return "send"
	case cmd.Refresh != nil:
		return "refresh"
	case cmd.SubRefresh != nil:
		return "sub_refresh"
	case cmd.Ping != nil:
		return "ping"
	}
	return "none"
}

// expectsReply: the command carries an id and is not a one-way send.
func expectsReply(cmd *protocol.Command) bool {
	return cmd.Id > 0 && kindOf(cmd) != "send"
}

func predecode(proto centrifuge.ProtocolType, b []byte) (cmds []*protocol.Command, malformed bool) {
	var dec protocol.StreamCommandDecoder
	if proto == centrifuge.ProtocolTypeJSON {
		dec = protocol.NewJSONStreamCommandDecoder(bytes.NewReader(b), msgLimit)
	} else {
		dec = protocol.NewProtobufStreamCommandDecoder(bytes.NewReader(b), msgLimit)
	}
	for {
		cmd, _, err := dec.Decode()
		if cmd != nil {
			cmds = append(cmds, cmd)
		}
		if err != nil {
			return cmds, err != io.EOF
		}
	}
}

// ---------------------------------------------------------------------------------------------
// generator

type gen struct {
	r          *kit.Rand
	s          *scn
	nextID     uint32
	used       []uint32
	subscribed map[string]bool
	dupIDs     int
}

var plainChans = []string{"c0", "c1", "c2", "c3"}
var refreshChans = []string{"r0", "r1"}
var allChans = append(append([]string{}, plainChans...), refreshChans...)

func (g *gen) freshID() uint32 {
	g.nextID += uint32(g.r.Range(1, 3))
	g.used = append(g.used, g.nextID)
	return g.nextID
}

func (g *gen) id(wild bool) uint32 {
	if wild {
		switch x := g.r.Intn(20); {
		case x == 0:
			return 0
		case x <= 2 && len(g.used) > 0:
			g.dupIDs++
			return kit.Pick(g.r, g.used)
		case x == 3:
			return uint32(g.r.Uint64() | 1<<31)
		}
	} else if g.r.Chance(1, 12) && len(g.used) > 0 {
		g.dupIDs++
		return kit.Pick(g.r, g.used)
	}
	return g.freshID()
}

func jdata(r *kit.Rand) []byte { return []byte(fmt.Sprintf(`{"v":%d}`, r.Intn(1000))) }

var cleanKinds = []string{"subscribe", "subscribe", "unsubscribe", "publish", "presence", "presence_stats", "history", "rpc", "rpc", "send", "refresh", "sub_refresh"}

// validCmd builds a command of the given kind that the server is expected to
// answer without closing the connection (given the handlers of the scenario).
func (g *gen) validCmd(kind string, wild bool) *protocol.Command {
	r := g.r
	cmd := &protocol.Command{Id: g.id(wild)}
	switch kind {
	case "connect":
		cmd.Connect = &protocol.ConnectRequest{Name: "verif", Token: "tok", Data: jdata(r)}
	case "subscribe":
		ch := kit.Pick(r, allChans)
		if !wild {
			// prefer a channel believed not to be subscribed
			for i := 0; i < 3 && g.subscribed[ch]; i++ {
				ch = kit.Pick(r, allChans)
			}
		}
		req := &protocol.SubscribeRequest{Channel: ch, Data: jdata(r)}
		if r.Chance(1, 4) {
			req.Recover, req.Offset, req.Epoch = true, uint64(r.Intn(4)), kit.Pick(r, []string{"", "zzzz"})
		}
		cmd.Subscribe = req
		g.subscribed[ch] = true
	case "unsubscribe":
		ch := kit.Pick(r, allChans)
		cmd.Unsubscribe = &protocol.UnsubscribeRequest{Channel: ch}
		delete(g.subscribed, ch)
	case "publish":
		cmd.Publish = &protocol.PublishRequest{Channel: kit.Pick(r, allChans), Data: jdata(r)}
		if r.Chance(1, 10) {
			cmd.Publish.Type, cmd.Publish.Key, cmd.Publish.Removed = 1, "k", r.Bool()
		}
	case "presence":
		cmd.Presence = &protocol.PresenceRequest{Channel: kit.Pick(r, allChans)}
	case "presence_stats":
		cmd.PresenceStats = &protocol.PresenceStatsRequest{Channel: kit.Pick(r, allChans)}
	case "history":
		req := &protocol.HistoryRequest{Channel: kit.Pick(r, allChans), Limit: int32(r.Range(-1, 4)), Reverse: r.Chance(1, 4)}
		if r.Chance(1, 3) {
			req.Since = &protocol.StreamPosition{Offset: uint64(r.Intn(3)), Epoch: kit.Pick(r, []string{"", "zzzz"})}
		}
		cmd.History = req
	case "rpc":
		cmd.Rpc = &protocol.RPCRequest{Method: "m", Data: jdata(r)}
	case "send":
		if !wild || r.Chance(4, 5) {
			cmd.Id = 0
		}
		cmd.Send = &protocol.SendRequest{Data: jdata(r)}
	case "refresh":
		if !g.s.clientSideRefresh && !wild {
			return g.validCmd("rpc", wild)
		}
		cmd.Refresh = &protocol.RefreshRequest{Token: "tok2"}
	case "sub_refresh":
		ch := kit.Pick(r, refreshChans)
		if !g.subscribed[ch] && !wild {
			return g.validCmd("presence", wild)
		}
		cmd.SubRefresh = &protocol.SubRefreshRequest{Channel: ch, Token: "stok"}
	}
	return cmd
}

// wildCmd builds commands that probe the edges of the dispatcher.
func (g *gen) wildCmd() *protocol.Command {
	r := g.r
	switch r.Intn(14) {
	case 0: // empty command (pong)
		return &protocol.Command{}
	case 1: // id without any request
		return &protocol.Command{Id: g.id(true)}
	case 2: // ping request
		return &protocol.Command{Id: g.id(true), Ping: &protocol.PingRequest{}}
	case 3: // second connect
		return g.validCmd("connect", true)
	case 4: // empty channel
		k := kit.Pick(r, []string{"subscribe", "unsubscribe", "publish", "presence", "presence_stats", "history", "sub_refresh"})
		cmd := g.validCmd(k, true)
		switch {
		case cmd.Subscribe != nil:
			cmd.Subscribe.Channel = ""
		case cmd.Unsubscribe != nil:
			cmd.Unsubscribe.Channel = ""
		case cmd.Publish != nil:
			cmd.Publish.Channel = ""
		case cmd.Presence != nil:
			cmd.Presence.Channel = ""
		case cmd.PresenceStats != nil:
			cmd.PresenceStats.Channel = ""
		case cmd.History != nil:
			cmd.History.Channel = ""
		case cmd.SubRefresh != nil:
			cmd.SubRefresh.Channel = ""
		}
		return cmd
	case 5: // subscribe with odd type / phase / delta / flag / filter
		cmd := g.validCmd("subscribe", true)
		switch r.Intn(5) {
		case 0:
			cmd.Subscribe.Type = int32(kit.Pick(r, []int{1, 2, 3, 4, 9, -1}))
			cmd.Subscribe.Phase = int32(r.Intn(4))
		case 1:
			cmd.Subscribe.Delta = kit.Pick(r, []string{"fossil", "bogus"})
		case 2:
			cmd.Subscribe.Flag = int64(r.Intn(4))
		case 3:
			cmd.Subscribe.Tf = &protocol.FilterNode{Key: "k", Cmp: "eq", Val: "v"}
		case 4:
			cmd.Subscribe.Channel = strings.Repeat("x", 300)
		}
		return cmd
	case 6: // several requests in one command
		cmd := g.validCmd(kit.Pick(r, cleanKinds), true)
		other := g.validCmd(kit.Pick(r, cleanKinds), true)
		if cmd.Rpc == nil {
			cmd.Rpc = other.Rpc
		}
		if cmd.Publish == nil {
			cmd.Publish = other.Publish
		}
		if cmd.Send == nil {
			cmd.Send = other.Send
		}
		return cmd
	case 7: // refresh / sub_refresh regardless of state, empty tokens
		if r.Bool() {
			return &protocol.Command{Id: g.id(true), Refresh: &protocol.RefreshRequest{Token: kit.Pick(r, []string{"", "t"})}}
		}
		return &protocol.Command{Id: g.id(true), SubRefresh: &protocol.SubRefreshRequest{Channel: kit.Pick(r, allChans), Token: kit.Pick(r, []string{"", "t"}), Type: int32(r.Intn(3))}}
	case 8: // send with id
		return &protocol.Command{Id: g.id(true), Send: &protocol.SendRequest{Data: jdata(r)}}
	}
	return g.validCmd(kit.Pick(r, cleanKinds), true)
}

type item struct {
	cmd *protocol.Command
	raw []byte // malformed bytes (bytes mode only)
}

type frame struct {
	items      []item
	trailingNL bool
	gap        time.Duration
	bytes      []byte
	decoded    []*protocol.Command
	malformed  bool
}

var jsonEnc = protocol.NewJSONCommandEncoder()

// harmless JSON decorations: the command decodes to the same value.
func decorateJSON(r *kit.Rand, cmd *protocol.Command, b []byte) []byte {
	if len(b) < 2 || b[0] != '{' {
		return b
	}
	switch r.Intn(6) {
	case 0: // unknown field
		if string(b) == "{}" {
			return []byte(`{"zz":{"a":[1,2,{"b":null}]}}`)
		}
		return append([]byte(`{"zz":{"a":[1,2,{"b":null}]},`), b[1:]...)
	case 1: // null member for a request the command does not carry
		var names []string
		if cmd.History == nil {
			names = append(names, "history")
		}
		if cmd.Publish == nil {
			names = append(names, "publish")
		}
		if cmd.Connect == nil {
			names = append(names, "connect")
		}
		if cmd.Send == nil {
			names = append(names, "send")
		}
		if len(names) == 0 {
			return b
		}
		n := kit.Pick(r, names)
		if string(b) == "{}" {
			return []byte(`{"` + n + `":null}`)
		}
		return append(append(append([]byte{}, b[:len(b)-1]...), []byte(`,"`+n+`":null`)...), '}')
	case 2: // whitespace
		return append([]byte("{  \t"), b[1:]...)
	}
	return b
}

func malformedJSON(r *kit.Rand, valid []byte) []byte {
	switch r.Intn(12) {
	case 0:
		if len(valid) > 2 {
			return append([]byte{}, valid[:r.Range(1, len(valid)-1)]...)
		}
		return []byte(`{`)
	case 1:
		return []byte(`{"id":`)
	case 2:
		return []byte(`[1,2]`)
	case 3:
		return []byte(`"x"`)
	case 4:
		return []byte(`{"id":"5"}`)
	case 5:
		return []byte(`{"id":-1}`)
	case 6:
		return []byte(`{"id":4294967296,"rpc":{}}`)
	case 7:
		return []byte(`{"id":7,"subscribe":"str"}`)
	case 8:
		return []byte(`nul`)
	case 9:
		return []byte(`{"id":3,"rpc":{"method":5}}`)
	case 10:
		return []byte{} // empty line inside the frame
	}
	return []byte{0xff, 0xfe, '{', '}'}
}

func pbFrame(body []byte) []byte {
	var p [binary.MaxVarintLen64]byte
	n := binary.PutUvarint(p[:], uint64(len(body)))
	return append(append([]byte{}, p[:n]...), body...)
}

func encodePB(r *kit.Rand, cmd *protocol.Command, decorate bool) []byte {
	body, err := cmd.MarshalVT()
	if err != nil {
		panic(err)
	}
	if decorate && r.Chance(1, 3) {
		if r.Bool() {
			body = append(body, 0x98, 0x06, 0x01) // unknown field 99, varint 1
		} else {
			body = append(body, 0x92, 0x06, 0x03, 'a', 'b', 'c') // unknown field 98, bytes
		}
	}
	return pbFrame(body)
}

func malformedPB(r *kit.Rand, valid []byte) []byte {
	switch r.Intn(7) {
	case 0: // truncated varint length
		return []byte{0x80}
	case 1: // multi-byte truncated varint
		return []byte{0xff, 0xff, 0x80}
	case 2: // length larger than what follows
		return append([]byte{byte(len(valid) + 5)}, valid...)
	case 3: // garbage body with a correct length
		return pbFrame(r.Bytes(r.Range(1, 12)))
	case 4: // declared length over the limit
		return []byte{0xff, 0xff, 0xff, 0xff, 0x0f}
	case 5: // truncated body
		if len(valid) > 2 {
			return append([]byte{}, valid[:r.Range(1, len(valid)-1)]...)
		}
		return []byte{0x05, 0x08}
	}
	// field with truncated nested length
	return pbFrame([]byte{0x08, 0x01, 0x2a, 0x7f})
}

func (s *scn) encodeFrame(r *kit.Rand, fr *frame) {
	if !s.bytesMode {
		for _, it := range fr.items {
			if it.cmd != nil {
				fr.decoded = append(fr.decoded, it.cmd)
			}
		}
		return
	}
	var buf bytes.Buffer
	for i, it := range fr.items {
		if s.proto == centrifuge.ProtocolTypeJSON {
			if i > 0 {
				buf.WriteByte('\n')
			}
			if it.cmd != nil {
				b, err := jsonEnc.Encode(it.cmd)
				if err != nil {
					panic(err)
				}
				buf.Write(decorateJSON(r, it.cmd, b))
			} else {
				buf.Write(it.raw)
			}
		} else {
			if it.cmd != nil {
				buf.Write(encodePB(r, it.cmd, true))
			} else {
				buf.Write(it.raw)
			}
		}
	}
	if s.proto == centrifuge.ProtocolTypeJSON && fr.trailingNL && len(fr.items) > 0 {
		buf.WriteByte('\n')
	}
	fr.bytes = buf.Bytes()
	fr.decoded, fr.malformed = predecode(s.proto, fr.bytes)
}

func (g *gen) malformedItem(valid *protocol.Command) item {
	if g.s.proto == centrifuge.ProtocolTypeJSON {
		b, _ := jsonEnc.Encode(valid)
		return item{raw: malformedJSON(g.r, b)}
	}
	return item{raw: malformedPB(g.r, encodePB(g.r, valid, false))}
}

func (g *gen) gap() time.Duration {
	r := g.r
	if g.s.pingInterval > 0 && r.Chance(1, 3) {
		return time.Duration(r.Range(300, 2500)) * time.Millisecond
	}
	if r.Chance(1, 3) {
		return 0
	}
	return time.Duration(r.Range(1, 60)) * time.Millisecond
}

// script builds the frames of one scenario (everything except reactive pongs).
func (g *gen) script() []*frame {
	r, s := g.r, g.s
	var frames []*frame
	add := func(items ...item) *frame {
		fr := &frame{items: items, trailingNL: r.Bool(), gap: g.gap()}
		frames = append(frames, fr)
		return fr
	}
	cleanBody := func(n int) {
		for n > 0 {
			k := r.Range(1, 4)
			if k > n {
				k = n
			}
			var items []item
			for i := 0; i < k; i++ {
				items = append(items, item{cmd: g.validCmd(kit.Pick(r, cleanKinds), false)})
			}
			add(items...)
			n -= k
		}
	}
	switch s.profile {
	case "clean", "pongstrict":
		first := []item{{cmd: g.validCmd("connect", false)}}
		for i, k := 0, r.Intn(3); i < k; i++ { // further commands in the connect frame
			first = append(first, item{cmd: g.validCmd(kit.Pick(r, cleanKinds), false)})
		}
		add(first...)
		cleanBody(r.Range(2, 14))
	case "maprefresh":
		add(item{cmd: g.validCmd("connect", false)})
		add(item{cmd: &protocol.Command{Id: g.freshID(), Subscribe: &protocol.SubscribeRequest{Channel: "m0", Type: int32(centrifuge.SubscriptionTypeMap), Phase: centrifuge.MapPhaseState, Limit: 100}}})
		for i, n := 0, r.Range(1, 3); i < n; i++ {
			var items []item
			for j, k := 0, r.Intn(3); j < k; j++ {
				items = append(items, item{cmd: g.validCmd(kit.Pick(r, cleanKinds), false)})
			}
			items = append(items, item{cmd: &protocol.Command{Id: g.freshID(), SubRefresh: &protocol.SubRefreshRequest{Channel: "m0", Token: "stok"}}})
			add(items...)
		}
		cleanBody(r.Range(0, 4))
	case "preauth":
		var it item
		switch r.Intn(10) {
		case 0:
			it = item{cmd: &protocol.Command{}} // pong before connect
		case 1:
			it = item{cmd: &protocol.Command{Id: g.id(false)}}
		case 2:
			it = item{cmd: &protocol.Command{Id: g.id(false), Ping: &protocol.PingRequest{}}}
		default:
			k := kit.Pick(r, []string{"subscribe", "unsubscribe", "publish", "presence", "presence_stats", "history", "rpc", "send", "refresh", "sub_refresh"})
			it = item{cmd: g.validCmd(k, true)}
			if k == "sub_refresh" || k == "refresh" {
				it.cmd.Id = g.freshID()
			}
		}
		items := []item{it}
		for i, k := 0, r.Intn(3); i < k; i++ {
			if r.Chance(1, 3) {
				items = append(items, item{cmd: g.validCmd("connect", false)})
			} else {
				items = append(items, item{cmd: g.validCmd(kit.Pick(r, cleanKinds), true)})
			}
		}
		add(items...)
	case "connectfail":
		items := []item{{cmd: g.validCmd("connect", false)}}
		add(items...)
		for i, k := 0, r.Range(1, 4); i < k; i++ {
			if r.Chance(1, 3) {
				add(item{cmd: g.validCmd("connect", false)})
			} else {
				add(item{cmd: g.validCmd(kit.Pick(r, cleanKinds), true)})
			}
		}
	case "wild":
		if r.Chance(5, 6) {
			first := []item{{cmd: g.validCmd("connect", false)}}
			for i, k := 0, r.Intn(3); i < k; i++ {
				first = append(first, item{cmd: g.wildCmd()})
			}
			add(first...)
		}
		for i, n := 0, r.Range(2, 10); i < n; i++ {
			var items []item
			for j, k := 0, r.Range(0, 4); j < k; j++ {
				switch x := r.Intn(20); {
				case x < 2 && s.bytesMode:
					items = append(items, g.malformedItem(g.validCmd("rpc", true)))
				case x < 9:
					items = append(items, item{cmd: g.wildCmd()})
				default:
					items = append(items, item{cmd: g.validCmd(kit.Pick(r, cleanKinds), true)})
				}
			}
			add(items...)
		}
	}
	for _, fr := range frames {
		s.encodeFrame(r, fr)
	}
	return frames
}

// ---------------------------------------------------------------------------------------------
// execution of one scenario

type result struct {
	Profile     string   `json:"profile"`
	Proto       string   `json:"proto"`
	Mode        string   `json:"mode"`
	ConnectMode string   `json:"connect_mode"`
	Commands    []string `json:"commands"`
	Replies     int      `json:"replies"`
	Closed      bool     `json:"closed"`
	CloseCode   uint32   `json:"close_code"`
	Handlers    int      `json:"handler_invocations"`
}

func cmdLabel(cmd *protocol.Command) string { return fmt.Sprintf("%s#%d", kindOf(cmd), cmd.Id) }

func isPingFrame(f kit.Frame) bool {
	r := f.Reply
	return r != nil && f.DecodeErr == "" && r.Id == 0 && r.Push == nil && r.Error == nil && r.Connect == nil && r.Subscribe == nil &&
		r.Unsubscribe == nil && r.Publish == nil && r.Presence == nil && r.PresenceStats == nil && r.History == nil && r.Rpc == nil &&
		r.Refresh == nil && r.SubRefresh == nil && r.Ping == nil
}

func countPings(t *kit.RecTransport) int {
	n := 0
	for _, f := range t.Frames() {
		if isPingFrame(f) {
			n++
		}
	}
	return n
}

func (s *scn) feed(fr *frame) (proceed bool, elapsed time.Duration) {
	t0 := time.Now()
	if s.bytesMode {
		proceed = centrifuge.HandleReadFrame(s.conn.Client, bytes.NewReader(fr.bytes), msgLimit)
	} else {
		proceed = true
		for _, cmd := range fr.decoded {
			if !s.conn.Do(cmd) {
				proceed = false
				break
			}
		}
	}
	return proceed, time.Since(t0)
}

func runScenario(c *kit.Case, w *kit.World, node *centrifuge.Node, s *scn, reg func(*kit.RecTransport, *scn)) {
	r := c.R
	g := &gen{r: r, s: s, subscribed: map[string]bool{}}
	frames := g.script()

	s.conn = w.NewConn(node, kit.TransportOpts{Protocol: s.proto, PingPong: centrifuge.PingPongConfig{PingInterval: s.pingInterval, PongTimeout: s.pongTimeout}})
	reg(s.conn.T, s)
	if s.earlyHandlers {
		s.install(s.conn.Client)
	}
	continueAfterStop := s.profile == "wild" && r.Chance(1, 5)

	sent := map[uint32]int{} // reply-expecting commands handed to the client, per id
	subRefreshOnMap := map[uint32]bool{}
	sendIDs := map[uint32]int{} // one-way sends that carry an id anyway: 0 or 1 reply each (an OnCommandRead error is reported with the id)
	var labels []string
	allProceed := true
	stopped := false
	mustClose := ""      // reason the connection has to end up closed
	pongsAccepted := 0   // pongs the model knows to be legitimate
	pingsAtLastPong := 0 // number of server pings seen when the last legitimate pong was sent
	firstFrame := true
	strictPreauth := false

	doFrame := func(fr *frame) {
		synctest.Wait()
		connected := func() bool { s.mu.Lock(); defer s.mu.Unlock(); return s.connectSeq != 0 }()
		closedBefore, _, _ := s.conn.T.Closed()
		pings := countPings(s.conn.T)
		outstanding := pings > pingsAtLastPong
		for _, cmd := range fr.decoded {
			if kindOf(cmd) == "sub_refresh" && strings.HasPrefix(cmd.SubRefresh.Channel, "m") {
				subRefreshOnMap[cmd.Id] = true
			}
			if expectsReply(cmd) {
				sent[cmd.Id]++
			} else if cmd.Id > 0 {
				sendIDs[cmd.Id]++
				c.Count("send_with_id", 1)
			}
			labels = append(labels, cmdLabel(cmd))
			c.Count("cmd_"+kindOf(cmd), 1)
			if cmd.Id == 0 {
				c.Count("id0_commands", 1)
			}
		}
		if s.bytesMode {
			c.Count("frames_"+string(s.proto), 1)
			if fr.malformed {
				c.Count("malformed_frames", 1)
			}
			if len(fr.bytes) == 0 {
				c.Count("empty_frames", 1)
			}
			if len(fr.decoded) > 1 {
				c.Count("multi_command_frames", 1)
			}
		} else {
			c.Count("frames_do", 1)
		}
		proceed, elapsed := s.feed(fr)
		// What the statement requires of this frame, evaluated on the decoded commands.
		if !closedBefore && elapsed == 0 {
			authed := connected
			for i, cmd := range fr.decoded {
				k := kindOf(cmd)
				if k == "pong" {
					if !authed || !outstanding {
						if mustClose == "" {
							if !authed {
								mustClose = "command other than connect before a successful connect"
								if firstFrame && i == 0 {
									strictPreauth = true
								}
							} else if s.writeDelay > 0 && s.pingInterval > 0 {
								// a server ping may sit in the batching writer: the harness cannot tell
								// whether this pong is unsolicited
								break
							} else {
								mustClose = "pong without a preceding ping"
							}
						}
						break
					}
					outstanding = false
					pongsAccepted++
					pingsAtLastPong = pings
					continue
				}
				if !authed {
					if k != "connect" {
						if mustClose == "" {
							mustClose = "command other than connect before a successful connect"
						}
						if firstFrame && i == 0 {
							strictPreauth = true
						}
						break
					}
					if s.connectMode != "ok" {
						break // connect fails: error reply or disconnect, nothing further is required here
					}
					authed = true
					continue
				}
				if k == "connect" || k == "none" || k == "ping" {
					break // closes the connection; the statement does not say how
				}
			}
		}
		firstFrame = false
		if !proceed {
			allProceed = false
			if !continueAfterStop {
				stopped = true
			}
		}
		if fr.gap > 0 {
			time.Sleep(fr.gap)
		}
	}

	for _, fr := range frames {
		if stopped {
			break
		}
		doFrame(fr)
		// reactive pongs: answer an outstanding server ping, or send an unsolicited one
		if stopped || s.pingInterval <= 0 || s.profile == "preauth" {
			continue
		}
		synctest.Wait()
		if closed, _, _ := s.conn.T.Closed(); closed {
			continue
		}
		if countPings(s.conn.T) > pingsAtLastPong && r.Chance(4, 5) {
			pf := &frame{items: []item{{cmd: &protocol.Command{}}}, trailingNL: r.Bool()}
			if s.profile == "wild" && r.Chance(1, 6) {
				pf.items = append(pf.items, item{cmd: &protocol.Command{}}) // the second one is unsolicited
			}
			s.encodeFrame(r, pf)
			doFrame(pf)
		}
	}

	settle := func() {
		time.Sleep(maxHandlerDelay + s.writeDelay + 10*time.Millisecond)
		synctest.Wait()
	}
	settle()

	// strict unsolicited-pong probe: the sequence so far was clean, the connection is open
	strictPong := false
	if s.profile == "pongstrict" && !stopped {
		closed, _, _ := s.conn.T.Closed()
		connected := func() bool { s.mu.Lock(); defer s.mu.Unlock(); return s.connectSeq != 0 }()
		if !closed && connected && mustClose == "" {
			if s.pingInterval > 0 && r.Bool() {
				// let a ping arrive and answer it first: the next pong is then unsolicited again
				for i := 0; i < 8 && countPings(s.conn.T) <= pingsAtLastPong; i++ {
					time.Sleep(s.pingInterval / 2)
					synctest.Wait()
				}
				if countPings(s.conn.T) > pingsAtLastPong {
					pf := &frame{items: []item{{cmd: &protocol.Command{}}}}
					s.encodeFrame(r, pf)
					doFrame(pf)
					settle()
					if closed, _, _ := s.conn.T.Closed(); closed {
						c.Count("answered_ping_then_closed", 1)
					} else {
						c.Count("pong_after_ping_accepted_strict", 1)
					}
				}
			}
			if closed, _, _ := s.conn.T.Closed(); !closed && mustClose == "" && countPings(s.conn.T) <= pingsAtLastPong {
				pf := &frame{items: []item{{cmd: &protocol.Command{}}}, trailingNL: r.Bool()}
				s.encodeFrame(r, pf)
				doFrame(pf)
				strictPong = mustClose != ""
				settle()
			}
		}
	}

	// ------------------------------------------------------------------ evaluation
	frs := s.conn.T.Frames()
	closed, disc, _ := s.conn.T.Closed()
	s.mu.Lock()
	hlog := append([]hrec(nil), s.hlog...)
	connectSeq := s.connectSeq
	handlerDisc := s.handlerDisc
	nAsync, nHErr := s.nAsync, s.nHandlerErr
	s.mu.Unlock()

	filterChanged := false
	for _, h := range hlog {
		if h.Kind == "sub_refresh" && strings.HasSuffix(h.Info, "server-tags-filter-changed") {
			filterChanged = true
		}
	}
	if filterChanged {
		c.Count("map_sub_refresh_filter_changed", 1)
	}
	replies := map[uint32]int{}
	replySeq := map[uint32]int64{}
	nReplies := 0
	reordered := false
	var lastID uint32
	for _, f := range frs {
		if f.Reply == nil || f.Reply.Id == 0 {
			continue
		}
		if f.DecodeErr != "" {
			c.Violation("c09-undecodable-reply", fmt.Sprintf("reply frame does not decode: %s", f.DecodeErr), map[string]any{"raw": string(f.Raw)})
			continue
		}
		id := f.Reply.Id
		replies[id]++
		nReplies++
		if _, ok := replySeq[id]; !ok {
			replySeq[id] = f.Seq
		}
		if id < lastID && sent[id] == 1 && sent[lastID] == 1 {
			reordered = true
		}
		lastID = id
	}
	res := result{Profile: s.profile, Proto: string(s.proto), Mode: map[bool]string{true: "bytes", false: "do"}[s.bytesMode], ConnectMode: s.connectMode,
		Commands: labels, Replies: nReplies, Closed: closed, CloseCode: disc.Code, Handlers: len(hlog)}
	detail := func() any {
		var raws []string
		for _, f := range frs {
			raws = append(raws, fmt.Sprintf("seq=%d %s", f.Seq, string(f.Raw)))
		}
		var fb []string
		for _, fr := range frames {
			if s.bytesMode {
				fb = append(fb, fmt.Sprintf("%q", string(fr.bytes)))
			}
		}
		return map[string]any{"scenario": res, "handler_log": hlog, "written": raws, "frames_fed": fb, "must_close": mustClose,
			"early_handlers": s.earlyHandlers, "missing_handlers": s.missing, "ping_interval": s.pingInterval.String(), "pong_timeout": s.pongTimeout.String(),
			"write_delay": s.writeDelay.String(), "reply_without_queue": s.replyNoQueue, "client_side_refresh": s.clientSideRefresh}
	}

	// (1) no application handler before a successful connect
	for _, h := range hlog {
		if connectSeq == 0 || h.Seq < connectSeq {
			c.Violation("c09-application-handler-invoked-before-successful-connect",
				fmt.Sprintf("handler %q (%s) ran although the connection had not successfully connected", h.Kind, h.Info), detail())
			break
		}
	}
	// (1) and (3): the connection must end up closed, with the bad-request disconnect where
	// nothing else could have closed it.
	if mustClose != "" {
		if !closed {
			cls := "c09-command-before-connect-does-not-close-connection"
			if strings.HasPrefix(mustClose, "pong") {
				cls = "c09-pong-without-ping-does-not-close-connection"
			}
			c.Violation(cls, fmt.Sprintf("%s was handled but the connection is still open", mustClose), detail())
		} else {
			if strictPreauth && s.profile == "preauth" {
				c.Count("preauth_strict_checked", 1)
				if disc.Code != codeBadRq {
					c.Violation("c09-command-before-connect-closed-with-other-disconnect",
						fmt.Sprintf("first command %s before connect: closed with %d %q instead of 3501 bad request", labels[0], disc.Code, disc.Reason), detail())
				}
			}
			if strictPong {
				c.Count("unsolicited_pong_strict_checked", 1)
				if disc.Code != codeBadRq {
					c.Violation("c09-pong-without-ping-closed-with-other-disconnect",
						fmt.Sprintf("unsolicited pong on a healthy connection: closed with %d %q instead of 3501 bad request", disc.Code, disc.Reason), detail())
				}
			}
			if strings.HasPrefix(mustClose, "pong") {
				c.Count("unsolicited_pong_closed", 1)
			} else {
				c.Count("closed_before_auth", 1)
			}
		}
	}
	// (2) replies per id
	var ids []uint32
	for id := range replies {
		ids = append(ids, id)
	}
	for id := range sent {
		if _, ok := replies[id]; !ok {
			ids = append(ids, id)
		}
	}
	sort.Slice(ids, func(i, j int) bool { return ids[i] < ids[j] })
	open := !closed && allProceed
	for _, id := range ids {
		if replies[id] > sent[id]+sendIDs[id] {
			c.Violation("c09-more-replies-than-commands-for-id",
				fmt.Sprintf("%d replies with id %d for %d command(s) carrying that id", replies[id], id, sent[id]+sendIDs[id]), detail())
			break
		}
		if open && replies[id] < sent[id] {
			if subRefreshOnMap[id] && filterChanged {
				// one known way to get here, kept apart from every other unanswered command
				c.Violation("c09-map-sub-refresh-left-unanswered-when-server-tags-filter-changes",
					fmt.Sprintf("sub_refresh with id %d on a map subscription: OnSubRefresh returned a different ServerTagsFilter, the server unsubscribed the channel and never answered the command; the connection is still open", id), detail())
				continue
			}
			c.Violation("c09-command-with-id-left-unanswered-on-open-connection",
				fmt.Sprintf("%d command(s) with id %d were handled, %d replies arrived and the connection is still open", sent[id], id, replies[id]), detail())
			break
		}
	}
	if open && connectSeq != 0 {
		c.Count("open_at_end_all_answered", 1)
		c.Count("replies_on_open_connections", nReplies)
	}
	if (s.profile == "clean" || s.profile == "pongstrict" || s.profile == "maprefresh") && closed && !strictPong && mustClose == "" {
		c.Count("clean_sequence_closed_"+fmt.Sprint(disc.Code), 1)
	}
	if reordered {
		c.Count("async_replies_reordered", 1)
	}
	if g.dupIDs > 0 {
		c.Count("sequences_with_duplicate_ids", 1)
	}
	for id, n := range sent {
		if n > 1 && replies[id] == n && sendIDs[id] == 0 {
			c.Count("duplicate_id_each_answered", 1)
		}
	}
	if handlerDisc {
		c.Count("handler_returned_disconnect", 1)
	}
	c.Count("pong_after_ping_accepted", pongsAccepted)
	c.Count("handler_invocations", len(hlog))
	c.Count("handler_async", nAsync)
	c.Count("handler_error", nHErr)
	c.Count("replies_total", nReplies)
	c.Count("profile_"+s.profile, 1)
	if closed {
		c.Count(fmt.Sprintf("closed_%d", disc.Code), 1)
	}
	if s.earlyHandlers {
		c.Count("handlers_installed_before_connect", 1)
	}
	c.Eval(1)
	c.Nontrivial(fmt.Sprintf("%s|%s|%v|%s|closed=%v:%d|r%d|h%d|%s", s.profile, s.proto, s.bytesMode, s.connectMode, closed, disc.Code, bucket(nReplies), bucket(len(hlog)), kindsSig(labels)))
	if c.Index < 32 && s.idx == 0 {
		c.Sample(res)
	}
	if c.Verbose {
		c.Logf("scenario %d: %+v must_close=%q", s.idx, res, mustClose)
		for _, f := range frs {
			c.Logf("  written seq=%d %s", f.Seq, string(f.Raw))
		}
		for _, h := range hlog {
			c.Logf("  handler seq=%d %s %s", h.Seq, h.Kind, h.Info)
		}
	}
	_ = s.conn.CloseFn()
	s.wg.Wait()
}

func bucket(n int) int {
	switch {
	case n == 0:
		return 0
	case n < 3:
		return 1
	case n < 8:
		return 2
	}
	return 3
}

func kindsSig(labels []string) string {
	set := map[string]bool{}
	for _, l := range labels {
		set[strings.SplitN(l, "#", 2)[0]] = true
	}
	var ks []string
	for k := range set {
		ks = append(ks, k)
	}
	sort.Strings(ks)
	return strings.Join(ks, ",")
}

const scenariosPerCase = 12

func runCase(c *kit.Case) {
	r := c.R
	w := kit.NewWorld(c)
	var regMu sync.Mutex
	byT := map[*kit.RecTransport]*scn{}
	lookup := func(t any) *scn {
		rt, ok := t.(*kit.RecTransport)
		if !ok {
			return nil
		}
		regMu.Lock()
		defer regMu.Unlock()
		return byT[rt]
	}
	reg := func(t *kit.RecTransport, s *scn) { regMu.Lock(); byT[t] = s; regMu.Unlock() }
	useNodeHooks := r.Chance(1, 2)

	// Map channels (for sub_refresh on a map subscription) are rare on purpose: that
	// path has a known way of leaving a command unanswered, and a child stops after
	// 50 violations.
	useMap := r.Chance(1, 20)
	mapScenario := r.Intn(scenariosPerCase)
	cfg := centrifuge.Config{
		ClientStaleCloseDelay: time.Hour,
		ChannelMaxLength:      64,
	}
	if useMap {
		cfg.Map.GetMapChannelOptions = func(ch string) centrifuge.MapChannelOptions {
			if strings.HasPrefix(ch, "m") {
				return centrifuge.MapChannelOptions{Mode: centrifuge.MapModeEphemeral, KeyTTL: time.Minute}
			}
			return centrifuge.MapChannelOptions{}
		}
	}
	node, _ := w.NewNode(cfg, func(n *centrifuge.Node) {
		if useMap {
			mb, err := centrifuge.NewMemoryMapBroker(n, centrifuge.MemoryMapBrokerConfig{})
			if err != nil {
				panic(err)
			}
			n.SetMapBroker(mb)
		}
		n.OnConnecting(func(_ context.Context, e centrifuge.ConnectEvent) (centrifuge.ConnectReply, error) {
			s := lookup(e.Transport)
			if s == nil {
				return centrifuge.ConnectReply{}, centrifuge.DisconnectServerError
			}
			rep := centrifuge.ConnectReply{
				ClientSideRefresh:  s.clientSideRefresh,
				WriteDelay:         s.writeDelay,
				WriteWithTimer:     s.writeTimer,
				ReplyWithoutQueue:  s.replyNoQueue,
				MaxMessagesInFrame: s.maxInFrame,
			}
			switch s.connectMode {
			case "error":
				return rep, centrifuge.ErrorPermissionDenied
			case "disconnect":
				return rep, centrifuge.DisconnectInvalidToken
			case "nocreds":
				return rep, nil
			}
			rep.Credentials = &centrifuge.Credentials{UserID: fmt.Sprintf("u%d", s.idx)}
			if s.clientSideRefresh {
				rep.Credentials.ExpireAt = time.Now().Unix() + 3600
			}
			return rep, nil
		})
		n.OnConnect(func(cl *centrifuge.Client) {
			s := lookup(cl.Transport())
			if s == nil {
				return
			}
			seq := w.Seq()
			s.mu.Lock()
			s.connectSeq = seq
			s.mu.Unlock()
			if !s.earlyHandlers {
				s.install(cl)
			}
		})
		if useNodeHooks {
			n.OnCommandRead(func(cl *centrifuge.Client, e centrifuge.CommandReadEvent) error {
				s := lookup(cl.Transport())
				if s == nil || e.Command.Connect != nil {
					return nil
				}
				s.record("command_read", kindOf(e.Command))
				if !s.nodeHooks {
					return nil
				}
				s.mu.Lock()
				x := s.hr.Intn(40)
				s.mu.Unlock()
				if x == 0 {
					return centrifuge.ErrorTooManyRequests
				}
				return nil
			})
			n.OnCommandProcessed(func(cl *centrifuge.Client, e centrifuge.CommandProcessedEvent) {
				s := lookup(cl.Transport())
				if s == nil || e.Command == nil || e.Command.Connect != nil {
					return
				}
				s.record("command_processed", "")
			})
		}
	})
	if useNodeHooks {
		c.Count("cases_with_command_read_hooks", 1)
	}

	for i := 0; i < scenariosPerCase; i++ {
		s := &scn{c: c, w: w, idx: i, hr: kit.NewRand(c.Seed, uint64(c.Index)*64+uint64(i)+7_000_000), missing: map[string]bool{}}
		s.profile = kit.Pick(r, []string{"clean", "clean", "clean", "pongstrict", "pongstrict", "preauth", "preauth", "connectfail", "wild", "wild", "wild", "wild"})
		if useMap && i == mapScenario {
			s.profile = "maprefresh"
		}
		s.proto = kit.Pick(r, []centrifuge.ProtocolType{centrifuge.ProtocolTypeJSON, centrifuge.ProtocolTypeProtobuf})
		s.bytesMode = r.Chance(3, 4)
		s.connectMode = "ok"
		s.clientSideRefresh = r.Bool()
		s.earlyHandlers = r.Bool()
		s.nodeHooks = r.Bool()
		strict := s.profile == "clean" || s.profile == "pongstrict" || s.profile == "maprefresh"
		if s.profile == "connectfail" {
			s.connectMode = kit.Pick(r, []string{"error", "disconnect", "nocreds"})
		}
		if s.profile == "wild" || s.profile == "connectfail" {
			s.allowDisc = true
			for _, h := range []string{"subscribe", "unsubscribe", "publish", "presence", "presence_stats", "history", "rpc", "message", "refresh", "sub_refresh"} {
				if r.Chance(1, 12) {
					s.missing[h] = true
				}
			}
		} else {
			for _, h := range []string{"publish", "presence", "presence_stats", "history", "rpc", "refresh", "sub_refresh"} {
				if r.Chance(1, 14) {
					s.missing[h] = true // answered with "not available", the connection stays open
				}
			}
		}
		switch r.Intn(3) {
		case 0:
			s.pingInterval, s.pongTimeout = -1, -1
		default:
			s.pingInterval = time.Duration(r.Range(600, 3000)) * time.Millisecond
			s.pongTimeout = -1
			if !strict && r.Bool() {
				s.pongTimeout = s.pingInterval / 2
			}
		}
		if r.Chance(1, 3) && !(s.profile == "pongstrict" && s.pingInterval > 0) {
			s.writeDelay = time.Duration(r.Range(1, 8)) * time.Millisecond
			s.writeTimer = r.Bool()
			s.maxInFrame = kit.Pick(r, []int{0, -1, 2})
		}
		s.replyNoQueue = r.Chance(1, 5)
		runScenario(c, w, node, s, reg)
		synctest.Wait()
	}
	w.Shutdown()
}

func TestC09(t *testing.T) {
	kit.Main(t, kit.Spec{
		ID:     "C09",
		Level:  "exploration",
		Bubble: true,
		Rule: "each case = one node in a virtual-time bubble and 12 connections, one command sequence each (one evaluation per sequence). Profiles: clean (connect, then 2-14 valid commands of every request type, fresh and duplicate ids, several per frame), " +
			"pongstrict (clean, then an unsolicited pong on the verified-open connection, optionally after answering a real server ping), preauth (first command is not connect: any request type, empty command, id without request), " +
			"connectfail (OnConnecting returns an error / a disconnect / no credentials, then more commands), wild (id 0, duplicate and huge ids, second connect, ping request, empty channels, several requests per command, odd subscribe types/delta/flags, " +
			"send with id, handlers missing, handlers returning disconnects, malformed JSON lines / truncated Protobuf varints / oversized length prefixes / garbage bodies, empty frames, feeding after HandleCommand said stop). " +
			"Frames are bytes through centrifuge.HandleReadFrame for JSON (newline-delimited, with unknown fields, null members, whitespace) and Protobuf (varint-prefixed, with unknown fields), or *protocol.Command through Client.HandleCommand. " +
			"Application handlers (OnSubscribe/Publish/MapPublish/MapRemove/Presence/PresenceStats/History/RPC/Message/Refresh/SubRefresh/Unsubscribe/Disconnect, node-level OnCommandRead/OnCommandProcessed) are installed either before the first command or in OnConnect, " +
			"log every invocation, and answer synchronously or from another goroutine after 0-50 virtual ms with success, client errors, plain errors or (wild) disconnects. Server pings run on the virtual clock; the harness answers them reactively. " +
			"Oracle: (1) no handler invocation before OnConnect; a non-connect command handled before a successful connect leaves the connection closed, and with 3501 when it is the first command; " +
			"(2) never more replies with id X than commands with id X, and on a connection that is still open with every frame accepted exactly as many; (3) an empty command without an outstanding server ping leaves the connection closed, with 3501 when nothing else could have closed it. " +
			"Non-trivial = every sequence; signature = profile x protocol x mode x close code x reply/handler buckets x command kinds.",
		Assumptions: []string{
			"what the server decodes from a frame is taken from the protocol package's own stream decoder run over the same bytes",
			"a send request is one-way by protocol definition: a send that carries an id may stay unanswered or get one error reply (counted as send_with_id)",
			"'unless the connection is closed' is read literally: on a connection the server closed (for any reason) unanswered commands are accepted, only surplus replies are not",
			"the exact disconnect code is asserted only where the harness knows that nothing else could have closed the connection (first command of a connection; unsolicited pong after a settled clean sequence)",
			"an application handler always calls its callback exactly once",
		},
		Cases: map[string]int{"quick": 1500, "thorough": 15000},
		RequireCounters: []string{"closed_before_auth", "preauth_strict_checked", "unsolicited_pong_closed", "unsolicited_pong_strict_checked", "pong_after_ping_accepted",
			"open_at_end_all_answered", "async_replies_reordered", "duplicate_id_each_answered", "malformed_frames", "empty_frames", "multi_command_frames",
			"frames_json", "frames_protobuf", "frames_do", "handlers_installed_before_connect", "cases_with_command_read_hooks",
			"cmd_connect", "cmd_subscribe", "cmd_unsubscribe", "cmd_publish", "cmd_presence", "cmd_presence_stats", "cmd_history", "cmd_pong", "cmd_send", "cmd_rpc", "cmd_refresh", "cmd_sub_refresh", "cmd_ping", "cmd_none"},
		Run: runCase,
	})
}
