// C22: Map subscriptions converge to the broker state.
package c22

import (
	"context"
	"fmt"
	"hash/fnv"
	"sort"
	"sync"
	"sync/atomic"
	"testing"
	"time"

	"github.com/centrifugal/centrifuge"
	"github.com/centrifugal/centrifuge/verifx/kit"
	"github.com/centrifugal/centrifuge/verifx/mapcm"
	"github.com/centrifugal/protocol"
)

const channel = "c22:map"

func tagOfKey(k string) string {
	if (k[len(k)-1]-'0')%2 == 0 {
		return "a"
	}
	return "b"
}

func hashDelay(salt uint64, point string, max int) time.Duration {
	h := fnv.New64a()
	_, _ = h.Write([]byte(point))
	v := (h.Sum64() ^ salt) * 0x9e3779b97f4a7c15
	return time.Duration(v%uint64(max+1)) * time.Millisecond
}

type subject struct {
	idx    int
	cm     *mapcm.Client
	filter string // "" | "a"
	server string // "" | "a"
	salt   uint64
	conns  []*kit.Conn
}

func runCase(c *kit.Case) {
	r := c.R
	w := kit.NewWorld(c)
	mode := kit.Pick(r, []centrifuge.MapMode{centrifuge.MapModeEphemeral, centrifuge.MapModeRecoverable, centrifuge.MapModePersistent, centrifuge.MapModePersistent})
	chOpts := centrifuge.MapChannelOptions{Mode: mode, MinPageSize: 1, DefaultPageSize: 3, MaxPageSize: 1000}
	if mode.HasExpiry() {
		chOpts.KeyTTL = kit.Pick(r, []time.Duration{time.Minute, time.Minute, 3 * time.Second})
	}
	if mode.HasStream() {
		chOpts.StreamSize = kit.Pick(r, []int{4, 8, 50, 200})
		chOpts.StreamTTL = kit.Pick(r, []time.Duration{time.Minute, time.Minute, 2 * time.Second})
		if r.Chance(1, 3) {
			chOpts.LiveTransitionMaxPublicationLimit = r.Range(1, 4)
		}
		if c.Index%6 == 1 {
			chOpts.StreamSize = 4 // half of the single-flight cases: positions fall out of the stream quickly
		}
	}
	if r.Chance(1, 4) {
		centrifuge.VerifSetMapOrdered(&chOpts, true)
	}
	var optMu sync.Mutex
	serverFilterFor := map[*centrifuge.Client]string{}
	subjOf := sync.Map{}
	node, _ := w.NewNode(centrifuge.Config{
		ClientStaleCloseDelay:           time.Hour,
		ClientPresenceUpdateInterval:    time.Second,
		ClientChannelPositionCheckDelay: 2 * time.Second,
		// concurrent readers of one channel then share broker reads (state, stream and history)
		UseSingleFlight: c.Index%3 == 1,
		Map: centrifuge.MapConfig{GetMapChannelOptions: func(string) centrifuge.MapChannelOptions { return chOpts }},
	}, func(n *centrifuge.Node) {
		n.OnConnecting(func(context.Context, centrifuge.ConnectEvent) (centrifuge.ConnectReply, error) {
			return kit.Creds("u"), nil
		})
		n.OnConnect(func(cl *centrifuge.Client) {
			cl.OnSubscribe(func(e centrifuge.SubscribeEvent, cb centrifuge.SubscribeCallback) {
				o := centrifuge.SubscribeOptions{Type: e.Type, AllowTagsFilter: true}
				optMu.Lock()
				sf := serverFilterFor[cl]
				optMu.Unlock()
				if sf != "" {
					o.ServerTagsFilter = &protocol.FilterNode{Key: "t", Cmp: "eq", Val: sf}
				}
				cb(centrifuge.SubscribeReply{Options: o}, nil)
			})
		})
	})
	positioned := mode.HasStream()
	kit.SetHook(node, func(point string, cl *centrifuge.Client, ch string) {
		if cl == nil {
			return
		}
		v, ok := subjOf.Load(cl)
		if !ok {
			return
		}
		sj := v.(*subject)
		switch point {
		case "map.afterStateRead", "map.afterAddSub", "map.afterStreamRead":
			time.Sleep(hashDelay(sj.salt, point, 8))
		case "map.beforeCommit", "map.afterReply":
			// the recovery buffer lock is held here (positioned and streamless): no sleep
			kit.Yield(100)
		}
		_ = positioned
	})

	ctx := context.Background()
	var seq atomic.Int64
	nKeys := r.Range(2, 9)
	keys := make([]string, nKeys)
	for i := range keys {
		keys[i] = fmt.Sprintf("k%d", i)
	}
	type wop struct {
		kind string
		key  string
		gap  time.Duration
	}
	var wg sync.WaitGroup
	var ops atomic.Int64
	var wlogMu sync.Mutex
	var wlog []string
	note := func(f string, a ...any) {
		wlogMu.Lock()
		if len(wlog) < 400 {
			wlog = append(wlog, fmt.Sprintf("%v ", w.Now())+fmt.Sprintf(f, a...))
		}
		wlogMu.Unlock()
	}
	write := func(o wop) {
		switch o.kind {
		case "pub":
			n := seq.Add(1)
			res, err := node.MapPublish(ctx, channel, o.key, centrifuge.MapPublishOptions{Data: []byte(fmt.Sprintf(`{"v":%d}`, n)), Tags: map[string]string{"t": tagOfKey(o.key)}})
			note("publish %s v%d -> %d/%s supp=%v err=%v", o.key, n, res.Position.Offset, res.Position.Epoch, res.Suppressed, err)
		case "rem":
			res, err := node.MapRemove(ctx, channel, o.key, centrifuge.MapRemoveOptions{Tags: map[string]string{"t": tagOfKey(o.key)}})
			note("remove %s -> %d/%s supp=%v err=%v", o.key, res.Position.Offset, res.Position.Epoch, res.Suppressed, err)
		case "clear":
			err := node.MapClear(ctx, channel, centrifuge.MapClearOptions{})
			note("clear err=%v", err)
		}
		ops.Add(1)
	}
	// initial content
	for i, n := 0, r.Range(0, nKeys); i < n; i++ {
		write(wop{kind: "pub", key: keys[i]})
	}
	nWriters := r.Range(1, 2)
	clearAllowed := r.Chance(1, 5)
	for wi := 0; wi < nWriters; wi++ {
		n := r.Range(5, 40)
		plan := make([]wop, n)
		for i := range plan {
			k := "pub"
			switch x := r.Intn(100); {
			case x < 20:
				k = "rem"
			case x < 23 && clearAllowed:
				k = "clear"
			}
			plan[i] = wop{kind: k, key: kit.Pick(r, keys), gap: time.Duration(r.Range(0, 12)) * time.Millisecond}
			if r.Chance(1, 25) {
				plan[i].gap = time.Duration(r.Range(1000, 4000)) * time.Millisecond // crosses stream/key TTLs
			}
		}
		wg.Add(1)
		go func() {
			defer wg.Done()
			for _, o := range plan {
				time.Sleep(o.gap)
				write(o)
			}
		}()
	}

	nSubj := r.Range(1, 3)
	subjects := make([]*subject, nSubj)
	for i := range subjects {
		sj := &subject{idx: i, salt: r.Uint64()}
		if r.Chance(1, 3) {
			sj.filter = "a"
		}
		if r.Chance(1, 4) {
			sj.server = "a"
		}
		subjects[i] = sj
		limit := int32(r.Range(1, 5))
		startAt := time.Duration(r.Range(0, 60)) * time.Millisecond
		stepMax := r.Range(0, 10)
		reconnect := r.Chance(1, 2)
		liveFor := time.Duration(r.Range(5, 80)) * time.Millisecond
		away := time.Duration(r.Range(5, 60)) * time.Millisecond
		if c.Index%6 == 1 {
			reconnect = true
			away += time.Duration(r.Range(0, 100)) * time.Millisecond
		}
		viaStream := r.Bool()
		proto := kit.Pick(r, []centrifuge.ProtocolType{centrifuge.ProtocolTypeJSON, centrifuge.ProtocolTypeProtobuf})
		mk := func() *kit.Conn {
			conn := w.NewConn(node, kit.TransportOpts{Protocol: proto})
			subjOf.Store(conn.Client, sj)
			optMu.Lock()
			serverFilterFor[conn.Client] = sj.server
			optMu.Unlock()
			sj.conns = append(sj.conns, conn)
			conn.Connect(nil)
			return conn
		}
		wg.Add(1)
		go func() {
			defer wg.Done()
			time.Sleep(startAt)
			conn := mk()
			sj.cm = mapcm.New(conn, channel, limit)
			if sj.filter != "" {
				sj.cm.Tf = &protocol.FilterNode{Key: "t", Cmp: "eq", Val: sj.filter}
			}
			sj.cm.Filtered = sj.filter != "" || sj.server != ""
			salt := sj.salt
			sj.cm.StepDelay = func(step int) time.Duration { return hashDelay(salt, fmt.Sprint("step", step), stepMax) }
			sj.cm.Subscribe()
			if !reconnect || sj.cm.Ended != "" || !sj.cm.Positioned {
				return
			}
			time.Sleep(liveFor)
			sj.cm.Fold()
			if sj.cm.Ended != "" {
				return
			}
			_ = conn.CloseFn()
			time.Sleep(away)
			sj.cm.RecoverOn(mk(), viaStream)
		}()
	}
	wg.Wait()
	// traffic stopped: let expirations and deferred work run, then compare
	time.Sleep(9 * time.Second)
	w.Settle()

	// the broker's current state
	truth := map[string][]byte{}
	cursor := ""
	for i := 0; i < 50; i++ {
		res, err := node.MapStateRead(ctx, channel, centrifuge.MapReadStateOptions{Limit: 1000, Cursor: cursor})
		if err != nil {
			c.Inconclusive("MapStateRead: " + err.Error())
			break
		}
		for _, p := range res.Publications {
			truth[p.Key] = p.Data
		}
		cursor = res.Cursor
		if cursor == "" {
			break
		}
	}
	sig := fmt.Sprintf("mode%d ss%d lt%d sf%v", mode, chOpts.StreamSize, chOpts.LiveTransitionMaxPublicationLimit, c.Index%3 == 1)
	if c.Index%3 == 1 {
		c.Count("cases_with_single_flight", 1)
	}
	for _, sj := range subjects {
		if sj.cm == nil {
			continue
		}
		sj.cm.Fold()
		cm := sj.cm
		detail := map[string]any{"mode": int(mode), "channel_options": fmt.Sprintf("%+v", chOpts), "steps": cm.Steps, "filter": sj.filter, "server_filter": sj.server, "limit": cm.Limit, "writes": wlog}
		for _, p := range cm.Problems {
			c.Violation("c22-live-publication-out-of-sequence", fmt.Sprintf("subject %d: %s", sj.idx, p), detail)
		}
		sig += fmt.Sprintf("|%s:%v:%d", cm.Ended, cm.Recovered, len(cm.Steps))
		if cm.Ended != "" {
			c.Count("ended_"+cm.Ended, 1)
			continue
		}
		if !cm.Live {
			c.Violation("c22-subscription-neither-live-nor-refused", fmt.Sprintf("subject %d finished the protocol without going live or being refused", sj.idx), detail)
			continue
		}
		admit := func(k string) bool {
			t := tagOfKey(k)
			return (sj.filter == "" || t == sj.filter) && (sj.server == "" || t == sj.server)
		}
		var diffs []string
		for k, v := range truth {
			if !admit(k) {
				continue
			}
			got, ok := cm.State[k]
			if !ok {
				diffs = append(diffs, fmt.Sprintf("missing %s=%s", k, v))
			} else if string(got) != string(v) {
				diffs = append(diffs, fmt.Sprintf("stale %s: client %s broker %s", k, got, v))
			}
		}
		for k, v := range cm.State {
			if _, ok := truth[k]; !ok {
				diffs = append(diffs, fmt.Sprintf("extra %s=%s", k, v))
			} else if !admit(k) {
				diffs = append(diffs, fmt.Sprintf("filtered key held %s", k))
			}
		}
		sort.Strings(diffs)
		if len(diffs) > 0 {
			cls := "c22-client-map-differs-from-broker-state"
			if mode == centrifuge.MapModeEphemeral {
				// Streamless mode: publications carry no offset, are never buffered during
				// the subscribe, and there is no stream to catch up from, so changes made
				// while a client subscribes are lost.
				cls = "c22-streamless-map-client-misses-changes-made-during-subscribe"
			} else if cm.Recovered {
				cls = "c22-recovered-true-but-client-map-differs-from-broker-state"
			}
			detail["diff"] = diffs
			c.Violation(cls, fmt.Sprintf("subject %d (live, recovered=%v) holds a map that differs from the broker state after traffic stopped: %v", sj.idx, cm.Recovered, diffs), detail)
			continue
		}
		c.Count("converged_live_clients", 1)
		if cm.Recovered {
			c.Count("converged_after_recovery", 1)
		}
		if len(cm.Steps) > 2 {
			c.Count("converged_after_multi_step_protocol", 1)
		}
	}
	c.Count("writes", int(ops.Load()))
	c.Nontrivial(sig)
	if c.Index < 32 && len(subjects) > 0 && subjects[0].cm != nil {
		c.Sample(map[string]any{"mode": int(mode), "options": fmt.Sprintf("%+v", chOpts), "steps": subjects[0].cm.Steps, "final_keys": len(truth)})
	}
	for _, sj := range subjects {
		for _, conn := range sj.conns {
			_ = conn.CloseFn()
		}
	}
	w.Shutdown()
}

func TestC22(t *testing.T) {
	kit.Main(t, kit.Spec{
		ID:     "C22",
		Bubble: true,
		Rule: "each case = one bubble: a map channel (ephemeral / recoverable / persistent, ordered or not, stream size 4-200, stream and key TTLs that are crossed, optional live-transition limit) written by 1-2 writers (publish / remove / clear on 2-9 keys, every 0-12 virtual ms, occasional long pauses), 1-3 client models following the protocol with page size 1-5 (state pages -> stream pages -> live, virtual delays between steps and at the server's yield points), optional client/server tags filters, optional disconnect + recovery join (live or stream phase) from the saved position. " +
			"After traffic stops and 9 virtual s (position check delay 2 s, tick 1 s): a client that is live must hold exactly the broker's state restricted to its filters; otherwise it must have been refused (error / unsubscribe / disconnect). Signature = mode, stream size, limit x per-client (ending, recovered, #steps).",
		Assumptions: []string{
			"the client model applies state pages, then stream publications with offsets above its position in order, then live pushes; a key's tag never changes (otherwise filtering legitimately leaves stale entries)",
			"memory map broker (no Redis)",
		},
		Cases:           map[string]int{"quick": 900, "thorough": 30000},
		RequireCounters: []string{"converged_live_clients", "converged_after_recovery", "converged_after_multi_step_protocol", "writes"},
		Run:             runCase,
	})
}
