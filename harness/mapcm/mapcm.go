// Package mapcm is a client model for the map subscription protocol (state pages,
// stream pages, live transition, recovery join): it issues the commands an SDK
// issues and folds what the server writes into the map the client would hold.
package mapcm

import (
	"fmt"
	"time"

	"github.com/centrifugal/centrifuge/verifx/kit"
	"github.com/centrifugal/protocol"
)

const (
	TypeMap     = 1
	PhaseLive   = 0
	PhaseStream = 1
	PhaseState  = 2
)

// Client follows one map channel on one connection.
type Client struct {
	Conn    *kit.Conn
	Channel string
	Limit   int32
	Tf      *protocol.FilterNode
	Delta   string
	// Filtered tells the model that a tags filter (client or server) is active, so
	// gaps between the offsets of live publications are expected.
	Filtered bool
	// StepDelay is slept (virtual time) between protocol steps.
	StepDelay func(step int) time.Duration

	State      map[string][]byte
	Offset     uint64
	Epoch      string
	Positioned bool
	Live       bool
	LiveSeq    int64 // sequence number of the frame that made the subscription live
	Recovered  bool
	// Ended is non-empty once the subscription cannot be trusted any more, with the reason.
	Ended    string
	ErrCode  uint32
	Steps    []string
	consumed int // frames already folded
	Problems []string
}

func New(conn *kit.Conn, ch string, limit int32) *Client {
	return &Client{Conn: conn, Channel: ch, Limit: limit, State: map[string][]byte{}}
}

func (m *Client) logf(f string, a ...any) {
	m.Steps = append(m.Steps, fmt.Sprintf("%v ", m.Conn.W.Now())+fmt.Sprintf(f, a...))
}

func (m *Client) delay(step int) {
	if m.StepDelay != nil {
		if d := m.StepDelay(step); d > 0 {
			time.Sleep(d)
		}
	}
}

func (m *Client) apply(p *protocol.Publication) {
	if p.Removed {
		delete(m.State, p.Key)
		return
	}
	m.State[p.Key] = append([]byte(nil), p.Data...)
}

func (m *Client) send(req *protocol.SubscribeRequest) (*protocol.SubscribeResult, kit.Frame, bool) {
	req.Channel = m.Channel
	req.Type = TypeMap
	req.Limit = m.Limit
	if req.Tf == nil && req.Cursor == "" {
		req.Tf = m.Tf
	}
	req.Delta = m.Delta
	id := m.Conn.Subscribe(req)
	f, ok := m.Conn.PollReply(id, 20*time.Second)
	if !ok {
		m.Ended = "no-reply"
		m.logf("phase %d: no reply", req.Phase)
		return nil, f, false
	}
	if f.Reply.Error != nil {
		m.ErrCode = f.Reply.Error.Code
		m.Ended = fmt.Sprintf("error-%d", f.Reply.Error.Code)
		m.logf("phase %d: error %d", req.Phase, f.Reply.Error.Code)
		return nil, f, false
	}
	if f.Reply.Subscribe == nil {
		m.Ended = "no-subscribe-result"
		return nil, f, false
	}
	return f.Reply.Subscribe, f, true
}

func (m *Client) goLive(res *protocol.SubscribeResult, f kit.Frame) {
	for _, p := range res.State {
		m.apply(p)
	}
	for _, p := range res.Publications {
		if m.Positioned && p.Offset != 0 && p.Offset <= m.Offset {
			continue
		}
		m.apply(p)
		if p.Offset > m.Offset {
			m.Offset = p.Offset
		}
	}
	if res.Offset > m.Offset {
		m.Offset = res.Offset
	}
	if res.Epoch != "" {
		m.Epoch = res.Epoch
	}
	m.Positioned = res.Recoverable || res.Positioned
	m.Live = true
	m.LiveSeq = f.Seq
	m.Recovered = res.Recovered
	m.logf("live: offset=%d epoch=%s state+=%d pubs=%d recovered=%v", m.Offset, m.Epoch, len(res.State), len(res.Publications), res.Recovered)
}

// Subscribe runs the full protocol from scratch (state pages, stream pages, live).
func (m *Client) Subscribe() {
	m.State = map[string][]byte{}
	m.Live, m.Ended, m.ErrCode = false, "", 0
	step := 0
	res, f, ok := m.send(&protocol.SubscribeRequest{Phase: PhaseState})
	if !ok {
		return
	}
	m.Offset, m.Epoch = res.Offset, res.Epoch
	for {
		step++
		if res.Phase == PhaseLive {
			m.goLive(res, f)
			return
		}
		if res.Phase != PhaseState {
			m.Ended = fmt.Sprintf("unexpected-phase-%d-in-state", res.Phase)
			return
		}
		for _, p := range res.State {
			m.apply(p)
		}
		m.logf("state page: %d entries cursor=%q offset=%d", len(res.State), res.Cursor, res.Offset)
		if res.Cursor == "" {
			break
		}
		m.delay(step)
		res, f, ok = m.send(&protocol.SubscribeRequest{Phase: PhaseState, Cursor: res.Cursor, Offset: m.Offset, Epoch: m.Epoch})
		if !ok {
			return
		}
	}
	// state complete but not live: catch up through the stream
	for {
		step++
		m.delay(step)
		res, f, ok = m.send(&protocol.SubscribeRequest{Phase: PhaseStream, Offset: m.Offset, Epoch: m.Epoch})
		if !ok {
			return
		}
		if res.Phase == PhaseLive {
			m.goLive(res, f)
			return
		}
		if res.Phase != PhaseStream {
			m.Ended = fmt.Sprintf("unexpected-phase-%d-in-stream", res.Phase)
			return
		}
		for _, p := range res.Publications {
			m.apply(p)
		}
		m.logf("stream page: %d pubs offset=%d", len(res.Publications), res.Offset)
		if res.Offset <= m.Offset && len(res.Publications) == 0 {
			// no progress: avoid looping forever
			if step > 200 {
				m.Ended = "stream-phase-no-progress"
				return
			}
		}
		if res.Offset > m.Offset {
			m.Offset = res.Offset
		}
		if step > 400 {
			m.Ended = "stream-phase-too-long"
			return
		}
	}
}

// RecoverOn resumes from the saved position on conn (a recovery join). The map
// content held so far is kept.
func (m *Client) RecoverOn(conn *kit.Conn, viaStream bool) {
	m.Conn = conn
	m.consumed = 0
	m.Live, m.Ended, m.ErrCode = false, "", 0
	phase := int32(PhaseLive)
	if viaStream {
		phase = PhaseStream
	}
	for step := 0; ; step++ {
		res, f, ok := m.send(&protocol.SubscribeRequest{Phase: phase, Recover: true, Offset: m.Offset, Epoch: m.Epoch, Tf: m.Tf})
		if !ok {
			return
		}
		if res.Phase == PhaseLive {
			m.goLive(res, f)
			return
		}
		for _, p := range res.Publications {
			m.apply(p)
		}
		if res.Offset > m.Offset {
			m.Offset = res.Offset
		}
		m.delay(step)
		if step > 400 {
			m.Ended = "recovery-too-long"
			return
		}
	}
}

// Fold applies the live pushes written after the subscription went live.
func (m *Client) Fold() {
	frames := m.Conn.T.Frames()
	for ; m.consumed < len(frames); m.consumed++ {
		f := frames[m.consumed]
		if !m.Live || f.Seq <= m.LiveSeq || f.Push == nil {
			if f.Push != nil && f.Push.Disconnect != nil && m.Ended == "" {
				m.Ended = fmt.Sprintf("disconnect-%d", f.Push.Disconnect.Code)
			}
			continue
		}
		if f.Push.Disconnect != nil {
			if m.Ended == "" {
				m.Ended = fmt.Sprintf("disconnect-%d", f.Push.Disconnect.Code)
			}
			continue
		}
		if f.Push.Channel != m.Channel {
			continue
		}
		switch {
		case f.Push.Unsubscribe != nil:
			if m.Ended == "" {
				m.Ended = fmt.Sprintf("unsubscribe-%d", f.Push.Unsubscribe.Code)
			}
		case f.Push.Pub != nil:
			if m.Ended != "" {
				m.Problems = append(m.Problems, fmt.Sprintf("publication for %s after the subscription ended (%s)", m.Channel, m.Ended))
				continue
			}
			p := f.Push.Pub
			if m.Positioned && p.Offset != 0 {
				if p.Offset <= m.Offset {
					m.Problems = append(m.Problems, fmt.Sprintf("live publication with offset %d at position %d", p.Offset, m.Offset))
					continue
				}
				if p.Offset != m.Offset+1 && !m.Filtered {
					m.Problems = append(m.Problems, fmt.Sprintf("live publication jumps from offset %d to %d", m.Offset, p.Offset))
				}
				m.Offset = p.Offset
			}
			m.apply(p)
		}
	}
	if closed, disc, _ := m.Conn.T.Closed(); closed && m.Ended == "" {
		m.Ended = fmt.Sprintf("closed-%d", disc.Code)
	}
}
