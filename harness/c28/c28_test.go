// C28: Unsubscribe with an empty channel removes all subscriptions.
package c28

import (
	"fmt"
	"sort"
	"strings"
	"testing"
	"time"

	"github.com/centrifugal/centrifuge"
	"github.com/centrifugal/centrifuge/verifx/cluster"
	"github.com/centrifugal/centrifuge/verifx/kit"
)

var channels = []string{"ch0", "ch1", "ch2", "ch3"}

type callSpec struct {
	User       string `json:"user"`
	AllUsers   bool   `json:"all_users,omitempty"`
	ClientOf   string `json:"client_of,omitempty"`  // "n<node>/<slot>": WithUnsubscribeClient(id of that connection)
	SessionOf  string `json:"session_of,omitempty"` // same for WithUnsubscribeSession ("bogus" = unknown session)
	Filter     string `json:"label_filter,omitempty"`
	CustomCode uint32 `json:"custom_code,omitempty"`
	Reason     string `json:"custom_reason,omitempty"`
}

func genSlots(r *kit.Rand) []*cluster.SlotSpec {
	n := r.Range(2, 5)
	var slots []*cluster.SlotSpec
	for i := 0; i < n; i++ {
		s := &cluster.SlotSpec{Name: fmt.Sprintf("s%d", i), User: kit.Pick(r, []string{"u1", "u1", "u2", ""}),
			Labels: cluster.RandLabels(r), Protobuf: r.Chance(1, 3), Emulation: r.Bool(), Info: fmt.Sprintf(`{"slot":%d}`, i),
			ClientSubs: map[string]cluster.SubSpec{}, ServerSubs: map[string]cluster.SubSpec{}}
		for _, ch := range channels {
			if !r.Chance(3, 5) {
				continue
			}
			sp := cluster.SubSpec{Presence: r.Bool(), JoinLeave: r.Bool()}
			if r.Chance(1, 4) {
				sp.Info = `{"ci":1}`
			}
			if r.Chance(2, 5) {
				s.ServerSubs[ch] = sp
			} else {
				s.ClientSubs[ch] = sp
			}
		}
		slots = append(slots, s)
	}
	// the observer of leave events: subscribed to everything, emits nothing
	obs := &cluster.SlotSpec{Name: "obs", User: "watcher", ClientSubs: map[string]cluster.SubSpec{}}
	for _, ch := range channels {
		obs.ClientSubs[ch] = cluster.SubSpec{PushJoinLeave: true}
	}
	return append(slots, obs)
}

func subSpecOf(s *cluster.SlotSpec, ch string) (cluster.SubSpec, bool) {
	if sp, ok := s.ClientSubs[ch]; ok {
		return sp, true
	}
	sp, ok := s.ServerSubs[ch]
	return sp, ok
}

func sorted(xs []string) []string {
	out := append([]string(nil), xs...)
	sort.Strings(out)
	return out
}

func runCase(c *kit.Case) {
	r := c.R
	slots := genSlots(r)
	p := cluster.NewPair(c, 2, slots, nil)
	defer p.Finish()
	if msg := p.ConnectAll(); msg != "" {
		c.Inconclusive("setup: " + msg)
		return
	}

	// ---- the call
	var all []*cluster.Member
	for _, ms := range p.Members {
		all = append(all, ms...)
	}
	call := callSpec{}
	var opts []centrifuge.UnsubscribeOption
	users := []string{"u1", "u1", "u1", "u2", "u2", "", "", "", "ghost"}
	call.User = kit.Pick(r, users)
	if call.User == "" && r.Chance(2, 3) || call.User != "" && r.Chance(1, 8) {
		call.AllUsers = true
		opts = append(opts, centrifuge.WithUnsubscribeAllUsers(true))
	}
	var clientID, sessionID string
	if r.Chance(1, 4) {
		m := kit.Pick(r, all)
		call.ClientOf = fmt.Sprintf("n%d/%s", m.NodeIdx, m.Slot.Name)
		clientID = m.ID
		if r.Chance(3, 4) {
			call.User = m.Slot.User // make the narrowing meaningful
		}
		opts = append(opts, centrifuge.WithUnsubscribeClient(clientID))
	}
	if r.Chance(1, 5) {
		var withSession []*cluster.Member
		for _, m := range all {
			if m.Session != "" {
				withSession = append(withSession, m)
			}
		}
		if len(withSession) > 0 && r.Chance(4, 5) {
			m := kit.Pick(r, withSession)
			call.SessionOf = fmt.Sprintf("n%d/%s", m.NodeIdx, m.Slot.Name)
			sessionID = m.Session
			if r.Chance(3, 4) {
				call.User = m.Slot.User
			}
		} else {
			call.SessionOf = "bogus"
			sessionID = "no-such-session"
		}
		opts = append(opts, centrifuge.WithUnsubscribeSession(sessionID))
	}
	var lf *centrifuge.FilterNode
	if r.Chance(1, 3) {
		lf = cluster.RandFilter(r, 2)
		call.Filter = cluster.FilterString(lf)
		opts = append(opts, centrifuge.WithUnsubscribeLabelFilter(lf))
	}
	wantCode, wantReason := uint32(2000), "server unsubscribe" // the documented default (UnsubscribeCodeServer)
	if r.Chance(1, 3) {
		call.CustomCode = uint32(r.Range(2500, 2999))
		call.Reason = fmt.Sprintf("custom-%d", r.Intn(100))
		wantCode, wantReason = call.CustomCode, call.Reason
		opts = append(opts, centrifuge.WithCustomUnsubscribe(centrifuge.Unsubscribe{Code: call.CustomCode, Reason: call.Reason}))
	}

	matches := func(m *cluster.Member) bool {
		if !(m.Slot.User == call.User || (call.User == "" && call.AllUsers)) {
			return false
		}
		if clientID != "" && m.ID != clientID {
			return false
		}
		if sessionID != "" && m.Session != sessionID {
			return false
		}
		return cluster.MatchLabels(lf, m.Slot.Labels)
	}

	// ---- state before
	before := map[*cluster.Member][]string{}
	for _, m := range all {
		before[m] = sorted(m.Conn.Client.Channels())
		want := map[string]bool{}
		for ch := range m.Slot.ClientSubs {
			want[ch] = true
		}
		for ch := range m.Slot.ServerSubs {
			want[ch] = true
		}
		if len(before[m]) != len(want) {
			c.Inconclusive(fmt.Sprintf("setup: %s on node %d has channels %v, planned %d", m.Slot.Name, m.NodeIdx, before[m], len(want)))
			return
		}
		m.NewFrames()
		m.NewEvents()
	}
	err := p.Nodes[0].Unsubscribe(call.User, "", opts...)
	if err != nil {
		c.Violation("c28-empty-channel-unsubscribe-returns-error", "Node.Unsubscribe(user, \"\") returned "+err.Error(), call)
		return
	}
	p.W.Settle()
	time.Sleep(50 * time.Millisecond)
	p.W.Settle()

	// ---- oracle
	detail := func(extra map[string]any) any {
		extra["call"] = call
		extra["slots"] = slots
		return extra
	}
	nMatch, nMatchSubscribed := 0, 0
	sig := []string{}
	type key struct {
		ni int
		ch string
	}
	leaveWanted := map[key]map[string]int{} // (node, channel) -> slot name -> expected leave pushes
	obsMatched := [2]bool{}
	leftReported := false
	for _, m := range all {
		if m.Slot.Name == "obs" && matches(m) {
			obsMatched[m.NodeIdx] = true
		}
	}
	for _, m := range all {
		where := "local"
		if m.NodeIdx == 1 {
			where = "remote"
		}
		frames := m.NewFrames()
		events := m.NewEvents()
		after := sorted(m.Conn.Client.Channels())
		var canon []string
		for _, f := range frames {
			canon = append(canon, p.Canon(f))
		}
		if !matches(m) {
			c.Count("connections_not_matching", 1)
			var effects []string
			if strings.Join(after, ",") != strings.Join(before[m], ",") {
				effects = append(effects, fmt.Sprintf("its channels changed from %v to %v", before[m], after))
			}
			for _, f := range canon {
				if strings.HasPrefix(f, "unsubscribe ") {
					effects = append(effects, "it received "+f)
				}
			}
			if len(events) > 0 {
				effects = append(effects, fmt.Sprintf("its %s callback ran (%s)", events[0].Kind, events[0].Channel))
			}
			if len(effects) > 0 {
				c.Violation("c28-non-matching-connection-affected", fmt.Sprintf("%s connection %s (user %q, labels %v) does not match the call but %s", where, m.Slot.Name, m.Slot.User, m.Slot.Labels, strings.Join(effects, "; ")),
					detail(map[string]any{"frames": canon, "events": events}))
			}
			continue
		}
		nMatch++
		c.Count("connections_matching_"+where, 1)
		if len(before[m]) == 0 {
			// nothing to unsubscribe from: whatever the library pushes is left open
			c.Count("matching_connection_without_subscriptions", 1)
			continue
		}
		nMatchSubscribed++
		c.Count("matching_subscribed_"+where, 1)
		c.Eval(len(before[m]))
		if len(after) > 0 {
			c.Count("defect_channels_left_"+where, 1)
			if leftReported {
				continue // one report per case
			}
			leftReported = true
			c.Violation("c28-empty-channel-unsubscribe-leaves-subscriptions",
				fmt.Sprintf("Node.Unsubscribe(%q, \"\") issued on node 0: matching %s connection %s (user %q) is still subscribed to %v afterwards (was %v); frames it received: %v; OnUnsubscribe calls: %d",
					call.User, where, m.Slot.Name, m.Slot.User, after, before[m], canon, len(events)),
				detail(map[string]any{"frames": canon, "events": events, "where": where}))
			continue
		}
		// per-channel effects, exactly once each
		gotPush := map[string]int{}
		for _, f := range frames {
			if f.Push != nil && f.Push.Unsubscribe != nil {
				gotPush[f.Push.Channel]++
				if f.Push.Unsubscribe.Code != wantCode || f.Push.Unsubscribe.Reason != wantReason {
					c.Violation("c28-unsubscribe-push-with-wrong-code", fmt.Sprintf("%s connection %s: %s, expected code %d reason %q", where, m.Slot.Name, p.Canon(f), wantCode, wantReason), detail(map[string]any{"frames": canon}))
				}
			}
		}
		gotCB := map[string]int{}
		for _, e := range events {
			if e.Kind == "unsubscribe" {
				gotCB[e.Channel]++
				if e.Code != wantCode {
					c.Violation("c28-unsubscribe-callback-with-wrong-code", fmt.Sprintf("%s connection %s: OnUnsubscribe(%s) code %d, expected %d", where, m.Slot.Name, e.Channel, e.Code, wantCode), detail(map[string]any{"events": events}))
				}
			}
		}
		for _, ch := range before[m] {
			sp, _ := subSpecOf(m.Slot, ch)
			if gotCB[ch] != 1 {
				c.Violation("c28-unsubscribe-callback-not-exactly-once-per-channel", fmt.Sprintf("%s connection %s: OnUnsubscribe ran %d times for %s", where, m.Slot.Name, gotCB[ch], ch), detail(map[string]any{"events": events}))
			}
			if sp.Presence {
				for _, e := range p.Presence(m.NodeIdx, ch) {
					if strings.HasPrefix(e, m.Slot.Name+" ") {
						c.Violation("c28-presence-entry-left", fmt.Sprintf("%s connection %s is still in the presence of %s", where, m.Slot.Name, ch), detail(map[string]any{"presence": p.Presence(m.NodeIdx, ch)}))
					}
				}
				c.Count("presence_removed", 1)
			}
			if sp.JoinLeave {
				k := key{m.NodeIdx, ch}
				if leaveWanted[k] == nil {
					leaveWanted[k] = map[string]int{}
				}
				leaveWanted[k][m.Slot.Name]++
			}
			c.Count("channels_unsubscribed_"+where, 1)
		}
		pushesOK := len(gotPush) == len(before[m])
		for _, ch := range before[m] {
			if gotPush[ch] != 1 {
				pushesOK = false
			}
		}
		if !pushesOK {
			c.Violation("c28-unsubscribe-pushes-do-not-name-each-channel-once", fmt.Sprintf("%s connection %s was subscribed to %v and received the unsubscribe pushes %v", where, m.Slot.Name, before[m], canon), detail(map[string]any{"frames": canon}))
		}
		sig = append(sig, fmt.Sprintf("%s:%d", where, len(before[m])))
	}
	// leave pushes at the observers (skipped on a node whose observer matched the call itself)
	if !c.Violated() {
		for ni := range p.Nodes {
			if obsMatched[ni] {
				continue
			}
			var obs *cluster.Member
			for _, m := range p.Members[ni] {
				if m.Slot.Name == "obs" {
					obs = m
				}
			}
			got := map[key]map[string]int{}
			for _, f := range obs.Conn.T.Frames() {
				if f.Push != nil && f.Push.Leave != nil && f.Push.Leave.Info != nil {
					k := key{ni, f.Push.Channel}
					if got[k] == nil {
						got[k] = map[string]int{}
					}
					got[k][p.Name(f.Push.Leave.Info.Client)]++
				}
			}
			for _, ch := range channels {
				k := key{ni, ch}
				names := map[string]bool{}
				for n := range got[k] {
					names[n] = true
				}
				for n := range leaveWanted[k] {
					names[n] = true
				}
				for n := range names {
					if got[k][n] != leaveWanted[k][n] {
						c.Violation("c28-leave-not-exactly-once-per-channel", fmt.Sprintf("node %d channel %s: observer saw %d leave pushes of %s, expected %d", ni, ch, got[k][n], n, leaveWanted[k][n]), detail(map[string]any{}))
					}
					if leaveWanted[k][n] > 0 {
						c.Count("leave_observed", 1)
					}
				}
			}
		}
	}
	if nMatchSubscribed > 0 {
		sort.Strings(sig)
		c.Nontrivial(fmt.Sprintf("%v|all=%v|client=%v|session=%v|filter=%v|custom=%v|%v", call.User, call.AllUsers, call.ClientOf != "", call.SessionOf != "", call.Filter != "", call.CustomCode != 0, sig))
	}
	c.Count("calls", 1)
	if call.AllUsers {
		c.Count("calls_all_users", 1)
	}
	if call.ClientOf != "" {
		c.Count("calls_client", 1)
	}
	if call.SessionOf != "" {
		c.Count("calls_session", 1)
	}
	if call.Filter != "" {
		c.Count("calls_label_filter", 1)
	}
	if call.CustomCode != 0 {
		c.Count("calls_custom_unsubscribe", 1)
	}
	if nMatch == 0 {
		c.Count("calls_matching_nothing", 1)
	}
	if c.Index < 48 && nMatchSubscribed > 0 {
		c.Sample(map[string]any{"call": call, "slots": slots, "matching_subscribed_connections": nMatchSubscribed})
	}
}

func TestC28(t *testing.T) {
	kit.Main(t, kit.Spec{
		ID:     "C28",
		Bubble: true,
		Rule: "each case = one bubble with two nodes joined by an in-memory Controller bus; 2-5 logical connections (users u1/u2/anonymous, random labels, JSON/Protobuf, with/without session id) are created on BOTH nodes, each subscribed to a random subset of 4 channels " +
			"(client-side through OnSubscribe or server-side through ConnectReply.Subscriptions, random presence / join-leave emission), plus an observer per node subscribed to every channel with PushJoinLeave. One Node.Unsubscribe(user, \"\", opts) is issued on node 0 with " +
			"PRNG-chosen targeting (user / anonymous / all users / unknown user, WithUnsubscribeClient or WithUnsubscribeSession of a connection of either node, label filter tree, custom unsubscribe). Connections of node 0 are reached directly, those of node 1 over the bus. " +
			"Oracle (own targeting model incl. an independent label-filter evaluator): every matching connection has Channels() empty and saw, per channel it had, exactly one OnUnsubscribe, one unsubscribe push naming the channel (with the requested code), its presence entry removed and one leave push at its node's observer; " +
			"non-matching connections keep their channels and get no unsubscribe push or callback. Non-trivial = at least one matching connection had subscriptions; signature = targeting shape x (local/remote, #channels) of the matching connections.",
		Assumptions: []string{
			"the two nodes use separate in-memory brokers and presence managers (publications, joins and leaves do not cross nodes); only control messages travel over the bus",
			"a matching connection that has no subscriptions may receive anything (the statement only speaks about removing subscriptions)",
			"leave pushes are not checked on a node whose observer itself matches the call (it is being unsubscribed concurrently)",
		},
		Cases:           map[string]int{"quick": 1600, "thorough": 24000},
		RequireCounters: []string{"calls", "calls_all_users", "calls_client", "calls_session", "calls_label_filter", "calls_custom_unsubscribe", "matching_subscribed_local", "matching_subscribed_remote", "connections_not_matching", "calls_matching_nothing",
			"channels_unsubscribed_local", "channels_unsubscribed_remote", "presence_removed", "leave_observed"},
		Run:             runCase,
	})
}
