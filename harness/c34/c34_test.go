// C34: Redis cluster keys for one operation share a hash slot.
package c34

import (
	"fmt"
	"runtime/debug"
	"sort"
	"strings"
	"sync"
	"testing"
	"time"

	"github.com/centrifugal/centrifuge"
	"github.com/centrifugal/centrifuge/verifx/kit"
)

// ---------------------------------------------------------------------------------------------
// independent oracle: Redis Cluster key hash slot (cluster spec, keyHashSlot): CRC16-CCITT/XMODEM
// of the hash-tag content — first '{', first '}' after it, non-empty content — else of the whole key.

var crcTable = func() (t [256]uint16) {
	for i := 0; i < 256; i++ {
		c := uint16(i) << 8
		for b := 0; b < 8; b++ {
			if c&0x8000 != 0 {
				c = c<<1 ^ 0x1021
			} else {
				c <<= 1
			}
		}
		t[i] = c
	}
	return
}()

func crc16(s string) uint16 {
	var c uint16
	for i := 0; i < len(s); i++ {
		c = c<<8 ^ crcTable[byte(c>>8)^s[i]]
	}
	return c
}

// keySlot returns the slot and how it was obtained: "tag", "no-brace", "unclosed", "empty-tag".
func keySlot(key string) (int, string) {
	s := 0
	for s < len(key) && key[s] != '{' {
		s++
	}
	if s == len(key) {
		return int(crc16(key) & 0x3FFF), "no-brace"
	}
	e := s + 1
	for e < len(key) && key[e] != '}' {
		e++
	}
	if e == len(key) {
		return int(crc16(key) & 0x3FFF), "unclosed"
	}
	if e == s+1 {
		return int(crc16(key) & 0x3FFF), "empty-tag"
	}
	return int(crc16(key[s+1:e]) & 0x3FFF), "tag"
}

func oracleSelfTest() error {
	if crc16("123456789") != 0x31C3 {
		return fmt.Errorf("CRC16(123456789) = %#x", crc16("123456789"))
	}
	for k, want := range map[string]int{"foo": 12182, "bar": 5061, "hello": 866, "{user}.info": 5474, "{user}.name": 5474, "": 0,
		"{0}": 13907, "prefix{1}.channel": 9842} {
		if got, _ := keySlot(k); got != want {
			return fmt.Errorf("keySlot(%q) = %d want %d", k, got, want)
		}
	}
	// examples of the cluster specification
	for k, tag := range map[string]string{"foo{}{bar}": "foo{}{bar}", "foo{{bar}}zap": "{bar", "foo{bar}{zap}": "bar", "{}x": "{}x", "a}{b": "a}{b", "a}{b}": "b"} {
		if got, _ := keySlot(k); got != int(crc16(tag)&0x3FFF) {
			return fmt.Errorf("keySlot(%q) does not hash %q", k, tag)
		}
	}
	return nil
}

// ---------------------------------------------------------------------------------------------
// counters are aggregated per case (one goroutine per process) and flushed at the end of the case

var (
	localCounts = map[string]int{}
	localEvals  int
)

func cnt(name string, n int) { localCounts[name] += n }
func ev(n int)               { localEvals += n }

func flush(c *kit.Case) {
	for k, v := range localCounts {
		c.Count(k, v)
		delete(localCounts, k)
	}
	c.Eval(localEvals)
	localEvals = 0
}

var keysRole = []string{"KEYS[1]", "KEYS[2]", "KEYS[3]", "KEYS[4]", "KEYS[5]", "KEYS[6]", "KEYS[7]", "KEYS[8]"}

// ---------------------------------------------------------------------------------------------
// once-per-class-per-process reporting (a genuine defect must not stop the exploration)

var (
	repMu    sync.Mutex
	reported = map[string]bool{}
)

func report(c *kit.Case, class, msg string, detail any) {
	c.Count("violations_"+class, 1)
	repMu.Lock()
	seen := reported[class]
	reported[class] = true
	repMu.Unlock()
	if !seen {
		c.Violation(class, msg, detail)
	}
}

// ---------------------------------------------------------------------------------------------
// configurations

type config struct {
	Name       string
	Prefix     string
	Partitions int
	Precomp    bool
	Lists      bool
	Cluster    bool
	Broker     bool // valid for RedisBroker
	MapBroker  bool // valid for RedisMapBroker
	Presence   bool // RedisPresenceManager (no partitions)
	k          *centrifuge.VerifRedisKeyer
}

var precomputedSizes = []int{16, 32, 64, 128, 256, 512, 1024, 2048, 4096}
var plainSizes = []int{1, 2, 3, 7, 16, 100, 128, 1000, 4096}

// configsFor builds every configuration shape for one prefix. Validity follows the constructors:
// RedisBroker rejects partitions without cluster; RedisMapBroker additionally rejects cluster
// without partitions; precomputed tags need a precomputed partition count.
func configsFor(r *kit.Rand, prefix string) ([]*config, error) {
	n1, n2 := kit.Pick(r, plainSizes), kit.Pick(r, precomputedSizes)
	cs := []*config{
		{Name: "standalone", Prefix: prefix, Lists: r.Bool(), Broker: true, MapBroker: true, Presence: true},
		{Name: "cluster", Prefix: prefix, Cluster: true, Broker: true, Presence: true},
		{Name: "cluster-lists", Prefix: prefix, Cluster: true, Lists: true, Broker: true},
		{Name: "cluster-sharded", Prefix: prefix, Cluster: true, Partitions: n1, Lists: r.Bool(), Broker: true, MapBroker: true},
		{Name: "cluster-sharded-precomputed", Prefix: prefix, Cluster: true, Partitions: n2, Precomp: true, Lists: r.Bool(), Broker: true, MapBroker: true},
	}
	for _, cf := range cs {
		k, err := centrifuge.NewVerifRedisKeyer(cf.Prefix, cf.Partitions, cf.Precomp, cf.Lists, cf.Cluster)
		if err != nil {
			return nil, err
		}
		cf.k = k
	}
	return cs, nil
}

// Prefixes: operator-chosen. Ordinary characters, plus the deliberate "{tag}" form that pins a whole
// deployment to one slot. A prefix with an unbalanced or empty brace pair is not a configuration the
// key scheme can be expected to survive and is not generated (recorded as an assumption).
func randPrefix(r *kit.Rand) string {
	const alpha = "abcdefghijklmnopqrstuvwxyzABCDEFXYZ0123456789.:-_/ "
	mk := func(n int) string {
		b := make([]byte, n)
		for i := range b {
			b[i] = alpha[r.Intn(len(alpha))]
		}
		return string(b)
	}
	switch r.Intn(10) {
	case 0:
		return "" // default "centrifuge"
	case 1:
		return "centrifuge"
	case 2:
		return "{" + mk(r.Range(1, 6)) + "}" + mk(r.Intn(4))
	case 3:
		return mk(r.Range(1, 4)) + "é世😀"
	case 4:
		return mk(r.Range(40, 200))
	default:
		return mk(r.Range(1, 16))
	}
}

// ---------------------------------------------------------------------------------------------
// channel names

const enumAlpha = "{}.a1:" // all names over this alphabet up to length 6 are enumerated

func enumTotal() int {
	t, n := 0, 1
	for l := 0; l <= 6; l++ {
		t += n
		n *= len(enumAlpha)
	}
	return t
}

func enumName(idx int) string {
	n := 1
	for l := 0; l <= 6; l++ {
		if idx < n {
			b := make([]byte, l)
			for i := range b {
				b[i] = enumAlpha[idx%len(enumAlpha)]
				idx /= len(enumAlpha)
			}
			return string(b)
		}
		idx -= n
		n *= len(enumAlpha)
	}
	panic("enumName: index out of range")
}

var pieces = []string{"{", "}", "{}", "}{", ".", "..", ":", "$", "#", "*", "&", "/", "_", "-", " ", "a", "news", "user", "42", "0", "é", "世界", "😀", "\x00", "\xff", "\n", "{0}", "{1}", "{15}", "{ms3}", "}.", ".{", "{a}", "}}", "{{", "chat:index", "personal:#42", "$private"}

func randName(r *kit.Rand) string {
	switch r.Intn(12) {
	case 0: // uniform bytes
		return string(r.Bytes(r.Range(1, 24)))
	case 1: // long (rarely very long)
		n := r.Range(40, 200)
		if r.Chance(1, 10) {
			n = r.Range(200, 3000)
		}
		b := make([]byte, 0, n)
		for len(b) < n {
			b = append(b, kit.Pick(r, pieces)...)
		}
		return string(b)
	case 2: // ordinary
		return kit.Pick(r, []string{"news", "chat:index", "personal:#42", "$private", "a.b.c", "user#1,2"}) + fmt.Sprint(r.Intn(1000))
	case 3: // leading / trailing special
		return kit.Pick(r, []string{"}", "{", "{}", "}{", ".", "{}.", "}.", "{.}"}) + randName(r)
	case 4:
		return randName(r) + kit.Pick(r, []string{"}", "{", "{}", "}{", ".", ".}", ".{"})
	case 5: // looks like the sharded format itself
		return "{" + fmt.Sprint(r.Intn(20)) + "}." + randName(r)
	default:
		n := r.Range(1, 10)
		var sb strings.Builder
		for i := 0; i < n; i++ {
			sb.WriteString(kit.Pick(r, pieces))
		}
		return sb.String()
	}
}

func shape(ch string) string {
	var sb strings.Builder
	for i := 0; i < len(ch) && i < 6; i++ {
		switch ch[i] {
		case '{', '}', '.':
			sb.WriteByte(ch[i])
		default:
			sb.WriteByte('x')
		}
	}
	if len(ch) > 6 {
		sb.WriteByte('+')
	}
	return sb.String()
}

// ---------------------------------------------------------------------------------------------
// the oracle

// checkOp hashes one script invocation's names with the oracle (once per key), compares the
// repository's own redisSlot on the way, and requires one slot when the shard is a cluster.
func checkOp(c *kit.Case, component string, cf *config, ch, op string, roles, keys []string) {
	ev(1)
	ok, emptyTag := true, false
	first := 0
	for i, key := range keys {
		s, how := keySlot(key)
		if got := int(centrifuge.VerifRedisSlot(key)); got != s {
			report(c, "redisSlot-differs-from-cluster-keyslot", fmt.Sprintf("redisSlot(%q) = %d, Redis Cluster specification gives %d", key, got, s), map[string]any{"key": key})
		}
		if how == "empty-tag" {
			emptyTag = true
		}
		if i == 0 {
			first = s
		} else if s != first {
			ok = false
		}
	}
	cnt("redisSlot_keys_compared", len(keys))
	if !cf.Cluster {
		cnt("standalone_ops_no_slot_requirement", 1)
		return
	}
	if ok {
		cnt("cluster_ops_colocated", 1)
		cnt("colocated_"+component+"_"+cf.Name, 1)
		return
	}
	names, slots := map[string]string{}, map[string]int{}
	for i, key := range keys {
		names[roles[i]] = key
		slots[roles[i]], _ = keySlot(key)
	}
	detail := map[string]any{"component": component, "config": cf.Name, "prefix": cf.Prefix, "partitions": cf.Partitions, "precomputed_tags": cf.Precomp,
		"use_lists": cf.Lists, "channel": ch, "channel_quoted": fmt.Sprintf("%q", ch), "operation": op, "names": names, "slots": slots}
	// two distinct failure causes: the "{" + channel + "}" tag is empty for Redis (channel begins
	// with '}'), or anything else (names built with different tags).
	class := component + "-keys-not-co-located"
	if emptyTag {
		class = component + "-empty-hash-tag-breaks-slot-co-location"
	}
	report(c, class, fmt.Sprintf("%s %s (%s): channel %q: %s", component, op, cf.Name, ch, fmtSlots(names, slots)), detail)
}

func checkOpMap(c *kit.Case, component string, cf *config, ch, op string, names map[string]string) {
	var rb, kb [16]string
	n := 0
	for r, k := range names {
		rb[n], kb[n] = r, k
		n++
	}
	checkOp(c, component, cf, ch, op, rb[:n], kb[:n])
}

func fmtSlots(names map[string]string, slots map[string]int) string {
	roles := make([]string, 0, len(names))
	for r := range names {
		roles = append(roles, r)
	}
	sort.Strings(roles)
	var sb strings.Builder
	for i, r := range roles {
		if i > 0 {
			sb.WriteString(", ")
		}
		fmt.Fprintf(&sb, "%s %q -> slot %d", r, names[r], slots[r])
	}
	return sb.String()
}

func checkName(c *kit.Case, cfs []*config, ch string, idem string) {
	if ch == "" {
		cnt("empty_channel_skipped", 1)
		return
	}
	special := strings.ContainsAny(ch, "{}")
	for _, cf := range cfs {
		if cf.Broker {
			names := cf.k.BrokerKeys(ch, idem)
			// add-history script: KEYS = history, meta, result; publishes on channel
			checkOpMap(c, "redis-broker", cf, ch, "publish-with-history", names)
			ev(1)
			if got := cf.k.BrokerExtractChannel(names["channel"]); got != ch {
				report(c, "redis-broker-extract-channel-mismatch", fmt.Sprintf("RedisBroker (%s): extractChannel(%q) = %q, channel was %q", cf.Name, names["channel"], got, ch),
					map[string]any{"config": cf.Name, "prefix": cf.Prefix, "partitions": cf.Partitions, "precomputed_tags": cf.Precomp, "channel_quoted": fmt.Sprintf("%q", ch), "pubsub_channel": names["channel"], "extracted": got})
			} else {
				cnt("extract_roundtrip_broker", 1)
			}
		}
		if cf.MapBroker {
			names := cf.k.MapBrokerKeys(ch, idem)
			checkOpMap(c, "redis-map-broker", cf, ch, "add/remove/cleanup", names)
			ev(1)
			if got := cf.k.MapBrokerExtractChannel(names["channel"]); got != ch {
				report(c, "redis-map-broker-extract-channel-mismatch", fmt.Sprintf("RedisMapBroker (%s): extractChannel(%q) = %q, channel was %q", cf.Name, names["channel"], got, ch),
					map[string]any{"config": cf.Name, "prefix": cf.Prefix, "partitions": cf.Partitions, "precomputed_tags": cf.Precomp, "channel_quoted": fmt.Sprintf("%q", ch), "pubsub_channel": names["channel"], "extracted": got})
			} else {
				cnt("extract_roundtrip_map_broker", 1)
			}
		}
		if cf.Presence {
			keys, err := cf.k.PresenceKeys(ch)
			if err != nil {
				c.Inconclusive("PresenceKeys: " + err.Error())
				return
			}
			for op, ks := range keys {
				checkOp(c, "redis-presence", cf, ch, op, keysRole[:len(ks)], ks)
			}
		}
		if cf.Cluster && special {
			c.Nontrivial(cf.Name + " " + shape(ch))
		}
	}
	if special {
		cnt("names_with_braces", 1)
	}
	if strings.HasPrefix(ch, "}") {
		cnt("names_leading_close_brace", 1)
	}
	cnt("names", 1)
}

// ---------------------------------------------------------------------------------------------

const (
	enumCases = 31 // coprime with the alphabet size: every enumeration case sees every leading character
	perCase   = 1000
)

func TestC34(t *testing.T) {
	kit.Main(t, kit.Spec{
		ID:    "C34",
		Level: "exploration",
		Rule: "cases 0..30 enumerate every channel name over the alphabet \"{}.a1:\" up to length 6 (55,987 names, braces in every position); every later case draws one prefix (default, plain, unicode, long, or a complete \"{tag}\" prefix) and 1000 names: " +
			"sequences of pieces {,},{},}{,.,..,digits,words,unicode,NUL/0xff/newline,{0},{ms3},}.,.{ ; forced leading/trailing }, {, {}, }{, . ; names shaped like the sharded format {n}.x ; uniform random bytes; long names up to 3 kB. " +
			"Each name is evaluated under every valid configuration shape of the three Redis engines: standalone; cluster (RedisBroker streams and lists, RedisPresenceManager); cluster with sharded PUB/SUB, bare-integer tags (partition count from {1,2,3,7,16,100,128,1000,4096}) and precomputed tags (count from the 9 bundled sizes) for RedisBroker and RedisMapBroker. " +
			"For each script invocation (RedisBroker add-history: history+meta+result keys and the PUB/SUB channel; RedisMapBroker add/remove/cleanup: stream, meta, result, state, order, expire, state-meta, cleanup-registration, nil-placeholder keys and the PUB/SUB channel; presence add/remove/get/stats KEYS[]) all names must have one slot under an independent implementation of the Redis Cluster hash-slot rule when the shard is a cluster; " +
			"extractChannel(messageChannelID(ch)) == ch in every configuration; redisSlot(key) equals the oracle on every generated key. " +
			"Violations of one class are reported once per child process (first witness), all occurrences counted in violations_<class>. " +
			"Non-trivial = a name containing '{' or '}' evaluated in a cluster configuration; signature = configuration shape + brace/dot shape of the first 6 bytes.",
		Assumptions: []string{
			"which keys one script invocation receives was read from the call sites (RedisBroker.publish, RedisMapBroker.Publish/Remove/batchRemoveExpired, RedisPresenceManager.*ScriptKeysArgs); the accessor returns the superset per engine; the presence KEYS[] come from the production *ScriptKeysArgs helpers themselves",
			"the oracle implements keyHashSlot of the Redis Cluster specification (validated on CRC16 123456789 -> 0x31C3, CLUSTER KEYSLOT vectors and the specification's hash-tag examples)",
			"channel names are non-empty (extractChannel uses \"\" as its error value); the empty name is counted and skipped",
			"prefixes contain no braces except as one complete leading {tag}; a prefix with an unbalanced '{' or an empty '{}' is an operator error outside the statement",
			"the connection-less engine values are configured like the constructors configure them (prefix default, messagePrefix, partitionTags from redispartition.FindTags); only configurations the constructors accept are evaluated",
			"the RedisMapBroker cleanup worker's own cleanup key (built inline in cleanupShard next to a Redis call) is not observable without Redis and is not covered",
		},
		Cases: map[string]int{"quick": enumCases + 1000, "thorough": enumCases + 15000},
		// pure CPU-bound cases: the watchdog only has to catch a genuine hang, not CPU starvation on a loaded host
		CaseTimeout:     20 * time.Minute,
		RequireCounters: []string{"cluster_ops_colocated", "extract_roundtrip_broker", "extract_roundtrip_map_broker", "names_leading_close_brace", "names_with_braces", "colocated_redis-broker_cluster", "colocated_redis-broker_cluster-sharded-precomputed", "colocated_redis-map-broker_cluster-sharded", "colocated_redis-presence_cluster"},
		Run:             run,
		// tiny live heap, millions of short-lived strings: collect less often (harness-side only)
		Setup: func() { debug.SetGCPercent(2000) },
	})
}

func run(c *kit.Case) {
	defer flush(c)
	if err := oracleSelfTest(); err != nil {
		c.Inconclusive("oracle self-test failed: " + err.Error())
		return
	}
	r := c.R
	if c.Index < enumCases {
		cfs, err := configsFor(r, kit.Pick(r, []string{"", "centrifuge", "app.v2"}))
		if err != nil {
			c.Inconclusive(err.Error())
			return
		}
		total := enumTotal()
		for i := c.Index; i < total; i += enumCases {
			checkName(c, cfs, enumName(i), "")
		}
		cnt("names_enumerated", (total-c.Index+enumCases-1)/enumCases)
		return
	}
	prefix := randPrefix(r)
	cfs, err := configsFor(r, prefix)
	if err != nil {
		c.Inconclusive(err.Error())
		return
	}
	if strings.HasPrefix(prefix, "{") {
		cnt("cases_with_hash_tag_prefix", 1)
	}
	for n := 0; n < perCase; n++ {
		ch := randName(r)
		idem := ""
		if r.Bool() {
			idem = kit.Pick(r, []string{"k1", "{x}", "}", "a.b", "é"})
		}
		checkName(c, cfs, ch, idem)
		if n == 0 && c.Index < enumCases+3 {
			cf := cfs[1]
			c.Sample(map[string]any{"prefix": prefix, "channel": fmt.Sprintf("%q", ch), "config": cf.Name, "redis_broker_names": cf.k.BrokerKeys(ch, idem)})
		}
	}
}
