// Package posdeliv is the positioned-delivery scenario and oracle shared by C01
// (plain node) and C38 (the same guarantees with the channel medium enabled).
package posdeliv

import (
	"context"
	"encoding/json"
	"fmt"
	"hash/fnv"
	"sync"
	"sync/atomic"
	"testing/synctest"
	"time"

	"github.com/centrifugal/centrifuge"
	"github.com/centrifugal/centrifuge/verifx/kit"
	"github.com/centrifugal/protocol"
)

const channel = "pd:stream"

// classPrefix is set per process by RunCase (cases of one check run sequentially).
var classPrefix = "c01"

// sharedSync is set per case by RunCase when the medium runs with SharedPositionSync.
var sharedSync bool

// per case: alive subscriptions found at the stream top / behind it after the check horizon
var aliveAtTop, aliveLagging int
var laggingWitness string

// pubRec is one Node.Publish call as seen at the boundary.
type pubRec struct {
	ID      string
	Tag     string
	CallSeq int64
	RetSeq  int64
	Offset  uint64
	Epoch   string
	Err     string
}

type pubLog struct {
	mu   sync.Mutex
	recs []*pubRec
}

func (l *pubLog) snapshot() []*pubRec {
	l.mu.Lock()
	defer l.mu.Unlock()
	return append([]*pubRec(nil), l.recs...)
}

type scenario struct {
	c        *kit.Case
	w        *kit.World
	node     *centrifuge.Node
	fb       *kit.FaultBroker
	log      *pubLog
	histSize int
	histTTL  time.Duration
	metaTTL  time.Duration
	pubSeq   atomic.Int64
	// per-connection hook configuration
	mu       sync.Mutex
	hookCfg  map[*centrifuge.Client]*connHooks
	racerRan atomic.Int64
	// forceDrop > 0: the fault broker drops the PUB/SUB delivery of the next publication(s)
	forceDrop atomic.Int32
	lossBurst bool // this case drives a loss burst into every recovery's window (see hook)
	bursts    atomic.Int64
}

type connHooks struct {
	idx        int
	positioned bool
	racePoint  string // P-window point at which a racing publish is launched ("" = none)
	raced      map[string]bool
	salt       uint64
}

func (s *scenario) publish(producer string, tag string) *pubRec {
	n := s.pubSeq.Add(1)
	rec := &pubRec{ID: fmt.Sprintf("%s-%d", producer, n), Tag: tag}
	data, _ := json.Marshal(map[string]string{"id": rec.ID})
	rec.CallSeq = s.w.Seq()
	s.log.mu.Lock()
	s.log.recs = append(s.log.recs, rec)
	s.log.mu.Unlock()
	opts := []centrifuge.PublishOption{centrifuge.WithHistory(s.histSize, s.histTTL)}

	if tag != "" {
		opts = append(opts, centrifuge.WithTags(map[string]string{"t": tag}))
	}
	res, err := s.node.Publish(channel, data, opts...)
	s.log.mu.Lock()
	rec.RetSeq = s.w.Seq()
	if err != nil {
		rec.Err = err.Error()
	} else {
		rec.Offset, rec.Epoch = res.Offset, res.Epoch
	}
	s.log.mu.Unlock()
	return rec
}

func hashDelay(salt uint64, point string, max int) time.Duration {
	h := fnv.New64a()
	_, _ = h.Write([]byte(point))
	v := (h.Sum64() ^ salt) * 0x9e3779b97f4a7c15
	return time.Duration(v%uint64(max+1)) * time.Millisecond
}

// pWindow reports whether a yield point lies inside the window in which a
// positioned subscribe holds its recovery buffer lock.
func pWindow(point string) bool {
	switch point {
	case "sub.afterMerge", "sub.beforeReply", "sub.afterReply", "sub.afterCommit", "ssub.beforeCommit", "ssub.afterCommit", "connect.beforeReply", "connect.afterReply":
		return true
	}
	return false
}

func (s *scenario) hook(point string, cl *centrifuge.Client, ch string) {
	if cl == nil {
		return
	}
	s.mu.Lock()
	cfg := s.hookCfg[cl]
	s.mu.Unlock()
	if cfg == nil {
		return
	}
	if pWindow(point) && cfg.positioned {
		// Inside the buffer-lock window: never sleep. Launch a racing publish once
		// and busy-yield until it has entered the library.
		if cfg.racePoint == point {
			s.mu.Lock()
			done := cfg.raced[point]
			cfg.raced[point] = true
			s.mu.Unlock()
			if !done {
				var entered atomic.Bool
				go func() {
					entered.Store(true)
					s.publish(fmt.Sprintf("racer%d", cfg.idx), "a")
					s.racerRan.Add(1)
				}()
				kit.SpinUntil(entered.Load, 10000)
				kit.Yield(300)
			}
		}
		return
	}
	if point == "sub.afterRecover" && s.lossBurst {
		// Directly after the history read of a subscribe (no lock is held here): one publication
		// whose PUB/SUB delivery is lost, then one that the tags filter "a" withholds (for an
		// unfiltered subscriber it is simply the next one), then sometimes one more. The buffer then
		// holds what follows the lost publication; a filtered neighbour must not hide the hole.
		s.mu.Lock()
		done := cfg.raced["burst"]
		cfg.raced["burst"] = true
		s.mu.Unlock()
		if !done {
			s.forceDrop.Store(1)
			s.publish(fmt.Sprintf("lost%d", cfg.idx), "a")
			s.publish(fmt.Sprintf("marker%d", cfg.idx), "b")
			if cfg.salt%4 == 0 { // mostly the withheld publication is the last thing in the buffer
				s.publish(fmt.Sprintf("after%d", cfg.idx), "a")
			}
			s.bursts.Add(1)
		}
	}
	switch point {
	case "sub.afterAddSub", "sub.afterRecover", "sub.beforeReply", "sub.afterReply", "sub.afterCommit", "connect.afterAddClient", "connect.beforeReply", "connect.afterReply", "ssub.beforeCommit", "ssub.afterCommit":
		if d := hashDelay(cfg.salt, point, 12); d > 0 {
			time.Sleep(d)
		}
	}
}

// ---------------------------------------------------------------------------------------------
// observation of one subscription incarnation

type incarnation struct {
	Conn      int
	Kind      string // client | connect | server
	StartSeq  int64
	Base      uint64
	Epoch     string
	Recovered bool
	Recover   bool
	Filter    string // "" or tag value admitted
	Delivered []uint64
	IDs       []string
	EndSeq    int64
	EndCode   uint32
	EndKind   string // unsubscribe-reply | unsubscribe-push | disconnect | close | ""
}

func payloadID(data []byte) string {
	var m map[string]string
	if json.Unmarshal(data, &m) == nil {
		return m["id"]
	}
	return ""
}

type connSpec struct {
	idx        int
	kind       string // client | connect | server
	proto      centrifuge.ProtocolType
	uni        bool
	recovery   bool // EnableRecovery (else positioning only)
	filter     string
	conn       *kit.Conn
	subIDs     map[uint32]subReq
	unsubIDs   map[uint32]bool
	lastPos    centrifuge.StreamPosition
	havePos    bool
	mu         sync.Mutex
	connectReq *protocol.ConnectRequest
	// serverSubs lists, per transport, the successful Client.Subscribe calls in order.
	serverSubs map[*kit.RecTransport][]subReq
}

type subReq struct {
	recover bool
	offset  uint64
	epoch   string
}

// fold turns the frames a connection received into subscription incarnations.
func fold(cs *connSpec, t *kit.RecTransport, frames []kit.Frame, closed bool, closeSeq int64, closeDisc centrifuge.Disconnect) ([]*incarnation, []string) {
	cs.mu.Lock()
	serverSubs := append([]subReq(nil), cs.serverSubs[t]...)
	cs.mu.Unlock()
	var incs []*incarnation
	var cur *incarnation
	var problems []string
	end := func(seq int64, kind string, code uint32) {
		if cur != nil {
			cur.EndSeq, cur.EndKind, cur.EndCode = seq, kind, code
			cur = nil
		}
	}
	deliver := func(p *protocol.Publication) {
		if cur == nil {
			return // outside an incarnation: C10's concern
		}
		cur.Delivered = append(cur.Delivered, p.Offset)
		cur.IDs = append(cur.IDs, payloadID(p.Data))
	}
	start := func(seq int64, kind string, res *protocol.SubscribeResult, rq subReq) {
		end(seq, "restart", 0)
		cur = &incarnation{Conn: cs.idx, Kind: kind, StartSeq: seq, Epoch: res.Epoch, Recovered: res.Recovered, Recover: rq.recover, Filter: cs.filter}
		if res.Recovered {
			cur.Base = rq.offset
		} else {
			cur.Base = res.Offset
			if len(res.Publications) > 0 {
				problems = append(problems, fmt.Sprintf("conn %d: %d publications in a subscribe result with recovered=false", cs.idx, len(res.Publications)))
			}
		}
		incs = append(incs, cur)
		for _, p := range res.Publications {
			deliver(p)
		}
	}
	for _, f := range frames {
		if f.Reply != nil && f.Reply.Id != 0 {
			r := f.Reply
			if rq, ok := cs.subIDs[r.Id]; ok {
				if r.Error == nil && r.Subscribe != nil {
					start(f.Seq, "client", r.Subscribe, rq)
				}
				continue
			}
			if cs.unsubIDs[r.Id] {
				if r.Error == nil {
					end(f.Seq, "unsubscribe-reply", 0)
				}
				continue
			}
			if r.Connect != nil {
				if sr, ok := r.Connect.Subs[channel]; ok {
					rq := subReq{}
					if cs.connectReq != nil {
						if q, ok := cs.connectReq.Subs[channel]; ok {
							rq = subReq{recover: q.Recover, offset: q.Offset, epoch: q.Epoch}
						}
					}
					start(f.Seq, "connect", sr, rq)
				}
			}
			continue
		}
		p := f.Push
		if p == nil {
			continue
		}
		if p.Connect != nil {
			if sr, ok := p.Connect.Subs[channel]; ok {
				rq := subReq{}
				if cs.connectReq != nil {
					if q, ok := cs.connectReq.Subs[channel]; ok {
						rq = subReq{recover: q.Recover, offset: q.Offset, epoch: q.Epoch}
					}
				}
				start(f.Seq, "connect", sr, rq)
			}
			continue
		}
		if p.Disconnect != nil {
			end(f.Seq, "disconnect", p.Disconnect.Code)
			continue
		}
		if p.Channel != channel {
			continue
		}
		switch {
		case p.Subscribe != nil:
			end(f.Seq, "restart", 0)
			cur = &incarnation{Conn: cs.idx, Kind: "server", StartSeq: f.Seq, Epoch: p.Subscribe.Epoch, Base: p.Subscribe.Offset, Filter: cs.filter}
			if len(serverSubs) > 0 {
				cur.Recover = serverSubs[0].recover
				serverSubs = serverSubs[1:]
			}
			incs = append(incs, cur)
		case p.Unsubscribe != nil:
			end(f.Seq, "unsubscribe-push", p.Unsubscribe.Code)
		case p.Pub != nil:
			deliver(p.Pub)
		}
	}
	if closed {
		end(closeSeq, "close", closeDisc.Code)
	}
	return incs, problems
}

func tagOf(i int) string {
	if i%3 == 0 {
		return "b"
	}
	return "a"
}

// Options adapts the scenario.
type Options struct {
	// Prefix of violation classes ("c01" / "c38").
	Prefix string
	// Anchor adds a subscriber that stays subscribed for the whole case (so the
	// channel never loses its last subscriber while the case runs).
	Anchor bool
	// Medium, when set, enables the channel medium with the returned options.
	Medium func(r *kit.Rand) centrifuge.ChannelMediumOptions
}

// RunCase runs one bubble of the scenario and reports through c.
func RunCase(c *kit.Case, opt Options) {
	classPrefix = opt.Prefix
	var mediumOpts centrifuge.ChannelMediumOptions
	useMedium := opt.Medium != nil
	if useMedium {
		mediumOpts = opt.Medium(c.R)
	}
	sharedSync = useMedium && mediumOpts.SharedPositionSync

	r := c.R
	w := kit.NewWorld(c)
	s := &scenario{c: c, w: w, log: &pubLog{}, hookCfg: map[*centrifuge.Client]*connHooks{}}
	s.histSize = kit.Pick(r, []int{3, 5, 10, 50})
	s.histTTL = kit.Pick(r, []time.Duration{60 * time.Second, 60 * time.Second, 2 * time.Second})
	faultMode := kit.Pick(r, []string{"none", "none", "drop", "dup", "hold", "mixed"})
	faultRate := r.Range(8, 30)
	nConn := r.Range(1, 3)
	nPub := r.Range(1, 3)
	useFilter := r.Chance(1, 3)
	// epoch reset: a short history meta TTL and a publisher pause longer than it, so
	// the stream's metadata is discarded and the next publish starts a new epoch
	epochReset := r.Chance(1, 8)
	if epochReset {
		s.histTTL = 2 * time.Second
		s.metaTTL = 3 * time.Second
	}
	removeHistoryAfter := time.Duration(0)
	if r.Chance(1, 6) {
		removeHistoryAfter = time.Duration(r.Range(5, 80)) * time.Millisecond
	}
	asyncSubscribe := r.Chance(1, 3)
	s.lossBurst = c.Index%6 == 5
	if s.lossBurst {
		useFilter = true
	}

	specs := make([]*connSpec, nConn)
	for i := range specs {
		cs := &connSpec{idx: i, subIDs: map[uint32]subReq{}, unsubIDs: map[uint32]bool{}}
		cs.kind = kit.Pick(r, []string{"client", "client", "client", "connect", "server"})
		cs.proto = kit.Pick(r, []centrifuge.ProtocolType{centrifuge.ProtocolTypeJSON, centrifuge.ProtocolTypeProtobuf})
		cs.uni = cs.kind != "client" && r.Chance(1, 3)
		cs.recovery = r.Chance(2, 3)
		if useFilter && cs.kind == "client" && r.Bool() {
			cs.filter = "a"
		}
		if s.lossBurst && cs.kind == "client" && i%2 == 0 {
			cs.filter, cs.recovery = "a", true
		}
		specs[i] = cs
	}
	byTransport := map[*kit.RecTransport]*connSpec{}
	var btMu sync.Mutex

	// fault plan: decisions drawn from a PRNG that only deliveries advance.
	fr := kit.NewRand(c.Seed, uint64(c.Index)*7919+13)
	var faultsOn atomic.Bool
	faultsOn.Store(true)
	var faultCount atomic.Int64

	subOpts := func(cs *connSpec) centrifuge.SubscribeOptions {
		o := centrifuge.SubscribeOptions{EnablePositioning: true, AllowTagsFilter: true}
		if cs.recovery {
			o.EnableRecovery = true
		}
		return o
	}

	cfg := centrifuge.Config{
		ClientPresenceUpdateInterval:    time.Second,
		ClientChannelPositionCheckDelay: 2 * time.Second,
		ClientStaleCloseDelay:           time.Hour,
	}
	if s.metaTTL > 0 {
		cfg.HistoryMetaTTL = s.metaTTL
	}
	if useMedium {
		cfg.GetChannelMediumOptions = func(string) centrifuge.ChannelMediumOptions { return mediumOpts }
	}
	node, _ := w.NewNode(cfg, func(n *centrifuge.Node) {
		s.fb = kit.NewFaultBroker(w, n)
		s.fb.Plan = func(ch string, pub *centrifuge.Publication, sp centrifuge.StreamPosition) kit.FaultAction {
			if s.forceDrop.Load() > 0 && s.forceDrop.Add(-1) >= 0 {
				faultCount.Add(1)
				return kit.Drop
			}
			if !faultsOn.Load() || faultMode == "none" {
				return kit.Pass
			}
			if fr.Intn(100) >= faultRate {
				return kit.Pass
			}
			faultCount.Add(1)
			switch faultMode {
			case "drop":
				return kit.Drop
			case "dup":
				return kit.Dup
			case "hold":
				return kit.Hold
			}
			return kit.Pick(fr, []kit.FaultAction{kit.Drop, kit.Dup, kit.Hold})
		}
		n.SetBroker(s.fb)
		n.OnConnecting(func(_ context.Context, e centrifuge.ConnectEvent) (centrifuge.ConnectReply, error) {
			rep := centrifuge.ConnectReply{Credentials: &centrifuge.Credentials{UserID: "u"}}
			if rt, ok := e.Transport.(*kit.RecTransport); ok {
				btMu.Lock()
				cs := byTransport[rt]
				btMu.Unlock()
				if cs != nil && cs.kind == "connect" {
					rep.Subscriptions = map[string]centrifuge.SubscribeOptions{channel: subOpts(cs)}
				}
			}
			return rep, nil
		})
		n.OnConnect(func(cl *centrifuge.Client) {
			var cs *connSpec
			if rt, ok := cl.Transport().(*kit.RecTransport); ok {
				btMu.Lock()
				cs = byTransport[rt]
				btMu.Unlock()
			}
			cl.OnSubscribe(func(e centrifuge.SubscribeEvent, cb centrifuge.SubscribeCallback) {
				rep := centrifuge.SubscribeReply{}
				if cs != nil {
					rep.Options = subOpts(cs)
				}
				if asyncSubscribe {
					go func() {
						time.Sleep(3 * time.Millisecond)
						cb(rep, nil)
					}()
					return
				}
				cb(rep, nil)
			})
		})
	})
	s.node = node
	kit.SetHook(node, s.hook)

	var anchor *kit.Conn
	if opt.Anchor {
		// a plain (non-positioned) subscriber that no PUB/SUB fault can unsubscribe
		anchor = w.NewConn(node, kit.TransportOpts{})
		anchor.Connect(nil)
		anchor.Subscribe(&protocol.SubscribeRequest{Channel: channel})
		w.Settle()
	}
	// a few publications before anyone subscribes
	for i, n := 0, r.Range(0, 8); i < n; i++ {
		s.publish("pre", tagOf(i))
	}

	var wg sync.WaitGroup
	for p := 0; p < nPub; p++ {
		k := r.Range(4, 25)
		gaps := make([]time.Duration, k)
		for i := range gaps {
			gaps[i] = time.Duration(r.Range(1, 12)) * time.Millisecond
		}
		if epochReset && p == 0 && k > 3 {
			gaps[k/2] = 6 * time.Second
		}
		wg.Add(1)
		go func(p int) {
			defer wg.Done()
			for i, g := range gaps {
				time.Sleep(g)
				s.publish(fmt.Sprintf("p%d", p), tagOf(i+p))
			}
		}(p)
	}
	if removeHistoryAfter > 0 {
		wg.Add(1)
		go func() {
			defer wg.Done()
			time.Sleep(removeHistoryAfter)
			_ = node.RemoveHistory(channel)
		}()
	}

	pWindowPoints := []string{"sub.afterMerge", "sub.beforeReply", "sub.afterReply", "sub.afterCommit"}
	mkConn := func(cs *connSpec, salt uint64, racePoint string) *kit.Conn {
		conn := w.NewConn(node, kit.TransportOpts{Protocol: cs.proto, Unidirectional: cs.uni})
		btMu.Lock()
		byTransport[conn.T] = cs
		btMu.Unlock()
		s.mu.Lock()
		s.hookCfg[conn.Client] = &connHooks{idx: cs.idx, positioned: true, racePoint: racePoint, raced: map[string]bool{}, salt: salt}
		s.mu.Unlock()
		return conn
	}
	tfFor := func(cs *connSpec) *protocol.FilterNode {
		if cs.filter == "" {
			return nil
		}
		return &protocol.FilterNode{Op: "", Key: "t", Cmp: "eq", Val: cs.filter}
	}
	type connRun struct {
		cs    *connSpec
		conns []*kit.Conn
	}
	runs := make([]*connRun, nConn)
	for i, cs := range specs {
		cr := &connRun{cs: cs}
		runs[i] = cr
		startDelay := time.Duration(r.Range(0, 25)) * time.Millisecond
		live1 := time.Duration(r.Range(8, 60)) * time.Millisecond
		away := time.Duration(r.Range(5, 50)) * time.Millisecond
		second := r.Chance(2, 3)
		reconnect := r.Bool() // second incarnation on a new connection
		salt1, salt2 := r.Uint64(), r.Uint64()
		race1 := kit.Pick(r, append([]string{""}, pWindowPoints...))
		race2 := kit.Pick(r, append([]string{""}, pWindowPoints...))
		if cs.kind == "connect" {
			race1 = kit.Pick(r, []string{"", "connect.beforeReply", "connect.afterReply"})
			race2 = kit.Pick(r, []string{"", "connect.beforeReply", "connect.afterReply"})
			reconnect = true
		}
		if cs.kind == "server" {
			race1 = kit.Pick(r, []string{"", "ssub.beforeCommit", "ssub.afterCommit"})
			race2 = kit.Pick(r, []string{"", "ssub.beforeCommit", "ssub.afterCommit"})
		}
		recoverStale := r.Chance(1, 8) // recover from a position further back than the last seen one
		wg.Add(1)
		go func() {
			defer wg.Done()
			time.Sleep(startDelay)
			// last position this logical client knows about
			var known subReq
			subscribe := func(conn *kit.Conn, rec bool) {
				switch cs.kind {
				case "client":
					req := &protocol.SubscribeRequest{Channel: channel, Tf: tfFor(cs)}
					if rec {
						req.Recover, req.Offset, req.Epoch = true, known.offset, known.epoch
					}
					id := conn.NextID()
					cs.mu.Lock()
					cs.subIDs[id] = subReq{recover: req.Recover, offset: req.Offset, epoch: req.Epoch}
					cs.mu.Unlock()
					conn.Do(&protocol.Command{Id: id, Subscribe: req})
				case "server":
					opts := []centrifuge.SubscribeOption{centrifuge.WithPositioning(true)}
					if cs.recovery {
						opts = append(opts, centrifuge.WithRecovery(true))
						if rec {
							opts = append(opts, centrifuge.WithRecoverSince(&centrifuge.StreamPosition{Offset: known.offset, Epoch: known.epoch}))
						}
					}
					rq := subReq{}
					if cs.recovery && rec {
						rq = subReq{recover: true, offset: known.offset, epoch: known.epoch}
					}
					if err := conn.Client.Subscribe(channel, opts...); err == nil {
						cs.mu.Lock()
						if cs.serverSubs == nil {
							cs.serverSubs = map[*kit.RecTransport][]subReq{}
						}
						cs.serverSubs[conn.T] = append(cs.serverSubs[conn.T], rq)
						cs.mu.Unlock()
					}
				}
			}
			connect := func(conn *kit.Conn, rec bool) {
				req := &protocol.ConnectRequest{}
				if cs.kind == "connect" && rec && cs.recovery {
					req.Subs = map[string]*protocol.SubscribeRequest{channel: {Recover: true, Offset: known.offset, Epoch: known.epoch}}
				}
				cs.mu.Lock()
				cs.connectReq = req
				cs.mu.Unlock()
				if cs.uni {
					creq := centrifuge.ConnectRequest{}
					if len(req.Subs) > 0 {
						creq.Subs = map[string]centrifuge.SubscribeRequest{channel: {Recover: true, Offset: known.offset, Epoch: known.epoch}}
					}
					conn.Client.Connect(creq)
				} else {
					conn.Connect(req)
				}
			}
			// what the client learned from an incarnation
			learn := func(conn *kit.Conn) {
				incs, _ := fold(cs, conn.T, conn.T.Frames(), false, 0, centrifuge.Disconnect{})
				if len(incs) == 0 {
					return
				}
				in := incs[len(incs)-1]
				known = subReq{recover: true, offset: in.Base, epoch: in.Epoch}
				if n := len(in.Delivered); n > 0 {
					known.offset = in.Delivered[n-1]
				}
				if recoverStale && known.offset > 2 {
					known.offset -= 2
				}
			}
			conn := mkConn(cs, salt1, race1)
			cr.conns = append(cr.conns, conn)
			connect(conn, false)
			subscribe(conn, false)
			if !second {
				return
			}
			time.Sleep(live1)
			synctestSettle()
			learn(conn)
			if reconnect {
				_ = conn.CloseFn()
			} else if cs.kind == "client" {
				id := conn.NextID()
				cs.mu.Lock()
				cs.unsubIDs[id] = true
				cs.mu.Unlock()
				conn.Do(&protocol.Command{Id: id, Unsubscribe: &protocol.UnsubscribeRequest{Channel: channel}})
			} else {
				conn.Client.Unsubscribe(channel)
			}
			time.Sleep(away)
			if reconnect {
				conn = mkConn(cs, salt2, race2)
				cr.conns = append(cr.conns, conn)
				connect(conn, true)
			} else {
				s.mu.Lock()
				s.hookCfg[conn.Client] = &connHooks{idx: cs.idx, positioned: true, racePoint: race2, raced: map[string]bool{}, salt: salt2}
				s.mu.Unlock()
			}
			subscribe(conn, cs.recovery && known.recover)
		}()
	}
	wg.Wait()
	// faults stop; late deliveries arrive; then the bounded-progress horizon:
	// position check delay (2s) + presence ticks (1s) with margin.
	faultsOn.Store(false)
	s.fb.Flush()
	time.Sleep(9 * time.Second)
	synctest.Wait()

	top, topErr := node.History(channel, centrifuge.WithLimit(0))
	recs := s.log.snapshot()
	byPos := map[string]map[uint64]*pubRec{}
	nOK := 0
	for _, rec := range recs {
		if rec.Err != "" || rec.Offset == 0 {
			continue
		}
		nOK++
		m := byPos[rec.Epoch]
		if m == nil {
			m = map[uint64]*pubRec{}
			byPos[rec.Epoch] = m
		}
		if prev, dup := m[rec.Offset]; dup {
			c.Violation(classPrefix+"-publish-offset-assigned-twice", fmt.Sprintf("offset %d assigned to %s and %s", rec.Offset, prev.ID, rec.ID), nil)
		}
		m[rec.Offset] = rec
	}

	sig := fmt.Sprintf("f=%s m=%+v", faultMode, mediumOpts)
	if c.Verbose {
		c.Logf("fault mode %s rate %d, medium %+v, history size %d ttl %v", faultMode, faultRate, mediumOpts, s.histSize, s.histTTL)
		_, dels := s.fb.Snapshot()
		for _, d := range dels {
			c.Logf("delivery seq=%d offset=%d action=%s", d.Seq, d.Offset, d.Action)
		}
		for _, rec := range recs {
			c.Logf("publish %s call=%d ret=%d offset=%d", rec.ID, rec.CallSeq, rec.RetSeq, rec.Offset)
		}
	}
	type incView struct {
		Inc      *incarnation
		Problems []string
	}
	var views []incView
	aliveAtTop, aliveLagging, laggingWitness = 0, 0, ""
	for _, cr := range runs {
		for _, conn := range cr.conns {
			closed, disc, _ := conn.T.Closed()
			frames := conn.T.Frames()
			incs, problems := fold(cr.cs, conn.T, frames, closed, conn.T.CloseSeq, disc)
			if c.Verbose {
				for _, f := range frames {
					c.Logf("conn %d (%s uni=%v) frame seq=%d at=%v %s", cr.cs.idx, cr.cs.kind, cr.cs.uni, f.Seq, f.At, string(f.Raw))
				}
				c.Logf("conn %d closed=%v disc=%v", cr.cs.idx, closed, disc)
			}
			for _, pmsg := range problems {
				c.Violation(classPrefix+"-publications-without-recovered-flag", pmsg, nil)
			}
			for _, in := range incs {
				views = append(views, incView{Inc: in})
				checkIncarnation(c, s, in, byPos, recs, top, topErr == nil, closed)
				sig += fmt.Sprintf("|%s:r%v:n%d:%s%d", in.Kind, in.Recovered, bucket(len(in.Delivered)), in.EndKind, in.EndCode)
			}
		}
	}
	if sharedSync && aliveLagging > 0 && aliveAtTop == 0 && !c.Violated() {
		// Every subscription that is still alive is behind the stream top: whichever of them takes
		// the shared check slot holds an invalid position, so the loss must have been detected (and
		// all of them ended) within the horizon. A subscriber that lags alone is a different matter
		// (counted above).
		c.Violation(classPrefix+"-position-loss-never-detected-under-shared-position-sync", fmt.Sprintf("SharedPositionSync: all %d subscriptions still alive after the check horizon are behind the stream top and none was ended; e.g. %s", aliveLagging, laggingWitness), nil)
	}
	// window coverage: publishes whose call/return interval contains a subscription start
	for _, v := range views {
		for _, rec := range recs {
			if rec.CallSeq < v.Inc.StartSeq && rec.RetSeq > v.Inc.StartSeq {
				c.Count("publish_spanning_subscription_start", 1)
			}
		}
		if len(v.Inc.Delivered) > 0 {
			c.Count("incarnations_with_deliveries", 1)
		}
		if v.Inc.Recovered {
			c.Count("recovered_incarnations", 1)
		}
		if v.Inc.EndCode == 2500 || v.Inc.EndCode == 3010 {
			c.Count("insufficient_state_endings", 1)
		}
		c.Count("incarnations_"+v.Inc.Kind, 1)
	}
	c.Count("racer_publishes", int(s.racerRan.Load()))
	c.Count("loss_bursts_after_history_read", int(s.bursts.Load()))
	c.Count("faults_injected", int(faultCount.Load()))
	c.Count("publishes", nOK)
	if len(views) > 0 {
		c.Nontrivial(sig)
	}
	if c.Index < 48 && len(views) > 0 {
		var sv []any
		for _, v := range views {
			sv = append(sv, v.Inc)
		}
		c.Sample(map[string]any{"fault_mode": faultMode, "history_size": s.histSize, "publishes": nOK, "incarnations": sv, "medium": fmt.Sprintf("%+v", mediumOpts)})
	}
	for _, cr := range runs {
		for _, conn := range cr.conns {
			_ = conn.CloseFn()
		}
	}
	if anchor != nil {
		_ = anchor.CloseFn()
	}
	w.Shutdown()
}

func synctestSettle() {}

func bucket(n int) int {
	switch {
	case n == 0:
		return 0
	case n < 4:
		return 1
	case n < 12:
		return 2
	}
	return 3
}

func admitted(in *incarnation, rec *pubRec) bool {
	return in.Filter == "" || rec.Tag == in.Filter
}

func checkIncarnation(c *kit.Case, s *scenario, in *incarnation, byPos map[string]map[uint64]*pubRec, recs []*pubRec, top centrifuge.HistoryResult, haveTop bool, closed bool) {
	log := byPos[in.Epoch]
	last := in.Base
	detail := func() any {
		return map[string]any{"incarnation": in, "stream_top": top.StreamPosition}
	}
	for i, off := range in.Delivered {
		if off <= last {
			c.Violation(classPrefix+"-delivered-offset-not-increasing", fmt.Sprintf("conn %d (%s) received offset %d after %d", in.Conn, in.Kind, off, last), detail())
			return
		}
		for o := last + 1; o < off; o++ {
			rec := log[o]
			if rec == nil {
				c.Violation(classPrefix+"-delivered-past-unknown-offset", fmt.Sprintf("conn %d (%s) received offset %d after %d but offset %d was never published in epoch %q", in.Conn, in.Kind, off, last, o, in.Epoch), detail())
				return
			}
			if admitted(in, rec) {
				cls := classPrefix+"-delivered-past-gap"
				if in.Kind == "server" && in.Recover && i == 0 {
					cls = classPrefix+"-server-side-recover-since-drops-recovered-publications"
				}
				c.Violation(cls, fmt.Sprintf("conn %d (%s, base %d, recovered=%v) received offset %d right after %d: offset %d (%s) was neither delivered nor filtered", in.Conn, in.Kind, in.Base, in.Recovered, off, last, o, rec.ID), detail())
				return
			}
		}
		rec := log[off]
		if rec == nil || rec.ID != in.IDs[i] {
			want := "<nothing>"
			if rec != nil {
				want = rec.ID
			}
			c.Violation(classPrefix+"-wrong-payload-for-offset", fmt.Sprintf("conn %d received payload %q at offset %d epoch %q, published there: %s", in.Conn, in.IDs[i], off, in.Epoch, want), detail())
			return
		}
		if !admitted(in, rec) {
			c.Violation(classPrefix+"-filtered-publication-delivered", fmt.Sprintf("conn %d received %s (tag %s) excluded by its filter", in.Conn, rec.ID, rec.Tag), detail())
			return
		}
		last = off
	}
	// bounded progress: a subscription that is still alive after faults stopped and
	// the position-check horizon passed must not be behind the stream top.
	if in.EndKind == "" && !closed && haveTop {
		if top.Epoch != in.Epoch {
			if top.Offset > 0 {
				c.Violation(classPrefix+"-alive-subscription-on-stale-epoch", fmt.Sprintf("conn %d still subscribed with epoch %q, stream epoch %q", in.Conn, in.Epoch, top.Epoch), detail())
			}
			return
		}
		for o := last + 1; o <= top.Offset; o++ {
			if rec := log[o]; rec != nil && admitted(in, rec) {
				if sharedSync {
					// With SharedPositionSync one periodic check per channel stands for
					// all subscribers; a subscriber that lags alone is only found when its
					// own tick happens to take that slot. The statement does not bound
					// this, so it is counted, not flagged.
					c.Count("lagging_subscriber_not_found_by_shared_position_sync", 1)
					aliveLagging++
					laggingWitness = fmt.Sprintf("conn %d (%s) is still subscribed after the check horizon but never received offset %d (%s); last received %d, stream top %d", in.Conn, in.Kind, o, rec.ID, last, top.Offset)
					return
				}
				cls := classPrefix+"-alive-subscription-left-behind"
				if in.Kind == "server" && in.Recover && len(in.Delivered) == 0 {
					cls = classPrefix+"-server-side-recover-since-drops-recovered-publications"
				}
				c.Violation(cls, fmt.Sprintf("conn %d (%s) is still subscribed after the check horizon but never received offset %d (%s); last received %d, stream top %d", in.Conn, in.Kind, o, rec.ID, last, top.Offset), detail())
				return
			}
		}
		c.Count("alive_at_top", 1)
		aliveAtTop++
	}
}

