// C14: Delta-encoded publications reconstruct the published data.
package c14

import (
	"bytes"
	"context"
	"encoding/json"
	"fmt"
	"strings"
	"sync"
	"sync/atomic"
	"testing"
	"time"

	"github.com/centrifugal/centrifuge"
	"github.com/centrifugal/centrifuge/verifx/kit"
	"github.com/centrifugal/centrifuge/verifx/mapcm"
	"github.com/centrifugal/protocol"
	fdelta "github.com/shadowspore/fossil-delta"
)

type payloadGen struct {
	r      *kit.Rand
	binary bool
	base   []string
	n      int
}

// next builds a payload carrying id; successive payloads share most of their bytes.
func (g *payloadGen) next(id string) []byte {
	g.n++
	r := g.r
	if g.base == nil {
		for i, n := 0, r.Range(0, 30); i < n; i++ {
			g.base = append(g.base, fmt.Sprintf("field-%d-%x", i, r.Uint64()))
		}
	}
	switch r.Intn(10) {
	case 0:
		g.base = nil // unrelated payload next
		for i, n := 0, r.Range(0, 40); i < n; i++ {
			g.base = append(g.base, fmt.Sprintf("other-%d-%x", i, r.Uint64()))
		}
	case 1, 2, 3:
		if len(g.base) > 0 {
			g.base[r.Intn(len(g.base))] = fmt.Sprintf("chg-%x", r.Uint64())
		}
	case 4:
		g.base = append(g.base, strings.Repeat("x", r.Range(1, 300)))
	}
	if g.binary {
		var b bytes.Buffer
		b.WriteString("id:" + id + ";")
		for _, s := range g.base {
			b.WriteString(s)
			b.WriteByte(byte(r.Intn(256)))
		}
		if r.Chance(1, 15) {
			return []byte("id:" + id + ";")
		}
		return b.Bytes()
	}
	m := map[string]any{"id": id, "n": g.n / 3, "fields": g.base}
	if r.Chance(1, 12) {
		m = map[string]any{"id": id}
	}
	out, _ := json.Marshal(m)
	return out
}

func idOf(data []byte, binary bool) string {
	if binary {
		s := string(data)
		if strings.HasPrefix(s, "id:") {
			if i := strings.IndexByte(s, ';'); i > 0 {
				return s[3:i]
			}
		}
		return ""
	}
	var m map[string]any
	if json.Unmarshal(data, &m) == nil {
		id, _ := m["id"].(string)
		return id
	}
	return ""
}

// holder is what a client holds for one stream (or one map key).
type holder struct {
	have bool
	data []byte
}

// payloadOf extracts the bytes a publication carries (JSON transports with delta
// negotiated carry a JSON string).
func payloadOf(p *protocol.Publication, jsonProto bool) ([]byte, error) {
	if jsonProto && len(p.Data) > 0 && p.Data[0] == '"' {
		var s string
		if err := json.Unmarshal(p.Data, &s); err != nil {
			return nil, err
		}
		return []byte(s), nil
	}
	return p.Data, nil
}

func (h *holder) apply(p *protocol.Publication, jsonProto bool) ([]byte, string) {
	raw, err := payloadOf(p, jsonProto)
	if err != nil {
		return nil, "undecodable-json-string-payload"
	}
	if p.Delta {
		if !h.have {
			return nil, "delta-without-a-base"
		}
		out, err := fdelta.Apply(h.data, raw)
		if err != nil {
			return nil, "delta-does-not-apply-to-held-data"
		}
		h.data = out
		return out, ""
	}
	h.have, h.data = true, append([]byte(nil), raw...)
	return h.data, ""
}

type pubLog struct {
	mu   sync.Mutex
	byID map[string][]byte
}

func (l *pubLog) put(id string, data []byte) {
	l.mu.Lock()
	l.byID[id] = data
	l.mu.Unlock()
}
func (l *pubLog) get(id string) ([]byte, bool) {
	l.mu.Lock()
	defer l.mu.Unlock()
	d, ok := l.byID[id]
	return d, ok
}

var scenarios = []string{"stream", "stream", "stream-faults", "map", "map"}

func runCase(c *kit.Case) {
	switch scenarios[c.Index%len(scenarios)] {
	case "map":
		mapCase(c)
	case "stream-faults":
		streamCase(c, true)
	default:
		streamCase(c, false)
	}
}

func streamCase(c *kit.Case, faults bool) {
	r := c.R
	w := kit.NewWorld(c)
	const ch = "c14:s"
	log := &pubLog{byID: map[string][]byte{}}
	allProto := r.Chance(1, 4) // every subscriber on Protobuf: binary payloads allowed
	gen := &payloadGen{r: kit.NewRand(c.Seed, uint64(c.Index)*31+7), binary: allProto && r.Bool()}
	withHistory := r.Chance(3, 4)
	keepLatest := r.Bool()
	faultMode := "none"
	if faults {
		faultMode = kit.Pick(r, []string{"drop", "dup", "hold"})
	}
	fr := kit.NewRand(c.Seed, uint64(c.Index)*7919+5)
	type subSpec struct {
		positioned bool
		proto      centrifuge.ProtocolType
		recoverRun bool
		conns      []*kit.Conn
	}
	optsOf := sync.Map{}
	cfg := centrifuge.Config{ClientStaleCloseDelay: time.Hour, ClientPresenceUpdateInterval: time.Second, ClientChannelPositionCheckDelay: 2 * time.Second}
	if keepLatest {
		cfg.GetChannelMediumOptions = func(string) centrifuge.ChannelMediumOptions {
			return centrifuge.ChannelMediumOptions{KeepLatestPublication: true}
		}
	}
	var fb *kit.FaultBroker
	node, _ := w.NewNode(cfg, func(n *centrifuge.Node) {
		fb = kit.NewFaultBroker(w, n)
		if faultMode != "none" {
			fb.Plan = func(string, *centrifuge.Publication, centrifuge.StreamPosition) kit.FaultAction {
				if fr.Intn(100) >= 15 {
					return kit.Pass
				}
				switch faultMode {
				case "drop":
					return kit.Drop
				case "dup":
					return kit.Dup
				}
				return kit.Hold
			}
		}
		n.SetBroker(fb)
		n.OnConnecting(func(context.Context, centrifuge.ConnectEvent) (centrifuge.ConnectReply, error) {
			return kit.Creds("u"), nil
		})
		n.OnConnect(func(cl *centrifuge.Client) {
			cl.OnSubscribe(func(e centrifuge.SubscribeEvent, cb centrifuge.SubscribeCallback) {
				o := centrifuge.SubscribeOptions{AllowedDeltaTypes: []centrifuge.DeltaType{centrifuge.DeltaTypeFossil}}
				if v, ok := optsOf.Load(cl); ok && v.(bool) {
					o.EnableRecovery = true
				}
				cb(centrifuge.SubscribeReply{Options: o}, nil)
			})
		})
	})
	var seq atomic.Int64
	var pubMu sync.Mutex
	mixedDelta := c.Index%3 == 0 // a third of the stream cases mix publishes with and without the delta option
	publish := func() {
		pubMu.Lock() // payload generation shares state; publish order = generation order
		defer pubMu.Unlock()
		n := seq.Add(1)
		id := fmt.Sprintf("m%d", n)
		data := gen.next(id)
		log.put(id, data)
		opts := []centrifuge.PublishOption{}
		if !mixedDelta || (n*2654435761>>7)%3 != 0 {
			opts = append(opts, centrifuge.WithDelta(true))
		} else {
			// a publisher that does not ask for delta: subscribers get (and hold) the full payload,
			// and the next delta must be computed against it
			c.Count("publications_without_delta_option_between_delta_ones", 1)
		}
		if withHistory {
			opts = append(opts, centrifuge.WithHistory(50, time.Minute))
		}
		_, _ = node.Publish(ch, data, opts...)
	}
	nSub := r.Range(1, 3)
	subs := make([]*subSpec, nSub)
	var wg sync.WaitGroup
	for i := range subs {
		s := &subSpec{positioned: withHistory && r.Bool(), proto: centrifuge.ProtocolTypeJSON, recoverRun: r.Bool()}
		if allProto || r.Bool() {
			s.proto = centrifuge.ProtocolTypeProtobuf
		}
		if allProto {
			s.proto = centrifuge.ProtocolTypeProtobuf
		}
		subs[i] = s
		start := time.Duration(r.Range(0, 30)) * time.Millisecond
		live := time.Duration(r.Range(10, 80)) * time.Millisecond
		away := time.Duration(r.Range(5, 40)) * time.Millisecond
		wg.Add(1)
		go func() {
			defer wg.Done()
			time.Sleep(start)
			conn := w.NewConn(node, kit.TransportOpts{Protocol: s.proto})
			optsOf.Store(conn.Client, s.positioned)
			s.conns = append(s.conns, conn)
			conn.Connect(nil)
			id := conn.Subscribe(&protocol.SubscribeRequest{Channel: ch, Delta: "fossil"})
			if !(s.positioned && s.recoverRun) {
				return
			}
			time.Sleep(live)
			f, ok := conn.PollReply(id, time.Second)
			if !ok || f.Reply.Subscribe == nil {
				return
			}
			// position the client knows: last offset it received
			pos, epoch := f.Reply.Subscribe.Offset, f.Reply.Subscribe.Epoch
			for _, fr := range conn.T.Frames() {
				if fr.Push != nil && fr.Push.Pub != nil && fr.Push.Channel == ch && fr.Push.Pub.Offset > pos {
					pos = fr.Push.Pub.Offset
				}
			}
			_ = conn.CloseFn()
			time.Sleep(away)
			conn2 := w.NewConn(node, kit.TransportOpts{Protocol: s.proto})
			optsOf.Store(conn2.Client, true)
			s.conns = append(s.conns, conn2)
			conn2.Connect(nil)
			conn2.Subscribe(&protocol.SubscribeRequest{Channel: ch, Delta: "fossil", Recover: true, Offset: pos, Epoch: epoch})
		}()
	}
	for p, np := 0, r.Range(1, 2); p < np; p++ {
		k := r.Range(6, 40)
		gaps := make([]time.Duration, k)
		for i := range gaps {
			gaps[i] = time.Duration(r.Range(0, 10)) * time.Millisecond
		}
		wg.Add(1)
		go func() {
			defer wg.Done()
			for _, g := range gaps {
				time.Sleep(g)
				publish()
			}
		}()
	}
	wg.Wait()
	fb.Flush()
	time.Sleep(6 * time.Second)
	w.Settle()

	sig := fmt.Sprintf("stream h%v k%v f%s b%v", withHistory, keepLatest, faultMode, gen.binary)
	for si, s := range subs {
		// what the logical client holds survives a reconnect: an SDK keeps the last
		// payload of a subscription and a successful recovery continues from it
		h := &holder{}
		for _, conn := range s.conns {
			jsonProto := s.proto == centrifuge.ProtocolTypeJSON
			deltas, fulls := 0, 0
			check := func(p *protocol.Publication, via string) bool {
				out, problem := h.apply(p, jsonProto)
				detail := map[string]any{"subscriber": si, "positioned": s.positioned, "proto": s.proto, "history": withHistory, "keep_latest": keepLatest, "fault_mode": faultMode, "via": via, "offset": p.Offset, "delta": p.Delta}
				if problem != "" {
					c.Violation("c14-"+problem, fmt.Sprintf("subscriber %d (%s, positioned=%v): %s at offset %d via %s", si, s.proto, s.positioned, problem, p.Offset, via), detail)
					return false
				}
				id := idOf(out, gen.binary)
				want, ok := log.get(id)
				if !ok || !bytes.Equal(want, out) {
					c.Violation("c14-reconstructed-payload-differs-from-published", fmt.Sprintf("subscriber %d (%s, positioned=%v): applying the publication at offset %d (delta=%v, via %s) yields %d bytes that are not a published payload (id %q)", si, s.proto, s.positioned, p.Offset, p.Delta, via, len(out), id), detail)
					return false
				}
				if p.Delta {
					deltas++
				} else {
					fulls++
				}
				return true
			}
			ok := true
			for _, f := range conn.T.Frames() {
				if !ok {
					break
				}
				if f.Reply != nil && f.Reply.Subscribe != nil {
					if !f.Reply.Subscribe.Recovered {
						*h = holder{}
					}
					if !f.Reply.Subscribe.Delta {
						c.Inconclusive("delta was not negotiated")
						ok = false
						break
					}
					for _, p := range f.Reply.Subscribe.Publications {
						if ok = check(p, "recovered"); !ok {
							break
						}
						c.Count("recovered_publications_checked", 1)
					}
					continue
				}
				if f.Push != nil && f.Push.Pub != nil && f.Push.Channel == ch {
					ok = check(f.Push.Pub, "live")
				}
			}
			c.Count("stream_deltas_applied", deltas)
			c.Count("stream_full_payloads", fulls)
			if faultMode != "none" {
				c.Count("stream_deltas_applied_under_faults", deltas)
			}
			if keepLatest && !s.positioned {
				c.Count("nonpositioned_medium_deltas", deltas)
			}
			sig += fmt.Sprintf("|%v:%s:%d:%d", s.positioned, s.proto, bucket(deltas), bucket(fulls))
			_ = conn.CloseFn()
		}
	}
	c.Nontrivial(sig)
	if c.Index < 20 {
		c.Sample(map[string]any{"scenario": "stream", "history": withHistory, "keep_latest": keepLatest, "fault_mode": faultMode, "binary_payloads": gen.binary, "publishes": seq.Load()})
	}
	w.Shutdown()
}

func bucket(n int) int {
	switch {
	case n == 0:
		return 0
	case n < 5:
		return 1
	}
	return 2
}

// mapCase: a map subscription with delta negotiated; per key, state entries and
// stream/live publications must reconstruct the published value of that key.
func mapCase(c *kit.Case) {
	r := c.R
	w := kit.NewWorld(c)
	const ch = "c14:m"
	log := &pubLog{byID: map[string][]byte{}}
	chOpts := centrifuge.MapChannelOptions{Mode: centrifuge.MapModePersistent, StreamSize: 500, StreamTTL: time.Minute, MinPageSize: 1, DefaultPageSize: 2, MaxPageSize: 1000}
	node, _ := w.NewNode(centrifuge.Config{
		ClientStaleCloseDelay: time.Hour,
		Map:                   centrifuge.MapConfig{GetMapChannelOptions: func(string) centrifuge.MapChannelOptions { return chOpts }},
	}, func(n *centrifuge.Node) {
		n.OnConnecting(func(context.Context, centrifuge.ConnectEvent) (centrifuge.ConnectReply, error) {
			return kit.Creds("u"), nil
		})
		n.OnConnect(func(cl *centrifuge.Client) {
			cl.OnSubscribe(func(e centrifuge.SubscribeEvent, cb centrifuge.SubscribeCallback) {
				cb(centrifuge.SubscribeReply{Options: centrifuge.SubscribeOptions{Type: e.Type, AllowedDeltaTypes: []centrifuge.DeltaType{centrifuge.DeltaTypeFossil}}}, nil)
			})
		})
	})
	ctx := context.Background()
	gens := map[string]*payloadGen{}
	var seq atomic.Int64
	var pubMu sync.Mutex
	nKeys := r.Range(1, 5)
	publish := func(key string) {
		pubMu.Lock()
		defer pubMu.Unlock()
		g := gens[key]
		if g == nil {
			g = &payloadGen{r: kit.NewRand(c.Seed, uint64(c.Index)*131+uint64(len(gens)))}
			gens[key] = g
		}
		id := fmt.Sprintf("m%d", seq.Add(1))
		data := g.next(id)
		log.put(id, data)
		_, _ = node.MapPublish(ctx, ch, key, centrifuge.MapPublishOptions{Data: data, UseDelta: true})
	}
	for i, n := 0, r.Range(1, 12); i < n; i++ {
		publish(fmt.Sprintf("k%d", r.Intn(nKeys)))
	}
	proto := kit.Pick(r, []centrifuge.ProtocolType{centrifuge.ProtocolTypeJSON, centrifuge.ProtocolTypeProtobuf})
	conn := w.NewConn(node, kit.TransportOpts{Protocol: proto})
	conn.Connect(nil)
	cm := mapcm.New(conn, ch, int32(r.Range(1, 4)))
	cm.Delta = "fossil"
	var wg sync.WaitGroup
	wg.Add(1)
	go func() {
		defer wg.Done()
		for i, n := 0, r.Range(4, 25); i < n; i++ {
			time.Sleep(time.Duration(1+i%4) * time.Millisecond)
			publish(fmt.Sprintf("k%d", i%nKeys))
		}
	}()
	cm.StepDelay = func(int) time.Duration { return 2 * time.Millisecond }
	cm.Subscribe()
	wg.Wait()
	for i, n := 0, r.Range(3, 15); i < n; i++ {
		publish(fmt.Sprintf("k%d", r.Intn(nKeys)))
	}
	time.Sleep(20 * time.Millisecond)
	w.Settle()
	// fold every frame per key
	jsonProto := proto == centrifuge.ProtocolTypeJSON
	holders := map[string]*holder{}
	deltas, fulls := 0, 0
	check := func(p *protocol.Publication, via string) bool {
		if p.Removed {
			delete(holders, p.Key)
			return true
		}
		h := holders[p.Key]
		if h == nil {
			h = &holder{}
			holders[p.Key] = h
		}
		out, problem := h.apply(p, jsonProto)
		detail := map[string]any{"proto": proto, "via": via, "key": p.Key, "offset": p.Offset, "delta": p.Delta, "steps": cm.Steps}
		if problem != "" {
			c.Violation("c14-map-"+problem, fmt.Sprintf("map key %s: %s at offset %d via %s", p.Key, problem, p.Offset, via), detail)
			return false
		}
		id := idOf(out, false)
		want, ok := log.get(id)
		if !ok || !bytes.Equal(want, out) {
			c.Violation("c14-map-reconstructed-value-differs-from-published", fmt.Sprintf("map key %s: applying the publication at offset %d (delta=%v, via %s) does not yield a published value (id %q)", p.Key, p.Offset, p.Delta, via, id), detail)
			return false
		}
		if p.Delta {
			deltas++
		} else {
			fulls++
		}
		return true
	}
	ok := true
	for _, f := range conn.T.Frames() {
		if !ok {
			break
		}
		if f.Reply != nil && f.Reply.Subscribe != nil {
			for _, p := range f.Reply.Subscribe.State {
				if ok = check(p, "state"); !ok {
					break
				}
			}
			for _, p := range f.Reply.Subscribe.Publications {
				if !ok {
					break
				}
				ok = check(p, "stream")
			}
			continue
		}
		if f.Push != nil && f.Push.Pub != nil && f.Push.Channel == ch {
			ok = check(f.Push.Pub, "live")
		}
	}
	c.Count("map_deltas_applied", deltas)
	c.Count("map_full_values", fulls)
	c.Nontrivial(fmt.Sprintf("map %s %d %d %d", proto, len(cm.Steps), bucket(deltas), bucket(fulls)))
	if c.Index < 20 {
		c.Sample(map[string]any{"scenario": "map", "proto": proto, "steps": cm.Steps, "deltas": deltas, "fulls": fulls})
	}
	_ = conn.CloseFn()
	w.Shutdown()
}

func TestC14(t *testing.T) {
	kit.Main(t, kit.Spec{
		ID:     "C14",
		Bubble: true,
		Rule: "3 of 5 cases: a stream channel published with delta (payloads that mostly share their bytes, sometimes unrelated / empty / binary-looking for all-Protobuf cases), with or without history, with or without the channel medium's latest-publication retention, in a third of them with publishes that do not ask for delta mixed in, 1-3 subscribers that negotiated fossil delta (JSON or Protobuf, positioned or not, optionally reconnecting with recovery), 1 of 5 with dropped / duplicated / held-back PUB/SUB deliveries; 2 of 5 cases: a map channel with delta, client following the state/stream/live protocol with concurrent writes, values tracked per key. " +
			"Oracle: the client model applies every delivered publication (fossil delta to what it holds, or replace) and the result must be byte-identical to the published payload carrying that id; a delta without a base or one that does not apply is a violation. Signature = configuration x per-subscriber (#deltas, #full payloads).",
		Assumptions: []string{"fossil-delta.Apply from the module the repository depends on is trusted", "JSON transports carry delta-negotiated data as JSON strings; published JSON payloads are never themselves JSON strings", "shared-poll keyed delivery is covered by C25"},
		Cases:       map[string]int{"quick": 1500, "thorough": 30000},
		RequireCounters: []string{"stream_deltas_applied", "stream_full_payloads", "recovered_publications_checked", "stream_deltas_applied_under_faults", "nonpositioned_medium_deltas", "map_deltas_applied", "map_full_values", "publications_without_delta_option_between_delta_ones"},
		Run: runCase,
	})
}
