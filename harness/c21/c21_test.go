// C21: Map state pagination enumerates every key exactly once (in-memory map broker half).
package c21

import (
	"fmt"
	"math"
	"sort"
	"testing"
	"testing/synctest"
	"time"

	"github.com/centrifugal/centrifuge"
	"github.com/centrifugal/centrifuge/verifx/kit"
	mm "github.com/centrifugal/centrifuge/verifx/mapmodel"
)

const ch = "board"

func genKeys(c *kit.Case, n int) []string {
	r := c.R
	seen := map[string]bool{}
	var keys []string
	add := func(k string) bool {
		if k == "" || seen[k] || len(keys) >= n {
			return false
		}
		seen[k] = true
		keys = append(keys, k)
		return true
	}
	alphabets := [][]string{
		{"a", "b", "c"},
		{"a", "b", "\x00", "\x01", "\xff"},
		{"a", "\u00e9", "e\u0301", "日", "ключ", "𝄞"}, // NFC and NFD forms of the same glyph
		{"0", "1", "9", "-", "\x00"},
	}
	for tries := 0; len(keys) < n && tries < 50*n+100; tries++ {
		switch r.Intn(10) {
		case 0, 1: // prefix chain of an existing key
			if len(keys) > 0 {
				base := kit.Pick(r, keys)
				ext := kit.Pick(r, []string{"a", "\x00", "\x00a", "\xff", "\u0301", "0"})
				if add(base + ext) {
					c.Count("prefix_keys", 1)
				}
				if len(base) > 1 && add(base[:len(base)-1]) {
					c.Count("prefix_keys", 1)
				}
			}
		case 2: // looks like an ordered cursor "score\x00key"
			add(fmt.Sprintf("%d\x00%s", r.Range(-3, 3), kit.Pick(r, []string{"a", "b", "k"})))
		default:
			al := kit.Pick(r, alphabets)
			l := r.Range(1, 4)
			k := ""
			for i := 0; i < l; i++ {
				k += kit.Pick(r, al)
			}
			add(k)
		}
	}
	for i := 0; len(keys) < n; i++ {
		add(fmt.Sprintf("k%04d", i))
	}
	for _, k := range keys {
		nul, uni := false, false
		for i := 0; i < len(k); i++ {
			if k[i] == 0 {
				nul = true
			}
			if k[i] >= 0x80 {
				uni = true
			}
		}
		if nul {
			c.Count("nul_keys", 1)
		}
		if uni {
			c.Count("non_ascii_keys", 1)
		}
	}
	return keys
}

func genScore(r *kit.Rand, mode int) int64 {
	switch mode {
	case 0: // all ties
		return 7
	case 1: // few distinct values
		return int64(r.Range(-2, 2))
	case 2: // extremes
		return kit.Pick(r, []int64{math.MinInt64, math.MinInt64 + 1, math.MaxInt64, math.MaxInt64 - 1, -1, 0, 1})
	default:
		return int64(r.Uint64())
	}
}

type run struct {
	c         *kit.Case
	env       *mm.Env
	m         *mm.Chan
	detail    map[string]any
	seq       int
	scoreMode int
	pool      []string // keys removed by the between-pages part (re-used for adds)
	ttlBudget int      // how many more "cursor key expires" mutations this case may run
}

// step executes op against the broker and the reference model.
func (x *run) step(prefix string, op mm.Op) bool {
	res := mm.Exec(x.env.Broker, ch, op, "")
	if _, mis := x.m.Step(op, time.Now().UnixMilli(), res); mis != nil {
		x.fail(prefix+mis.Class, mis.Msg)
		return false
	}
	return true
}

func (x *run) fail(cls, msg string) {
	x.c.Violation(cls, mm.Clean(msg), x.detail)
}

// paginate reads the whole state with the page sizes given by next() and checks the C21 oracle.
func (x *run) paginate(asc bool, sizeLabel string, next func() int) bool {
	c, m := x.c, x.m
	want := m.SortedKeys(asc)
	var got []mm.PubView
	cursor := ""
	seenCur := map[string]bool{}
	byteOrder := true
	for page := 0; ; page++ {
		if page > len(want)+2 {
			x.fail("pagination-does-not-terminate", fmt.Sprintf("asc=%v sizes=%s: more than %d pages over %d keys", asc, sizeLabel, page, len(want)))
			return false
		}
		limit := next()
		res := mm.Exec(x.env.Broker, ch, mm.Op{Kind: "read_state", Limit: limit, Asc: asc}, cursor)
		c.Count("pages_read", 1)
		if res.Err != "" {
			x.fail("unexpected-error", fmt.Sprintf("ReadState(limit=%d cursor=%q asc=%v): %s", limit, cursor, asc, res.Err))
			return false
		}
		if m.Epoch != "" && res.Pos != (mm.Pos{Offset: m.Top, Epoch: m.Epoch}) {
			x.fail("page-position-differs", fmt.Sprintf("page %d reports position %+v, state is at %d/%s", page, res.Pos, m.Top, m.Epoch))
			return false
		}
		if limit > 0 && len(res.Pubs) > limit {
			x.fail("page-larger-than-limit", fmt.Sprintf("ReadState(limit=%d) returned %d entries", limit, len(res.Pubs)))
			return false
		}
		if len(res.Pubs) == 0 && (res.Cursor != "" || len(got) < len(want)) {
			x.fail("pagination-no-progress", fmt.Sprintf("asc=%v sizes=%s: empty page %d (cursor in %q, cursor out %q) after %d of %d keys", asc, sizeLabel, page, cursor, res.Cursor, len(got), len(want)))
			return false
		}
		got = append(got, res.Pubs...)
		if res.Cursor == "" {
			break
		}
		if res.Cursor == cursor || seenCur[res.Cursor] {
			x.fail("cursor-does-not-advance", fmt.Sprintf("asc=%v sizes=%s: page %d returned cursor %q which was already used", asc, sizeLabel, page, res.Cursor))
			return false
		}
		seenCur[res.Cursor] = true
		cursor = res.Cursor
	}
	// every key exactly once ...
	count := map[string]int{}
	for i, p := range got {
		count[p.Key]++
		if i > 0 && got[i-1].Key >= p.Key {
			byteOrder = false
		}
	}
	for _, k := range want {
		if count[k] == 0 {
			x.fail("pagination-skips-key", fmt.Sprintf("asc=%v sizes=%s: key %q (score %d) was never returned; %d entries returned for %d keys", asc, sizeLabel, k, m.State[k].Score, len(got), len(want)))
			return false
		}
	}
	for k, n := range count {
		if _, ok := m.State[k]; !ok {
			x.fail("pagination-returns-unknown-key", fmt.Sprintf("asc=%v sizes=%s: key %q is not in the state", asc, sizeLabel, k))
			return false
		}
		if n > 1 {
			x.fail("pagination-duplicates-key", fmt.Sprintf("asc=%v sizes=%s: key %q (score %d) returned %d times", asc, sizeLabel, k, m.State[k].Score, n))
			return false
		}
	}
	// ... with exactly the stored entry ...
	for _, p := range got {
		if p != m.View(p.Key) {
			x.fail("page-entry-differs", fmt.Sprintf("entry %+v differs from the stored one %+v", p, m.View(p.Key)))
			return false
		}
	}
	// ... in the channel's sort order (ordered channels only: unordered channels promise no order)
	if m.Cfg.Ordered {
		for i, k := range want {
			if got[i].Key != k {
				x.fail("pagination-order-differs", fmt.Sprintf("asc=%v sizes=%s: position %d is key %q (score %d), sort order says %q (score %d)", asc, sizeLabel, i, got[i].Key, got[i].Score, k, m.State[k].Score))
				return false
			}
		}
	} else if len(got) > 1 {
		if byteOrder {
			c.Count("unordered_pages_in_byte_order", 1)
		} else {
			c.Count("unordered_pages_other_order", 1)
		}
	}
	c.Eval(1)
	return true
}

func fixed(n int) func() int { return func() int { return n } }

// ---------------------------------------------------------------------------------------------
// Pagination while the state changes BETWEEN two page requests.
//
// Oracle (the part of the statement that survives a changing state, see C22: "all interleavings of
// publishes, removes, key expirations ... with the client's page requests, for all page sizes"):
//   - a key that exists from before the first page request until after the last one and was at most
//     updated is returned at least once, and exactly once when its place in the enumeration order
//     never changed (value updates, and on ordered channels updates that keep the score);
//   - nothing is returned that is not in the state at the time of the page request, with exactly the
//     entry stored at that time (page requests and modifications alternate strictly, nothing runs
//     concurrently);
//   - keys added, removed, expired or re-added between the first and the last page request may or may
//     not appear; an ordered key whose score update carried it ACROSS the cursor of that moment may be
//     seen twice (it was returned, then moved behind the cursor) or not at all (it was still to come and
//     moved in front of the cursor: the update itself is what a subscriber gets from the stream);
//   - every page request is answered at the model's position, with at most Limit entries, a page of an
//     ordered channel is sorted, the pagination ends.

type pos struct {
	score int64
	key   string
}

// sortsBefore: a is enumerated strictly before b. Unordered channels are aimed at in byte order of
// the keys (what the memory broker does; only the aim of a mutation depends on it, never a verdict).
func sortsBefore(a, b pos, ordered, asc bool) bool {
	if !ordered {
		return a.key < b.key
	}
	if a.score != b.score {
		if asc {
			return a.score < b.score
		}
		return a.score > b.score
	}
	if asc {
		return a.key < b.key
	}
	return a.key > b.key
}

type between struct {
	asc   bool
	label string
	start map[string]bool   // keys in the state before the first page request
	open  map[string]string // key -> why its appearance is left open
	moved map[string]bool   // score changed (ordered), never across the cursor
	count map[string]int
	adds  int
	log   []string
	pages []pageRec // the last pages read
}

type pageRec struct {
	page, limit int
	cursor      string
	pubs        []mm.PubView
}

func (st *between) record(page, limit int, cursor string, pubs []mm.PubView) {
	if len(st.pages) >= 8 {
		st.pages = append(st.pages[:0], st.pages[1:]...)
	}
	st.pages = append(st.pages, pageRec{page, limit, cursor, pubs})
}

func (st *between) lastLog(n int) []string {
	if len(st.log) > n {
		return st.log[len(st.log)-n:]
	}
	return st.log
}

func (x *run) failB(st *between, cls, msg string) {
	d := map[string]any{}
	for k, v := range x.detail {
		d[k] = v
	}
	var pages []string
	for _, pr := range st.pages {
		desc := fmt.Sprintf("page %d (limit %d, cursor %q):", pr.page, pr.limit, pr.cursor)
		for _, p := range pr.pubs {
			desc += fmt.Sprintf(" (%d,%q)", p.Score, p.Key)
		}
		pages = append(pages, mm.Clean(desc))
	}
	muts := make([]string, len(st.log))
	for i, l := range st.log {
		muts[i] = mm.Clean(l)
	}
	d["between_pages"] = map[string]any{"asc": st.asc, "page_sizes": st.label, "mutations": muts, "last_pages": pages, "keys_at_start": len(st.start)}
	x.c.Violation(cls, mm.Clean(msg), d)
}

// refreshAll extends the TTL of every key but `except` without changing any entry
// (KeyModeIfNew + RefreshTTLOnSuppress: the publish is suppressed, only the deadline moves).
func (x *run) refreshAll(except string) bool {
	if x.m.Cfg.KeyTTLms == 0 {
		return true
	}
	for _, k := range x.m.SortedKeys(false) {
		if k == except {
			continue
		}
		if !x.step("mutation-", mm.Op{Kind: "publish", Key: k, Data: "keepalive", KeyMode: "if_new", Refresh: true}) {
			return false
		}
	}
	return true
}

// restore brings the state back to `total` keys (re-adding removed keys first) between two paginations.
func (x *run) restore(total int) bool {
	m, r := x.m, x.c.R
	for len(m.State) < total {
		var k string
		if len(x.pool) > 0 {
			i := r.Intn(len(x.pool))
			k = x.pool[i]
			x.pool = append(x.pool[:i], x.pool[i+1:]...)
		} else {
			x.seq++
			k = fmt.Sprintf("r%04d", x.seq)
		}
		if _, ok := m.State[k]; ok {
			continue
		}
		x.seq++
		op := mm.Op{Kind: "publish", Key: k, Data: fmt.Sprintf("r%d", x.seq)}
		if m.Cfg.Ordered {
			op.Score = genScore(r, x.scoreMode)
		}
		if !x.step("mutation-", op) {
			return false
		}
	}
	for len(m.State) > total {
		keys := m.SortedKeys(false)
		k := keys[r.Intn(len(keys))]
		if !x.step("mutation-", mm.Op{Kind: "remove", Key: k}) {
			return false
		}
		x.pool = append(x.pool, k)
	}
	if len(x.pool) > 64 {
		x.pool = append([]string(nil), x.pool[len(x.pool)-64:]...)
	}
	return true
}

// addCandidates proposes new entries around the cursor position: immediate successor of the cursor
// key, extensions, prefix, neighbours by last byte, far ends, cursor-shaped keys, formerly removed keys;
// for ordered channels combined with the cursor's score, its neighbours, the extremes and random scores.
func (x *run) addCandidates(cur pos) []pos {
	m, r := x.m, x.c.R
	x.seq++
	base := cur.key
	ks := []string{base + "\x00", base + "\x00\x00", base + "a", base + "\xff",
		fmt.Sprintf("zz%04d", x.seq), fmt.Sprintf("\x00%04d", x.seq), fmt.Sprintf("%d\x00%s", r.Range(-3, 3), base)}
	if len(base) > 1 {
		ks = append(ks, base[:len(base)-1])
	}
	if b := []byte(base); len(b) > 0 {
		if b[len(b)-1] > 0 {
			b2 := append([]byte(nil), b...)
			b2[len(b2)-1]--
			ks = append(ks, string(b2), string(b2)+"\xff")
		}
		if b[len(b)-1] < 0xff {
			b2 := append([]byte(nil), b...)
			b2[len(b2)-1]++
			ks = append(ks, string(b2))
		}
	}
	for i := 0; i < 3 && len(x.pool) > 0; i++ {
		ks = append(ks, kit.Pick(r, x.pool))
	}
	var out []pos
	seen := map[string]bool{}
	for _, k := range ks {
		if _, ok := m.State[k]; ok || k == "" || seen[k] {
			continue
		}
		seen[k] = true
		if !m.Cfg.Ordered {
			out = append(out, pos{0, k})
			continue
		}
		scores := []int64{cur.score, math.MinInt64, math.MaxInt64, genScore(r, x.scoreMode), genScore(r, 3)}
		if cur.score < math.MaxInt64 {
			scores = append(scores, cur.score+1)
		}
		if cur.score > math.MinInt64 {
			scores = append(scores, cur.score-1)
		}
		for _, sc := range scores {
			out = append(out, pos{sc, k})
		}
	}
	return out
}

var mutationKinds = []string{
	"removed_cursor_key", "removed_cursor_key", "removed_next_page_first_key", "removed_returned_key",
	"readded_cursor_key", "added_before_cursor", "added_at_cursor", "added_after_cursor",
	"updated_value", "moved_score", "cursor_key_expired",
}

// mutate changes the state after a page whose last entry is `last` (the cursor position) and before
// the next page request. done=false: no mutation was possible here.
func (x *run) mutate(st *between, asc bool, last mm.PubView) (ok, done bool) {
	c, m, r := x.c, x.m, x.c.R
	ord := m.Cfg.Ordered
	dirAsc := asc || !ord
	suffix := "_unordered"
	if ord {
		suffix = "_ordered"
	}
	cur := pos{last.Score, last.Key}
	posOf := func(k string) pos { return pos{m.State[k].Score, k} }
	atOrBefore := func(p pos) bool { return !sortsBefore(cur, p, ord, dirAsc) }
	keys := m.SortedKeys(asc) // unordered: byte order
	idx := sort.Search(len(keys), func(i int) bool { return sortsBefore(cur, posOf(keys[i]), ord, dirAsc) })
	returned, pending := keys[:idx], keys[idx:]
	_, curExists := m.State[cur.key]

	note := func(kind, desc string) {
		c.Count("between_pages_"+kind, 1)
		c.Count("between_pages_"+kind+suffix, 1)
		st.log = append(st.log, fmt.Sprintf("after cursor (%d,%q): %s", cur.score, cur.key, desc))
	}
	remove := func(k, why string) bool {
		if !x.step("mutation-", mm.Op{Kind: "remove", Key: k}) {
			return false
		}
		st.open[k] = why
		x.pool = append(x.pool, k)
		return true
	}
	publish := func(k string, score int64) bool {
		x.seq++
		op := mm.Op{Kind: "publish", Key: k, Data: fmt.Sprintf("b%d", x.seq)}
		if ord {
			op.Score = score
		}
		return x.step("mutation-", op)
	}

	for try := 0; try < 8; try++ {
		kind := kit.Pick(r, mutationKinds)
		switch kind {
		case "removed_cursor_key":
			if !curExists {
				continue
			}
			if !remove(cur.key, "removed") {
				return false, false
			}
			note(kind, "removed the cursor key")
			return true, true

		case "removed_next_page_first_key":
			if len(pending) == 0 {
				continue
			}
			k := pending[0]
			if !remove(k, "removed") {
				return false, false
			}
			note(kind, fmt.Sprintf("removed %q, the first key after the cursor", k))
			return true, true

		case "removed_returned_key":
			var cands []string
			for _, k := range returned {
				if k != cur.key && st.count[k] > 0 {
					cands = append(cands, k)
				}
			}
			if len(cands) == 0 {
				continue
			}
			k := kit.Pick(r, cands)
			if !remove(k, "removed") {
				return false, false
			}
			note(kind, fmt.Sprintf("removed %q, returned by an earlier page", k))
			return true, true

		case "readded_cursor_key":
			if !curExists {
				continue
			}
			sc := cur.score
			if ord && r.Chance(1, 3) {
				sc = genScore(r, x.scoreMode)
			}
			if !remove(cur.key, "removed and added again") || !publish(cur.key, sc) {
				return false, false
			}
			st.adds++
			note(kind, fmt.Sprintf("removed the cursor key and added it again with score %d", sc))
			return true, true

		case "added_before_cursor", "added_at_cursor", "added_after_cursor":
			var cands []pos
			for _, p := range x.addCandidates(cur) {
				fits := false
				switch kind {
				case "added_before_cursor":
					fits = sortsBefore(p, cur, ord, dirAsc)
				case "added_after_cursor":
					fits = sortsBefore(cur, p, ord, dirAsc)
				default: // ordered: tie with the cursor's score; unordered: the immediate successor of the cursor key
					fits = (ord && p.score == cur.score) || (!ord && p.key == cur.key+"\x00")
				}
				if fits {
					cands = append(cands, p)
				}
			}
			if len(cands) == 0 {
				continue
			}
			p := kit.Pick(r, cands)
			if !publish(p.key, p.score) {
				return false, false
			}
			st.adds++
			if st.start[p.key] {
				st.open[p.key] = "removed and added again"
			} else {
				st.open[p.key] = "added"
			}
			side := "before"
			if sortsBefore(cur, p, ord, dirAsc) {
				side = "after"
			}
			note(kind, fmt.Sprintf("added (%d,%q), which sorts %s the cursor", p.score, p.key, side))
			return true, true

		case "updated_value":
			var k, what string
			switch t := r.Intn(4); {
			case t == 0 && curExists:
				k, what = cur.key, "cursor_key"
			case t == 1 && len(returned) > 0:
				k, what = kit.Pick(r, returned), "returned_key"
			case t == 2 && len(pending) > 0:
				k, what = kit.Pick(r, pending), "pending_key"
			case t == 3 && len(pending) > 0:
				k, what = pending[0], "pending_key"
			default:
				continue
			}
			if !publish(k, m.State[k].Score) {
				return false, false
			}
			c.Count("between_pages_updated_"+what, 1)
			note(kind, fmt.Sprintf("new value for %s %q (same position)", what, k))
			return true, true

		case "moved_score":
			if !ord || len(keys) == 0 {
				continue
			}
			var k string
			switch t := r.Intn(4); {
			case t == 0 && curExists:
				k = cur.key
			case t == 1 && len(returned) > 0:
				k = kit.Pick(r, returned)
			case t == 2 && len(pending) > 0:
				k = pending[0]
			default:
				k = kit.Pick(r, keys)
			}
			scores := []int64{cur.score, math.MinInt64, math.MaxInt64, genScore(r, x.scoreMode), genScore(r, 3)}
			if cur.score < math.MaxInt64 {
				scores = append(scores, cur.score+1)
			}
			if cur.score > math.MinInt64 {
				scores = append(scores, cur.score-1)
			}
			old := posOf(k)
			nsc := kit.Pick(r, scores)
			if nsc == old.score {
				continue
			}
			wasRet, isRet := atOrBefore(old), atOrBefore(pos{nsc, k})
			if !publish(k, nsc) {
				return false, false
			}
			how := ""
			switch {
			case wasRet && !isRet:
				how = "moved_returned_key_behind_cursor"
				st.open[k] = "moved across the cursor"
			case !wasRet && isRet:
				how = "moved_pending_key_in_front_of_cursor"
				st.open[k] = "moved across the cursor"
			default:
				how = "moved_key_on_its_side_of_cursor"
				st.moved[k] = true
			}
			c.Count("between_pages_"+how, 1)
			note(kind, fmt.Sprintf("score of %q %d -> %d (%s)", k, old.score, nsc, how))
			return true, true

		case "cursor_key_expired":
			if m.Cfg.KeyTTLms == 0 || x.ttlBudget <= 0 || !curExists {
				continue
			}
			x.ttlBudget--
			// every other key gets a deadline 5 s later than the cursor key's, then the clock
			// moves one sweep period (1 s) past the cursor key's deadline
			if !x.refreshAll("") {
				return false, false
			}
			time.Sleep(5 * time.Second)
			if !x.refreshAll(cur.key) {
				return false, false
			}
			wait := m.State[cur.key].ExpireAt + 1001 - time.Now().UnixMilli()
			time.Sleep(time.Duration(wait) * time.Millisecond)
			synctest.Wait()
			expired := false
			for _, k := range m.Due(time.Now().UnixMilli()) {
				res := mm.Exec(x.env.Broker, ch, mm.Op{Kind: "read_state", Key: k, Limit: -1}, "")
				if res.Err == "" && len(res.Pubs) == 0 {
					m.Expire(k)
					st.open[k] = "expired"
					x.pool = append(x.pool, k)
					if k == cur.key {
						expired = true
					} else {
						c.Count("between_pages_other_key_expired", 1)
					}
				}
			}
			if !x.refreshAll("") {
				return false, false
			}
			if !expired {
				c.Count("between_pages_cursor_key_not_expired_in_time", 1)
				continue
			}
			note(kind, "the cursor key expired by TTL")
			return true, true
		}
	}
	return true, false
}

// paginateChanging reads the whole state page by page and modifies it between page requests.
func (x *run) paginateChanging(asc bool, label string, next func() int, estPages int) bool {
	c, m, r := x.c, x.m, x.c.R
	ord := m.Cfg.Ordered
	st := &between{asc: asc, label: label, start: map[string]bool{}, open: map[string]string{}, moved: map[string]bool{}, count: map[string]int{}}
	for k := range m.State {
		st.start[k] = true
	}
	n0 := len(m.State)
	bounds := max(1, estPages-1)
	forced := r.Intn(bounds)
	cursor := ""
	seenCur := map[string]bool{}
	muts := 0
	for page := 0; ; page++ {
		if page > n0+st.adds+2 {
			x.failB(st, "between-pages-pagination-does-not-terminate", fmt.Sprintf("asc=%v sizes=%s: more than %d pages over %d keys and %d additions", asc, label, page, n0, st.adds))
			return false
		}
		limit := next()
		res := mm.Exec(x.env.Broker, ch, mm.Op{Kind: "read_state", Limit: limit, Asc: asc}, cursor)
		c.Count("pages_read", 1)
		c.Count("pages_read_while_state_changes", 1)
		if res.Err != "" {
			x.failB(st, "unexpected-error", fmt.Sprintf("ReadState(limit=%d cursor=%q asc=%v): %s", limit, cursor, asc, res.Err))
			return false
		}
		if res.Pos != (mm.Pos{Offset: m.Top, Epoch: m.Epoch}) {
			x.failB(st, "page-position-differs", fmt.Sprintf("page %d reports position %+v, state is at %d/%s", page, res.Pos, m.Top, m.Epoch))
			return false
		}
		if limit > 0 && len(res.Pubs) > limit {
			x.failB(st, "page-larger-than-limit", fmt.Sprintf("ReadState(limit=%d) returned %d entries", limit, len(res.Pubs)))
			return false
		}
		if len(res.Pubs) == 0 && res.Cursor != "" {
			x.failB(st, "between-pages-no-progress", fmt.Sprintf("asc=%v sizes=%s: empty page %d (cursor in %q) with a cursor %q for a next page", asc, label, page, cursor, res.Cursor))
			return false
		}
		st.record(page, limit, cursor, res.Pubs)
		for i, p := range res.Pubs {
			if _, ok := m.State[p.Key]; !ok {
				if _, wasOpen := st.open[p.Key]; !st.start[p.Key] && !wasOpen {
					x.failB(st, "between-pages-returns-unknown-key", fmt.Sprintf("asc=%v sizes=%s: page %d returned key %q which never existed", asc, label, page, p.Key))
				} else {
					x.failB(st, "between-pages-returns-key-removed-before-the-request", fmt.Sprintf("asc=%v sizes=%s: page %d returned key %q which was %s before this page was requested", asc, label, page, p.Key, st.open[p.Key]))
				}
				return false
			}
			if p != m.View(p.Key) {
				x.failB(st, "between-pages-entry-not-current", fmt.Sprintf("page %d entry %+v differs from the entry stored when the page was requested %+v", page, p, m.View(p.Key)))
				return false
			}
			if ord && i > 0 && !sortsBefore(pos{res.Pubs[i-1].Score, res.Pubs[i-1].Key}, pos{p.Score, p.Key}, true, asc) {
				x.failB(st, "between-pages-page-order-differs", fmt.Sprintf("asc=%v: page %d has (%d,%q) before (%d,%q)", asc, page, res.Pubs[i-1].Score, res.Pubs[i-1].Key, p.Score, p.Key))
				return false
			}
			st.count[p.Key]++
		}
		if res.Cursor == "" {
			break
		}
		if res.Cursor == cursor || seenCur[res.Cursor] {
			x.failB(st, "between-pages-cursor-does-not-advance", fmt.Sprintf("asc=%v sizes=%s: page %d returned cursor %q which was already used", asc, label, page, res.Cursor))
			return false
		}
		seenCur[res.Cursor] = true
		cursor = res.Cursor
		if page == forced || r.Chance(3, bounds+2) {
			ok, done := x.mutate(st, asc, res.Pubs[len(res.Pubs)-1])
			if !ok {
				return false
			}
			if done {
				muts++
			}
		}
	}

	// verdict over the keys that were in the state before the first page request
	startKeys := make([]string, 0, len(st.start))
	for k := range st.start {
		startKeys = append(startKeys, k)
	}
	sort.Strings(startKeys)
	stable := 0
	for _, k := range startKeys {
		n := st.count[k]
		if why, isOpen := st.open[k]; isOpen {
			if why == "moved across the cursor" {
				switch {
				case n == 0:
					c.Count("moved_across_cursor_not_seen", 1)
				case n == 1:
					c.Count("moved_across_cursor_seen_once", 1)
				default:
					c.Count("moved_across_cursor_seen_twice", 1)
				}
			}
			continue
		}
		if _, ok := m.State[k]; !ok {
			x.failB(st, "harness-bug", fmt.Sprintf("key %q vanished from the model without a recorded reason", k))
			return false
		}
		if n == 0 {
			x.failB(st, "between-pages-skips-key-that-existed-throughout", fmt.Sprintf("asc=%v sizes=%s: key %q (score %d) was in the state before the first page request and still is, it was never removed, and no page returned it (%d mutations between pages, the last: %v)", asc, label, k, m.State[k].Score, len(st.log), st.lastLog(3)))
			return false
		}
		if n > 1 && !st.moved[k] {
			x.failB(st, "between-pages-duplicates-key-that-did-not-move", fmt.Sprintf("asc=%v sizes=%s: key %q (score %d) kept its position and was returned %d times (%d mutations between pages, the last: %v)", asc, label, k, m.State[k].Score, n, len(st.log), st.lastLog(3)))
			return false
		}
		if n > 1 {
			c.Count("moved_on_its_side_seen_twice", 1)
		}
		stable++
	}
	if muts > 0 {
		c.Count("paginations_with_mutations", 1)
		if stable > 0 {
			c.Count("paginations_with_mutations_and_stable_keys", 1)
		}
		c.Eval(1)
	} else {
		c.Count("paginations_without_mutation", 1)
	}
	return true
}

func runCase(c *kit.Case) {
	r := c.R
	cfg := mm.Cfg{Mode: r.Range(1, 3), Ordered: r.Chance(3, 5)}
	if cfg.Mode != mm.ModePersistent {
		cfg.KeyTTLms = 3600_000
		if r.Chance(2, 3) {
			cfg.KeyTTLms = 20_000 // short enough for several "cursor key expires between pages" rounds
		}
	}
	if cfg.HasStream() {
		cfg.StreamSize = kit.Pick(r, []int{1, 10, 1000})
	}
	var n int
	switch x := r.Intn(100); {
	case x < 5:
		n = 0
	case x < 40:
		n = r.Range(1, 10)
	case x < 80:
		n = r.Range(11, 60)
	default:
		n = r.Range(61, 200)
	}
	scoreMode := r.Intn(4)
	keys := genKeys(c, n)

	env, err := mm.NewEnv(func(string) centrifuge.MapChannelOptions { return mm.ChannelOptions(cfg, 0, 0) })
	if err != nil {
		c.Inconclusive("cannot create broker: " + err.Error())
		return
	}
	defer func() {
		env.Close()
		synctest.Wait()
	}()
	m := mm.NewChan(cfg)
	x := &run{c: c, env: env, m: m, scoreMode: scoreMode}
	x.detail = map[string]any{"cfg": cfg, "n": n, "score_mode": scoreMode}

	// populate (with churn: re-scored, removed and re-added keys) through the public API
	apply := func(op mm.Op) bool { return x.step("populate-", op) }
	pub := func(k string) bool {
		x.seq++
		seq := x.seq
		op := mm.Op{Kind: "publish", Key: k, Data: fmt.Sprintf("d%d", seq)}
		if cfg.Ordered {
			op.Score = genScore(r, scoreMode)
		}
		if r.Chance(1, 10) {
			op.Tags = map[string]string{"t": fmt.Sprint(seq)}
		}
		return apply(op)
	}
	kit.Shuffle(r, keys)
	half := len(keys)
	if r.Bool() {
		half = len(keys) / 2
	}
	for _, k := range keys[:half] {
		if !pub(k) {
			return
		}
	}
	churn := r.Chance(2, 3)
	if churn && half > 0 {
		// read once in between so that the broker's sorted-key cache exists before the churn
		mm.Exec(env.Broker, ch, mm.Op{Kind: "read_state", Limit: 3, Asc: r.Bool()}, "")
		for _, k := range keys[:half] {
			switch r.Intn(6) {
			case 0:
				if !pub(k) { // new score
					return
				}
			case 1:
				if !apply(mm.Op{Kind: "remove", Key: k}) {
					return
				}
				if r.Bool() && !pub(k) {
					return
				}
			}
		}
		c.Count("after_churn", 1)
	}
	for _, k := range keys[half:] {
		if !pub(k) {
			return
		}
	}
	if m.Epoch == "" { // nothing was published: the first read creates the channel
		res := mm.Exec(env.Broker, ch, mm.Op{Kind: "read_state", Limit: -1}, "")
		m.Epoch = res.Pos.Epoch
	}
	time.Sleep(time.Duration(r.Range(0, 5000)) * time.Millisecond) // well inside the 1 h TTL
	total := len(m.State)

	// describe the state
	if cfg.Ordered {
		byScore := map[int64]int{}
		ext := 0
		for _, e := range m.State {
			byScore[e.Score]++
			if e.Score == math.MinInt64 || e.Score == math.MaxInt64 {
				ext++
			}
		}
		ties := 0
		for _, cnt := range byScore {
			if cnt > 1 {
				ties += cnt
			}
		}
		if ties > 0 {
			c.Count("ordered_ties", 1)
		}
		if ext > 0 {
			c.Count("extreme_scores", 1)
		}
		neg := false
		for s := range byScore {
			if s < 0 {
				neg = true
			}
		}
		if neg {
			c.Count("negative_scores", 1)
		}
		c.Count("ordered_channels", 1)
	} else {
		c.Count("unordered_channels", 1)
	}
	if total == 0 {
		c.Count("empty_state", 1)
	}
	ents := make([]mm.PubView, 0, 8)
	for _, k := range m.SortedKeys(false) {
		if len(ents) < 8 {
			ents = append(ents, m.View(k))
		}
	}
	x.detail["state_head_desc"] = ents
	x.detail["keys_in_state"] = total

	dirs := []bool{false, true}
	// every page size 1..n+1, then -1; directions alternate so that the broker re-sorts
	for size := 1; size <= total+1; size++ {
		for _, asc := range dirs {
			if !x.paginate(asc, fmt.Sprint(size), fixed(size)) {
				return
			}
		}
	}
	for _, asc := range dirs {
		if !x.paginate(asc, "-1", fixed(-1)) {
			return
		}
		// Limit 0: position only
		res := mm.Exec(env.Broker, ch, mm.Op{Kind: "read_state", Limit: 0, Asc: asc}, "")
		if res.Err != "" || len(res.Pubs) != 0 || res.Cursor != "" || res.Pos != (mm.Pos{Offset: m.Top, Epoch: m.Epoch}) {
			x.fail("limit-zero-result", fmt.Sprintf("ReadState(Limit=0) returned %+v, want only the position %d/%s", res, m.Top, m.Epoch))
			return
		}
		// mixed page sizes along one pagination
		for k := 0; k < 3; k++ {
			if !x.paginate(asc, "mixed", func() int { return r.Range(1, max(2, total/3+1)) }) {
				return
			}
		}
	}
	c.Count("limit_zero_reads", 2)

	// single-key reads: exactly the stored entry; nothing for absent keys
	probe := append([]string(nil), keys...)
	kit.Shuffle(r, probe)
	if len(probe) > 60 {
		probe = probe[:60]
	}
	for _, k := range keys[:min(len(keys), 10)] {
		probe = append(probe, k+"\x00", k+"a", "zz"+k)
		if len(k) > 1 {
			probe = append(probe, k[:len(k)-1])
		}
	}
	for _, k := range probe {
		op := mm.Op{Kind: "read_state", Key: k, Limit: kit.Pick(r, []int{-1, 0, 1, 5}), Asc: r.Bool()}
		res := mm.Exec(env.Broker, ch, op, "")
		_, present := m.State[k]
		bad := res.Err != "" || res.Cursor != ""
		if present {
			bad = bad || len(res.Pubs) != 1 || res.Pubs[0] != m.View(k)
			c.Count("single_key_reads", 1)
		} else {
			bad = bad || len(res.Pubs) != 0
			c.Count("single_key_absent", 1)
		}
		if bad {
			want := "no entry"
			if present {
				want = fmt.Sprintf("%+v", m.View(k))
			}
			x.fail("single-key-read-differs", fmt.Sprintf("ReadState(Key=%q, Limit=%d) returned %+v, want %s", k, op.Limit, res, want))
			return
		}
	}
	// pagination while the state changes between two page requests: every page size that yields at
	// least two pages, both directions, then mixed sizes
	if total >= 2 {
		x.ttlBudget = 1
		if cfg.KeyTTLms > 0 && cfg.KeyTTLms <= 60_000 {
			x.ttlBudget = 3
		}
		if !x.refreshAll("") {
			return
		}
		for size := 1; size < total; size++ {
			for _, asc := range dirs {
				if !x.paginateChanging(asc, fmt.Sprint(size), fixed(size), (total+size-1)/size) || !x.restore(total) {
					return
				}
			}
		}
		hi := max(2, total/3+1)
		for _, asc := range dirs {
			for k := 0; k < 2; k++ {
				if !x.paginateChanging(asc, "mixed", func() int { return r.Range(1, hi) }, 2*total/(1+hi)+1) || !x.restore(total) {
					return
				}
			}
		}
		c.Count("cases_with_changing_state", 1)
	}

	tiesSig := 0
	if cfg.Ordered {
		ks := m.SortedKeys(false)
		for i := 1; i < len(ks); i++ {
			if m.State[ks[i]].Score == m.State[ks[i-1]].Score {
				tiesSig++
			}
		}
	}
	c.Nontrivial(fmt.Sprintf("mode%d ord%v n%d sm%d ties%d churn%v", cfg.Mode, cfg.Ordered, total, scoreMode, tiesSig, churn))
	if c.Index < 6 {
		c.Sample(map[string]any{"cfg": cfg, "keys_in_state": total, "score_mode": scoreMode, "churn": churn, "state_head_desc": ents, "page_sizes": fmt.Sprintf("1..%d, -1, 0, mixed; asc and desc; 1..%d and mixed again with modifications between pages", total+1, max(0, total-1))})
	}
}

func TestC21(t *testing.T) {
	kit.Main(t, kit.Spec{
		ID:    "C21",
		Level: "exploration",
		Rule: "Each case fills one channel of a standalone MemoryMapBroker (PRNG-chosen mode ephemeral/recoverable/persistent, ordered 3/5) with 0-200 keys through Publish (with churn: re-scored, removed and re-added keys after the broker built its sort cache). Keys mix short strings over small alphabets with NUL/0x01/0xff bytes, multi-byte UTF-8 (incl. NFC/NFD pairs), keys that are prefixes/extensions of each other and keys shaped like ordered cursors; scores are all-equal, few values with ties, extremes (MinInt64, MaxInt64, +-1, 0) or full-range random. " +
			"Then, with the state unchanged, the state is paginated with EVERY page size 1..n+1, with -1, with random mixed sizes, ascending and descending alternately, Limit=0 is read, and up to ~100 single-key reads (present, removed, never present, prefixes/extensions) are made. Finally (states of 2+ keys) the state is paginated again with every page size 1..n-1 and with mixed sizes, ascending and descending, while it CHANGES BETWEEN page requests (about three directed modifications per pagination, at least one where a second page exists): the cursor key (last key of the previous page) is removed, removed and added again, or expires by TTL (virtual clock; all other keys are kept alive with KeyModeIfNew+RefreshTTLOnSuppress), the first key of the next page or a key already returned is removed, a key is added before / at (ordered: tie with the cursor's score; unordered: the immediate byte successor of the cursor key) / after the cursor position, a returned / pending / the cursor key gets a new value, and on ordered channels a new score that moves it on its side of the cursor or across it. Demanded there: keys present from before the first to after the last page request and never removed are returned at least once, exactly once when their position never changed; every returned entry is the one stored when its page was requested; positions, limits, in-page order (ordered), termination and cursor advance as before; the state is brought back to n keys between paginations. One evaluation = one complete pagination. Non-trivial = a completed case; signature = (mode, ordered, keys, score mode, number of ties, churn).",
		Assumptions: []string{
			"only the in-memory map broker is covered: no Redis server is available here (the Redis / Lua half of the statement is not checked)",
			"sort order of ordered channels is (score, key) descending by default and (score, key) ascending with Asc, keys compared bytewise (map_broker.go: MapReadStateOptions.Asc and findOrderedCursorPosition); unordered channels promise no order, so only exactly-once, progress and cursor advance are demanded there (byte order is merely counted)",
			"Limit>0 means at most that many entries; -1 the whole state; 0 only the position",
			"'cursor strictly advances' is checked as: no cursor value is returned twice within one pagination and the pagination ends within n+2 pages",
			"in the first part the state does not change during pagination (KeyTTL 1 h or 20 s, no writers, the clock stands still)",
			"changing state: modifications and page requests alternate strictly (nothing is concurrent), so a page must show exactly the entries stored at the time of its request; keys added, removed, expired or re-added between the first and the last page request may or may not be returned; an ordered key whose score update carries it across the cursor of that moment may be returned twice (returned, then moved behind the cursor) or not at all (still to come, moved in front of the cursor: the update is what a subscriber receives from the stream) - both merely counted; a key whose score changed without crossing the cursor must still be returned at least once",
			"the memory broker sweeps expired keys once per second: the cursor key counts as expired when a single-key read no longer returns it one sweep period after its deadline",
			"mutations on unordered channels are aimed using byte order of the keys (what the memory broker does, counted as unordered_pages_in_byte_order); no verdict depends on the order of an unordered channel",
		},
		Cases:  map[string]int{"quick": 1600, "thorough": 16000},
		Bubble: true,
		RequireCounters: []string{"ordered_ties", "extreme_scores", "negative_scores", "nul_keys", "non_ascii_keys", "prefix_keys", "empty_state", "single_key_reads", "single_key_absent", "after_churn", "ordered_channels", "unordered_channels", "pages_read",
			"pages_read_while_state_changes", "paginations_with_mutations_and_stable_keys",
			"between_pages_removed_cursor_key_unordered", "between_pages_removed_cursor_key_ordered",
			"between_pages_readded_cursor_key_unordered", "between_pages_readded_cursor_key_ordered",
			"between_pages_cursor_key_expired_unordered", "between_pages_cursor_key_expired_ordered",
			"between_pages_removed_next_page_first_key_unordered", "between_pages_removed_next_page_first_key_ordered",
			"between_pages_removed_returned_key_unordered", "between_pages_removed_returned_key_ordered",
			"between_pages_added_before_cursor_unordered", "between_pages_added_before_cursor_ordered",
			"between_pages_added_at_cursor_unordered", "between_pages_added_at_cursor_ordered",
			"between_pages_added_after_cursor_unordered", "between_pages_added_after_cursor_ordered",
			"between_pages_updated_value_unordered", "between_pages_updated_value_ordered",
			"between_pages_updated_cursor_key", "between_pages_updated_returned_key", "between_pages_updated_pending_key",
			"between_pages_moved_returned_key_behind_cursor", "between_pages_moved_pending_key_in_front_of_cursor", "between_pages_moved_key_on_its_side_of_cursor",
			"moved_across_cursor_seen_twice", "moved_across_cursor_not_seen"},
		Run: runCase,
	})
}
