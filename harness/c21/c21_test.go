// C21: Map state pagination enumerates every key exactly once (in-memory map broker half).
package c21

import (
	"fmt"
	"math"
	"testing"
	"testing/synctest"
	"time"

	"github.com/centrifugal/centrifuge"
	"github.com/centrifugal/centrifuge/verifx/kit"
	mm "github.com/centrifugal/centrifuge/verifx/mapmodel"
)

const ch = "board"

func genKeys(c *kit.Case, n int) []string {
	r := c.R
	seen := map[string]bool{}
	var keys []string
	add := func(k string) bool {
		if k == "" || seen[k] || len(keys) >= n {
			return false
		}
		seen[k] = true
		keys = append(keys, k)
		return true
	}
	alphabets := [][]string{
		{"a", "b", "c"},
		{"a", "b", "\x00", "\x01", "\xff"},
		{"a", "\u00e9", "e\u0301", "日", "ключ", "𝄞"}, // NFC and NFD forms of the same glyph
		{"0", "1", "9", "-", "\x00"},
	}
	for tries := 0; len(keys) < n && tries < 50*n+100; tries++ {
		switch r.Intn(10) {
		case 0, 1: // prefix chain of an existing key
			if len(keys) > 0 {
				base := kit.Pick(r, keys)
				ext := kit.Pick(r, []string{"a", "\x00", "\x00a", "\xff", "\u0301", "0"})
				if add(base + ext) {
					c.Count("prefix_keys", 1)
				}
				if len(base) > 1 && add(base[:len(base)-1]) {
					c.Count("prefix_keys", 1)
				}
			}
		case 2: // looks like an ordered cursor "score\x00key"
			add(fmt.Sprintf("%d\x00%s", r.Range(-3, 3), kit.Pick(r, []string{"a", "b", "k"})))
		default:
			al := kit.Pick(r, alphabets)
			l := r.Range(1, 4)
			k := ""
			for i := 0; i < l; i++ {
				k += kit.Pick(r, al)
			}
			add(k)
		}
	}
	for i := 0; len(keys) < n; i++ {
		add(fmt.Sprintf("k%04d", i))
	}
	for _, k := range keys {
		nul, uni := false, false
		for i := 0; i < len(k); i++ {
			if k[i] == 0 {
				nul = true
			}
			if k[i] >= 0x80 {
				uni = true
			}
		}
		if nul {
			c.Count("nul_keys", 1)
		}
		if uni {
			c.Count("non_ascii_keys", 1)
		}
	}
	return keys
}

func genScore(r *kit.Rand, mode int) int64 {
	switch mode {
	case 0: // all ties
		return 7
	case 1: // few distinct values
		return int64(r.Range(-2, 2))
	case 2: // extremes
		return kit.Pick(r, []int64{math.MinInt64, math.MinInt64 + 1, math.MaxInt64, math.MaxInt64 - 1, -1, 0, 1})
	default:
		return int64(r.Uint64())
	}
}

type run struct {
	c      *kit.Case
	env    *mm.Env
	m      *mm.Chan
	detail map[string]any
}

func (x *run) fail(cls, msg string) {
	x.c.Violation(cls, mm.Clean(msg), x.detail)
}

// paginate reads the whole state with the page sizes given by next() and checks the C21 oracle.
func (x *run) paginate(asc bool, sizeLabel string, next func() int) bool {
	c, m := x.c, x.m
	want := m.SortedKeys(asc)
	var got []mm.PubView
	cursor := ""
	seenCur := map[string]bool{}
	byteOrder := true
	for page := 0; ; page++ {
		if page > len(want)+2 {
			x.fail("pagination-does-not-terminate", fmt.Sprintf("asc=%v sizes=%s: more than %d pages over %d keys", asc, sizeLabel, page, len(want)))
			return false
		}
		limit := next()
		res := mm.Exec(x.env.Broker, ch, mm.Op{Kind: "read_state", Limit: limit, Asc: asc}, cursor)
		c.Count("pages_read", 1)
		if res.Err != "" {
			x.fail("unexpected-error", fmt.Sprintf("ReadState(limit=%d cursor=%q asc=%v): %s", limit, cursor, asc, res.Err))
			return false
		}
		if m.Epoch != "" && res.Pos != (mm.Pos{Offset: m.Top, Epoch: m.Epoch}) {
			x.fail("page-position-differs", fmt.Sprintf("page %d reports position %+v, state is at %d/%s", page, res.Pos, m.Top, m.Epoch))
			return false
		}
		if limit > 0 && len(res.Pubs) > limit {
			x.fail("page-larger-than-limit", fmt.Sprintf("ReadState(limit=%d) returned %d entries", limit, len(res.Pubs)))
			return false
		}
		if len(res.Pubs) == 0 && (res.Cursor != "" || len(got) < len(want)) {
			x.fail("pagination-no-progress", fmt.Sprintf("asc=%v sizes=%s: empty page %d (cursor in %q, cursor out %q) after %d of %d keys", asc, sizeLabel, page, cursor, res.Cursor, len(got), len(want)))
			return false
		}
		got = append(got, res.Pubs...)
		if res.Cursor == "" {
			break
		}
		if res.Cursor == cursor || seenCur[res.Cursor] {
			x.fail("cursor-does-not-advance", fmt.Sprintf("asc=%v sizes=%s: page %d returned cursor %q which was already used", asc, sizeLabel, page, res.Cursor))
			return false
		}
		seenCur[res.Cursor] = true
		cursor = res.Cursor
	}
	// every key exactly once ...
	count := map[string]int{}
	for i, p := range got {
		count[p.Key]++
		if i > 0 && got[i-1].Key >= p.Key {
			byteOrder = false
		}
	}
	for _, k := range want {
		if count[k] == 0 {
			x.fail("pagination-skips-key", fmt.Sprintf("asc=%v sizes=%s: key %q (score %d) was never returned; %d entries returned for %d keys", asc, sizeLabel, k, m.State[k].Score, len(got), len(want)))
			return false
		}
	}
	for k, n := range count {
		if _, ok := m.State[k]; !ok {
			x.fail("pagination-returns-unknown-key", fmt.Sprintf("asc=%v sizes=%s: key %q is not in the state", asc, sizeLabel, k))
			return false
		}
		if n > 1 {
			x.fail("pagination-duplicates-key", fmt.Sprintf("asc=%v sizes=%s: key %q (score %d) returned %d times", asc, sizeLabel, k, m.State[k].Score, n))
			return false
		}
	}
	// ... with exactly the stored entry ...
	for _, p := range got {
		if p != m.View(p.Key) {
			x.fail("page-entry-differs", fmt.Sprintf("entry %+v differs from the stored one %+v", p, m.View(p.Key)))
			return false
		}
	}
	// ... in the channel's sort order (ordered channels only: unordered channels promise no order)
	if m.Cfg.Ordered {
		for i, k := range want {
			if got[i].Key != k {
				x.fail("pagination-order-differs", fmt.Sprintf("asc=%v sizes=%s: position %d is key %q (score %d), sort order says %q (score %d)", asc, sizeLabel, i, got[i].Key, got[i].Score, k, m.State[k].Score))
				return false
			}
		}
	} else if len(got) > 1 {
		if byteOrder {
			c.Count("unordered_pages_in_byte_order", 1)
		} else {
			c.Count("unordered_pages_other_order", 1)
		}
	}
	c.Eval(1)
	return true
}

func fixed(n int) func() int { return func() int { return n } }

func runCase(c *kit.Case) {
	r := c.R
	cfg := mm.Cfg{Mode: r.Range(1, 3), Ordered: r.Chance(3, 5)}
	if cfg.Mode != mm.ModePersistent {
		cfg.KeyTTLms = 3600_000
	}
	if cfg.HasStream() {
		cfg.StreamSize = kit.Pick(r, []int{1, 10, 1000})
	}
	var n int
	switch x := r.Intn(100); {
	case x < 5:
		n = 0
	case x < 40:
		n = r.Range(1, 10)
	case x < 80:
		n = r.Range(11, 60)
	default:
		n = r.Range(61, 200)
	}
	scoreMode := r.Intn(4)
	keys := genKeys(c, n)

	env, err := mm.NewEnv(func(string) centrifuge.MapChannelOptions { return mm.ChannelOptions(cfg, 0, 0) })
	if err != nil {
		c.Inconclusive("cannot create broker: " + err.Error())
		return
	}
	defer func() {
		env.Close()
		synctest.Wait()
	}()
	m := mm.NewChan(cfg)
	x := &run{c: c, env: env, m: m}
	x.detail = map[string]any{"cfg": cfg, "n": n, "score_mode": scoreMode}

	// populate (with churn: re-scored, removed and re-added keys) through the public API
	now := func() int64 { return time.Now().UnixMilli() }
	seq := 0
	apply := func(op mm.Op) bool {
		res := mm.Exec(env.Broker, ch, op, "")
		if _, mis := m.Step(op, now(), res); mis != nil {
			x.fail("populate-"+mis.Class, mis.Msg)
			return false
		}
		return true
	}
	pub := func(k string) bool {
		seq++
		op := mm.Op{Kind: "publish", Key: k, Data: fmt.Sprintf("d%d", seq)}
		if cfg.Ordered {
			op.Score = genScore(r, scoreMode)
		}
		if r.Chance(1, 10) {
			op.Tags = map[string]string{"t": fmt.Sprint(seq)}
		}
		return apply(op)
	}
	kit.Shuffle(r, keys)
	half := len(keys)
	if r.Bool() {
		half = len(keys) / 2
	}
	for _, k := range keys[:half] {
		if !pub(k) {
			return
		}
	}
	churn := r.Chance(2, 3)
	if churn && half > 0 {
		// read once in between so that the broker's sorted-key cache exists before the churn
		mm.Exec(env.Broker, ch, mm.Op{Kind: "read_state", Limit: 3, Asc: r.Bool()}, "")
		for _, k := range keys[:half] {
			switch r.Intn(6) {
			case 0:
				if !pub(k) { // new score
					return
				}
			case 1:
				if !apply(mm.Op{Kind: "remove", Key: k}) {
					return
				}
				if r.Bool() && !pub(k) {
					return
				}
			}
		}
		c.Count("after_churn", 1)
	}
	for _, k := range keys[half:] {
		if !pub(k) {
			return
		}
	}
	if m.Epoch == "" { // nothing was published: the first read creates the channel
		res := mm.Exec(env.Broker, ch, mm.Op{Kind: "read_state", Limit: -1}, "")
		m.Epoch = res.Pos.Epoch
	}
	time.Sleep(time.Duration(r.Range(0, 5000)) * time.Millisecond) // well inside the 1 h TTL
	total := len(m.State)

	// describe the state
	if cfg.Ordered {
		byScore := map[int64]int{}
		ext := 0
		for _, e := range m.State {
			byScore[e.Score]++
			if e.Score == math.MinInt64 || e.Score == math.MaxInt64 {
				ext++
			}
		}
		ties := 0
		for _, cnt := range byScore {
			if cnt > 1 {
				ties += cnt
			}
		}
		if ties > 0 {
			c.Count("ordered_ties", 1)
		}
		if ext > 0 {
			c.Count("extreme_scores", 1)
		}
		neg := false
		for s := range byScore {
			if s < 0 {
				neg = true
			}
		}
		if neg {
			c.Count("negative_scores", 1)
		}
		c.Count("ordered_channels", 1)
	} else {
		c.Count("unordered_channels", 1)
	}
	if total == 0 {
		c.Count("empty_state", 1)
	}
	ents := make([]mm.PubView, 0, 8)
	for _, k := range m.SortedKeys(false) {
		if len(ents) < 8 {
			ents = append(ents, m.View(k))
		}
	}
	x.detail["state_head_desc"] = ents
	x.detail["keys_in_state"] = total

	dirs := []bool{false, true}
	// every page size 1..n+1, then -1; directions alternate so that the broker re-sorts
	for size := 1; size <= total+1; size++ {
		for _, asc := range dirs {
			if !x.paginate(asc, fmt.Sprint(size), fixed(size)) {
				return
			}
		}
	}
	for _, asc := range dirs {
		if !x.paginate(asc, "-1", fixed(-1)) {
			return
		}
		// Limit 0: position only
		res := mm.Exec(env.Broker, ch, mm.Op{Kind: "read_state", Limit: 0, Asc: asc}, "")
		if res.Err != "" || len(res.Pubs) != 0 || res.Cursor != "" || res.Pos != (mm.Pos{Offset: m.Top, Epoch: m.Epoch}) {
			x.fail("limit-zero-result", fmt.Sprintf("ReadState(Limit=0) returned %+v, want only the position %d/%s", res, m.Top, m.Epoch))
			return
		}
		// mixed page sizes along one pagination
		for k := 0; k < 3; k++ {
			if !x.paginate(asc, "mixed", func() int { return r.Range(1, max(2, total/3+1)) }) {
				return
			}
		}
	}
	c.Count("limit_zero_reads", 2)

	// single-key reads: exactly the stored entry; nothing for absent keys
	probe := append([]string(nil), keys...)
	kit.Shuffle(r, probe)
	if len(probe) > 60 {
		probe = probe[:60]
	}
	for _, k := range keys[:min(len(keys), 10)] {
		probe = append(probe, k+"\x00", k+"a", "zz"+k)
		if len(k) > 1 {
			probe = append(probe, k[:len(k)-1])
		}
	}
	for _, k := range probe {
		op := mm.Op{Kind: "read_state", Key: k, Limit: kit.Pick(r, []int{-1, 0, 1, 5}), Asc: r.Bool()}
		res := mm.Exec(env.Broker, ch, op, "")
		_, present := m.State[k]
		bad := res.Err != "" || res.Cursor != ""
		if present {
			bad = bad || len(res.Pubs) != 1 || res.Pubs[0] != m.View(k)
			c.Count("single_key_reads", 1)
		} else {
			bad = bad || len(res.Pubs) != 0
			c.Count("single_key_absent", 1)
		}
		if bad {
			want := "no entry"
			if present {
				want = fmt.Sprintf("%+v", m.View(k))
			}
			x.fail("single-key-read-differs", fmt.Sprintf("ReadState(Key=%q, Limit=%d) returned %+v, want %s", k, op.Limit, res, want))
			return
		}
	}
	tiesSig := 0
	if cfg.Ordered {
		ks := m.SortedKeys(false)
		for i := 1; i < len(ks); i++ {
			if m.State[ks[i]].Score == m.State[ks[i-1]].Score {
				tiesSig++
			}
		}
	}
	c.Nontrivial(fmt.Sprintf("mode%d ord%v n%d sm%d ties%d churn%v", cfg.Mode, cfg.Ordered, total, scoreMode, tiesSig, churn))
	if c.Index < 6 {
		c.Sample(map[string]any{"cfg": cfg, "keys_in_state": total, "score_mode": scoreMode, "churn": churn, "state_head_desc": ents, "page_sizes": fmt.Sprintf("1..%d, -1, 0, mixed; asc and desc", total+1)})
	}
}

func TestC21(t *testing.T) {
	kit.Main(t, kit.Spec{
		ID:    "C21",
		Level: "exploration",
		Rule: "Each case fills one channel of a standalone MemoryMapBroker (PRNG-chosen mode ephemeral/recoverable/persistent, ordered 3/5) with 0-200 keys through Publish (with churn: re-scored, removed and re-added keys after the broker built its sort cache). Keys mix short strings over small alphabets with NUL/0x01/0xff bytes, multi-byte UTF-8 (incl. NFC/NFD pairs), keys that are prefixes/extensions of each other and keys shaped like ordered cursors; scores are all-equal, few values with ties, extremes (MinInt64, MaxInt64, +-1, 0) or full-range random. " +
			"Then, with the state unchanged, the state is paginated with EVERY page size 1..n+1, with -1, with random mixed sizes, ascending and descending alternately, Limit=0 is read, and up to ~100 single-key reads (present, removed, never present, prefixes/extensions) are made. One evaluation = one complete pagination. Non-trivial = a completed case; signature = (mode, ordered, keys, score mode, number of ties, churn).",
		Assumptions: []string{
			"only the in-memory map broker is covered: no Redis server is available here (the Redis / Lua half of the statement is not checked)",
			"sort order of ordered channels is (score, key) descending by default and (score, key) ascending with Asc, keys compared bytewise (map_broker.go: MapReadStateOptions.Asc and findOrderedCursorPosition); unordered channels promise no order, so only exactly-once, progress and cursor advance are demanded there (byte order is merely counted)",
			"Limit>0 means at most that many entries; -1 the whole state; 0 only the position",
			"'cursor strictly advances' is checked as: no cursor value is returned twice within one pagination and the pagination ends within n+2 pages",
			"the state does not change during pagination (KeyTTL 1 h, no writers)",
		},
		Cases:           map[string]int{"quick": 1600, "thorough": 16000},
		Bubble:          true,
		RequireCounters: []string{"ordered_ties", "extreme_scores", "negative_scores", "nul_keys", "non_ascii_keys", "prefix_keys", "empty_state", "single_key_reads", "single_key_absent", "after_churn", "ordered_channels", "unordered_channels", "pages_read"},
		Run:             runCase,
	})
}
