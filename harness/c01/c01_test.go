// C01: Positioned stream delivery is gap-free, duplicate-free and ordered.
package c01

import (
	"testing"

	"github.com/centrifugal/centrifuge/verifx/kit"
	"github.com/centrifugal/centrifuge/verifx/posdeliv"
)

func TestC01(t *testing.T) {
	kit.Main(t, kit.Spec{
		ID:     "C01",
		Level:  "fault_enumeration",
		Bubble: true,
		Rule: "each case = one virtual-time bubble: 1-3 publishers and 1-3 logical subscribers (client-side, connect-time server-side, Client.Subscribe; JSON/Protobuf; uni/bidirectional; positioned or recoverable; optional tags filter) on one channel with history; " +
			"subscribe windows are widened by seeded virtual delays at the yield points, a racing publish is launched inside the recovery-buffer window, PUB/SUB deliveries are dropped/duplicated/held back by a seeded fault plan, history is trimmed/removed; second incarnations recover from the last seen (or an older) position. " +
			"Non-trivial = at least one subscription incarnation observed; signature = fault mode x per-incarnation (kind, recovered, #deliveries bucket, ending).",
		Assumptions: []string{
			"a delivery 'held back' is released after the next delivery on the channel (reordering) or when faults stop",
			"bounded progress horizon: 9 virtual seconds after faults stop (position check delay 2s, presence tick 1s)",
			"payload ids are unique per publish, so a delivered payload names its publish",
		},
		Cases:           map[string]int{"quick": 1600, "thorough": 32000},
		RequireCounters: []string{"loss_bursts_after_history_read", "publish_spanning_subscription_start", "recovered_incarnations", "insufficient_state_endings", "racer_publishes", "faults_injected", "alive_at_top"},
		Run:             func(c *kit.Case) { posdeliv.RunCase(c, posdeliv.Options{Prefix: "c01"}) },
	})
}
