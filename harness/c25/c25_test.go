// C25: Shared-poll keyed delivery is monotonic and delta-consistent.
package c25

import (
	"bytes"
	"context"
	"encoding/json"
	"fmt"
	"hash/fnv"
	"sort"
	"strings"
	"sync"
	"sync/atomic"
	"testing"
	"time"

	"github.com/centrifugal/centrifuge"
	"github.com/centrifugal/centrifuge/verifx/kit"
	"github.com/centrifugal/protocol"
	fdelta "github.com/shadowspore/fossil-delta"
)

const channel = "c25:sp"

const insufficientStateCode = 2500

// ---------------------------------------------------------------------------------------------
// source of truth

// wr is one write of the scripted backend: the value of a key from that write on.
type wr struct {
	ID    string
	Key   string
	Ver   uint64
	Epoch string
	Data  []byte
	Seq   int64
	At    time.Duration
	Kind  string
}

type payloadGen struct {
	r    *kit.Rand
	base []string
	n    int
}

// next builds a JSON document carrying id; successive documents of a key share most bytes.
func (g *payloadGen) next(id, key string, ver uint64, ep string) []byte {
	g.n++
	r := g.r
	if g.base == nil {
		for i, n := 0, r.Range(3, 30); i < n; i++ {
			g.base = append(g.base, fmt.Sprintf("field-%d-%x", i, r.Uint64()))
		}
	}
	switch r.Intn(12) {
	case 0:
		g.base = nil
		for i, n := 0, r.Range(0, 30); i < n; i++ {
			g.base = append(g.base, fmt.Sprintf("other-%d-%x", i, r.Uint64()))
		}
	case 1, 2, 3:
		if len(g.base) > 0 {
			g.base[r.Intn(len(g.base))] = fmt.Sprintf("chg-%x", r.Uint64())
		}
	case 4:
		g.base = append(g.base, strings.Repeat("x", r.Range(1, 200)))
	}
	m := map[string]any{"id": id, "k": key, "v": ver, "e": ep, "fields": g.base}
	if r.Chance(1, 15) {
		m = map[string]any{"id": id}
	}
	out, _ := json.Marshal(m)
	return out
}

func idOf(data []byte) string {
	var m map[string]any
	if json.Unmarshal(data, &m) == nil {
		id, _ := m["id"].(string)
		return id
	}
	return ""
}

// delivery is the first moment a publisher epoch value was handed to the server.
type delivery struct {
	Epoch string
	Prev  string
	Seq   int64
	At    time.Duration
	Via   string
	Hub   map[string]bool // client ids registered in the keyed hub of the channel at that moment
}

type truth struct {
	mu            sync.Mutex
	w             *kit.World
	r             *kit.Rand
	node          *centrifuge.Node
	epoch         string
	epochN        int
	cur           map[string]*wr
	byID          map[string]*wr
	byKV          map[string]*wr
	gens          map[string]*payloadGen
	genSeed       uint64
	n             int
	lastDelivered string
	deliveries    []*delivery
	writes        []*wr
}

func kv(key, ep string, ver uint64) string { return fmt.Sprintf("%s|%s|%d", key, ep, ver) }

func (t *truth) writeLocked(key, kind string) *wr {
	t.n++
	ver := uint64(1)
	if c := t.cur[key]; c != nil && c.Epoch == t.epoch {
		ver = c.Ver + uint64(t.r.Range(1, 2))
	} else if c == nil && kind != "restart" {
		ver = uint64(t.r.Range(1, 3))
	}
	g := t.gens[key]
	if g == nil {
		g = &payloadGen{r: kit.NewRand(t.genSeed, uint64(len(t.gens))+1)}
		t.gens[key] = g
	}
	id := fmt.Sprintf("w%d", t.n)
	w := &wr{ID: id, Key: key, Ver: ver, Epoch: t.epoch, Seq: t.w.Seq(), At: t.w.Now(), Kind: kind}
	w.Data = g.next(id, key, ver, t.epoch)
	t.cur[key] = w
	t.byID[id] = w
	t.byKV[kv(key, t.epoch, ver)] = w
	t.writes = append(t.writes, w)
	return w
}

func (t *truth) write(key, kind string) *wr {
	t.mu.Lock()
	defer t.mu.Unlock()
	return t.writeLocked(key, kind)
}

func (t *truth) get(id string) *wr {
	t.mu.Lock()
	defer t.mu.Unlock()
	return t.byID[id]
}

func (t *truth) current(key string) *wr {
	t.mu.Lock()
	defer t.mu.Unlock()
	return t.cur[key]
}

// noteDeliveryLocked records the first hand-over of an epoch value that differs from
// the previously handed-over one.
func (t *truth) noteDeliveryLocked(ep, via string) {
	if ep == t.lastDelivered {
		return
	}
	d := &delivery{Epoch: ep, Prev: t.lastDelivered, Seq: t.w.Seq(), At: t.w.Now(), Via: via, Hub: map[string]bool{}}
	if t.node != nil {
		for _, ids := range centrifuge.VerifKeyedHub(t.node)[channel] {
			for _, id := range ids {
				d.Hub[id] = true
			}
		}
	}
	t.lastDelivered = ep
	t.deliveries = append(t.deliveries, d)
}

// ---------------------------------------------------------------------------------------------
// client model

type cmdRec struct {
	kind   string // sub | unsub | track | untrack
	keys   []string
	claims map[string]uint64
	seq    int64
	at     time.Duration
}

type connRec struct {
	idx       int
	conn      *kit.Conn
	proto     centrifuge.ProtocolType
	wantDelta bool
	user      string
	async     bool
	salt      uint64

	mu       sync.Mutex
	cmds     map[uint32]*cmdRec
	inflight []string

	hookEnds []time.Duration // virtual instants at which a track.afterReply yield of this connection ended (under the events lock)

	closing  atomic.Bool
	closeSeq int64
	closeAt  time.Duration
	resubs   int
}

func (cr *connRec) register(id uint32, rec *cmdRec) {
	cr.mu.Lock()
	cr.cmds[id] = rec
	cr.mu.Unlock()
}

func (cr *connRec) cmd(id uint32) *cmdRec {
	cr.mu.Lock()
	defer cr.mu.Unlock()
	return cr.cmds[id]
}

type keyModel struct {
	tracked bool
	base    uint64 // claimed at track, then the last pushed version
	endedBy string // untrack | revoke | unsubscribe
	endSeq  int64
	have    bool
	data    []byte
	ver     uint64
	ep      string
	wid     string
	broken  bool
	// ambiguous: an untrack was acknowledged after the reply of a track of the same
	// key that was still in flight when the untrack was sent (asynchronous OnTrack):
	// the server may have applied them in either order.
	ambiguous bool
	since     int           // updates received since the last acknowledged track of the key
	lastAt    time.Duration // virtual instant of the last of them
	deltas    int
	fulls     int
	cached    int
}

type subPeriod struct {
	start   int64
	end     int64
	endKind string // unsub-push | unsub-reply
	code    uint32
	epoch   string
	endAt   time.Duration
}

type model struct {
	subscribed   bool
	epoch        string
	delta        bool
	keys         map[string]*keyModel
	periods      []subPeriod
	disconnected bool
	revokePushes int
	untrackAcks  int
	trackAcks    int
	ambiguous    int
	retrackEarly int
}

func (m *model) key(k string) *keyModel {
	km := m.keys[k]
	if km == nil {
		km = &keyModel{}
		m.keys[k] = km
	}
	return km
}

func payloadOf(p *protocol.Publication, jsonProto bool) ([]byte, error) {
	if jsonProto && len(p.Data) > 0 && p.Data[0] == '"' {
		var s string
		if err := json.Unmarshal(p.Data, &s); err != nil {
			return nil, err
		}
		return []byte(s), nil
	}
	return p.Data, nil
}

type reporter func(class, msg string, extra map[string]any)

// fold replays everything the transport received (in order) through the client model.
// With a reporter it also checks monotonic versions, delta consistency and silence
// after untrack / revocation / end of subscription.
func (cr *connRec) fold(tr *truth, versioned bool, report reporter) *model {
	return cr.foldx(tr, versioned, false, report)
}

// foldx: backendBase tells that delta bases come from the backend's PrevData (no
// KeepLatestData), which is a different mechanism than the server's own cache.
func (cr *connRec) foldx(tr *truth, versioned, backendBase bool, report reporter) *model {
	m := &model{keys: map[string]*keyModel{}}
	jsonProto := cr.proto == centrifuge.ProtocolTypeJSON
	rep := func(class, msg string, extra map[string]any) {
		if report != nil {
			report(class, msg, extra)
		}
	}
	endSub := func(f kit.Frame, kind string, code uint32) {
		if !m.subscribed {
			return
		}
		m.subscribed = false
		for _, km := range m.keys {
			if km.tracked {
				km.tracked = false
				km.ambiguous = false
				km.endedBy = "unsubscribe"
				km.endSeq = f.Seq
			}
		}
		if n := len(m.periods); n > 0 && m.periods[n-1].end == 0 {
			m.periods[n-1].end = f.Seq
			m.periods[n-1].endKind = kind
			m.periods[n-1].code = code
			m.periods[n-1].endAt = f.At
		}
	}
	frames := cr.conn.T.Frames()
	replySeq := map[uint32]int64{}
	anyReplySeq := map[uint32]int64{}
	for _, f := range frames {
		if f.Reply != nil && f.Reply.Id != 0 {
			anyReplySeq[f.Reply.Id] = f.Seq
			if f.Reply.Error == nil {
				replySeq[f.Reply.Id] = f.Seq
			}
		}
	}
	cr.mu.Lock()
	type trk struct {
		id  uint32
		rec *cmdRec
	}
	var tracks []trk
	for id, rec := range cr.cmds {
		if rec.kind == "track" {
			tracks = append(tracks, trk{id, rec})
		}
	}
	cr.mu.Unlock()
	// retrackInFlight: a track of the key was sent before this frame and its reply comes
	// later. The server commits a track (per-connection version := claimed version, first
	// update full again) before it writes the reply, so an update that another goroutine
	// broadcasts in between already follows the new claim.
	retrackInFlight := func(key string, seq int64, version uint64) (uint32, bool) {
		for _, t := range tracks {
			if t.rec.seq > seq {
				continue
			}
			if rs, ok := anyReplySeq[t.id]; ok && rs < seq {
				continue
			}
			if cl, ok := t.rec.claims[key]; ok && cl < version {
				return t.id, true
			}
		}
		return 0, false
	}
	acceptedInFlight := map[uint32]map[string]uint64{}
	applyPub := func(f kit.Frame, p *protocol.Publication, via string) {
		km := m.key(p.Key)
		extra := map[string]any{"key": p.Key, "version": p.Version, "delta": p.Delta, "via": via, "frame_seq": f.Seq}
		if !m.subscribed {
			// Two unsubscribes of one subscription that overlapped (the connection's own
			// unsubscribe command and a server-side unsubscribe, same virtual instant): the
			// one that lost the race to remove the channel announces the end (push or reply)
			// while the winner has not yet torn the keyed state down.
			if n := len(m.periods); n > 0 && m.periods[n-1].end != 0 {
				per := m.periods[n-1]
				for _, g := range frames {
					if g.Seq <= f.Seq {
						continue
					}
					if g.At != per.endAt {
						break
					}
					if g.Reply != nil && g.Reply.Id != 0 {
						rec := cr.cmd(g.Reply.Id)
						if rec != nil && rec.kind == "sub" {
							break
						}
						if rec != nil && rec.kind == "unsub" && g.Reply.Error == nil && per.endKind == "unsub-push" && rec.seq < per.end {
							rep("c25-key-update-between-unsubscribe-push-and-reply-of-overlapping-unsubscribes", fmt.Sprintf("conn %d: update for key %s (version %d) delivered after the unsubscribe push (frame %d) and before the reply of the connection's own overlapping unsubscribe command (frame %d), all at %v", cr.idx, p.Key, p.Version, per.end, g.Seq, per.endAt), extra)
							return
						}
					}
					if g.Push != nil && g.Push.Channel == channel && g.Push.Unsubscribe != nil && per.endKind == "unsub-reply" {
						rep("c25-key-update-between-unsubscribe-push-and-reply-of-overlapping-unsubscribes", fmt.Sprintf("conn %d: update for key %s (version %d) delivered after the reply of the connection's own unsubscribe command (frame %d) and before the unsubscribe push of an overlapping server-side unsubscribe (frame %d), all at %v", cr.idx, p.Key, p.Version, per.end, g.Seq, per.endAt), extra)
						return
					}
				}
			}
			rep("c25-key-update-pushed-after-subscription-ended", fmt.Sprintf("conn %d: update for key %s (version %d) delivered via %s after the subscription ended", cr.idx, p.Key, p.Version, via), extra)
			return
		}
		if !km.tracked {
			switch km.endedBy {
			case "untrack":
				rep("c25-key-update-pushed-after-untrack-reply", fmt.Sprintf("conn %d: update for key %s (version %d) delivered after the untrack reply (frame %d)", cr.idx, p.Key, p.Version, km.endSeq), extra)
			case "revoke":
				rep("c25-key-update-pushed-after-revocation", fmt.Sprintf("conn %d: update for key %s (version %d) delivered after the removal push of the revocation (frame %d)", cr.idx, p.Key, p.Version, km.endSeq), extra)
			default:
				rep("c25-key-update-pushed-for-key-not-tracked", fmt.Sprintf("conn %d: update for key %s (version %d) delivered while the connection has no acknowledged track of it", cr.idx, p.Key, p.Version), extra)
			}
			return
		}
		if km.broken {
			return
		}
		if p.Version <= km.base {
			if id, ok := retrackInFlight(p.Key, f.Seq, p.Version); ok && via == "push" && !p.Delta {
				if acceptedInFlight[id] == nil {
					acceptedInFlight[id] = map[string]uint64{}
				}
				if p.Version > acceptedInFlight[id][p.Key] {
					acceptedInFlight[id][p.Key] = p.Version
					m.retrackEarly++
					km.base = 0
				}
			}
		}
		if p.Version <= km.base {
			km.broken = true
			rep("c25-pushed-version-not-strictly-increasing", fmt.Sprintf("conn %d key %s: version %d delivered via %s after version %d (claimed at track or already delivered)", cr.idx, p.Key, p.Version, via, km.base), extra)
			return
		}
		km.base = p.Version
		km.since++
		km.lastAt = f.At
		raw, err := payloadOf(p, jsonProto)
		if err != nil {
			km.broken = true
			rep("c25-undecodable-json-string-payload", fmt.Sprintf("conn %d key %s version %d", cr.idx, p.Key, p.Version), extra)
			return
		}
		var out []byte
		if p.Delta {
			if !km.have {
				km.broken = true
				rep("c25-delta-push-without-a-base", fmt.Sprintf("conn %d key %s: delta push (version %d) but the connection holds no data for the key", cr.idx, p.Key, p.Version), extra)
				return
			}
			o, err := fdelta.Apply(km.data, raw)
			if err != nil {
				km.broken = true
				extra["held_version"] = km.ver
				extra["held_write"] = km.wid
				cls := "c25-delta-push-does-not-apply-to-held-data"
				if backendBase {
					cls = "c25-delta-built-from-backend-prevdata-does-not-apply-to-held-data"
				}
				rep(cls, fmt.Sprintf("conn %d key %s: delta push (version %d) does not apply to the data the connection holds (version %d, write %s): %v", cr.idx, p.Key, p.Version, km.ver, km.wid, err), extra)
				return
			}
			out = o
			km.deltas++
		} else {
			out = append([]byte(nil), raw...)
			if via == "track-reply" {
				km.cached++
			} else {
				km.fulls++
			}
		}
		id := idOf(out)
		w := tr.get(id)
		if w == nil || w.Key != p.Key || !bytes.Equal(w.Data, out) {
			km.broken = true
			extra["reconstructed_id"] = id
			rep("c25-reconstructed-data-differs-from-source-of-truth", fmt.Sprintf("conn %d key %s: applying the update (version %d, delta=%v, via %s) yields %d bytes that are not a backend value of that key (id %q)", cr.idx, p.Key, p.Version, p.Delta, via, len(out), id), extra)
			return
		}
		if versioned && w.Ver != p.Version {
			km.broken = true
			extra["write"] = w.ID
			extra["write_version"] = w.Ver
			rep("c25-pushed-version-does-not-match-its-data", fmt.Sprintf("conn %d key %s: update labelled version %d carries the backend value of version %d (write %s)", cr.idx, p.Key, p.Version, w.Ver, w.ID), extra)
			return
		}
		km.have, km.data, km.ver, km.ep, km.wid = true, out, p.Version, m.epoch, w.ID
	}

	overlappingTrack := func(key string, untrack *cmdRec, untrackReplySeq int64) bool {
		for _, t := range tracks {
			rs, ok := replySeq[t.id]
			if !ok || t.rec.seq > untrackReplySeq || rs < untrack.seq || rs > untrackReplySeq {
				continue
			}
			for _, k := range t.rec.keys {
				if k == key {
					return true
				}
			}
		}
		return false
	}
	for _, f := range frames {
		if f.DecodeErr != "" {
			continue
		}
		if f.Reply != nil && f.Reply.Id != 0 {
			rec := cr.cmd(f.Reply.Id)
			if rec == nil || f.Reply.Error != nil {
				continue
			}
			switch rec.kind {
			case "sub":
				if f.Reply.Subscribe == nil {
					continue
				}
				m.subscribed = true
				m.epoch = f.Reply.Subscribe.Epoch
				m.delta = f.Reply.Subscribe.Delta
				m.periods = append(m.periods, subPeriod{start: f.Seq, epoch: m.epoch})
			case "unsub":
				endSub(f, "unsub-reply", 0)
			case "track":
				if !m.subscribed {
					continue
				}
				m.trackAcks++
				for _, k := range rec.keys {
					km := m.key(k)
					km.tracked = true
					km.base = rec.claims[k]
					if v := acceptedInFlight[f.Reply.Id][k]; v > km.base {
						km.base = v // delivered after the commit of this track, before its reply
					}
					km.endedBy = ""
					km.broken = false
					km.ambiguous = false
					km.since = 0
				}
				if f.Reply.SubRefresh != nil {
					for _, it := range f.Reply.SubRefresh.Items {
						applyPub(f, it, "track-reply")
					}
				}
			case "untrack":
				m.untrackAcks++
				for _, k := range rec.keys {
					km := m.key(k)
					if km.tracked && overlappingTrack(k, rec, f.Seq) {
						km.ambiguous = true
						m.ambiguous++
						continue
					}
					if km.tracked {
						km.tracked = false
						km.endedBy = "untrack"
						km.endSeq = f.Seq
					}
				}
			}
			continue
		}
		p := f.Push
		if p == nil {
			continue
		}
		if p.Disconnect != nil {
			m.disconnected = true
			continue
		}
		if p.Channel != channel {
			continue
		}
		if p.Pub != nil {
			if p.Pub.Removed {
				km := m.key(p.Pub.Key)
				m.revokePushes++
				if km.tracked {
					km.tracked = false
					km.ambiguous = false
					km.endedBy = "revoke"
					km.endSeq = f.Seq
				}
				km.have, km.data = false, nil
				continue
			}
			applyPub(f, p.Pub, "push")
		}
		if p.Unsubscribe != nil {
			endSub(f, "unsub-push", p.Unsubscribe.Code)
		}
	}
	return m
}

// digest renders what a connection received (for violation details).
func (cr *connRec) digest(max int) []string {
	var out []string
	for _, f := range cr.conn.T.Frames() {
		switch {
		case f.Reply != nil && f.Reply.Id != 0:
			rec := cr.cmd(f.Reply.Id)
			kind := "?"
			var keys []string
			var claims map[string]uint64
			if rec != nil {
				kind, keys, claims = rec.kind, rec.keys, rec.claims
			}
			s := fmt.Sprintf("#%d %v reply %s keys=%v claims=%v", f.Seq, f.At, kind, keys, claims)
			if f.Reply.Error != nil {
				s += fmt.Sprintf(" ERROR %d", f.Reply.Error.Code)
			}
			if f.Reply.Subscribe != nil {
				s += fmt.Sprintf(" epoch=%q delta=%v", f.Reply.Subscribe.Epoch, f.Reply.Subscribe.Delta)
			}
			if f.Reply.SubRefresh != nil {
				for _, it := range f.Reply.SubRefresh.Items {
					s += fmt.Sprintf(" item[%s v%d]", it.Key, it.Version)
				}
			}
			out = append(out, s)
		case f.Push != nil && f.Push.Pub != nil:
			p := f.Push.Pub
			out = append(out, fmt.Sprintf("#%d %v push key=%s v%d delta=%v removed=%v len=%d", f.Seq, f.At, p.Key, p.Version, p.Delta, p.Removed, len(p.Data)))
		case f.Push != nil && f.Push.Unsubscribe != nil:
			out = append(out, fmt.Sprintf("#%d %v unsubscribe push code=%d", f.Seq, f.At, f.Push.Unsubscribe.Code))
		case f.Push != nil && f.Push.Disconnect != nil:
			out = append(out, fmt.Sprintf("#%d %v disconnect push code=%d", f.Seq, f.At, f.Push.Disconnect.Code))
		}
	}
	if len(out) > max {
		out = append([]string{fmt.Sprintf("(%d earlier frames omitted)", len(out)-max)}, out[len(out)-max:]...)
	}
	return out
}

// ---------------------------------------------------------------------------------------------
// scenario

type caseCfg struct {
	Versioned       bool
	KeepLatest      bool
	PrevData        bool
	SkipUnchanged   bool
	BackendDelayMax int
	IntervalMs      int
	BatchSize       int
	NotifBatch      string
	ShutdownDelay   string
	PublishEnabled  bool
	EpochMode       bool
	NKeys           int
	HookSleep       bool
	FanoutSleep     bool
	HookRace        bool
}

type op struct {
	kind    string // track | untrack | resub | close | idle
	keys    []string
	gap     time.Duration
	wait    bool
	retrack bool
	zero    bool // claim version 0 regardless of what is held
	split   bool
}

type window struct{ start, end int64 }

type event struct {
	seq  int64
	at   time.Duration
	kind string
}

func hashDelay(salt uint64, point string, n int64, max int) time.Duration {
	h := fnv.New64a()
	_, _ = h.Write([]byte(point))
	v := (h.Sum64() ^ salt ^ uint64(n)*0x9e3779b97f4a7c15) * 0xbf58476d1ce4e5b9
	v ^= v >> 31
	return time.Duration(v%uint64(max+1)) * time.Millisecond
}

func bucket(n int) int {
	switch {
	case n == 0:
		return 0
	case n < 4:
		return 1
	}
	return 2
}

func runCase(c *kit.Case) {
	r := c.R
	w := kit.NewWorld(c)
	cfg := caseCfg{
		Versioned:       r.Chance(3, 5),
		KeepLatest:      r.Bool(),
		SkipUnchanged:   r.Bool(),
		BackendDelayMax: kit.Pick(r, []int{0, 0, 3, 20}),
		IntervalMs:      kit.Pick(r, []int{30, 100, 100, 400}),
		BatchSize:       kit.Pick(r, []int{1, 2, 1000, 1000}),
		NotifBatch:      kit.Pick(r, []string{"none", "none", "delay", "size"}),
		ShutdownDelay:   kit.Pick(r, []string{"default", "immediate", "100ms", "1h", "1h"}),
		NKeys:           r.Range(2, 5),
		HookSleep:       r.Chance(3, 4),
		FanoutSleep:     r.Chance(2, 3),
		HookRace:        r.Chance(1, 2),
	}
	if cfg.Versioned {
		cfg.PrevData = r.Bool()
		cfg.PublishEnabled = r.Chance(1, 3)
		cfg.EpochMode = r.Chance(1, 3)
	}
	interval := time.Duration(cfg.IntervalMs) * time.Millisecond
	spOpts := centrifuge.SharedPollChannelOptions{
		RefreshInterval:  interval,
		RefreshBatchSize: cfg.BatchSize,
		KeepLatestData:   cfg.KeepLatest,
		PublishEnabled:   cfg.PublishEnabled,
	}
	if cfg.Versioned {
		spOpts.Mode = centrifuge.SharedPollModeVersioned
	} else if r.Bool() {
		spOpts.Mode = centrifuge.SharedPollModeVersionless
	}
	switch cfg.NotifBatch {
	case "delay":
		spOpts.NotificationBatchMaxDelay = 5 * time.Millisecond
	case "size":
		spOpts.NotificationBatchMaxSize = 2
		spOpts.NotificationBatchMaxDelay = 10 * time.Millisecond
	}
	longState := false
	switch cfg.ShutdownDelay {
	case "immediate":
		spOpts.ChannelShutdownDelay = -1
	case "100ms":
		spOpts.ChannelShutdownDelay = 100 * time.Millisecond
	case "1h":
		spOpts.ChannelShutdownDelay = time.Hour
		longState = true
	}
	keys := make([]string, cfg.NKeys)
	for i := range keys {
		keys[i] = fmt.Sprintf("k%d", i)
	}

	tr := &truth{w: w, r: kit.NewRand(c.Seed, uint64(c.Index)*977+3), cur: map[string]*wr{}, byID: map[string]*wr{}, byKV: map[string]*wr{}, gens: map[string]*payloadGen{}, genSeed: c.Seed ^ uint64(c.Index)*7919}
	if cfg.EpochMode {
		tr.epochN = 1
		tr.epoch = "e1"
	}
	var pubMu sync.RWMutex // epoch changes exclude publishes in flight

	var logMu sync.Mutex
	var elog []string
	note := func(f string, a ...any) {
		logMu.Lock()
		if len(elog) < 600 {
			elog = append(elog, fmt.Sprintf("#%d %v ", w.Seq(), w.Now())+fmt.Sprintf(f, a...))
		}
		logMu.Unlock()
	}
	var evMu sync.Mutex
	var events []event
	var trackWins, fanoutWins []window
	addEvent := func(kind string) {
		evMu.Lock()
		events = append(events, event{seq: w.Seq(), at: w.Now(), kind: kind})
		evMu.Unlock()
	}

	var nPolls, nPrevData, nPollRace atomic.Int64
	var pollRace atomic.Pointer[func(key string)]
	var hcount atomic.Int64
	salt := r.Uint64()
	handler := func(ctx context.Context, ev centrifuge.SharedPollEvent) (centrifuge.SharedPollResult, error) {
		n := hcount.Add(1)
		if cfg.BackendDelayMax > 0 {
			if d := hashDelay(salt, "backend", n, cfg.BackendDelayMax); d > 0 {
				tm := time.NewTimer(d)
				select {
				case <-ctx.Done():
					tm.Stop()
					return centrifuge.SharedPollResult{}, ctx.Err()
				case <-tm.C:
				}
			}
		}
		nPolls.Add(1)
		if cfg.Versioned && cfg.HookRace && len(ev.Items) > 0 && hashDelay(salt, "pollrace", n, 5) == 0 {
			// a publisher publishes a key while the poll that asked about it is in
			// flight, and the backend value moves on once more before the response
			if f := pollRace.Load(); f != nil {
				(*f)(ev.Items[int(uint64(n)%uint64(len(ev.Items)))].Key)
			}
		}
		var res centrifuge.SharedPollResult
		tr.mu.Lock()
		for _, it := range ev.Items {
			cur := tr.cur[it.Key]
			if cur == nil {
				continue
			}
			if !cfg.Versioned {
				res.Items = append(res.Items, centrifuge.SharedPollRefreshItem{Key: it.Key, Data: cur.Data})
				continue
			}
			if cfg.SkipUnchanged && it.Version == cur.Ver {
				continue
			}
			ri := centrifuge.SharedPollRefreshItem{Key: it.Key, Data: cur.Data, Version: cur.Ver}
			if cfg.PrevData && it.Version > 0 && it.Version < cur.Ver {
				// the value the server said it has (the version it sent in the request)
				if p := tr.byKV[kv(it.Key, tr.epoch, it.Version)]; p != nil {
					ri.PrevData = p.Data
					nPrevData.Add(1)
				}
			}
			res.Items = append(res.Items, ri)
		}
		if cfg.Versioned {
			res.Epoch = tr.epoch
			if cfg.EpochMode {
				tr.noteDeliveryLocked(tr.epoch, "poll")
			}
		}
		tr.mu.Unlock()
		return res, nil
	}

	ctlOf := sync.Map{} // *centrifuge.Client -> *connRec
	node, _ := w.NewNode(centrifuge.Config{
		ClientStaleCloseDelay:        time.Hour,
		ClientPresenceUpdateInterval: time.Second,
		SharedPoll: centrifuge.SharedPollConfig{GetSharedPollChannelOptions: func(ch string) (centrifuge.SharedPollChannelOptions, bool) {
			return spOpts, ch == channel
		}},
	}, func(n *centrifuge.Node) {
		n.OnSharedPoll(handler)
		n.OnConnect(func(cl *centrifuge.Client) {
			cl.OnSubscribe(func(e centrifuge.SubscribeEvent, cb centrifuge.SubscribeCallback) {
				cb(centrifuge.SubscribeReply{Options: centrifuge.SubscribeOptions{AllowedDeltaTypes: []centrifuge.DeltaType{centrifuge.DeltaTypeFossil}}}, nil)
			})
			cl.OnTrack(func(e centrifuge.TrackEvent, cb centrifuge.TrackCallback) {
				if v, ok := ctlOf.Load(cl); ok && v.(*connRec).async {
					cr := v.(*connRec)
					d := hashDelay(cr.salt, "track", hcount.Add(1), 4)
					go func() {
						time.Sleep(d)
						cb(centrifuge.TrackReply{}, nil)
					}()
					return
				}
				cb(centrifuge.TrackReply{}, nil)
			})
		})
	})
	tr.mu.Lock()
	tr.node = node
	tr.mu.Unlock()
	mgr := centrifuge.VerifSharedPollManager(node)
	ctx := context.Background()

	var nPublish, nNotify, nWrites, nRevoke, nEpoch atomic.Int64
	publishWrite := func(key string, delay time.Duration) {
		tr.mu.Lock()
		wv := tr.writeLocked(key, "publish")
		tr.mu.Unlock()
		nWrites.Add(1)
		addEvent("write")
		if delay > 0 {
			time.Sleep(delay)
		}
		pubMu.RLock()
		tr.mu.Lock()
		if tr.epoch != wv.Epoch {
			tr.mu.Unlock()
			pubMu.RUnlock()
			note("publish of %s %s v%d dropped: publisher epoch changed", wv.ID, key, wv.Ver)
			return
		}
		if cfg.EpochMode {
			tr.noteDeliveryLocked(wv.Epoch, "publish")
		}
		tr.mu.Unlock()
		note("publish %s %s v%d epoch=%q", wv.ID, key, wv.Ver, wv.Epoch)
		err := node.SharedPollPublish(ctx, channel, key, wv.Ver, wv.Epoch, wv.Data)
		pubMu.RUnlock()
		if err != nil {
			note("publish error: %v", err)
		}
		nPublish.Add(1)
	}
	backendWrite := func(key string, notify bool) {
		wv := tr.write(key, "backend")
		nWrites.Add(1)
		addEvent("write")
		note("backend write %s %s v%d epoch=%q notify=%v", wv.ID, key, wv.Ver, wv.Epoch, notify)
		if notify {
			node.SharedPollNotify([]centrifuge.SharedPollNotificationItem{{Channel: channel, Key: key}})
			nNotify.Add(1)
		}
	}
	pr := func(key string) {
		nPollRace.Add(1)
		publishWrite(key, 0)
		backendWrite(key, false)
	}
	pollRace.Store(&pr)
	type revRec struct {
		at, doneAt      time.Duration
		keys            []string
		users, excluded []string
	}
	var revMu sync.Mutex
	var revs []*revRec
	revoke := func(ks []string, users, exclude []string) {
		rr := &revRec{at: w.Now(), doneAt: -1, keys: ks, users: users, excluded: exclude}
		revMu.Lock()
		revs = append(revs, rr)
		revMu.Unlock()
		defer func() {
			revMu.Lock()
			rr.doneAt = w.Now()
			revMu.Unlock()
		}()
		addEvent("revoke")
		note("revoke keys=%v users=%v exclude=%v", ks, users, exclude)
		mgr.SharedPollRevokeKeys(channel, ks, users, exclude)
		nRevoke.Add(1)
	}
	changeEpoch := func(publishKey string) {
		pubMu.Lock()
		tr.mu.Lock()
		tr.epochN++
		tr.epoch = fmt.Sprintf("e%d", tr.epochN)
		for _, k := range keys {
			if tr.cur[k] != nil {
				tr.writeLocked(k, "restart")
			}
		}
		ep := tr.epoch
		tr.mu.Unlock()
		pubMu.Unlock()
		nEpoch.Add(1)
		addEvent("epoch")
		note("publisher epoch is now %q (versions restart)", ep)
		if publishKey != "" {
			publishWrite(publishKey, 0)
		}
	}

	var hookN atomic.Int64
	kit.SetHook(node, func(point string, cl *centrifuge.Client, ch string) {
		if ch != channel {
			return
		}
		switch point {
		case "track.afterReply":
			v, ok := ctlOf.Load(cl)
			if !ok {
				return
			}
			cr := v.(*connRec)
			n := hookN.Add(1)
			start := w.Seq()
			if cfg.HookRace {
				cr.mu.Lock()
				ks := append([]string(nil), cr.inflight...)
				cr.mu.Unlock()
				if len(ks) > 0 {
					k := ks[int(uint64(n)*2654435761%uint64(len(ks)))]
					switch x := hashDelay(cr.salt, "race", n, 11); {
					case x < 3 && cfg.Versioned:
						publishWrite(k, 0)
					case x < 5:
						backendWrite(k, true)
					case x < 6:
						backendWrite(k, false)
					case x < 7:
						revoke([]string{k}, nil, nil)
					case x < 8 && cfg.EpochMode:
						changeEpoch(k)
					}
				}
			}
			if cfg.HookSleep && !cr.closing.Load() {
				time.Sleep(hashDelay(cr.salt, point, n, 12))
			}
			evMu.Lock()
			trackWins = append(trackWins, window{start, w.Seq()})
			cr.hookEnds = append(cr.hookEnds, w.Now())
			evMu.Unlock()
		case "keyed.beforeEnqueue":
			// between the unlocked first look at the key state (encoding, batch config callback)
			// and the locked re-check + enqueue; no lock is held here
			if cfg.FanoutSleep && (cfg.PublishEnabled || cfg.EpochMode) {
				// deliveries that come through the memory broker run under its per-channel
				// publish lock, and in epoch mode a publish runs under the scenario's own
				// publish/epoch-change lock: yield there, never sleep (a mutex wait freezes
				// the bubble)
				kit.Yield(int(hashDelay(salt, point, hookN.Add(1), 40) / time.Millisecond))
			} else if cfg.FanoutSleep {
				n := hookN.Add(1)
				if d := hashDelay(salt, point, n, 9); d > 3*time.Millisecond {
					start := w.Seq()
					time.Sleep(d - 3*time.Millisecond)
					evMu.Lock()
					fanoutWins = append(fanoutWins, window{start, w.Seq()})
					evMu.Unlock()
				}
			}
		case "sharedpoll.beforeFanout":
			// no lock is held at this call site (the channel state lock was released
			// before the publications were built), only a slot of the call semaphore
			n := hookN.Add(1)
			start := w.Seq()
			if cfg.FanoutSleep {
				time.Sleep(hashDelay(salt, point, n, 8))
			}
			evMu.Lock()
			fanoutWins = append(fanoutWins, window{start, w.Seq()})
			evMu.Unlock()
		}
	})

	// initial content
	for _, k := range keys {
		if r.Chance(5, 6) {
			tr.write(k, "initial")
		}
	}

	var wg sync.WaitGroup
	// writers
	type wop struct {
		kind  string
		key   string
		gap   time.Duration
		delay time.Duration
	}
	for wi, nw := 0, r.Range(1, 2); wi < nw; wi++ {
		n := r.Range(6, 28)
		plan := make([]wop, n)
		for i := range plan {
			o := wop{key: kit.Pick(r, keys), gap: time.Duration(r.Range(0, 25)) * time.Millisecond}
			x := r.Intn(100)
			switch {
			case cfg.Versioned && x < 35:
				o.kind = "publish"
				if r.Chance(1, 4) {
					o.delay = time.Duration(r.Range(1, 6)) * time.Millisecond
				}
			case x < 65:
				o.kind = "notify"
			default:
				o.kind = "silent"
			}
			if r.Chance(1, 12) {
				o.gap = time.Duration(r.Range(200, 900)) * time.Millisecond
			}
			plan[i] = o
		}
		wg.Add(1)
		go func() {
			defer wg.Done()
			for _, o := range plan {
				time.Sleep(o.gap)
				switch o.kind {
				case "publish":
					publishWrite(o.key, o.delay)
				case "notify":
					backendWrite(o.key, true)
				default:
					backendWrite(o.key, false)
				}
			}
		}()
	}

	// connections
	nConn := r.Range(2, 4)
	conns := make([]*connRec, nConn)
	for i := range conns {
		cr := &connRec{idx: i, proto: kit.Pick(r, []centrifuge.ProtocolType{centrifuge.ProtocolTypeJSON, centrifuge.ProtocolTypeProtobuf}),
			wantDelta: r.Chance(2, 3), user: fmt.Sprintf("u%d", i%3), async: r.Chance(1, 3), salt: r.Uint64(), cmds: map[uint32]*cmdRec{}}
		conns[i] = cr
	}
	// revocations and epoch changes
	type sop struct {
		at      time.Duration
		kind    string
		keys    []string
		users   []string
		exclude []string
		publish string
	}
	var sops []sop
	for i, n := 0, r.Range(0, 2); i < n; i++ {
		o := sop{at: time.Duration(r.Range(20, 700)) * time.Millisecond, kind: "revoke"}
		for _, k := range keys {
			if r.Chance(1, 2) {
				o.keys = append(o.keys, k)
			}
		}
		if len(o.keys) == 0 {
			o.keys = []string{keys[0]}
		}
		switch r.Intn(4) {
		case 0:
			o.users = []string{fmt.Sprintf("u%d", r.Intn(3))}
		case 1:
			o.exclude = []string{fmt.Sprintf("u%d", r.Intn(3))}
		}
		sops = append(sops, o)
	}
	if cfg.EpochMode {
		for i, n := 0, r.Range(0, 2); i < n; i++ {
			o := sop{at: time.Duration(r.Range(40, 900)) * time.Millisecond, kind: "epoch"}
			if r.Bool() {
				o.publish = kit.Pick(r, keys)
			}
			sops = append(sops, o)
		}
	}
	for _, o := range sops {
		wg.Add(1)
		go func() {
			defer wg.Done()
			time.Sleep(o.at)
			if o.kind == "revoke" {
				revoke(o.keys, o.users, o.exclude)
			} else {
				changeEpoch(o.publish)
			}
		}()
	}

	subscribe := func(cr *connRec) {
		req := &protocol.SubscribeRequest{Channel: channel, Type: int32(centrifuge.SubscriptionTypeSharedPoll)}
		if cr.wantDelta {
			req.Delta = "fossil"
		}
		id := cr.conn.NextID()
		cr.register(id, &cmdRec{kind: "sub", seq: w.Seq(), at: w.Now()})
		cr.conn.Do(&protocol.Command{Id: id, Subscribe: req})
		cr.conn.PollReply(id, time.Second)
	}
	var nTrackCmd, nUntrackCmd, nUnsub, nClose, nResubAfterServerUnsub atomic.Int64
	for _, cr := range conns {
		nOps := r.Range(4, 14)
		plan := make([]op, nOps)
		for i := range plan {
			o := op{gap: time.Duration(r.Range(0, 35)) * time.Millisecond, wait: r.Chance(4, 5), retrack: r.Chance(1, 5), zero: r.Chance(1, 5), split: r.Chance(1, 5)}
			for _, k := range keys {
				if r.Chance(1, 2) {
					o.keys = append(o.keys, k)
				}
			}
			if len(o.keys) == 0 {
				o.keys = []string{kit.Pick(r, keys)}
			}
			switch x := r.Intn(100); {
			case x < 48 || i == 0:
				o.kind = "track"
			case x < 72:
				o.kind = "untrack"
			case x < 80:
				o.kind = "resub"
			case x < 85:
				o.kind = "close"
			default:
				o.kind = "idle"
				o.gap = time.Duration(r.Range(50, 600)) * time.Millisecond
			}
			plan[i] = o
		}
		startAt := time.Duration(r.Range(0, 60)) * time.Millisecond
		wg.Add(1)
		go func() {
			defer wg.Done()
			time.Sleep(startAt)
			cctx := centrifuge.SetCredentials(context.Background(), &centrifuge.Credentials{UserID: cr.user})
			cr.conn = w.NewConnCtx(cctx, node, kit.TransportOpts{Protocol: cr.proto})
			ctlOf.Store(cr.conn.Client, cr)
			cr.conn.Connect(nil)
			subscribe(cr)
			for _, o := range plan {
				time.Sleep(o.gap)
				if closed, _, _ := cr.conn.T.Closed(); closed {
					return
				}
				m := cr.fold(tr, cfg.Versioned, nil)
				if m.disconnected {
					return
				}
				if !m.subscribed {
					if cr.resubs >= 4 {
						continue
					}
					cr.resubs++
					nResubAfterServerUnsub.Add(1)
					subscribe(cr)
					m = cr.fold(tr, cfg.Versioned, nil)
					if !m.subscribed {
						continue
					}
				}
				switch o.kind {
				case "track":
					var ks []string
					for _, k := range o.keys {
						if km := m.keys[k]; km != nil && km.tracked && !o.retrack {
							continue
						}
						ks = append(ks, k)
					}
					if len(ks) == 0 {
						continue
					}
					claims := map[string]uint64{}
					var items []*protocol.KeyedItem
					for _, k := range ks {
						var v uint64
						if km := m.keys[k]; km != nil && km.have && !km.broken && !o.zero && km.ep == m.epoch && (cfg.Versioned || longState) {
							v = km.ver
						}
						claims[k] = v
						items = append(items, &protocol.KeyedItem{Key: k, Version: v})
					}
					batches := []*protocol.TrackBatch{{Items: items}}
					if o.split && len(items) > 1 {
						batches = []*protocol.TrackBatch{{Items: items[:1]}, {Items: items[1:]}}
					}
					id := cr.conn.NextID()
					cr.register(id, &cmdRec{kind: "track", keys: ks, claims: claims, seq: w.Seq(), at: w.Now()})
					cr.mu.Lock()
					cr.inflight = ks
					cr.mu.Unlock()
					note("conn %d track %v", cr.idx, claims)
					nTrackCmd.Add(1)
					cr.conn.Do(&protocol.Command{Id: id, SubRefresh: &protocol.SubRefreshRequest{Channel: channel, Type: 1, Track: batches}})
					if o.wait {
						cr.conn.PollReply(id, time.Second)
					}
				case "untrack":
					id := cr.conn.NextID()
					cr.register(id, &cmdRec{kind: "untrack", keys: o.keys, seq: w.Seq(), at: w.Now()})
					note("conn %d untrack %v", cr.idx, o.keys)
					nUntrackCmd.Add(1)
					cr.conn.Do(&protocol.Command{Id: id, SubRefresh: &protocol.SubRefreshRequest{Channel: channel, Type: 2, Untrack: o.keys}})
					if o.wait {
						cr.conn.PollReply(id, time.Second)
					}
					addEvent("untrack")
				case "resub":
					id := cr.conn.NextID()
					cr.register(id, &cmdRec{kind: "unsub", seq: w.Seq(), at: w.Now()})
					note("conn %d unsubscribe", cr.idx)
					nUnsub.Add(1)
					cr.conn.Do(&protocol.Command{Id: id, Unsubscribe: &protocol.UnsubscribeRequest{Channel: channel}})
					cr.conn.PollReply(id, time.Second)
					addEvent("unsubscribe")
					time.Sleep(time.Duration(int(o.gap/time.Millisecond)%7) * time.Millisecond)
					subscribe(cr)
				case "close":
					cr.closing.Store(true)
					cr.closeSeq = w.Seq()
					cr.closeAt = w.Now()
					note("conn %d close", cr.idx)
					nClose.Add(1)
					_ = cr.conn.CloseFn()
					addEvent("close")
					return
				}
			}
		}()
	}
	wg.Wait()
	pollRace.Store(nil)
	// traffic stopped: bounded progress instead of "eventually"
	time.Sleep(4*interval + time.Duration(2*cfg.BackendDelayMax+150)*time.Millisecond)
	w.Settle()

	// ---------------------------------------------------------------------------------------
	// verdicts
	cfgDetail := func(cr *connRec, extra map[string]any) map[string]any {
		d := map[string]any{"config": cfg}
		if cr != nil {
			d["conn"] = map[string]any{"idx": cr.idx, "proto": cr.proto, "delta_requested": cr.wantDelta, "async_track_handler": cr.async, "user": cr.user}
			d["frames"] = cr.digest(80)
		}
		logMu.Lock()
		l := elog
		if len(l) > 160 {
			l = l[len(l)-160:]
		}
		d["events"] = append([]string(nil), l...)
		logMu.Unlock()
		for k, v := range extra {
			d[k] = v
		}
		return d
	}
	tr.mu.Lock()
	deliveries := append([]*delivery(nil), tr.deliveries...)
	finalEpoch := tr.epoch
	tr.mu.Unlock()
	evMu.Lock()
	evs := append([]event(nil), events...)
	tw := append([]window(nil), trackWins...)
	fw := append([]window(nil), fanoutWins...)
	evMu.Unlock()

	sig := fmt.Sprintf("v%v k%v p%v e%v pe%v i%d b%d", cfg.Versioned, cfg.KeepLatest, cfg.PrevData, cfg.EpochMode, cfg.PublishEnabled, cfg.IntervalMs, cfg.BatchSize)
	totalDeltas, totalFulls, totalCached, totalRevPush, converged, epochUnsubs := 0, 0, 0, 0, 0, 0
	for _, cr := range conns {
		if cr.conn == nil {
			continue
		}
		type pendingV struct {
			class, msg string
			extra      map[string]any
		}
		var pending []pendingV
		m := cr.foldx(tr, cfg.Versioned, cfg.PrevData && !cfg.KeepLatest, func(class, msg string, extra map[string]any) {
			pending = append(pending, pendingV{class, msg, extra})
		})
		c.Count("updates_after_retrack_commit_before_its_reply", m.retrackEarly)
		d, f, ca := 0, 0, 0
		for _, km := range m.keys {
			d += km.deltas
			f += km.fulls
			ca += km.cached
		}
		totalDeltas += d
		totalFulls += f
		totalCached += ca
		totalRevPush += m.revokePushes
		c.Count("track_replies", m.trackAcks)
		c.Count("untrack_replies", m.untrackAcks)
		c.Count("untrack_acknowledged_after_overlapping_track_reply", m.ambiguous)
		for _, p := range m.periods {
			if p.endKind == "unsub-push" && p.code == insufficientStateCode {
				epochUnsubs++
			}
		}
		sig += fmt.Sprintf("|%s:%v:%d:%d:%d", cr.proto, m.delta, bucket(d), bucket(f), bucket(ca))

		// Version numbers restart with a publisher epoch. A subscription that was not
		// ended by an epoch change it was current for (open finding: only subscribers with
		// a key in the keyed hub at that instant are ended) keeps versions and data of
		// the old epoch; version and delta mismatches on it afterwards are consequences
		// of that, not defects of their own.
		clientID := cr.conn.Client.ID()
		type span struct{ from, to int64 }
		var staleEpoch []span
		for _, dl := range deliveries {
			if dl.Prev == "" || dl.Hub[clientID] {
				continue
			}
			for _, p := range m.periods {
				if p.start < dl.Seq && (p.end == 0 || p.end > dl.Seq) && !(p.endKind == "unsub-push" && p.code == insufficientStateCode) {
					staleEpoch = append(staleEpoch, span{dl.Seq, p.end})
				}
			}
		}
		for _, pv := range pending {
			consequence := false
			switch pv.class {
			case "c25-pushed-version-not-strictly-increasing", "c25-delta-push-does-not-apply-to-held-data", "c25-delta-built-from-backend-prevdata-does-not-apply-to-held-data",
				"c25-reconstructed-data-differs-from-source-of-truth", "c25-pushed-version-does-not-match-its-data", "c25-delta-push-without-a-base":
				fs, _ := pv.extra["frame_seq"].(int64)
				for _, sp := range staleEpoch {
					if fs > sp.from && (sp.to == 0 || fs < sp.to) {
						consequence = true
					}
				}
			}
			if consequence {
				c.Count("version_or_delta_mismatch_on_subscription_not_ended_by_epoch_change", 1)
				continue
			}
			c.Violation(pv.class, pv.msg, cfgDetail(cr, pv.extra))
		}

		// (5) a publisher epoch change ends the subscriptions that were current
		missedEpoch := false
		for _, dl := range deliveries {
			if dl.Prev == "" {
				continue // first epoch ever handed over: no change
			}
			var per *subPeriod
			for i := range m.periods {
				p := &m.periods[i]
				if p.start < dl.Seq && (p.end == 0 || p.end > dl.Seq) {
					per = p
				}
			}
			if per == nil {
				continue
			}
			if cr.closeSeq != 0 && cr.closeSeq < dl.Seq {
				continue
			}
			busy := cr.closeSeq != 0 && cr.closeAt <= dl.At
			cr.mu.Lock()
			for _, rec := range cr.cmds {
				if rec.at == dl.At {
					busy = true
				}
			}
			cr.mu.Unlock()
			for _, e := range evs {
				if e.kind == "revoke" && e.at == dl.At {
					busy = true
				}
			}
			if busy {
				c.Count("epoch_oracle_skipped_same_instant_activity", 1)
				continue
			}
			if per.end != 0 && per.endKind == "unsub-push" && per.code == insufficientStateCode {
				c.Count("epoch_change_ended_current_subscription", 1)
				continue
			}
			missedEpoch = missedEpoch || per.end == 0
			how := "is still subscribed"
			closedLater := cr.closeSeq != 0 && per.end == 0
			if closedLater {
				how = fmt.Sprintf("stayed subscribed until the client closed the connection at %v", cr.closeAt)
			}
			if per.end != 0 {
				how = fmt.Sprintf("ended later by %s (code %d) at %v", per.endKind, per.code, per.endAt)
			}
			extra := map[string]any{"epoch_change": fmt.Sprintf("%q -> %q handed to the server via %s at #%d %v", dl.Prev, dl.Epoch, dl.Via, dl.Seq, dl.At), "in_keyed_hub_at_that_moment": dl.Hub[clientID], "subscribe_reply_epoch": per.epoch}
			if dl.Hub[clientID] {
				c.Violation("c25-epoch-change-does-not-end-subscription-of-registered-subscriber", fmt.Sprintf("conn %d was subscribed with keys registered in the keyed hub when the publisher epoch changed (%q -> %q via %s) but received no unsubscribe push with code 2500: it %s", cr.idx, dl.Prev, dl.Epoch, dl.Via, how), cfgDetail(cr, extra))
			} else {
				// stale data held as a consequence?
				harm := []string{}
				if per.end == 0 && !closedLater {
					for k, km := range m.keys {
						if cur := tr.current(k); km.tracked && cur != nil && (!km.have || !bytes.Equal(km.data, cur.Data)) {
							harm = append(harm, fmt.Sprintf("%s: tracked, holds v%d (%s), backend has v%d (%s)", k, km.ver, km.wid, cur.Ver, cur.ID))
						}
					}
				}
				sort.Strings(harm)
				extra["stale_keys_at_end"] = harm
				c.Count("epoch_change_skipped_subscriber_without_hub_keys", 1)
				if len(harm) > 0 {
					c.Count("epoch_change_skipped_subscriber_left_stale", 1)
				}
				c.Violation("c25-epoch-change-does-not-end-subscription-without-registered-keys", fmt.Sprintf("conn %d was subscribed (no key registered in the keyed hub at that moment) when the publisher epoch changed (%q -> %q via %s) and received no unsubscribe push with code 2500: it %s; stale keys at the end: %v", cr.idx, dl.Prev, dl.Epoch, dl.Via, how, harm), cfgDetail(cr, extra))
			}
		}

		// (4) bounded progress: every key still tracked holds the newest value
		if closed, _, _ := cr.conn.T.Closed(); closed || m.disconnected || !m.subscribed {
			continue
		}
		if missedEpoch {
			c.Count("progress_check_skipped_after_missed_epoch_change", 1)
			continue
		}
		if cfg.EpochMode && m.epoch != finalEpoch {
			c.Count("progress_check_skipped_subscription_epoch_differs", 1)
			continue
		}
		serverTracked := map[string]bool{}
		for _, k := range centrifuge.VerifClient(cr.conn.Client).Tracked[channel] {
			serverTracked[k] = true
		}
		for _, k := range keys {
			km := m.keys[k]
			if km == nil || !km.tracked || km.broken {
				continue
			}
			if km.ambiguous {
				c.Count("progress_check_skipped_track_untrack_order_ambiguous", 1)
				continue
			}
			if !serverTracked[k] {
				c.Count("model_tracked_but_server_not", 1)
				continue
			}
			cur := tr.current(k)
			if cur == nil {
				continue
			}
			if km.have && bytes.Equal(km.data, cur.Data) {
				converged++
				continue
			}
			extra := map[string]any{"key": k, "held_version": km.ver, "held_write": km.wid, "newest_version": cur.Ver, "newest_write": cur.ID, "newest_written_at": cur.At.String(), "newest_write_kind": cur.Kind, "now": w.Now().String(), "claimed_or_last_pushed": km.base}
			cls := "c25-tracked-key-not-at-newest-version-after-refresh-intervals"
			if km.since == 0 {
				// nothing at all arrived for the key since its track was acknowledged
				cls = "c25-key-never-updated-after-track-although-backend-is-newer"
			}
			extra["updates_since_last_track_reply"] = km.since
			{
				// A revocation that covers this user and key and ran while this connection was
				// between sending its (last) track of the key and joining the keyed hub: the
				// removal pushes go to the hub members of that moment, then every member is
				// dropped from the hub, also one that joined in between and was never told.
				var sentAt time.Duration = -1
				cr.mu.Lock()
				for _, rec := range cr.cmds {
					if rec.kind != "track" || rec.at < sentAt {
						continue
					}
					for _, rk := range rec.keys {
						if rk == k {
							sentAt = rec.at
						}
					}
				}
				cr.mu.Unlock()
				evMu.Lock()
				joinAt := time.Duration(-1)
				for _, he := range cr.hookEnds {
					if he >= sentAt && (joinAt < 0 || he < joinAt) {
						joinAt = he
					}
				}
				evMu.Unlock()
				revMu.Lock()
				for _, rr := range revs {
					covers := false
					for _, rk := range rr.keys {
						covers = covers || rk == k
					}
					if len(rr.users) > 0 {
						in := false
						for _, u := range rr.users {
							in = in || u == cr.user
						}
						covers = covers && in
					}
					for _, u := range rr.excluded {
						covers = covers && u != cr.user
					}
					quietSince := km.since == 0 || (rr.doneAt >= 0 && km.lastAt <= rr.doneAt)
					if covers && quietSince && sentAt >= 0 && joinAt >= 0 && rr.at <= joinAt && (rr.doneAt < 0 || rr.doneAt >= sentAt) {
						cls = "c25-revocation-drops-connection-that-joins-the-hub-meanwhile-without-telling-it"
						extra["revocation"] = fmt.Sprintf("keys=%v users=%v exclude=%v at %v; track of %s sent at %v, hub join at %v", rr.keys, rr.users, rr.excluded, rr.at, k, sentAt, joinAt)
					}
				}
				revMu.Unlock()
			}
			c.Violation(cls, fmt.Sprintf("conn %d still tracks key %s but holds version %d (write %s, have=%v) while the newest value is version %d (write %s, %s at %v); traffic stopped %v ago (refresh interval %v)", cr.idx, k, km.ver, km.wid, km.have, cur.Ver, cur.ID, cur.Kind, cur.At, w.Now()-cur.At, interval), cfgDetail(cr, extra))
		}
	}

	// window statistics
	inWin := func(ws []window, kinds ...string) int {
		n := 0
		for _, e := range evs {
			ok := false
			for _, k := range kinds {
				ok = ok || e.kind == k
			}
			if !ok {
				continue
			}
			for _, wn := range ws {
				if e.seq > wn.start && e.seq < wn.end {
					n++
					break
				}
			}
		}
		return n
	}
	c.Count("track_window_writes_or_revocations", inWin(tw, "write", "revoke", "epoch"))
	c.Count("fanout_window_untrack_unsubscribe_close_revoke", inWin(fw, "untrack", "unsubscribe", "close", "revoke"))
	c.Count("fanout_window_close", inWin(fw, "close"))
	c.Count("delta_pushes_applied", totalDeltas)
	c.Count("full_pushes", totalFulls)
	c.Count("cached_items_in_track_reply", totalCached)
	c.Count("revocation_pushes", totalRevPush)
	c.Count("revocations", int(nRevoke.Load()))
	c.Count("publishes", int(nPublish.Load()))
	c.Count("notifies", int(nNotify.Load()))
	c.Count("backend_writes", int(nWrites.Load()))
	c.Count("backend_polls", int(nPolls.Load()))
	c.Count("prev_data_responses", int(nPrevData.Load()))
	c.Count("publishes_during_poll_in_flight", int(nPollRace.Load()))
	c.Count("epoch_changes", int(nEpoch.Load()))
	c.Count("insufficient_state_unsubscribes", epochUnsubs)
	c.Count("tracked_keys_converged", converged)
	c.Count("track_commands", int(nTrackCmd.Load()))
	c.Count("untrack_commands", int(nUntrackCmd.Load()))
	c.Count("client_unsubscribes", int(nUnsub.Load()))
	c.Count("closes", int(nClose.Load()))
	c.Count("resubscribes_after_server_unsubscribe", int(nResubAfterServerUnsub.Load()))
	if cfg.Versioned {
		c.Count("versioned_cases", 1)
	} else {
		c.Count("versionless_cases", 1)
		c.Count("versionless_pushes", totalDeltas+totalFulls)
	}
	sig += fmt.Sprintf("|r%d e%d", bucket(int(nRevoke.Load())), bucket(int(nEpoch.Load())))
	c.Nontrivial(sig)
	if c.Index < 48 {
		c.Sample(map[string]any{"config": cfg, "connections": nConn, "writes": nWrites.Load(), "publishes": nPublish.Load(), "delta_pushes": totalDeltas, "full_pushes": totalFulls, "cached_items": totalCached, "revocations": nRevoke.Load(), "epoch_changes": nEpoch.Load(), "converged_keys": converged})
	}
	for _, cr := range conns {
		if cr.conn != nil {
			cr.closing.Store(true)
			_ = cr.conn.CloseFn()
		}
	}
	w.Shutdown()
}

func TestC25(t *testing.T) {
	kit.Main(t, kit.Spec{
		ID:     "C25",
		Bubble: true,
		Rule: "each case = one virtual-time bubble with one shared-poll channel (versioned 3/5 or versionless; KeepLatestData on/off; refresh interval 30-400 ms, batch size 1/2/1000, notification batching none/delay/size, channel shutdown delay immediate/100 ms/1 s/1 h; PublishEnabled via the memory broker 1/3) and 2-5 keys. " +
			"A scripted backend is the source of truth per key (version, bytes = near-identical JSON documents carrying a unique write id): 1-2 writers advance it every 0-25 virtual ms (occasional 0.2-0.9 s pauses) silently, with SharedPollNotify, or (versioned) with SharedPollPublish(version, epoch, data), sometimes delayed so that publishes arrive out of order; OnSharedPoll answers from it after a 0-20 ms virtual delay (versionless: data only; versioned: optionally skipping unchanged items and optionally with PrevData = the value of the version the request carried; in half of the cases 1 poll in 6 is overtaken by a publish of a requested key followed by one more backend write before it answers). 0-2 revocations through SharedPollManager.SharedPollRevokeKeys (all users / users / exclude users); in 1/3 of versioned cases the publisher uses epochs and restarts 0-2 times (new epoch, versions restart), announced by a publish or discovered by the next poll. " +
			"2-4 connections (JSON/Protobuf, fossil delta requested by 2/3, sync or async OnTrack) subscribe with type 4, then run 4-14 PRNG-scheduled commands: track random key sets claiming the version they hold (or 0), untrack, unsubscribe+resubscribe, close; they resubscribe after a server-side unsubscribe. Yield points: track.afterReply sleeps 0-12 ms and/or fires a targeted publish / write+notify / revoke / epoch restart for a key being tracked; sharedpoll.beforeFanout sleeps 0-8 ms and keyed.beforeEnqueue (between a keyed push's unlocked first check and its locked re-check) 0-6 ms in the same cases (no lock is held at any of the sites). " +
			"Monitor per (connection, key) over the recorded frames: versions strictly increase from the claimed version of the track; a delta applies (fossil) to the held bytes and every reconstructed value is byte-identical to the backend write whose id it carries, with that write's version; nothing for a key after the untrack reply, the removal push of a revocation, an unsubscribe reply/push (close: the transport accepts nothing); after traffic stops + 4 refresh intervals every key tracked by a live subscription (client model and server bookkeeping agree) holds the newest backend value; every subscription current when a new publisher epoch is first handed to the server ends with an unsubscribe push code 2500. Signature = configuration x per connection (protocol, delta, #delta/#full/#cached buckets) x (#revocations, #epoch changes).",
		Assumptions: []string{
			"fossil-delta.Apply from the module the repository depends on is trusted; JSON transports carry delta-negotiated data as JSON strings and backend values are JSON objects",
			"PrevData contract assumed: the backend returns the value of the version the request carried for that key (nothing else is documented)",
			"a model client claims the version it holds only when the subscribe reply epoch equals the epoch under which it received the data (versioned), in versionless mode only when the channel state cannot have been recreated (1 h shutdown delay), otherwise 0",
			"an epoch value handed over for the first time while nothing was handed over before is not an epoch change; connections issuing a command in the same virtual instant as the hand-over are not judged",
			"backend-side removals (SharedPollRefreshItem.Removed), inline untrack lists in track requests, track signature expiry and RefreshIntervalFn are not exercised; single node, memory broker",
			"an untrack acknowledged after the reply of a track of the same key that was still in flight when the untrack was sent (asynchronous OnTrack handler, pipelined commands) leaves the order in which the server applied them open: updates for the key are then accepted and progress is not demanded",
			"close is judged at the transport: RecTransport rejects writes after Close, so silence after close holds by construction and is only counted",
		},
		Cases: map[string]int{"quick": 2000, "thorough": 30000},
		RequireCounters: []string{"delta_pushes_applied", "full_pushes", "cached_items_in_track_reply", "versionless_cases", "versionless_pushes", "versioned_cases", "publishes", "notifies", "revocations", "revocation_pushes",
			"epoch_changes", "insufficient_state_unsubscribes", "untrack_replies", "closes", "client_unsubscribes", "track_window_writes_or_revocations", "fanout_window_untrack_unsubscribe_close_revoke", "tracked_keys_converged", "prev_data_responses"},
		Run: runCase,
	})
}
