// C39: Recovery merge is sorted, deduplicated and detects gaps.
package c39

import (
	"fmt"
	"sort"
	"testing"

	"github.com/centrifugal/centrifuge/internal/recovery"
	"github.com/centrifugal/centrifuge/verifx/kit"
	"github.com/centrifugal/protocol"
)

type el struct {
	Off      uint64
	Filtered bool
}

func mk(xs []el) []*protocol.Publication {
	out := make([]*protocol.Publication, 0, len(xs))
	for _, x := range xs {
		p := &protocol.Publication{Offset: x.Off, Data: []byte(fmt.Sprintf("d%d", x.Off))}
		if x.Filtered {
			p.Time = -1
		}
		out = append(out, p)
	}
	return out
}

// reference model, written from the property statement.
func model(rec, buf []el) (offs []uint64, maxSeen uint64, ok bool) {
	plain := map[uint64]bool{}
	filtered := map[uint64]bool{}
	for _, x := range append(append([]el{}, rec...), buf...) {
		if x.Off > maxSeen {
			maxSeen = x.Off
		}
		if x.Filtered {
			filtered[x.Off] = true
		} else {
			plain[x.Off] = true
		}
	}
	for o := range plain {
		offs = append(offs, o)
	}
	sort.Slice(offs, func(i, j int) bool { return offs[i] < offs[j] })
	ok = true
	if len(buf) > 0 {
		for i := 1; i < len(offs); i++ {
			for o := offs[i-1] + 1; o < offs[i]; o++ {
				if !filtered[o] {
					ok = false
				}
			}
			if offs[i]-offs[i-1] > 1<<20 { // huge hole: cannot be covered by placeholders in our inputs
				ok = false
				break
			}
		}
	}
	return
}

func checkOne(c *kit.Case, rec, buf []el) {
	c.Eval(1)
	wantOffs, wantMax, wantOK := model(rec, buf)
	var got []*protocol.Publication
	var gotMax uint64
	var gotOK bool
	func() {
		defer func() {
			if r := recover(); r != nil {
				c.Violation("merge-panic", fmt.Sprintf("MergePublications panicked: %v", r), map[string]any{"recovered": rec, "buffered": buf})
			}
		}()
		got, gotMax, gotOK = recovery.MergePublications(mk(rec), mk(buf))
	}()
	if c.Violated() {
		return
	}
	in := map[string]any{"recovered": rec, "buffered": buf}
	if gotOK != wantOK {
		c.Violation("merge-ok-flag", fmt.Sprintf("ok=%v, reference says %v", gotOK, wantOK), in)
		return
	}
	if !gotOK {
		c.Nontrivial(fmt.Sprintf("gap r%d b%d", len(rec), len(buf)))
		c.Count("gap_detected", 1)
		return
	}
	var gotOffs []uint64
	for _, p := range got {
		if p.Time == -1 {
			c.Violation("merge-placeholder-in-output", "filtered placeholder survived the merge", in)
			return
		}
		gotOffs = append(gotOffs, p.Offset)
	}
	if fmt.Sprint(gotOffs) != fmt.Sprint(wantOffs) {
		c.Violation("merge-output-differs", fmt.Sprintf("got offsets %v want %v", gotOffs, wantOffs), in)
		return
	}
	if gotMax != wantMax {
		c.Violation("merge-max-seen", fmt.Sprintf("max seen offset %d want %d", gotMax, wantMax), in)
		return
	}
	dup := len(rec)+len(buf) != len(gotOffs)
	if len(buf) > 0 && len(rec) > 0 {
		c.Nontrivial(fmt.Sprintf("ok r%d b%d out%d dup%v", len(rec), len(buf), len(gotOffs), dup))
		c.Count("merged_both_nonempty", 1)
	}
}

// all lists of length<=3 over offsets 1..5, each element plain or filtered
func allLists() [][]el {
	var elems []el
	for o := uint64(1); o <= 5; o++ {
		elems = append(elems, el{o, false}, el{o, true})
	}
	out := [][]el{{}}
	var rec func(cur []el, depth int)
	rec = func(cur []el, depth int) {
		if depth == 0 {
			return
		}
		for _, e := range elems {
			n := append(append([]el{}, cur...), e)
			out = append(out, n)
			rec(n, depth-1)
		}
	}
	rec(nil, 3)
	return out
}

func TestC39(t *testing.T) {
	lists := allLists() // 1+10+100+1000 = 1111
	const chunks = 64
	kit.Main(t, kit.Spec{
		ID:    "C39",
		Level: "exploration",
		Rule: "cases 0..63 enumerate exhaustively every pair (recovered, buffered) of lists of length<=3 over offsets 1..5 x {plain, filtered placeholder} (1111^2 pairs, split in 64 chunks); later cases draw random pairs (length<=40, offsets up to 2^63, duplicates, placeholders, nil-free). " +
			"Non-trivial = both lists non-empty and merge succeeded, or a gap was reported; signature = (lengths, output length, duplicates present / gap).",
		Assumptions: []string{"reference merge model written from the property statement (20 lines) is correct", "internal/recovery.MergePublications is the function the client paths call"},
		Cases:       map[string]int{"quick": chunks + 200, "thorough": chunks + 20000},
		RequireCounters: []string{"gap_detected", "merged_both_nonempty"},
		Run: func(c *kit.Case) {
			if c.Index < chunks {
				for i := c.Index; i < len(lists); i += chunks {
					for _, b := range lists {
						checkOne(c, lists[i], b)
						if c.Violated() {
							return
						}
					}
				}
				if c.Index == 0 {
					c.Sample(map[string]any{"recovered": lists[57], "buffered": lists[733]})
				}
				return
			}
			// random
			for k := 0; k < 200; k++ {
				base := uint64(1)
				switch c.R.Intn(4) {
				case 0:
					base = 1
				case 1:
					base = uint64(c.R.Intn(1000)) + 1
				case 2:
					base = 1<<63 - 50
				case 3:
					base = 1 << 32
				}
				span := c.R.Range(1, 50)
				gen := func() []el {
					n := c.R.Intn(41)
					xs := make([]el, n)
					for i := range xs {
						xs[i] = el{Off: base + uint64(c.R.Intn(span)), Filtered: c.R.Chance(1, 4)}
					}
					if c.R.Bool() { // often contiguous runs like real streams
						start := base + uint64(c.R.Intn(span))
						for i := range xs {
							xs[i].Off = start + uint64(i)
						}
					}
					return xs
				}
				r, b := gen(), gen()
				checkOne(c, r, b)
				if k == 0 && c.Index == chunks {
					c.Sample(map[string]any{"recovered": r, "buffered": b})
				}
				if c.Violated() {
					return
				}
			}
		},
	})
}
