// C06: Presence reflects live subscriptions.
package c06

import (
	"fmt"
	"sort"
	"sync/atomic"
	"testing"
	"time"

	"github.com/centrifugal/centrifuge"
	"github.com/centrifugal/centrifuge/verifx/churn"
	"github.com/centrifugal/centrifuge/verifx/kit"
)

var injections = []string{"none", "tick-unsubscribe", "tick-close", "tick-subscribe", "sub-close", "add-unsubscribe", "add-unsubscribe", "add-resubscribe", "add-resubscribe"}

// racingPresence wraps the node's presence manager: the first time connection 0's
// presence tick refreshes its entry for a channel it is subscribed to, a server-side
// unsubscribe of that channel runs to completion before the refresh is forwarded,
// so the refresh lands after the unsubscribe's removal (the situation a slow
// presence backend produces).
type racingPresence struct {
	centrifuge.PresenceManager
	e     *churn.Env
	armed atomic.Bool
	fired atomic.Bool
	// resub: after the unsubscribe the connection subscribes to the channel again (server-side API,
	// with presence) before the tick's refresh is forwarded. The new subscription's presence entry
	// must survive whatever the tick does afterwards: it is looked up when the next refresh for the
	// same subscription arrives (the next tick), provided nothing ended that subscription meanwhile.
	resub      bool
	watchCh    string
	watchUnsub int
	watching   atomic.Bool
	lostEntry  atomic.Bool
	lostDetail string
}

func (p *racingPresence) unsubCount(ch string) int {
	n := 0
	for _, cb := range p.e.Callbacks() {
		if cb.Kind == "unsubscribe" && cb.Conn == 0 && cb.Channel == ch {
			n++
		}
	}
	return n
}

func (p *racingPresence) AddPresence(ch string, clientID string, info *centrifuge.ClientInfo) error {
	if p.e != nil && len(p.e.Conns) > 0 && p.armed.Load() {
		cc := p.e.Conns[0]
		if cc.Conn.Client.ID() == clientID && cc.Conn.Client.IsSubscribed(ch) && !cc.Closed() && p.armed.CompareAndSwap(true, false) {
			go cc.Conn.Client.Unsubscribe(ch)
			ok := kit.SpinUntil(func() bool {
				for _, cb := range p.e.Callbacks() {
					if cb.Kind == "unsubscribe" && cb.Conn == 0 && cb.Channel == ch {
						return true
					}
				}
				return false
			}, 200000)
			if ok && !cc.Conn.Client.IsSubscribed(ch) {
				if !p.resub {
					p.fired.Store(true)
				} else if err := cc.Conn.Client.Subscribe(ch, centrifuge.WithEmitPresence(true), centrifuge.WithChannelInfo(info.ChanInfo)); err == nil && cc.Conn.Client.IsSubscribed(ch) {
					p.fired.Store(true)
					p.watchCh, p.watchUnsub = ch, p.unsubCount(ch)
					defer p.watching.Store(true) // from the next call on
				}
			}
		}
	} else if p.e != nil && len(p.e.Conns) > 0 && p.watching.Load() && ch == p.watchCh {
		cc := p.e.Conns[0]
		if cc.Conn.Client.ID() == clientID && p.watching.CompareAndSwap(true, false) {
			// the next refresh of the re-established subscription
			if !cc.Closed() && cc.Conn.Client.IsSubscribed(ch) && p.unsubCount(ch) == p.watchUnsub {
				if res, err := p.PresenceManager.Presence(ch); err == nil {
					p.e.C.Count("resubscribed_entry_looked_up_at_next_refresh", 1)
					if _, present := res[clientID]; !present {
						p.lostDetail = fmt.Sprintf("conn 0 unsubscribed from %s and subscribed again while a presence tick's refresh for the old subscription was in flight; when the next refresh arrived the new subscription's presence entry was gone (nothing had ended that subscription)", ch)
						p.lostEntry.Store(true)
					}
				}
			}
		}
	}
	return p.PresenceManager.AddPresence(ch, clientID, info)
}

func runCase(c *kit.Case) {
	r := c.R
	kind := injections[c.Index%len(injections)]
	conc := []int{0, 0, 4}[(c.Index/len(injections))%3]
	var inj *churn.Injection
	var target atomic.Value // channel chosen by the injection
	switch kind {
	case "tick-unsubscribe":
		inj = &churn.Injection{Point: "presence.afterSnapshot", Conn: 0,
			Do: func(e *churn.Env, cc *churn.CConn, _ string) {
				chs := cc.Conn.Client.Channels()
				sort.Strings(chs)
				if len(chs) == 0 {
					target.Store("-")
					return
				}
				target.Store(chs[0])
				cc.Conn.Client.Unsubscribe(chs[0])
			},
			Until: func(e *churn.Env, cc *churn.CConn, _ string) bool {
				t, _ := target.Load().(string)
				return t == "-" || (t != "" && !cc.Conn.Client.IsSubscribed(t))
			}}
	case "tick-close":
		inj = &churn.Injection{Point: "presence.afterSnapshot", Conn: 0, Cause: kit.Pick(r, []string{"disc-client", "disc-transport", "disc-node"})}
	case "tick-subscribe":
		inj = &churn.Injection{Point: "presence.afterSnapshot", Conn: 0,
			Do: func(e *churn.Env, cc *churn.CConn, _ string) {
				ch := e.Channels[len(e.Channels)-1]
				_ = cc.Conn.Client.Subscribe(ch, centrifuge.WithEmitPresence(true))
				target.Store("done")
			},
			Until: func(e *churn.Env, cc *churn.CConn, _ string) bool { return target.Load() != nil }}
	case "sub-close":
		inj = &churn.Injection{Point: kit.Pick(r, []string{"sub.afterAddSub", "sub.afterRecover", "sub.beforeReply", "sub.afterReply", "sub.afterCommit"}), Conn: 0, Cause: "disc-client"}
	}
	var rp *racingPresence
	opts := churn.Options{
		Conns: [2]int{2, 4}, Channels: [2]int{2, 3}, Positioned: false, Closes: true,
		OpsPerConn: [2]int{3, 8}, Presence: true, PresenceInterval: time.Second, TickConcurrency: conc, Inject: inj, Users: 2,
	}
	if kind == "add-unsubscribe" || kind == "add-resubscribe" {
		opts.CalmConn0 = true
		opts.ExtraSetup = func(e *churn.Env, n *centrifuge.Node) {
			inner, err := centrifuge.NewMemoryPresenceManager(n, centrifuge.MemoryPresenceManagerConfig{})
			if err != nil {
				panic(err)
			}
			rp = &racingPresence{PresenceManager: inner, e: e, resub: kind == "add-resubscribe"}
			n.SetPresenceManager(rp)
		}
	}
	e := churn.New(c, opts)
	if rp != nil {
		// arm once the plans have been running for a while, so that the refresh that
		// triggers the race comes from a presence tick of an established subscription
		go func() {
			time.Sleep(time.Duration(200+r.Intn(600)) * time.Millisecond)
			rp.armed.Store(true)
		}()
	}
	plans := map[int][]churn.Op{}
	for _, cc := range e.Conns {
		plans[cc.Idx] = cc.Plan
	}
	node := e.Node
	checkAt := func(phase string) {
		for _, ch := range e.Channels {
			want := map[string]*churn.CConn{}
			users := map[string]bool{}
			for _, cc := range e.Conns {
				if !cc.Closed() && cc.Conn.Client.IsSubscribed(ch) {
					want[cc.Conn.Client.ID()] = cc
					users[cc.User] = true
				}
			}
			res, err := node.Presence(ch)
			if err != nil {
				c.Inconclusive("Node.Presence: " + err.Error())
				return
			}
			detail := map[string]any{"plans": plans, "phase": phase, "channel": ch, "injection": kind, "tick_concurrency": conc}
			for cid, info := range res.Presence {
				cc, ok := want[cid]
				if !ok {
					idx := -1
					for _, x := range e.Conns {
						if x.Conn.Client.ID() == cid {
							idx = x.Idx
						}
					}
					c.Violation("c06-presence-entry-without-subscription", fmt.Sprintf("%s: presence of %s contains conn %d which holds no settled subscription to it", phase, ch, idx), detail)
					continue
				}
				if info.UserID != cc.User || string(info.ConnInfo) != fmt.Sprintf(`{"c":%d}`, cc.Idx) || info.ClientID != cid {
					c.Violation("c06-presence-entry-with-wrong-info", fmt.Sprintf("%s: presence of %s holds %+v for conn %d (user %s)", phase, ch, info, cc.Idx, cc.User), detail)
				}
			}
			for cid, cc := range want {
				if _, ok := res.Presence[cid]; !ok {
					c.Violation("c06-subscriber-missing-from-presence", fmt.Sprintf("%s: conn %d holds a settled subscription with presence to %s but is not in its presence", phase, cc.Idx, ch), detail)
				}
			}
			st, err := node.PresenceStats(ch)
			if err == nil {
				nu := map[string]bool{}
				for _, info := range res.Presence {
					nu[info.UserID] = true
				}
				if st.NumClients != len(res.Presence) || st.NumUsers != len(nu) {
					c.Violation("c06-presence-stats-differ-from-presence", fmt.Sprintf("%s: stats of %s say %d clients / %d users, presence has %d / %d", phase, ch, st.NumClients, st.NumUsers, len(res.Presence), len(nu)), detail)
				}
			}
			c.Count("presence_sets_checked", 1)
			c.Count("present_entries_checked", len(want))
		}
	}
	e.Run()
	checkAt("after-churn")
	// let a few more ticks run over the settled state, then check again
	time.Sleep(3 * time.Second)
	e.W.Settle()
	checkAt("after-more-ticks")
	if inj != nil && inj.Fired.Load() {
		c.Count("injected_"+kind, 1)
	}
	if rp != nil && rp.fired.Load() {
		c.Count("injected_"+kind, 1)
	}
	if rp != nil && rp.lostEntry.Load() {
		c.Violation("c06-subscriber-missing-from-presence", rp.lostDetail, map[string]any{"plans": plans, "injection": kind, "tick_concurrency": conc})
	}
	ticks := 0
	for _, cb := range e.Callbacks() {
		if cb.Kind == "alive" {
			ticks++
		}
	}
	c.Count("presence_ticks", ticks)
	sig := fmt.Sprintf("%s/%d/%v", kind, conc, inj != nil && inj.Fired.Load())
	for _, cc := range e.Conns {
		sig += fmt.Sprintf("|%v:%d", cc.Closed(), len(cc.Conn.Client.Channels()))
	}
	c.Nontrivial(sig)
	if c.Index < 32 {
		c.Sample(map[string]any{"plans": plans, "injection": kind, "tick_concurrency": conc})
	}
	e.Finish()
}

func TestC06(t *testing.T) {
	kit.Main(t, kit.Spec{
		ID:     "C06",
		Bubble: true,
		Rule: "case index enumerates (racing operation x tick mode): {none, unsubscribe / close / server-side subscribe launched while a presence tick sits between its channel snapshot and its presence updates, close launched inside a client-side subscribe, an unsubscribe completing while a tick's presence refresh is in flight inside the presence manager, the same followed by a new subscription of the channel (its presence entry is looked up when the next refresh for it arrives)} x {sequential tick, sequential, 4 concurrent presence updates}; around it a seeded churn (2-4 connections of 2 users, 2-3 channels, every subscription with presence, plans may end in disconnects, presence tick every virtual second). " +
			"At two settle points: Presence(ch) == exactly the connections holding a settled subscription, with their client id / user / connection info, and PresenceStats == (#entries, #distinct users) of that set. Signature = (race, mode, fired) x per-connection (closed, #channels).",
		Assumptions:     []string{"memory presence manager (no Redis in this sandbox)", "presence TTL expiry is not involved: the memory presence manager keeps entries until removed"},
		Cases:           map[string]int{"quick": 360, "thorough": 9600},
		RequireCounters: []string{"presence_sets_checked", "present_entries_checked", "presence_ticks", "injected_tick-unsubscribe", "injected_tick-close", "injected_tick-subscribe", "injected_sub-close", "injected_add-unsubscribe", "injected_add-resubscribe", "resubscribed_entry_looked_up_at_next_refresh"},
		Run:             runCase,
	})
}
