// C08: Connection lifecycle callbacks fire once and in order.
package c08

import (
	"bytes"
	"context"
	"fmt"
	"net/http"
	"net/http/httptest"
	"net/url"
	"sync"
	"sync/atomic"
	"testing"
	"time"

	"github.com/centrifugal/centrifuge"
	"github.com/centrifugal/centrifuge/verifx/churn"
	"github.com/centrifugal/centrifuge/verifx/kit"
	"github.com/centrifugal/protocol"
)

const realTimeCases = 16 // the first cases exercise the real SSE / HTTP-stream handlers in real time

func checkCallbacks(c *kit.Case, e *churn.Env, plans map[int][]churn.Op) string {
	cbs := e.Callbacks()
	type per struct {
		connect, disconnect int64
		nConnect, nDisc     int
		unsub               map[string]int
		lastAlive           int64
	}
	by := map[int]*per{}
	get := func(i int) *per {
		p := by[i]
		if p == nil {
			p = &per{unsub: map[string]int{}}
			by[i] = p
		}
		return p
	}
	detail := func(conn int) any {
		var mine []churn.CB
		for _, cb := range cbs {
			if cb.Conn == conn {
				mine = append(mine, cb)
			}
		}
		if len(mine) > 60 {
			mine = mine[len(mine)-60:]
		}
		return map[string]any{"plans": plans, "callbacks_of_conn": mine}
	}
	sig := ""
	for _, cb := range cbs {
		if cb.Conn < 0 {
			continue
		}
		p := get(cb.Conn)
		switch cb.Kind {
		case "connect":
			p.nConnect++
			if p.nConnect > 1 {
				c.Violation("c08-connect-callback-twice", fmt.Sprintf("conn %d: OnConnect ran %d times", cb.Conn, p.nConnect), detail(cb.Conn))
			}
			p.connect = cb.Seq
		case "connecting":
		case "disconnect":
			p.nDisc++
			if p.nDisc > 1 {
				c.Violation("c08-disconnect-callback-twice", fmt.Sprintf("conn %d: OnDisconnect ran %d times", cb.Conn, p.nDisc), detail(cb.Conn))
			}
			if p.nConnect == 0 {
				c.Violation("c08-disconnect-callback-without-connect", fmt.Sprintf("conn %d: OnDisconnect ran but OnConnect never did", cb.Conn), detail(cb.Conn))
			}
			p.disconnect = cb.Seq
			sig += fmt.Sprintf("%dd%d", cb.Conn, cb.Code)
		default:
			if p.nConnect == 0 {
				c.Violation("c08-callback-before-connect", fmt.Sprintf("conn %d: %s callback ran before OnConnect", cb.Conn, cb.Kind), detail(cb.Conn))
			}
			if cb.Kind == "alive" && p.nDisc > 0 {
				c.Violation("c08-alive-after-disconnect", fmt.Sprintf("conn %d: OnAlive ran after OnDisconnect", cb.Conn), detail(cb.Conn))
			}
			if cb.Kind == "unsubscribe" {
				p.unsub[cb.Channel]++
				sig += fmt.Sprintf("%du", cb.Conn)
			}
			if cb.Kind == "alive" {
				c.Count("alive_callbacks", 1)
			}
		}
	}
	// unsubscribe callbacks vs subscriptions that were established and ended
	for _, cc := range e.Conns {
		told := map[string]int{}
		for _, f := range cc.Conn.T.Frames() {
			if f.Reply != nil && f.Reply.Id != 0 && f.Reply.Error == nil && f.Reply.Subscribe != nil {
				if ch, ok := cc.SubIDs[f.Reply.Id]; ok {
					told[ch]++
				}
			}
			if f.Push != nil && f.Push.Subscribe != nil {
				told[f.Push.Channel]++
			}
		}
		attempts := map[string]int{}
		for _, op := range cc.Plan {
			switch op.Kind {
			case "sub", "ssub", "nsub":
				attempts[op.Channel]++
			}
		}
		p := get(cc.Idx)
		for _, ch := range e.Channels {
			n := p.unsub[ch]
			if n > attempts[ch] {
				c.Violation("c08-more-unsubscribe-callbacks-than-subscribe-attempts", fmt.Sprintf("conn %d channel %s: %d OnUnsubscribe callbacks for %d subscribe attempts", cc.Idx, ch, n, attempts[ch]), detail(cc.Idx))
			}
			if !cc.Closed() {
				now := 0
				if cc.Conn.Client.IsSubscribed(ch) {
					now = 1
				}
				if n+now != told[ch] {
					cls := "c08-unsubscribe-callback-missing"
					if n+now > told[ch] {
						cls = "c08-unsubscribe-callback-repeated"
					}
					c.Violation(cls, fmt.Sprintf("conn %d channel %s: %d subscriptions were established (as told to the client), %d still active, but OnUnsubscribe ran %d times", cc.Idx, ch, told[ch], now, n), detail(cc.Idx))
				}
				c.Count("ended_subscriptions_matched", n)
			} else if cc.Conn.T != nil {
				c.Count("unsubscribe_callbacks_on_closed", n)
			}
		}
	}
	return sig
}

func bubbleCase(c *kit.Case) {
	r := c.R
	e := churn.New(c, churn.Options{
		Conns: [2]int{2, 4}, Channels: [2]int{1, 3}, Positioned: true, Closes: true, AsyncLong: r.Chance(1, 4),
		OpsPerConn: [2]int{2, 8}, Presence: r.Bool(), JoinLeave: r.Chance(1, 3), PresenceInterval: time.Second,
	})
	plans := map[int][]churn.Op{}
	for _, cc := range e.Conns {
		plans[cc.Idx] = cc.Plan
	}
	e.Run()
	sig := checkCallbacks(c, e, plans)

	// shutdown racing new connections
	node := e.Node
	var shutdownReturned atomic.Int64
	type late struct {
		conn     *kit.Conn
		startSeq int64
		idx      int
	}
	var lates []*late
	var lmu sync.Mutex
	var wg sync.WaitGroup
	nLate := r.Range(2, 5)
	offsets := make([]time.Duration, nLate)
	for i := range offsets {
		offsets[i] = time.Duration(r.Range(0, 6)) * time.Millisecond
	}
	shutdownAt := time.Duration(r.Range(1, 4)) * time.Millisecond
	wg.Add(1)
	go func() {
		defer wg.Done()
		time.Sleep(shutdownAt)
		_ = node.Shutdown(context.Background())
		shutdownReturned.Store(e.W.Seq())
	}()
	for i := 0; i < nLate; i++ {
		i := i
		wg.Add(1)
		go func() {
			defer wg.Done()
			time.Sleep(offsets[i])
			conn := e.W.NewConn(node, kit.TransportOpts{})
			l := &late{conn: conn, startSeq: e.W.Seq(), idx: 100 + i}
			lmu.Lock()
			lates = append(lates, l)
			lmu.Unlock()
			conn.Connect(nil)
		}()
	}
	wg.Wait()
	// one more connection strictly after Shutdown returned
	after := e.W.NewConn(node, kit.TransportOpts{})
	afterSeq := e.W.Seq()
	after.Connect(nil)
	lates = append(lates, &late{conn: after, startSeq: afterSeq, idx: 199})
	time.Sleep(2 * time.Second)
	e.W.Settle()

	connected := node.Hub().Connections()
	if len(connected) > 0 {
		which := "that raced the shutdown"
		for _, l := range lates {
			if _, ok := connected[l.conn.Client.ID()]; ok && l.startSeq > shutdownReturned.Load() {
				which = "started after Shutdown returned"
			}
		}
		c.Violation("c08-connection-connected-after-shutdown", fmt.Sprintf("%d connection(s) %s are still registered as connected after Node.Shutdown completed", len(connected), which),
			map[string]any{"shutdown_at": shutdownAt.String(), "late_offsets": fmt.Sprint(offsets)})
	}
	for _, cc := range e.Conns {
		if !cc.Closed() {
			c.Violation("c08-connection-open-after-shutdown", fmt.Sprintf("conn %d transport is still open after Node.Shutdown completed", cc.Idx), map[string]any{"plans": plans})
		}
	}
	c.Count("late_connections", len(lates))
	c.Count("churn_operations", e.Ops())
	c.Nontrivial(sig)
	if c.Index < realTimeCases+24 {
		c.Sample(map[string]any{"plans": plans, "callback_signature": sig})
	}
	for _, l := range lates {
		_ = l.conn.CloseFn()
	}
	e.Finish()
}

// realCase: a connection arriving at the real SSE / HTTP-stream handlers after
// Node.Shutdown returned must not become connected.
func realCase(c *kit.Case) {
	kind := []string{"sse", "http_stream"}[c.Index%2]
	var connects atomic.Int64
	n, err := centrifuge.New(centrifuge.Config{})
	if err != nil {
		c.Inconclusive(err.Error())
		return
	}
	n.OnConnecting(func(context.Context, centrifuge.ConnectEvent) (centrifuge.ConnectReply, error) {
		return kit.Creds("u"), nil
	})
	n.OnConnect(func(*centrifuge.Client) { connects.Add(1) })
	if err := n.Run(); err != nil {
		c.Inconclusive(err.Error())
		return
	}
	mux := http.NewServeMux()
	mux.Handle("/sse", centrifuge.NewSSEHandler(n, centrifuge.SSEConfig{}))
	mux.Handle("/http_stream", centrifuge.NewHTTPStreamHandler(n, centrifuge.HTTPStreamConfig{}))
	srv := httptest.NewServer(mux)
	defer srv.Close()
	do := func(want int64) (int, bool) {
		ctx, cancel := context.WithTimeout(context.Background(), 20*time.Second)
		defer cancel()
		var req *http.Request
		body := `{"id":1,"connect":{}}`
		if kind == "sse" {
			req, _ = http.NewRequestWithContext(ctx, http.MethodGet, srv.URL+"/sse?cf_connect="+url.QueryEscape(body), nil)
		} else {
			req, _ = http.NewRequestWithContext(ctx, http.MethodPost, srv.URL+"/http_stream", bytes.NewBufferString(body))
		}
		resp, err := http.DefaultClient.Do(req)
		if err != nil {
			c.Logf("probe error: %v", err)
			return 0, false
		}
		c.Logf("probe status %d", resp.StatusCode)
		defer resp.Body.Close()
		buf := make([]byte, 4096)
		got := 0
		for got <= 64 {
			k, err := resp.Body.Read(buf)
			got += k
			c.Logf("read %d bytes err=%v: %q", k, err, string(buf[:k]))
			if err != nil {
				break
			}
		}
		// keep the stream open for a moment: OnConnect runs after the connect reply
		// was written, and closing the response cancels the connection
		for i := 0; i < 300 && connects.Load() == want; i++ {
			time.Sleep(10 * time.Millisecond)
		}
		return resp.StatusCode, true
	}
	// sanity: before shutdown the handler connects (otherwise the probe proves nothing)
	do(0)
	if connects.Load() == 0 {
		c.Inconclusive("probe connection did not reach OnConnect before shutdown")
		_ = n.Shutdown(context.Background())
		return
	}
	before := connects.Load()
	_ = n.Shutdown(context.Background())
	do(before)
	if connects.Load() > before || n.Hub().NumClients() > 0 {
		c.Violation("c08-new-connection-connected-after-shutdown-"+kind, fmt.Sprintf("a %s connection made after Node.Shutdown returned reached OnConnect (registered clients now: %d)", kind, n.Hub().NumClients()), nil)
	}
	c.Count("real_handler_probes_"+kind, 1)
	c.Nontrivial("real-" + kind)
}


// timersCase: connections (unidirectional and bidirectional) whose OnConnect callback is
// slow (it registers its handlers, then keeps running for a seeded virtual duration)
// while the presence/alive tick (1 s) and the expiry/refresh timer (2 s) are short, with
// disconnects of every origin landing before, inside and after the callback. A callback
// the connect callback enables must not run until the connect callback has returned.
func timersCase(c *kit.Case) {
	r := c.R
	w := kit.NewWorld(c)
	type ev struct {
		Seq  int64
		Conn int
		Kind string
		Code uint32
		At   string
	}
	type plan struct {
		Idx    int
		Uni    bool
		Proto  string
		Delay  time.Duration // how long OnConnect keeps running after registering handlers
		Expire bool
		End    string
		EndAt  time.Duration
	}
	var mu sync.Mutex
	var log []ev
	start := time.Now()
	rec := func(conn int, kind string, code uint32) {
		mu.Lock()
		log = append(log, ev{Seq: w.Seq(), Conn: conn, Kind: kind, Code: code, At: time.Since(start).String()})
		mu.Unlock()
	}
	var byClient, byTrans sync.Map
	cfg := centrifuge.Config{ClientPresenceUpdateInterval: time.Second, ClientExpiredCloseDelay: 2 * time.Second}
	node, _ := w.NewNode(cfg, func(n *centrifuge.Node) {
		n.OnConnecting(func(_ context.Context, e centrifuge.ConnectEvent) (centrifuge.ConnectReply, error) {
			v, _ := byTrans.Load(e.Transport)
			p, _ := v.(*plan)
			if p == nil {
				return kit.Creds("late"), nil
			}
			rep := kit.Creds(fmt.Sprintf("u%d", p.Idx))
			if p.Expire {
				rep.Credentials.ExpireAt = time.Now().Unix() + 2
			}
			if p.Uni {
				rep.Subscriptions = map[string]centrifuge.SubscribeOptions{"c08t:ch": {EmitPresence: true}}
			}
			return rep, nil
		})
		n.OnConnect(func(cl *centrifuge.Client) {
			v, _ := byClient.Load(cl)
			p, _ := v.(*plan)
			if p == nil {
				return
			}
			rec(p.Idx, "connect", 0)
			cl.OnAlive(func() { rec(p.Idx, "alive", 0) })
			cl.OnRefresh(func(e centrifuge.RefreshEvent, cb centrifuge.RefreshCallback) {
				rec(p.Idx, "refresh", 0)
				cb(centrifuge.RefreshReply{ExpireAt: time.Now().Unix() + 2}, nil)
			})
			cl.OnSubscribe(func(e centrifuge.SubscribeEvent, cb centrifuge.SubscribeCallback) {
				rec(p.Idx, "subscribe", 0)
				cb(centrifuge.SubscribeReply{Options: centrifuge.SubscribeOptions{EmitPresence: true}}, nil)
			})
			cl.OnUnsubscribe(func(e centrifuge.UnsubscribeEvent) { rec(p.Idx, "unsubscribe", e.Code) })
			cl.OnDisconnect(func(e centrifuge.DisconnectEvent) { rec(p.Idx, "disconnect", e.Code) })
			if p.Delay > 0 {
				time.Sleep(p.Delay)
			}
			rec(p.Idx, "connect-end", 0)
		})
	})
	n := r.Range(3, 5)
	plans := make([]*plan, n)
	conns := make([]*kit.Conn, n)
	var wg sync.WaitGroup
	for i := 0; i < n; i++ {
		p := &plan{Idx: i, Uni: i == 0 || r.Chance(1, 2), Expire: r.Chance(1, 2),
			Delay: kit.Pick(r, []time.Duration{0, 300 * time.Millisecond, 1500 * time.Millisecond, 2500 * time.Millisecond, 4200 * time.Millisecond}),
			End:   kit.Pick(r, []string{"", "", "client-disconnect", "transport-close", "node-disconnect"}),
			EndAt: time.Duration(r.Range(0, 6000)) * time.Millisecond}
		if p.Delay > 0 && p.End != "" && p.EndAt < p.Delay+50*time.Millisecond {
			// a close that lands while the connect callback sleeps waits on the
			// connection's connect mutex: a mutex wait freezes a virtual-time bubble
			// (see harness/README.md), so closes of slow connections come afterwards
			p.EndAt += p.Delay + 50*time.Millisecond
		}
		proto := kit.Pick(r, []centrifuge.ProtocolType{centrifuge.ProtocolTypeJSON, centrifuge.ProtocolTypeProtobuf})
		p.Proto = string(proto)
		plans[i] = p
		conn := w.NewConn(node, kit.TransportOpts{Protocol: proto, Unidirectional: p.Uni})
		conns[i] = conn
		byClient.Store(conn.Client, p)
		byTrans.Store(conn.T, p)
		wg.Add(1)
		go func() {
			defer wg.Done()
			if p.Uni {
				conn.Client.Connect(centrifuge.ConnectRequest{})
				return
			}
			conn.Connect(nil)
			if !p.Expire {
				conn.Subscribe(&protocol.SubscribeRequest{Channel: "c08t:ch"})
			}
		}()
		if p.End != "" {
			wg.Add(1)
			go func() {
				defer wg.Done()
				time.Sleep(p.EndAt)
				switch p.End {
				case "client-disconnect":
					conn.Client.Disconnect(centrifuge.DisconnectForceNoReconnect)
				case "transport-close":
					_ = conn.CloseFn()
				case "node-disconnect":
					_ = node.Disconnect(fmt.Sprintf("u%d", p.Idx))
				}
			}()
		}
	}
	time.Sleep(8 * time.Second)
	wg.Wait()
	w.Settle()
	w.Shutdown()

	mu.Lock()
	events := append([]ev(nil), log...)
	mu.Unlock()
	sig := ""
	for _, p := range plans {
		var mine []ev
		for _, e := range events {
			if e.Conn == p.Idx {
				mine = append(mine, e)
			}
		}
		detail := map[string]any{"plan": p, "callbacks_of_conn": mine, "plans": plans}
		var begin, end, disc int64
		nConnect, nDisc, alives := 0, 0, 0
		kinds := ""
		for _, e := range mine {
			switch e.Kind {
			case "connect":
				nConnect++
				begin = e.Seq
				if nConnect > 1 {
					c.Violation("c08-connect-callback-twice", fmt.Sprintf("conn %d: OnConnect ran %d times", p.Idx, nConnect), detail)
				}
			case "connect-end":
				end = e.Seq
			case "disconnect":
				nDisc++
				disc = e.Seq
				if nDisc > 1 {
					c.Violation("c08-disconnect-callback-twice", fmt.Sprintf("conn %d: OnDisconnect ran %d times", p.Idx, nDisc), detail)
				}
				if nConnect == 0 {
					c.Violation("c08-disconnect-callback-without-connect", fmt.Sprintf("conn %d: OnDisconnect ran but OnConnect never did", p.Idx), detail)
				}
				if end == 0 {
					c.Count("disconnect_callback_while_connect_callback_running", 1) // the library cannot hold a close back: counted, not judged
				}
			default:
				if nConnect == 0 {
					c.Violation("c08-callback-before-connect", fmt.Sprintf("conn %d: %s callback ran before OnConnect", p.Idx, e.Kind), detail)
				}
				if (e.Kind == "alive" || e.Kind == "refresh" || e.Kind == "subscribe") && begin != 0 && end == 0 {
					c.Violation("c08-callback-while-connect-callback-still-running", fmt.Sprintf("conn %d (unidirectional=%v): the %s callback ran at %s while OnConnect (slow by %s) had not returned yet", p.Idx, p.Uni, e.Kind, e.At, p.Delay), detail)
				}
				if e.Kind == "alive" {
					alives++
					if nDisc > 0 {
						c.Violation("c08-alive-after-disconnect", fmt.Sprintf("conn %d: OnAlive ran after OnDisconnect", p.Idx), detail)
					}
				}
				if e.Kind == "refresh" {
					c.Count("refresh_callbacks", 1)
				}
			}
			if len(kinds) < 24 && (len(kinds) == 0 || kinds[len(kinds)-1] != e.Kind[0]) {
				kinds += e.Kind[:1]
			}
		}
		_ = disc
		if nConnect > 0 && p.Delay >= time.Second {
			if p.Uni {
				c.Count("slow_connect_callbacks_unidirectional", 1)
			} else {
				c.Count("slow_connect_callbacks_bidirectional", 1)
			}
			if alives > 0 {
				c.Count("alive_callbacks_after_slow_connect", alives)
			}
		}
		c.Eval(1)
		sig += fmt.Sprintf("%v/%s/%s/%s|", p.Uni, p.Delay, p.End, kinds)
	}
	c.Count("timer_cases", 1)
	c.Nontrivial("timers:" + sig)
	if c.Index < realTimeCases+24 {
		c.Sample(map[string]any{"plans": plans, "callback_signature": sig})
	}
}

func runCase(c *kit.Case) {
	if c.Index < realTimeCases {
		realCase(c)
		return
	}
	if (c.Index-realTimeCases)%4 == 3 {
		kit.RunBubble(c, func() { timersCase(c) })
		return
	}
	kit.RunBubble(c, func() { bubbleCase(c) })
}

func TestC08(t *testing.T) {
	kit.Main(t, kit.Spec{
		ID: "C08",
		Rule: fmt.Sprintf("cases 0..%d (real time): a connection made through the real SSE / HTTP-stream handler after Node.Shutdown returned must not reach OnConnect. Other cases = one virtual-time bubble each: seeded churn (2-4 connections, 1-3 channels, subscribes/unsubscribes of every kind, disconnects, presence/alive tick every virtual second), callback log with global sequence numbers, then Node.Shutdown racing 2-5 new connections plus one started after Shutdown returned. Every fourth bubble is a timers case: 3-5 unidirectional / bidirectional connections whose OnConnect registers its handlers and then keeps running for 0..4.2 virtual seconds, alive tick 1 s, connection expiry/refresh 2 s, disconnects of three origins at 0..6 s; an alive / refresh / subscribe callback that runs before OnConnect returned is a violation (a disconnect in that window is counted only). ", realTimeCases-1) +
			"Oracle: OnConnect <=1 and before every other per-connection callback; OnDisconnect <=1 and only after OnConnect; no OnAlive after OnDisconnect; for connections still open #OnUnsubscribe(ch) + (subscribed now) == #subscriptions the client was told were established; after Shutdown: nothing registered as connected, every transport closed. Signature = order of unsubscribe/disconnect callbacks.",
		Assumptions: []string{
			"real-handler probes keep the stream open for up to 3 s (real time) for a late OnConnect: a slower callback would be missed, never misreported",
			"WebSocket handler after shutdown is not probed here (it is the one handler that consults NotifyShutdown)",
		},
		Cases:           map[string]int{"quick": realTimeCases + 700, "thorough": realTimeCases + 14000},
		RequireCounters: []string{"alive_callbacks", "ended_subscriptions_matched", "late_connections", "real_handler_probes_sse", "real_handler_probes_http_stream", "slow_connect_callbacks_unidirectional", "slow_connect_callbacks_bidirectional", "alive_callbacks_after_slow_connect", "refresh_callbacks"},
		Run:             runCase,
	})
}
