// C08: Connection lifecycle callbacks fire once and in order.
package c08

import (
	"bytes"
	"context"
	"fmt"
	"net/http"
	"net/http/httptest"
	"net/url"
	"sync"
	"sync/atomic"
	"testing"
	"time"

	"github.com/centrifugal/centrifuge"
	"github.com/centrifugal/centrifuge/verifx/churn"
	"github.com/centrifugal/centrifuge/verifx/kit"
)

const realTimeCases = 16 // the first cases exercise the real SSE / HTTP-stream handlers in real time

func checkCallbacks(c *kit.Case, e *churn.Env, plans map[int][]churn.Op) string {
	cbs := e.Callbacks()
	type per struct {
		connect, disconnect int64
		nConnect, nDisc     int
		unsub               map[string]int
		lastAlive           int64
	}
	by := map[int]*per{}
	get := func(i int) *per {
		p := by[i]
		if p == nil {
			p = &per{unsub: map[string]int{}}
			by[i] = p
		}
		return p
	}
	detail := func(conn int) any {
		var mine []churn.CB
		for _, cb := range cbs {
			if cb.Conn == conn {
				mine = append(mine, cb)
			}
		}
		if len(mine) > 60 {
			mine = mine[len(mine)-60:]
		}
		return map[string]any{"plans": plans, "callbacks_of_conn": mine}
	}
	sig := ""
	for _, cb := range cbs {
		if cb.Conn < 0 {
			continue
		}
		p := get(cb.Conn)
		switch cb.Kind {
		case "connect":
			p.nConnect++
			if p.nConnect > 1 {
				c.Violation("c08-connect-callback-twice", fmt.Sprintf("conn %d: OnConnect ran %d times", cb.Conn, p.nConnect), detail(cb.Conn))
			}
			p.connect = cb.Seq
		case "connecting":
		case "disconnect":
			p.nDisc++
			if p.nDisc > 1 {
				c.Violation("c08-disconnect-callback-twice", fmt.Sprintf("conn %d: OnDisconnect ran %d times", cb.Conn, p.nDisc), detail(cb.Conn))
			}
			if p.nConnect == 0 {
				c.Violation("c08-disconnect-callback-without-connect", fmt.Sprintf("conn %d: OnDisconnect ran but OnConnect never did", cb.Conn), detail(cb.Conn))
			}
			p.disconnect = cb.Seq
			sig += fmt.Sprintf("%dd%d", cb.Conn, cb.Code)
		default:
			if p.nConnect == 0 {
				c.Violation("c08-callback-before-connect", fmt.Sprintf("conn %d: %s callback ran before OnConnect", cb.Conn, cb.Kind), detail(cb.Conn))
			}
			if cb.Kind == "alive" && p.nDisc > 0 {
				c.Violation("c08-alive-after-disconnect", fmt.Sprintf("conn %d: OnAlive ran after OnDisconnect", cb.Conn), detail(cb.Conn))
			}
			if cb.Kind == "unsubscribe" {
				p.unsub[cb.Channel]++
				sig += fmt.Sprintf("%du", cb.Conn)
			}
			if cb.Kind == "alive" {
				c.Count("alive_callbacks", 1)
			}
		}
	}
	// unsubscribe callbacks vs subscriptions that were established and ended
	for _, cc := range e.Conns {
		told := map[string]int{}
		for _, f := range cc.Conn.T.Frames() {
			if f.Reply != nil && f.Reply.Id != 0 && f.Reply.Error == nil && f.Reply.Subscribe != nil {
				if ch, ok := cc.SubIDs[f.Reply.Id]; ok {
					told[ch]++
				}
			}
			if f.Push != nil && f.Push.Subscribe != nil {
				told[f.Push.Channel]++
			}
		}
		attempts := map[string]int{}
		for _, op := range cc.Plan {
			switch op.Kind {
			case "sub", "ssub", "nsub":
				attempts[op.Channel]++
			}
		}
		p := get(cc.Idx)
		for _, ch := range e.Channels {
			n := p.unsub[ch]
			if n > attempts[ch] {
				c.Violation("c08-more-unsubscribe-callbacks-than-subscribe-attempts", fmt.Sprintf("conn %d channel %s: %d OnUnsubscribe callbacks for %d subscribe attempts", cc.Idx, ch, n, attempts[ch]), detail(cc.Idx))
			}
			if !cc.Closed() {
				now := 0
				if cc.Conn.Client.IsSubscribed(ch) {
					now = 1
				}
				if n+now != told[ch] {
					cls := "c08-unsubscribe-callback-missing"
					if n+now > told[ch] {
						cls = "c08-unsubscribe-callback-repeated"
					}
					c.Violation(cls, fmt.Sprintf("conn %d channel %s: %d subscriptions were established (as told to the client), %d still active, but OnUnsubscribe ran %d times", cc.Idx, ch, told[ch], now, n), detail(cc.Idx))
				}
				c.Count("ended_subscriptions_matched", n)
			} else if cc.Conn.T != nil {
				c.Count("unsubscribe_callbacks_on_closed", n)
			}
		}
	}
	return sig
}

func bubbleCase(c *kit.Case) {
	r := c.R
	e := churn.New(c, churn.Options{
		Conns: [2]int{2, 4}, Channels: [2]int{1, 3}, Positioned: true, Closes: true, AsyncLong: r.Chance(1, 4),
		OpsPerConn: [2]int{2, 8}, Presence: r.Bool(), JoinLeave: r.Chance(1, 3), PresenceInterval: time.Second,
	})
	plans := map[int][]churn.Op{}
	for _, cc := range e.Conns {
		plans[cc.Idx] = cc.Plan
	}
	e.Run()
	sig := checkCallbacks(c, e, plans)

	// shutdown racing new connections
	node := e.Node
	var shutdownReturned atomic.Int64
	type late struct {
		conn     *kit.Conn
		startSeq int64
		idx      int
	}
	var lates []*late
	var lmu sync.Mutex
	var wg sync.WaitGroup
	nLate := r.Range(2, 5)
	offsets := make([]time.Duration, nLate)
	for i := range offsets {
		offsets[i] = time.Duration(r.Range(0, 6)) * time.Millisecond
	}
	shutdownAt := time.Duration(r.Range(1, 4)) * time.Millisecond
	wg.Add(1)
	go func() {
		defer wg.Done()
		time.Sleep(shutdownAt)
		_ = node.Shutdown(context.Background())
		shutdownReturned.Store(e.W.Seq())
	}()
	for i := 0; i < nLate; i++ {
		i := i
		wg.Add(1)
		go func() {
			defer wg.Done()
			time.Sleep(offsets[i])
			conn := e.W.NewConn(node, kit.TransportOpts{})
			l := &late{conn: conn, startSeq: e.W.Seq(), idx: 100 + i}
			lmu.Lock()
			lates = append(lates, l)
			lmu.Unlock()
			conn.Connect(nil)
		}()
	}
	wg.Wait()
	// one more connection strictly after Shutdown returned
	after := e.W.NewConn(node, kit.TransportOpts{})
	afterSeq := e.W.Seq()
	after.Connect(nil)
	lates = append(lates, &late{conn: after, startSeq: afterSeq, idx: 199})
	time.Sleep(2 * time.Second)
	e.W.Settle()

	connected := node.Hub().Connections()
	if len(connected) > 0 {
		which := "that raced the shutdown"
		for _, l := range lates {
			if _, ok := connected[l.conn.Client.ID()]; ok && l.startSeq > shutdownReturned.Load() {
				which = "started after Shutdown returned"
			}
		}
		c.Violation("c08-connection-connected-after-shutdown", fmt.Sprintf("%d connection(s) %s are still registered as connected after Node.Shutdown completed", len(connected), which),
			map[string]any{"shutdown_at": shutdownAt.String(), "late_offsets": fmt.Sprint(offsets)})
	}
	for _, cc := range e.Conns {
		if !cc.Closed() {
			c.Violation("c08-connection-open-after-shutdown", fmt.Sprintf("conn %d transport is still open after Node.Shutdown completed", cc.Idx), map[string]any{"plans": plans})
		}
	}
	c.Count("late_connections", len(lates))
	c.Count("churn_operations", e.Ops())
	c.Nontrivial(sig)
	if c.Index < realTimeCases+24 {
		c.Sample(map[string]any{"plans": plans, "callback_signature": sig})
	}
	for _, l := range lates {
		_ = l.conn.CloseFn()
	}
	e.Finish()
}

// realCase: a connection arriving at the real SSE / HTTP-stream handlers after
// Node.Shutdown returned must not become connected.
func realCase(c *kit.Case) {
	kind := []string{"sse", "http_stream"}[c.Index%2]
	var connects atomic.Int64
	n, err := centrifuge.New(centrifuge.Config{})
	if err != nil {
		c.Inconclusive(err.Error())
		return
	}
	n.OnConnecting(func(context.Context, centrifuge.ConnectEvent) (centrifuge.ConnectReply, error) {
		return kit.Creds("u"), nil
	})
	n.OnConnect(func(*centrifuge.Client) { connects.Add(1) })
	if err := n.Run(); err != nil {
		c.Inconclusive(err.Error())
		return
	}
	mux := http.NewServeMux()
	mux.Handle("/sse", centrifuge.NewSSEHandler(n, centrifuge.SSEConfig{}))
	mux.Handle("/http_stream", centrifuge.NewHTTPStreamHandler(n, centrifuge.HTTPStreamConfig{}))
	srv := httptest.NewServer(mux)
	defer srv.Close()
	do := func(want int64) (int, bool) {
		ctx, cancel := context.WithTimeout(context.Background(), 20*time.Second)
		defer cancel()
		var req *http.Request
		body := `{"id":1,"connect":{}}`
		if kind == "sse" {
			req, _ = http.NewRequestWithContext(ctx, http.MethodGet, srv.URL+"/sse?cf_connect="+url.QueryEscape(body), nil)
		} else {
			req, _ = http.NewRequestWithContext(ctx, http.MethodPost, srv.URL+"/http_stream", bytes.NewBufferString(body))
		}
		resp, err := http.DefaultClient.Do(req)
		if err != nil {
			c.Logf("probe error: %v", err)
			return 0, false
		}
		c.Logf("probe status %d", resp.StatusCode)
		defer resp.Body.Close()
		buf := make([]byte, 4096)
		got := 0
		for got <= 64 {
			k, err := resp.Body.Read(buf)
			got += k
			c.Logf("read %d bytes err=%v: %q", k, err, string(buf[:k]))
			if err != nil {
				break
			}
		}
		// keep the stream open for a moment: OnConnect runs after the connect reply
		// was written, and closing the response cancels the connection
		for i := 0; i < 300 && connects.Load() == want; i++ {
			time.Sleep(10 * time.Millisecond)
		}
		return resp.StatusCode, true
	}
	// sanity: before shutdown the handler connects (otherwise the probe proves nothing)
	do(0)
	if connects.Load() == 0 {
		c.Inconclusive("probe connection did not reach OnConnect before shutdown")
		_ = n.Shutdown(context.Background())
		return
	}
	before := connects.Load()
	_ = n.Shutdown(context.Background())
	do(before)
	if connects.Load() > before || n.Hub().NumClients() > 0 {
		c.Violation("c08-new-connection-connected-after-shutdown-"+kind, fmt.Sprintf("a %s connection made after Node.Shutdown returned reached OnConnect (registered clients now: %d)", kind, n.Hub().NumClients()), nil)
	}
	c.Count("real_handler_probes_"+kind, 1)
	c.Nontrivial("real-" + kind)
}

func runCase(c *kit.Case) {
	if c.Index < realTimeCases {
		realCase(c)
		return
	}
	kit.RunBubble(c, func() { bubbleCase(c) })
}

func TestC08(t *testing.T) {
	kit.Main(t, kit.Spec{
		ID: "C08",
		Rule: fmt.Sprintf("cases 0..%d (real time): a connection made through the real SSE / HTTP-stream handler after Node.Shutdown returned must not reach OnConnect. Other cases = one virtual-time bubble each: seeded churn (2-4 connections, 1-3 channels, subscribes/unsubscribes of every kind, disconnects, presence/alive tick every virtual second), callback log with global sequence numbers, then Node.Shutdown racing 2-5 new connections plus one started after Shutdown returned. ", realTimeCases-1) +
			"Oracle: OnConnect <=1 and before every other per-connection callback; OnDisconnect <=1 and only after OnConnect; no OnAlive after OnDisconnect; for connections still open #OnUnsubscribe(ch) + (subscribed now) == #subscriptions the client was told were established; after Shutdown: nothing registered as connected, every transport closed. Signature = order of unsubscribe/disconnect callbacks.",
		Assumptions: []string{
			"real-handler probes keep the stream open for up to 3 s (real time) for a late OnConnect: a slower callback would be missed, never misreported",
			"WebSocket handler after shutdown is not probed here (it is the one handler that consults NotifyShutdown)",
		},
		Cases:           map[string]int{"quick": realTimeCases + 700, "thorough": realTimeCases + 14000},
		RequireCounters: []string{"alive_callbacks", "ended_subscriptions_matched", "late_connections", "real_handler_probes_sse", "real_handler_probes_http_stream"},
		Run:             runCase,
	})
}
