package c29

import (
	"encoding/hex"
	"encoding/json"
	"fmt"
	"os"
	"testing"

	"github.com/centrifugal/centrifuge/verifx/wsmodel"
)

func TestDbg(t *testing.T) {
	b, _ := os.ReadFile(os.Getenv("DBG_REPLAY"))
	var d struct {
		Detail struct {
			Config streamCfg `json:"config"`
			Hex    string    `json:"client_bytes_hex"`
		} `json:"detail"`
	}
	_ = json.Unmarshal(b, &d)
	stream, _ := hex.DecodeString(d.Detail.Hex)
	cfg := d.Detail.Config
	for _, lim := range []int64{149, 150, 151, 152, 153, 157, 158, 0} {
		cfg.ReadLimit = lim
		o := runLib(stream, cfg, 1)
		fmt.Printf("limit=%d msgs=%d err=%v\n", lim, len(o.Msgs), o.Err)
	}
	cfg.ReadLimit = 149
	o := runLib(stream, cfg, 1)
	fmt.Printf("msgs=%d err=%v\n", len(o.Msgs), o.Err)
	for _, m := range o.Msgs {
		fmt.Printf("  type=%d len=%d partial=%v %x\n", m.Type, len(m.Data), m.Partial, m.Data[:min(len(m.Data), 16)])
	}
	exp := wsmodel.Decode(stream, wsmodel.RecvConfig{Server: true, Deflate: cfg.Deflate, ReadLimit: cfg.ReadLimit, InflatedLimit: cfg.InflatedLimit})
	fmt.Printf("model msgs=%d end=%v kind=%s amb=%v\n", len(exp.Msgs), exp.End, exp.FailKind, exp.Ambiguous)
	for _, m := range exp.Msgs {
		fmt.Printf("  type=%d len=%d z=%v frag=%d\n", m.Type, len(m.Data), m.Compressed, m.Fragments)
	}
	fmt.Println(briefFrames(o.OutFrames))
}
