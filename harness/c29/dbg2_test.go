package c29

import (
	"fmt"
	"strings"
	"testing"
	"time"

	"github.com/centrifugal/centrifuge/verifx/kit"
	"github.com/centrifugal/centrifuge/verifx/wsmodel"
)

func TestDbg2(t *testing.T) {
	var tb, tl, tm time.Duration
	for idx := 160; idx < 164; idx++ {
		r := kit.NewRand(1, uint64(idx))
		for k := 0; k < 100; k++ {
			t0 := time.Now()
			stream, cfg, notes, _ := build(r)
			t1 := time.Now()
			o := runLib(stream, cfg, 5)
			t2 := time.Now()
			exp := wsmodel.Decode(stream, wsmodel.RecvConfig{Server: true, Deflate: cfg.Deflate, ReadLimit: cfg.ReadLimit, InflatedLimit: cfg.InflatedLimit})
			t3 := time.Now()
			tb += t1.Sub(t0)
			tl += t2.Sub(t1)
			tm += t3.Sub(t2)
			if t3.Sub(t0) > 300*time.Millisecond {
				fmt.Printf("case %d stream %d: build %v lib %v model %v len=%d msgs=%d/%d cfg=%+v notes=%s\n", idx, k, t1.Sub(t0), t2.Sub(t1), t3.Sub(t2), len(stream), len(o.Msgs), len(exp.Msgs), cfg, strings.Join(notes, " ")[:min(200, len(strings.Join(notes, " ")))])
			}
		}
	}
	fmt.Println("totals build", tb, "lib", tl, "model", tm)
}
