// Package recov holds what the recovery checks (C02, C03, C43 ...) share: a
// channel-history driver that records every publish at the boundary, and tiny
// tag filters with their reference semantics.
package recov

import (
	"encoding/json"
	"fmt"
	"time"

	"github.com/centrifugal/centrifuge"
	"github.com/centrifugal/centrifuge/verifx/kit"
	"github.com/centrifugal/protocol"
)

// Rec is one successful publish.
type Rec struct {
	ID     string
	Tag    string
	Offset uint64
	Epoch  string
	At     time.Duration
	Size   int
	TTL    time.Duration
}

// Hist drives one channel's history sequentially and remembers what was published.
type Hist struct {
	W       *kit.World
	Node    *centrifuge.Node
	Channel string
	Log     []Rec
	Ops     []string
	n       int
	// LastRemove is the virtual time of the last RemoveHistory (0 = never).
	LastRemove time.Duration
}

func PayloadID(data []byte) string {
	var m map[string]string
	if json.Unmarshal(data, &m) == nil {
		return m["id"]
	}
	return ""
}

// Publish publishes one uniquely identified message with a tag.
func (h *Hist) Publish(tag string, size int, ttl time.Duration, metaTTL time.Duration) (Rec, error) {
	h.n++
	id := fmt.Sprintf("m%d", h.n)
	data, _ := json.Marshal(map[string]string{"id": id})
	opts := []centrifuge.PublishOption{centrifuge.WithTags(map[string]string{"t": tag})}
	if metaTTL > 0 {
		opts = append(opts, centrifuge.WithHistory(size, ttl, metaTTL))
	} else {
		opts = append(opts, centrifuge.WithHistory(size, ttl))
	}
	res, err := h.Node.Publish(h.Channel, data, opts...)
	if err != nil {
		h.Ops = append(h.Ops, fmt.Sprintf("publish %s err=%v", id, err))
		return Rec{}, err
	}
	r := Rec{ID: id, Tag: tag, Offset: res.Offset, Epoch: res.Epoch, At: h.W.Now(), Size: size, TTL: ttl}
	h.Log = append(h.Log, r)
	h.Ops = append(h.Ops, fmt.Sprintf("publish %s tag=%s size=%d ttl=%s -> %d/%s", id, tag, size, ttl, res.Offset, res.Epoch))
	return r, nil
}

func (h *Hist) Remove() {
	_ = h.Node.RemoveHistory(h.Channel)
	h.LastRemove = h.W.Now()
	h.Ops = append(h.Ops, "remove-history")
}

func (h *Hist) Sleep(d time.Duration) {
	time.Sleep(d)
	h.Ops = append(h.Ops, "sleep "+d.String())
}

// ByPos indexes the log by epoch and offset.
func (h *Hist) ByPos() map[string]map[uint64]Rec {
	out := map[string]map[uint64]Rec{}
	for _, r := range h.Log {
		if r.Offset == 0 {
			continue
		}
		m := out[r.Epoch]
		if m == nil {
			m = map[uint64]Rec{}
			out[r.Epoch] = m
		}
		m[r.Offset] = r
	}
	return out
}

// TagFilter is a tiny filter with reference semantics decided here, independently
// of the engine: Admit reports whether a publication with tag value t is visible.
type TagFilter struct {
	Name  string
	Node  *protocol.FilterNode
	Admit func(t string) bool
}

// Filters over the single tag "t" (values used: a, b, c).
var Filters = []TagFilter{
	{Name: "none", Node: nil, Admit: func(string) bool { return true }},
	{Name: "eq-a", Node: &protocol.FilterNode{Key: "t", Cmp: "eq", Val: "a"}, Admit: func(t string) bool { return t == "a" }},
	{Name: "neq-b", Node: &protocol.FilterNode{Key: "t", Cmp: "neq", Val: "b"}, Admit: func(t string) bool { return t != "b" }},
	{Name: "in-a-b", Node: &protocol.FilterNode{Key: "t", Cmp: "in", Vals: []string{"a", "b"}}, Admit: func(t string) bool { return t == "a" || t == "b" }},
	{Name: "not-eq-c", Node: &protocol.FilterNode{Op: "not", Nodes: []*protocol.FilterNode{{Key: "t", Cmp: "eq", Val: "c"}}}, Admit: func(t string) bool { return t != "c" }},
	{Name: "eq-z-nothing", Node: &protocol.FilterNode{Key: "t", Cmp: "eq", Val: "z"}, Admit: func(string) bool { return false }},
}

// CloneFilter deep-copies a filter node (each subscribe gets its own).
func CloneFilter(f *protocol.FilterNode) *protocol.FilterNode {
	if f == nil {
		return nil
	}
	c := &protocol.FilterNode{Op: f.Op, Key: f.Key, Cmp: f.Cmp, Val: f.Val, Vals: append([]string(nil), f.Vals...)}
	for _, n := range f.Nodes {
		c.Nodes = append(c.Nodes, CloneFilter(n))
	}
	return c
}
