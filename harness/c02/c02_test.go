// C02: Stream recovery is exact or explicitly refused.
package c02

import (
	"context"
	"fmt"
	"sync"
	"testing"
	"time"

	"github.com/centrifugal/centrifuge"
	"github.com/centrifugal/centrifuge/verifx/kit"
	"github.com/centrifugal/centrifuge/verifx/recov"
	"github.com/centrifugal/protocol"
)

const channel = "c02:ch"

type request struct {
	Offset       uint64
	Epoch        string
	EpochKind    string
	Reject       bool
	ClientFilter string
	ServerFilter string
	Proto        string
	Kind         string // client | connect
}

type observed struct {
	Req       request
	ErrCode   uint32
	Recovered bool
	WasRec    bool
	Offset    uint64
	Epoch     string
	IDs       []string
	Offsets   []uint64
	Top       centrifuge.StreamPosition
}

// slowHistory delays every history read by a (virtual) round trip, as a remote broker
// would: concurrent recoveries then overlap inside Broker.History, which is what
// Config.UseSingleFlight coalesces.
type slowHistory struct {
	*centrifuge.MemoryBroker // embedded as the concrete type so that Close stays reachable for Node.Shutdown
	delay time.Duration
	mu    sync.Mutex
	calls int
}

func (b *slowHistory) History(ch string, opts centrifuge.HistoryOptions) ([]*centrifuge.Publication, centrifuge.StreamPosition, error) {
	b.mu.Lock()
	b.calls++
	b.mu.Unlock()
	if b.delay > 0 {
		time.Sleep(b.delay)
	}
	return b.MemoryBroker.History(ch, opts)
}

func runCase(c *kit.Case) {
	r := c.R
	w := kit.NewWorld(c)
	limit := kit.Pick(r, []int{0, 0, 1, 2, 5})
	cfg := centrifuge.Config{
		RecoveryMaxPublicationLimit: limit,
		ClientStaleCloseDelay:       time.Hour,
	}
	if r.Chance(1, 3) {
		cfg.HistoryMetaTTL = 20 * time.Second
	}
	storm := c.Index%3 == 2
	if storm {
		cfg.UseSingleFlight = r.Chance(3, 4)
	}
	var slow *slowHistory
	var mu sync.Mutex
	var curOpts centrifuge.SubscribeOptions
	node, _ := w.NewNode(cfg, func(n *centrifuge.Node) {
		n.OnConnecting(func(_ context.Context, e centrifuge.ConnectEvent) (centrifuge.ConnectReply, error) {
			rep := kit.Creds("u")
			if len(e.Channels) > 0 { // connect-time server-side subscription requested by the scenario
				mu.Lock()
				rep.Subscriptions = map[string]centrifuge.SubscribeOptions{channel: curOpts}
				mu.Unlock()
			}
			return rep, nil
		})
		n.OnConnect(func(cl *centrifuge.Client) {
			cl.OnSubscribe(func(e centrifuge.SubscribeEvent, cb centrifuge.SubscribeCallback) {
				mu.Lock()
				o := curOpts
				mu.Unlock()
				cb(centrifuge.SubscribeReply{Options: o}, nil)
			})
		})
		if storm {
			inner, err := centrifuge.NewMemoryBroker(n, centrifuge.MemoryBrokerConfig{})
			if err != nil {
				panic(err)
			}
			slow = &slowHistory{MemoryBroker: inner}
			n.SetBroker(slow)
		}
	})
	h := &recov.Hist{W: w, Node: node, Channel: channel}

	// build a history
	epochsSeen := []string{}
	nOps := r.Range(0, 40)
	for i := 0; i < nOps; i++ {
		switch x := r.Intn(100); {
		case x < 70:
			size := kit.Pick(r, []int{1, 2, 3, 5, 10, 50})
			ttl := kit.Pick(r, []time.Duration{60 * time.Second, 60 * time.Second, 5 * time.Second, 2 * time.Second})
			rec, err := h.Publish(kit.Pick(r, []string{"a", "a", "b", "c"}), size, ttl, 0)
			if err == nil && (len(epochsSeen) == 0 || epochsSeen[len(epochsSeen)-1] != rec.Epoch) {
				epochsSeen = append(epochsSeen, rec.Epoch)
			}
		case x < 88:
			h.Sleep(time.Duration(r.Range(300, 4000)) * time.Millisecond)
		case x < 94:
			h.Remove()
		default:
			if cfg.HistoryMetaTTL > 0 {
				h.Sleep(25 * time.Second) // crosses the meta TTL: the stream is forgotten, next publish starts a new epoch
			} else {
				h.Sleep(65 * time.Second) // crosses every history TTL used here
			}
		}
	}
	byPos := h.ByPos()

	topRes, err := node.History(channel, centrifuge.WithLimit(0))
	if err != nil {
		c.Inconclusive("Node.History failed: " + err.Error())
		w.Shutdown()
		return
	}
	top := topRes.StreamPosition
	// cross-check the ground truth with the publish log where that is unambiguous
	if n := len(h.Log); n > 0 {
		last := h.Log[n-1]
		if last.Epoch == top.Epoch && last.Offset != top.Offset {
			c.Violation("c02-stream-top-differs-from-last-publish", fmt.Sprintf("stream top %d but last publish in the same epoch got offset %d", top.Offset, last.Offset), h.Ops)
		}
	}

	// offsets to ask for
	offs := map[uint64]bool{0: true, top.Offset: true, top.Offset + 1: true, top.Offset + 7: true, 1 << 62: true}
	if top.Offset > 0 {
		offs[top.Offset-1] = true
		for i := 0; i < 8; i++ {
			offs[uint64(r.Intn(int(top.Offset)+1))] = true
		}
	}
	var offList []uint64
	for o := range offs {
		offList = append(offList, o)
	}
	// deterministic order
	for i := 0; i < len(offList); i++ {
		for j := i + 1; j < len(offList); j++ {
			if offList[j] < offList[i] {
				offList[i], offList[j] = offList[j], offList[i]
			}
		}
	}

	sigParts := fmt.Sprintf("lim%d top%d", limit, bucket(int(top.Offset)))
	var samples []observed
	for _, off := range offList {
		nReq := 2
		for k := 0; k < nReq; k++ {
			rq := request{Offset: off}
			switch r.Intn(5) {
			case 0:
				rq.EpochKind, rq.Epoch = "empty", ""
			case 1:
				rq.EpochKind = "stale"
				rq.Epoch = "nope"
				if len(epochsSeen) > 1 {
					rq.Epoch = epochsSeen[r.Intn(len(epochsSeen)-1)]
				}
				if rq.Epoch == top.Epoch {
					rq.EpochKind = "current"
				}
			default:
				rq.EpochKind, rq.Epoch = "current", top.Epoch
			}
			rq.Reject = r.Chance(1, 4)
			cf := kit.Pick(r, recov.Filters)
			sf := kit.Pick(r, recov.Filters)
			if r.Bool() {
				cf = recov.Filters[0]
			}
			if r.Chance(2, 3) {
				sf = recov.Filters[0]
			}
			rq.ClientFilter, rq.ServerFilter = cf.Name, sf.Name
			proto := kit.Pick(r, []centrifuge.ProtocolType{centrifuge.ProtocolTypeJSON, centrifuge.ProtocolTypeProtobuf})
			rq.Proto = string(proto)
			rq.Kind = "client"
			if cf.Node == nil && !rq.Reject && r.Chance(1, 5) {
				rq.Kind = "connect"
			}

			mu.Lock()
			curOpts = centrifuge.SubscribeOptions{EnableRecovery: true, AllowTagsFilter: true, ServerTagsFilter: recov.CloneFilter(sf.Node)}
			mu.Unlock()

			conn := w.NewConn(node, kit.TransportOpts{Protocol: proto})
			var res *protocol.SubscribeResult
			var errCode uint32
			if rq.Kind == "connect" {
				id := conn.Connect(&protocol.ConnectRequest{Subs: map[string]*protocol.SubscribeRequest{channel: {Recover: true, Offset: rq.Offset, Epoch: rq.Epoch}}})
				if f, ok := conn.WaitReply(id); ok && f.Reply.Connect != nil {
					res = f.Reply.Connect.Subs[channel]
				} else if ok && f.Reply.Error != nil {
					errCode = f.Reply.Error.Code
				}
			} else {
				conn.Connect(nil)
				req := &protocol.SubscribeRequest{Channel: channel, Recover: true, Offset: rq.Offset, Epoch: rq.Epoch, Tf: recov.CloneFilter(cf.Node)}
				if rq.Reject {
					req.Flag = 2 // reject-unrecovered
				}
				id := conn.Subscribe(req)
				if f, ok := conn.WaitReply(id); ok {
					if f.Reply.Error != nil {
						errCode = f.Reply.Error.Code
					} else {
						res = f.Reply.Subscribe
					}
				}
			}
			c.Eval(1)
			ob := observed{Req: rq, ErrCode: errCode, Top: top}
			if res != nil {
				ob.Recovered, ob.WasRec, ob.Offset, ob.Epoch = res.Recovered, res.WasRecovering, res.Offset, res.Epoch
				for _, p := range res.Publications {
					ob.IDs = append(ob.IDs, recov.PayloadID(p.Data))
					ob.Offsets = append(ob.Offsets, p.Offset)
				}
			}
			check(c, h, byPos, ob, cf, sf, limit)
			if len(samples) < 3 && (ob.Recovered && len(ob.IDs) > 0 || len(samples) == 0) {
				samples = append(samples, ob)
			}
			sigParts += fmt.Sprintf("|%s:%v:%v:%d", rq.EpochKind, ob.Recovered, len(ob.IDs) > 0, errCode)
			_ = conn.CloseFn()
			if c.Violated() {
				break
			}
		}
		if c.Violated() {
			break
		}
	}
	if storm && !c.Violated() {
		sigParts += stormPhase(c, w, node, h, byPos, top, slow, limit, offList, epochsSeen, &mu, &curOpts, cfg.UseSingleFlight)
	}
	c.Nontrivial(sigParts)
	if c.Index < 32 {
		c.Sample(map[string]any{"ops": h.Ops, "limit": limit, "requests": samples})
	}
	w.Shutdown()
}

// stormPhase issues groups of 2..4 recoveries of the same channel from the same offset at
// the same instant (a reconnect storm) while history reads take a round trip, with
// different epochs / filters / flags per connection, and judges every result with the
// same oracle as the sequential grid. With Config.UseSingleFlight the history reads of a
// group are coalesced; the answer to each caller must still be exact for *its* request.
func stormPhase(c *kit.Case, w *kit.World, node *centrifuge.Node, h *recov.Hist, byPos map[string]map[uint64]recov.Rec, top centrifuge.StreamPosition,
	slow *slowHistory, limit int, offList []uint64, epochsSeen []string, mu *sync.Mutex, curOpts *centrifuge.SubscribeOptions, singleFlight bool) string {
	r := c.R
	slow.delay = time.Duration(r.Range(2, 30)) * time.Millisecond
	sig := fmt.Sprintf("|storm sf=%v", singleFlight)
	groups := r.Range(3, 6)
	for g := 0; g < groups && !c.Violated(); g++ {
		off := kit.Pick(r, offList)
		if top.Offset > 0 && r.Chance(2, 3) {
			off = uint64(r.Intn(int(top.Offset) + 1)) // plausible for the current stream
		}
		sf := recov.Filters[0]
		if r.Chance(1, 4) {
			sf = kit.Pick(r, recov.Filters)
		}
		mu.Lock()
		*curOpts = centrifuge.SubscribeOptions{EnableRecovery: true, AllowTagsFilter: true, ServerTagsFilter: recov.CloneFilter(sf.Node)}
		mu.Unlock()
		n := r.Range(2, 4)
		type member struct {
			rq   request
			cf   recov.TagFilter
			conn *kit.Conn
			ob   observed
		}
		members := make([]*member, n)
		foreign := "nope"
		if len(epochsSeen) > 1 {
			foreign = epochsSeen[r.Intn(len(epochsSeen)-1)]
		}
		for i := range members {
			m := &member{rq: request{Offset: off, Kind: "client"}, cf: recov.Filters[0]}
			switch {
			case i == 0 || r.Chance(1, 3):
				m.rq.EpochKind, m.rq.Epoch = "current", top.Epoch
			case r.Chance(1, 5):
				m.rq.EpochKind, m.rq.Epoch = "empty", ""
			default:
				m.rq.EpochKind, m.rq.Epoch = "stale", foreign
				if foreign == top.Epoch {
					m.rq.EpochKind = "current"
				}
			}
			m.rq.Reject = r.Chance(1, 5)
			if r.Chance(1, 3) {
				m.cf = kit.Pick(r, recov.Filters)
			}
			m.rq.ClientFilter, m.rq.ServerFilter = m.cf.Name, sf.Name
			proto := kit.Pick(r, []centrifuge.ProtocolType{centrifuge.ProtocolTypeJSON, centrifuge.ProtocolTypeProtobuf})
			m.rq.Proto = string(proto)
			m.conn = w.NewConn(node, kit.TransportOpts{Protocol: proto})
			m.conn.Connect(nil)
			members[i] = m
		}
		w.Settle()
		// the leader of a coalesced read is whoever gets there first: vary it
		order := r.Perm(n)
		slow.mu.Lock()
		before := slow.calls
		slow.mu.Unlock()
		var wg sync.WaitGroup
		for _, idx := range order {
			m := members[idx]
			wg.Add(1)
			go func() {
				defer wg.Done()
				req := &protocol.SubscribeRequest{Channel: channel, Recover: true, Offset: m.rq.Offset, Epoch: m.rq.Epoch, Tf: recov.CloneFilter(m.cf.Node)}
				if m.rq.Reject {
					req.Flag = 2
				}
				id := m.conn.Subscribe(req)
				m.ob = observed{Req: m.rq, Top: top}
				if f, ok := m.conn.PollReply(id, 5*time.Second); ok {
					if f.Reply.Error != nil {
						m.ob.ErrCode = f.Reply.Error.Code
					} else if res := f.Reply.Subscribe; res != nil {
						m.ob.Recovered, m.ob.WasRec, m.ob.Offset, m.ob.Epoch = res.Recovered, res.WasRecovering, res.Offset, res.Epoch
						for _, p := range res.Publications {
							m.ob.IDs = append(m.ob.IDs, recov.PayloadID(p.Data))
							m.ob.Offsets = append(m.ob.Offsets, p.Offset)
						}
					}
				}
			}()
		}
		wg.Wait()
		slow.mu.Lock()
		reads := slow.calls - before
		slow.mu.Unlock()
		c.Count("storm_recoveries", n)
		if reads < n {
			c.Count("storm_history_reads_coalesced", n-reads)
		}
		epochKinds := map[string]bool{}
		for _, m := range members {
			epochKinds[m.rq.EpochKind] = true
		}
		if len(epochKinds) > 1 {
			c.Count("storm_groups_with_mixed_epochs", 1)
		}
		for _, m := range members {
			c.Eval(1)
			check(c, h, byPos, m.ob, m.cf, sf, limit)
			sig += fmt.Sprintf("|%s:%v:%v:%d", m.rq.EpochKind, m.ob.Recovered, len(m.ob.IDs) > 0, m.ob.ErrCode)
			_ = m.conn.CloseFn()
			if c.Violated() {
				break
			}
		}
	}
	slow.delay = 0
	return sig
}

func bucket(n int) int {
	switch {
	case n == 0:
		return 0
	case n < 3:
		return 1
	case n < 10:
		return 2
	}
	return 3
}

func check(c *kit.Case, h *recov.Hist, byPos map[string]map[uint64]recov.Rec, ob observed, cf, sf recov.TagFilter, limit int) {
	detail := func() any { return map[string]any{"ops": h.Ops, "observed": ob, "recovery_limit": limit} }
	rq := ob.Req
	if ob.ErrCode != 0 {
		if ob.ErrCode == 112 && rq.Reject {
			c.Count("rejected_unrecoverable", 1)
			return
		}
		c.Violation("c02-unexpected-subscribe-error", fmt.Sprintf("subscribe with recover failed with error %d (reject flag %v)", ob.ErrCode, rq.Reject), detail())
		return
	}
	if ob.Epoch == "" && ob.Offset == 0 && !ob.WasRec && !ob.Recovered && len(ob.IDs) == 0 && ob.Top.Epoch != "" {
		// no result captured at all
		c.Violation("c02-no-subscribe-result", "no subscribe result was written", detail())
		return
	}
	if !ob.Recovered {
		if len(ob.IDs) > 0 {
			c.Violation("c02-publications-with-recovered-false", fmt.Sprintf("recovered=false but %d publications returned", len(ob.IDs)), detail())
			return
		}
		c.Count("recovered_false", 1)
		return
	}
	// recovered == true
	if rq.Epoch != "" && rq.Epoch != ob.Top.Epoch {
		c.Violation("c02-recovered-across-epochs", fmt.Sprintf("recovered=true although the requested epoch %q differs from the stream epoch %q", rq.Epoch, ob.Top.Epoch), detail())
		return
	}
	if rq.Epoch == "" {
		c.Count("recovered_with_empty_epoch", 1)
	}
	log := byPos[ob.Top.Epoch]
	var wantIDs []string
	total := 0
	for o := rq.Offset + 1; o <= ob.Top.Offset && o > rq.Offset; o++ {
		rec, ok := log[o]
		if !ok {
			c.Violation("c02-recovered-with-unknown-offset", fmt.Sprintf("recovered=true from %d to top %d but offset %d was never published in epoch %q", rq.Offset, ob.Top.Offset, o, ob.Top.Epoch), detail())
			return
		}
		total++
		if cf.Admit(rec.Tag) && sf.Admit(rec.Tag) {
			wantIDs = append(wantIDs, rec.ID)
		}
	}
	if fmt.Sprint(wantIDs) != fmt.Sprint(ob.IDs) {
		cls := "c02-recovered-publications-differ"
		if len(ob.IDs) < len(wantIDs) {
			cls = "c02-recovered-true-but-publications-missing"
		}
		c.Violation(cls, fmt.Sprintf("recovered=true from offset %d (top %d): got %v, the channel published %v after that offset (filters client=%s server=%s)", rq.Offset, ob.Top.Offset, ob.IDs, wantIDs, cf.Name, sf.Name), detail())
		return
	}
	if limit > 0 && total > limit {
		c.Violation("c02-recovered-beyond-publication-limit", fmt.Sprintf("recovered=true with %d publications after the offset but RecoveryMaxPublicationLimit=%d", total, limit), detail())
		return
	}
	for i := 1; i < len(ob.Offsets); i++ {
		if ob.Offsets[i] <= ob.Offsets[i-1] {
			c.Violation("c02-recovered-publications-unordered", fmt.Sprintf("offsets %v", ob.Offsets), detail())
			return
		}
	}
	if len(ob.IDs) > 0 {
		c.Count("recovered_true_nonempty", 1)
		if len(wantIDs) < total {
			c.Count("recovered_true_with_filtered", 1)
		}
	} else {
		c.Count("recovered_true_empty", 1)
	}
}

func TestC02(t *testing.T) {
	kit.Main(t, kit.Spec{
		ID:     "C02",
		Bubble: true,
		Rule: "each case = one bubble: a random channel history (publishes with size 1..50 / TTL 2..60s / tags, sleeps across TTLs, RemoveHistory, meta-TTL expiry -> new epoch) on a virtual clock, then ~25 subscribes with recover over a grid of offsets (0, random, top-1, top, top+1, top+7, 2^62) x epoch (current, empty, stale) x reject-unrecovered flag x client/server tags filters x JSON/Protobuf x client-side / connect-time server-side, with RecoveryMaxPublicationLimit in {0,1,2,5}. Every third case adds a reconnect storm: history reads take a 2..30 ms (virtual) round trip, Config.UseSingleFlight is on in 3 of 4 of them, and 3..6 groups of 2..4 connections recover the same channel from the same offset at the same instant with different epochs (current / stale / empty), filters and flags, in a seeded start order; coalesced reads are counted. " +
			"Oracle from the publish log (unique ids): recovered=true => same/empty epoch and publications == exactly the published ones in (offset, top] minus filtered, not beyond the limit; recovered=false => no publications. Non-trivial = every case; signature = limit x top bucket x per-request (epoch kind, recovered, has publications, error).",
		Assumptions: []string{
			"an empty requested epoch is treated as compatible with any epoch (deliberate behaviour of the library; counted as recovered_with_empty_epoch)",
			"current top/epoch is read with Node.History(limit 0) immediately before the subscribes (no concurrent publishing in this check) and cross-checked with the last publish result",
			"refusing a recoverable position is allowed by the statement; the run requires that recovered=true with publications was observed",
		},
		Cases:           map[string]int{"quick": 1200, "thorough": 24000},
		RequireCounters: []string{"recovered_true_nonempty", "recovered_true_with_filtered", "recovered_false", "rejected_unrecoverable", "recovered_true_empty", "storm_recoveries", "storm_history_reads_coalesced", "storm_groups_with_mixed_epochs"},
		Run:             runCase,
	})
}
